#!/bin/bash
# Offline setup after a fresh restore: build the Lean library (all theorems) and the native driver,
# then pre-build the harnesses against /repo's working tree (the checks rebuild them when /repo changes).
set -e
cd "$(dirname "$0")"
python3 -m vlib.regen
(cd lean && lake build 2>&1 | tail -5)
python3 -m vlib.prebuild
