#!/bin/bash
# usage: save_round.sh <dir with one worktree per property id> <letter> <id> [...]  — copies patch, demo and notes of a
# helper's worktree to seeded/<id>-<letter>/
D=$1; L=$2; shift 2
cd "$(dirname "$0")/.."
for id in "$@"; do
  d=seeded/$id-$L; mkdir -p $d
  git -C $D/$id diff -- include src > $d/patch.diff
  cp $D/$id/demo.cpp $d/ 2>/dev/null; cp $D/$id/notes.md $d/ 2>/dev/null
  echo "$id-$L: $(grep -c '^diff' $d/patch.diff) files, demo $(test -f $d/demo.cpp && echo yes || echo NO)"
done
