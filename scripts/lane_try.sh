#!/bin/bash
# usage: lane_try.sh <lane dir> <mutant dir> <property id> [more ids]
# try_mutant.sh for parallel lanes: <lane>/repo is a scratch worktree of /repo, <lane>/verif a copy of /verif
# (scripts/make_lanes.sh); the checks of the lane run against the lane's worktree (NITRO_REPO), never against /repo.
# Used only to try seeded changes; registered checks and committed evidence always come from /verif against /repo.
L=$1; M=$2; shift 2
WT=$L/repo
set -u
git -C $WT checkout -q -- . && git -C $WT apply $M/patch.diff || { echo "PATCH DOES NOT APPLY"; exit 2; }
(cmake -G Ninja -S $WT -B $WT/_build -DCMAKE_BUILD_TYPE=Release >/dev/null 2>&1 && cmake --build $WT/_build >/dev/null 2>&1) || echo "BUILD FAILED"
CT=$(cd $WT/_build && ctest -j4 2>&1 | grep -E "tests passed|FAILED|\- Nitro" | tr '\n' ' ')
echo "ctest with mutant: $CT"
SRCS=""
grep -q "nitro/options" $M/demo.cpp && SRCS="$WT/src/options/*.cpp $WT/src/env/get.cpp"
grep -q "nitro/env" $M/demo.cpp && SRCS="$SRCS $WT/src/env/get.cpp"
g++ -std=c++17 -O1 -g -I$WT/include $M/demo.cpp $(echo $SRCS | tr ' ' '\n' | sort -u) -o $L/demo_m -pthread -ldl 2>/dev/null; timeout 60 $L/demo_m >/dev/null 2>&1; echo "demo with mutant: exit $?"
git -C $WT checkout -q -- .
g++ -std=c++17 -O1 -g -I$WT/include $M/demo.cpp $(echo $SRCS | tr ' ' '\n' | sort -u) -o $L/demo_c -pthread -ldl 2>/dev/null; timeout 60 $L/demo_c >/dev/null 2>&1; echo "demo without mutant: exit $?"
rm -rf $WT/_build $L/demo_m $L/demo_c
git -C $WT apply $M/patch.diff || { echo "DOES NOT APPLY"; exit 2; }
for id in "$@"; do
  ( cd $L/verif && NITRO_REPO=$WT ./check $id --tier quick 2>&1 | grep -E "^VIOLATION|^KNOWN|^C[0-9]+ quick" | sed "s/^/  [$id] /" )
done
git -C $WT checkout -q -- .
