#!/usr/bin/env python3
"""Writes seeded/<id>/meta.json (where missing) and seeded/REGRESSION.txt from a regression log of try_mutant.sh runs."""
import json, os, re, sys
root = os.path.dirname(os.path.dirname(os.path.abspath(__file__)))
log = open(sys.argv[1]).read()
blocks = {}
for part in re.split(r"^== ", log, flags=re.M)[1:]:
    head, _, body = part.partition("\n")
    blocks[head.strip()] = body
EXTRA = {"C03-b": "C14 quick: VIOLATION with failing input (history of two parses; C03's own family is single-parse by design)"}
lines = []
for mid in sorted(blocks):
    body = blocks[mid]
    prop = mid.split("-")[0]
    confirmed = ("demo with mutant: exit 1" in body or re.search(r"demo with mutant: exit [1-9]", body)) and "demo without mutant: exit 0" in body
    ctest_ok = "1 - Nitro.dl_test (Failed)" in body and "tests failed out of 15" in body and body.count("(Failed)") == 1
    viol = re.findall(r"\[(C\d\d)\] VIOLATION property=(C\d\d) replay=\S+( no-failing-input-found)?", body)
    summ = re.findall(r"\[(C\d\d)\] (C\d\d quick seed=1: .*)", body)
    det = []
    for chk, _, nf in viol:
        det.append("%s quick: VIOLATION %s" % (chk, "(no-failing-input-found)" if nf else "with failing input"))
    if mid in EXTRA:
        det.append(EXTRA[mid])
    if not det:
        det.append("%s quick: not reported" % prop)
    lines.append("%-6s confirmed=%s ctest-as-clean=%s  %s  | %s" % (mid, bool(confirmed), ctest_ok, "; ".join(det), "; ".join(s[1] for s in summ)))
    d = os.path.join(root, "seeded", mid)
    mp = os.path.join(d, "meta.json")
    notes = open(os.path.join(d, "notes.md"), encoding="utf-8", errors="replace").read().split("\n")
    title = notes[0].lstrip("# ").strip()
    meta = json.load(open(mp)) if os.path.exists(mp) else {}
    meta.setdefault("breaks_property", prop)
    meta.setdefault("needs_to_manifest", title + " (details: notes.md)")
    meta.setdefault("confirmed", "scripts/try_mutant.sh: patch applies to a clean worktree, builds, ctest unchanged (14/15, only "
                    "Nitro.dl_test fails as on the clean tree), demo.cpp exits non-zero with the patch and 0 without")
    meta["detection_final_machinery"] = "; ".join(det)
    meta.setdefault("how_to_rerun", "git -C /repo apply /verif/seeded/%s/patch.diff && ./check %s; git -C /repo checkout -- ." % (mid, prop))
    json.dump(meta, open(mp, "w"), indent=1)
    open(mp, "a").write("\n")
open(os.path.join(root, "seeded", "REGRESSION.txt"), "w").write(
    "All saved changes against the final machinery (scripts/try_mutant.sh per change, quick tier of the change's own property):\n"
    + "\n".join(lines) + "\n")
print("\n".join(lines))
