#!/usr/bin/env python3
"""Writes MANIFEST.json from the registry (vlib/registry.py) so that it is always consistent."""
import json, os, sys
HERE = os.path.dirname(os.path.dirname(os.path.abspath(__file__)))
sys.path.insert(0, HERE)
from vlib.registry import PROPS

ALL = ["C%02d" % i for i in range(1, 21)]
NOT_YET = {}
checks = []
for pid in ALL:
    if pid not in PROPS:
        continue
    p = PROPS[pid]
    checks.append({
        "property_id": pid,
        "quick_cmd": "./check %s --tier quick" % pid,
        "thorough_cmd": "./check %s --tier thorough" % pid,
        "evidence_file": "/verif/evidence/%s.json" % pid,
        "replay_cmd_template": "./check %s --replay {path}" % pid,
        "engine": p.engine,
        "level_claimed": {"category": "proof", "text": p.level_text, "design_ref": p.design_ref},
        "level_note": p.level_note,
        "technique": p.technique,
    })
engines = {}
for p in PROPS.values():
    engines.setdefault(p.engine, []).append(p.pid)
m = {
    "version": 1,
    "setup_cmd": "./setup.sh",
    "hooks": {
        "guard": "NITRO_VERIF",
        "enable": "harnesses are compiled with -DNITRO_VERIF; no hook exists in /repo (all observation goes through the public API)",
        "baseline_off_cmd": "./scripts/baseline_off.sh",
        "source_commits": [],
        "add_only": True,
    },
    "engines": [{"name": e, "path": "lean/NitroVerif + harness/", "serves_properties": sorted(ps),
                 "kind_free_text": "Lean 4 model + theorems, C++ differential harness"} for e, ps in sorted(engines.items())],
    "checks": checks,
    "notes": "All checks: ./check <id> [--tier quick|thorough] [--replay path]; see DESIGN.md.",
    "not_applicable": [{"property_id": pid, "reason": "not claimed yet: the Lean model, theorems and correspondence "
                        "harness for this property have not been built in this round (technique applies; see DESIGN.md)"}
                       for pid in ALL if pid not in PROPS],
}
json.dump(m, open(os.path.join(HERE, "MANIFEST.json"), "w"), indent=1)
print("MANIFEST.json: %d checks, %d not claimed" % (len(checks), len(m["not_applicable"])))
