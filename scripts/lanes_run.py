#!/usr/bin/env python3
"""usage: lanes_run.py <lanes dir> <n lanes> <out log> <id:prop> [...]
Tries seeded changes in parallel lanes (scripts/make_lanes.sh, scripts/lane_try.sh): a queue of jobs, one worker per
lane; the log has one '== <id>' block per change, in the format scripts/write_meta.py reads."""
import subprocess, sys, threading, queue, os
lanes, n, out = sys.argv[1], int(sys.argv[2]), sys.argv[3]
jobs = queue.Queue()
# slow checks first
cost = {"C05": 9, "C10": 9, "C09": 4, "C08": 3}
for j in sorted(sys.argv[4:], key=lambda j: -cost.get(j.split(":")[1], 1)):
    jobs.put(j)
lock = threading.Lock()
here = os.path.dirname(os.path.abspath(__file__))
def worker(k):
    lane = os.path.join(lanes, "L%d" % k)
    while True:
        try:
            j = jobs.get_nowait()
        except queue.Empty:
            return
        mid, prop = j.split(":")
        p = subprocess.run([os.path.join(here, "lane_try.sh"), lane, os.path.join(os.path.dirname(here), "seeded", mid), prop],
                           capture_output=True, text=True)
        body = "\n".join(l[:260] for l in (p.stdout + p.stderr).split("\n") if "KNOWN-FINDING" not in l)
        with lock:
            with open(out, "a") as f:
                f.write("== %s\n%s\n" % (mid, body))
ts = [threading.Thread(target=worker, args=(k,)) for k in range(1, n + 1)]
for t in ts: t.start()
for t in ts: t.join()
print("done")
