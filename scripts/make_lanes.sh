#!/bin/bash
# usage: make_lanes.sh <dir> <n>   — creates/refreshes <dir>/L1..Ln: a scratch worktree of /repo (HEAD) and a copy of /verif each
D=$1; N=$2
for k in $(seq 1 $N); do
  L=$D/L$k; mkdir -p $L
  [ -d $L/repo ] || git -C /repo worktree add -q --detach $L/repo HEAD
  git -C $L/repo checkout -q -- .
  rsync -a --delete --exclude .git --exclude .build --exclude replays --exclude evidence /verif/ $L/verif/
  mkdir -p $L/verif/evidence $L/verif/replays
done
