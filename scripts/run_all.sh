#!/bin/bash
# runs every registered check once (tier from $1, default quick); prints one summary line per check
cd "$(dirname "$0")/.."
tier=${1:-quick}
rc=0
for id in $(python3 -c "
import sys; sys.path.insert(0,'.')
from vlib.registry import PROPS; print(' '.join(sorted(PROPS)))"); do
  out=$(./check $id --tier $tier 2>&1); r=$?
  echo "$out" | grep -E "^C[0-9]+ (quick|thorough)|^VIOLATION|^KNOWN" | cut -c1-220
  [ $r -ne 0 ] && rc=1
done
exit $rc
