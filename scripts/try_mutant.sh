#!/bin/bash
# usage: try_mutant.sh <mutant dir with patch.diff, demo.cpp> <scratch worktree> <property id> [more ids]
# 1. confirms the mutant in the scratch worktree (builds, existing tests as before, demo fails with / passes without)
# 2. applies it to /repo, runs the quick checks, undoes it
M=$1; WT=$2; shift 2
set -u
git -C $WT checkout -q -- . && git -C $WT apply $M/patch.diff || { echo "PATCH DOES NOT APPLY"; exit 2; }
(cmake -G Ninja -S $WT -B $WT/_build -DCMAKE_BUILD_TYPE=Release >/dev/null 2>&1 && cmake --build $WT/_build >/dev/null 2>&1) || echo "BUILD FAILED"
CT=$(cd $WT/_build && ctest -j8 2>&1 | grep -E "tests passed|FAILED|\- Nitro" | tr '\n' ' ')
echo "ctest with mutant: $CT"
SRCS=""
grep -q "nitro/options" $M/demo.cpp && SRCS="$WT/src/options/*.cpp $WT/src/env/get.cpp"
grep -q "nitro/env" $M/demo.cpp && SRCS="$SRCS $WT/src/env/get.cpp"
g++ -std=c++17 -O1 -g -I$WT/include $M/demo.cpp $(echo $SRCS | tr ' ' '\n' | sort -u) -o /tmp/demo_m -pthread -ldl 2>/dev/null; timeout 20 /tmp/demo_m >/dev/null 2>&1; echo "demo with mutant: exit $?"
git -C $WT checkout -q -- .
g++ -std=c++17 -O1 -g -I$WT/include $M/demo.cpp $(echo $SRCS | tr ' ' '\n' | sort -u) -o /tmp/demo_c -pthread -ldl 2>/dev/null; timeout 20 /tmp/demo_c >/dev/null 2>&1; echo "demo without mutant: exit $?"
rm -rf $WT/_build /tmp/demo_m /tmp/demo_c
git -C /repo apply $M/patch.diff || { echo "DOES NOT APPLY TO /repo"; exit 2; }
rm -rf /verif/.build/evidence.keep && cp -r /verif/evidence /verif/.build/evidence.keep
for id in "$@"; do
  ( cd /verif && ./check $id --tier quick 2>&1 | grep -E "^VIOLATION|^KNOWN|^C[0-9]+ quick" | sed "s/^/  [$id] /" )
done
git -C /repo checkout -q -- .
rm -rf /verif/evidence && mv /verif/.build/evidence.keep /verif/evidence
( cd /verif && python3 -m vlib.regen > /dev/null )
