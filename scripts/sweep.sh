#!/bin/bash
# usage: sweep.sh <tier> <seed> [<seed> ...]   — every check at the given tier and seeds; prints summary / VIOLATION lines.
# Meant for `vp run -- scripts/sweep.sh ...` (a snapshot of /verif: its evidence files are not the committed ones).
cd "$(dirname "$0")/.."
tier=$1; shift
[ -d .build/bin ] || bash setup.sh > /dev/null 2>&1
bad=0
for seed in "$@"; do
  for i in 01 02 03 04 05 06 07 08 09 10 11 12 13 14 15 16 17 18 19 20; do
    start=$(date +%s)
    out=$(VERIF_SEED=$seed ./check C$i --tier $tier 2>&1); rc=$?
    echo "$out" | grep -E "^VIOLATION|^C[0-9]+ (quick|thorough) seed" | cut -c1-220
    echo "   rc=$rc wall=$(( $(date +%s) - start ))s"
    [ $rc -ne 0 ] && bad=1
  done
done
echo "SWEEP DONE bad=$bad"
exit $bad
