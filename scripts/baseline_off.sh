#!/bin/bash
# Builds /repo (working tree) with the verification guard OFF in a scratch build directory and runs
# the repository's own test suite.  Exit 0 iff every ctest executable passes except Nitro.dl_test,
# whose two "self binary symbols" cases fail on the pinned tree as well (BASELINE.json: always_fail).
set -u
REPO=${NITRO_REPO:-/repo}
HERE=$(cd "$(dirname "$0")/.." && pwd)
B=$HERE/.build/baseline
rm -rf "$B"; mkdir -p "$B"
cmake -G Ninja -S "$REPO" -B "$B" -DCMAKE_BUILD_TYPE=Release > "$B/cmake.log" 2>&1 || { cat "$B/cmake.log"; exit 2; }
cmake --build "$B" > "$B/build.log" 2>&1 || { tail -50 "$B/build.log"; exit 2; }
(cd "$B" && ctest -j8 --timeout 900 --output-junit "$B/junit.xml" > "$B/ctest.log" 2>&1)
tail -25 "$B/ctest.log"
failed=$(grep -E "^\s+[0-9]+ - " "$B/ctest.log" | grep -v "Nitro.dl_test" | wc -l)
# per-case detail for dl_test: only the two known cases may fail
dl=$("$B/tests/Nitro.dl_test" 2>&1 | grep -c "^  nitro_binary_cos is" || true)
echo "failed executables other than Nitro.dl_test: $failed"
[ -n "${KEEP_BASELINE:-}" ] || rm -rf "$B"
[ "$failed" -eq 0 ]
