"""C15 — usage text."""
import re
from .check import Prop
from .core import hexs, hexl, unhexs

HARNESS = dict(name="usage", source="usage.cpp",
               repo_srcs=["src/options/parser.cpp", "src/options/option.cpp", "src/options/multi_option.cpp",
                          "src/options/toggle.cpp", "src/options/group.cpp", "src/env/get.cpp"])


def entry(kind, name, short="", env="", mv="ARG", desc="", dflt=None, rev=False):
    if dflt is None:
        d = "~"
    elif kind == "m":
        d = "." if not dflt else "+".join(hexs(x) for x in dflt)
    elif kind == "t":
        d = str(dflt)
    else:
        d = hexs(dflt)
    return ",".join([kind, hexs(name), hexs(short), hexs(env), hexs(mv), hexs(desc), d, "1" if rev else "0"])


def ucase(app, about, posflag, posname, groups, again=False, parsed=False, early=False):
    return "\t".join(["usage", hexs(app), hexs(about),
                      "%d,%s%s" % (1 if posflag else 0, hexs(posname),
                                   (",%d,%d,%d" % (again, parsed, early)) if (again or parsed or early) else ""),
                      ";".join("%s:%s:%s" % (hexs(n), hexs(d), "|".join(es)) for n, d, es in groups)])


WORDS = ["the", "number", "of", "threads", "used", "for", "a", "compression-level", "x" * 38, "q" * 39, "y" * 41, "r" * 40, "z" * 79, "w" * 120,
         "ok.", "(sic)", "a\tb", "--flag", "1,2"]


def text(rng, n):
    ws = [rng.choice(WORDS) for _ in range(n)]
    s = " ".join(ws)
    if rng.chance(1, 8):
        s = s.replace(" ", "  ", 1)
    return s


def rand_entry(rng, names, letters):
    kind = rng.choice("oomtt")
    name = names.pop()
    short = letters.pop() if letters and rng.chance(2, 3) else ""
    env = rng.choice(["", "", "NV_%s" % name.upper()[:6]])
    mv = rng.choice(["ARG", "FILE", "N", "M" * 10])
    desc = text(rng, rng.choice([0, 1, 3, 8, 20, 40]))
    if kind == "o":
        return entry("o", name, short, env, mv, desc, rng.choice([None, "d", "a longer default value", ""]))
    if kind == "m":
        return entry("m", name, short, env, mv, desc, rng.choice([None, [], ["a"], ["a", "b", "c"]]))
    return entry("t", name, short, env, "ARG", desc, rng.choice([None, 0, 1]), rng.chance(1, 2))


def gen_c15(tier, rng):
    big = tier == "thorough"
    out = []
    # fixed small ones first
    out.append(ucase("main", "", False, "args", [("arguments", "", [])]))
    out.append(ucase("main", "about text", True, "args", [("arguments", "", [entry("t", "verbose", "v", desc="be loud")])]))
    out.append(ucase("prog", "", False, "args",
                     [("arguments", "", [entry("o", "out", "o", "NV_OUT", "FILE", "where to write", "a.out"),
                                         entry("t", "quiet", "q", rev=True, dflt=1), entry("t", "long-only")]),
                      ("empty", "never shown", []),
                      ("more", "second group", [entry("m", "inc", "I", mv="DIR", desc="include dirs", dflt=["a", "b"])])]))
    for _ in range(8000 if big else 1200):
        names = rng.shuffle(["alpha", "beta", "gamma", "delta", "eps", "zeta", "eta", "theta", "no-x", "x", "o" * 20, "p" * 30,
                              # names that differ from another one only in the case of their letters
                              "Alpha", "BETA", "X"])
        letters = rng.shuffle(list("abcdefgxyzAB1"))
        ngroups = 1 + rng.below(4)
        gnames = rng.shuffle(["output", "input", "misc", "zeta group", "alpha group", "Group 1"])
        groups = []
        for g in range(ngroups):
            es = [rand_entry(rng, names, letters) for _ in range(rng.below(4))] if names else []
            gname = "arguments" if g == 0 else gnames[g]
            gdesc = "" if g == 0 else rng.choice(["", "about this group", text(rng, 6)])
            groups.append((gname, gdesc, es))
        app = rng.choice(["main", "p", "application-name", "a" * 30])
        about = rng.choice(["", "short about", text(rng, 5)])
        out.append(ucase(app, about, rng.chance(1, 3), rng.choice(["args", "FILES"]), groups, again=rng.chance(1, 3), parsed=rng.chance(1, 3), early=rng.chance(1, 3)))
    # the zones of the known findings (left column wider than 80, long application name, long about line)
    out.append(ucase("main", "", False, "args", [("arguments", "", [entry("o", "n" * 50, mv="M" * 40, desc="d")])]))
    out.append(ucase("a" * 75, "", True, "args", [("arguments", "", [entry("t", "v", "v"), entry("o", "out", "o")])]))
    out.append(ucase("main", "five words that are each about twenty characters long ........ ........ ........ ........ end",
                     False, "args", [("arguments", "", [entry("t", "v", "v")])]))
    return out


def model_input(c, a):
    """the order of the long toggles in the synopsis (a std::set<toggle*>: pointer order) is read off the
    implementation's text and handed to the model"""
    if not a.startswith("ok "):
        return c + "\t."
    try:
        t = unhexs(a[3:]).decode("latin-1")
    except ValueError:
        return c + "\t."
    syn = t.split("\n\n")[0]
    names = re.findall(r"\[--(?:\[no-\])?([^\]\s<]+)\]", syn)
    return c + "\t" + hexl(names)


def _left_columns(case):
    """the left column ('  -s, --[no-]name METAVAR') of every entry of the case"""
    out = []
    for g in case.split("\t")[4].split(";"):
        es = g.split(":")[2]
        for e in (es.split("|") if es else []):
            kind, name, short, _env, mv, _desc, _dflt, rev = e.split(",")
            name, short, mv = (unhexs(x).decode("latin-1") for x in (name, short, mv))
            left = "  " + ("-%s, " % short if short else "") + ("--[no-]" if kind == "t" and rev == "1" else "--") + name
            if kind != "t":
                left += " " + mv
            out.append(left)
    return out


def known_u2(case, impl, verdict):
    # exactly the left column of an entry, alone on its line, and wider than 80 on its own
    if not verdict.startswith("bad:line-longer-than-80"):
        return False
    line = _line(verdict)
    return len(line) > 80 and line in _left_columns(case)


def known_u3(case, impl, verdict):
    f = case.split("\t")
    return verdict.startswith("bad:line-longer-than-80") and len(unhexs(f[1])) + 8 >= 80 and not _line(verdict).startswith("  -")


def known_u4(case, impl, verdict):
    f = case.split("\t")
    line = _line(verdict)
    about = unhexs(f[2]).decode("latin-1")
    descs = [unhexs(g.split(":")[1]).decode("latin-1") for g in f[4].split(";")]
    return verdict.startswith("bad:line-longer-than-80") and (line in about.split("\n") or any(line in d.split("\n") for d in descs))


def _line(verdict):
    try:
        return unhexs(verdict.split(":", 2)[2].split("\t")[0]).decode("latin-1")
    except (ValueError, IndexError):
        return ""


C15 = Prop(
    "C15", "usage", ["NitroVerif.Props.C15"], gen_c15,
    rule="seeded random declarations: 1-4 groups (default group first, named groups in creation order, empty groups), 0-3 "
         "entries per group of all three kinds with/without letter, env hint, default, reversible toggles, metavars, "
         "descriptions of 0-40 words incl. words of 38/41/79/120 characters, double blanks and tabs, application names of "
         "1-30 characters, about texts; every text is produced on four streams (fresh string stream, one whose fill character / adjustment / number base were left behind by earlier output, string stream with "
         "prior content, non-seekable ostream) and compared byte for byte. Non-trivial: at least one entry. " \
                "Group names are created in non-alphabetical order; a third of the cases request every entry once more by name before printing, a third parse first (empty command line, both entry points); the text is also demanded from a move-constructed, a move-assigned and a twice-moved parser.",
    harness=HARNESS, search=lambda dis, rng: gen_c15("thorough", rng),
    theorem_hint="NitroVerif.Props.C15.*",
    level_text="Lean 4: the option section lists the default group then the groups in creation order, every entry once in "
               "declaration order; format_padded preserves the word sequence (fpGo_tokens) and keeps every line within the "
               "width when no piece is too long to ever fit (width_format_padded, by induction over the word list with "
               "the remaining-space invariant), lifted to every option entry whose left column is <= 80 (width_entry) and "
               "to the synopsis for application names < 72 characters (width_synopsis) - the complements are the recorded "
               "findings U2/U3, and about/group descriptions are never wrapped (U4); with no assumption on the words: every line "
               "on which no never-fitting word was put keeps within the width (width_unless_forced, ghost fpLines tied to the "
               "text by fpLines_lens), and every line's core - its length when the first never-fitting word was put on it - keeps "
               "within the width (width_up_to_forcing_words,width_option_section,width_option_section_80,width_group,width_usage: behind such a word only further ones can follow); on the implementation's text a line over 80 must be at most 80 once its trailing "
               "forcing pieces are taken off; the text does not depend on the target stream nor on "
               "whether the parser object was moved. Tied to the working tree by exact comparison of the text on three "
               "kinds of stream and three moved parsers.",
    level_note="Trusted: Lean kernel; propext/Classical.choice/Quot.sound; iostream width/tellp semantics and std::set<toggle*> "
               "iteration order (read off the implementation) are modelled; correspondence is sampled.",
    technique="Lean 4 proof (word preservation and width invariant by induction over the word list) + differential correspondence on four stream kinds and moved parsers",
    design_ref="4 Engine Usage (C15)",
    assumptions=["std::setw(n) << ' ' writes max(n,1) blanks", "tellp() of a fresh stringstream is the number of characters written"],
    known={"U2": known_u2, "U3": known_u3, "U4": known_u4},
)
C15.model_input = model_input

C15.rule += (" Every case is also written to targets that accept n bytes and then fail (24 cut points, silently and with exceptions(badbit|failbit)): what "
             "arrived is a prefix of the text and the next request gives the whole text again.")


def c15_extract():
    from . import extract
    return extract.extract_usage_layout()


C15.extract = c15_extract
C15.extra_trusted = ["translator vlib/extract.py (clang 14 JSON AST: the arguments of the format_padded calls in base::format and parser::usage -> Generated/UsageLayout.lean)"]
C15.theorem_hint += " + model_layout_is_source"
