"""C18 (quaint_ptr, optional) and C19 (env::get, dl)."""
import itertools
from .check import Prop
from .core import hexs
from .gen import case

HARNESS = dict(name="own", source="own.cpp", repo_srcs=["src/env/get.cpp"], flags=["-Wl,--wrap=dlopen,--wrap=dlclose"],
               shared_libs=[("testlib.cpp", "libnvtest.so", 6)])


def q_alphabet():
    a = []
    for i in (0, 1, 4):
        for t in (0, 1):
            a.append("mk:%d:%d" % (i, t))
    for i in (0, 1, 4):
        for j in (0, 1, 4):
            a.append("mv:%d:%d" % (i, j))
    a += ["rs:0", "rs:1", "rs:4", "nul:0", "push:0", "push:1", "push:4", "pop", "swap:0:1", "swap:0:4", "swap:1:1", "mk:2:2",
          # a creation whose constructor throws (into an empty and into an occupied owner): nothing comes into being
          "mkx:0:0", "mkx:1:1"]
    return a


def o_alphabet():
    a = []
    for i in (0, 1):
        a += ["set:%d:%d" % (i, v) for v in (5, 6)]
        a += ["clr:%d" % i, "rd:%d" % i]
        for j in (0, 1, 2):
            a += ["cp:%d:%d" % (i, j), "cpc:%d:%d" % (i, j)]
            if i != j and (i + j) % 2:
                a += ["cpk:%d:%d" % (i, j)]
    a += ["set:2:7", "cp:2:0", "rd:2"]
    return a


def gen_c18(tier, rng):
    big = tier == "thorough"
    out = []
    QA, OA = q_alphabet(), o_alphabet()
    for d in (1, 2, 3):
        for seq in itertools.product(QA, repeat=d):
            out.append(case("own", "q", ";".join(seq)))
    for d in (1, 2, 3):
        for seq in itertools.product(OA, repeat=d):
            out.append(case("own", "o", ";".join(seq)))
    # the same histories over optional<bool> and over optional<T> for a T with a catch-all converting constructor
    for d in (1, 2):
        for seq in itertools.product(OA, repeat=d):
            out.append(case("own", "ob", ";".join(seq)))
            out.append(case("own", "og", ";".join(seq)))
    if big:
        for seq in itertools.product(QA[::2], repeat=4):
            out.append(case("own", "q", ";".join(seq)))
    for _ in range(20000 if big else 3000):
        n = 1 + rng.below(80)
        ops = []
        for _ in range(n):
            r = rng.below(100)
            c = lambda: rng.below(8)
            if r < 27:
                ops.append("mk:%d:%d" % (c(), rng.below(3)))
            elif r < 30:
                ops.append("mkx:%d:%d" % (c(), rng.below(2)))
            elif r < 50:
                ops.append("mv:%d:%d" % (c(), c()))
            elif r < 60:
                ops.append(rng.choice(["rs:%d", "nul:%d"]) % c())
            elif r < 78:
                ops.append("push:%d" % c())
            elif r < 90:
                ops.append("pop")
            else:
                ops.append("swap:%d:%d" % (c(), c()))
        out.append(case("own", "q", ";".join(ops)))
        ops = []
        for _ in range(1 + rng.below(40)):
            r = rng.below(100)
            c = lambda: rng.below(3)
            if r < 30:
                ops.append("set:%d:%d" % (c(), rng.below(100) - 50))
            elif r < 60:
                ops.append(rng.choice(["cp:%d:%d", "cpc:%d:%d", "cpk:%d:%d", "mvk:%d:%d"]) % (c(), c()))
            elif r < 80:
                ops.append("clr:%d" % c())
            else:
                ops.append("rd:%d" % c())
        out.append(case("own", rng.choice(["o", "o", "ob", "og"]), ";".join(ops)))
    return out


def dl_histories(depth):
    """all valid histories up to the depth; objects are created by open/load/copy"""
    out = []

    def rec(seq, nobj, nopen, kinds, types=()):
        if seq:
            out.append(";".join(seq))
        if len(seq) == depth:
            return
        cands = []
        if nopen < 3:
            cands.append(("open", 1, 1))
        cands.append(("openbad", 0, 0))
        if len(seq) <= 1:
            cands.append(("self", 0, 0))
        for o in range(nobj):
            cands += [("load:%d" % o, 1, 0), ("loadbad:%d" % o, 0, 0), ("copy:%d" % o, 1, 0), ("del:%d" % o, 0, 0),
                      ("call:%d" % o, 0, 0)]
            for p in range(nobj):
                if types[o] == types[p]:
                    cands.append(("asgn:%d:%d" % (o, p), 0, 0))
        for tok, dobj, dopen in cands:
            # a load/copy on a destroyed object is skipped by both sides and creates nothing;
            # the enumeration keeps object indices aligned by only counting creations on live objects
            alive = True
            if ":" in tok:
                o = int(tok.split(":")[1])
                alive = kinds[o]
            k2 = list(kinds)
            if tok.startswith("del:"):
                k2[int(tok.split(":")[1])] = False
            created = dobj if alive else 0
            # kind of a created object: open -> dl, load -> symbol, copy -> same as the source
            if tok == "open":
                nt = ("d",)
            elif tok.startswith("load:"):
                nt = ("s",)
            elif tok.startswith("copy:"):
                nt = (types[int(tok.split(":")[1])],)
            else:
                nt = ()
            rec(seq + [tok], nobj + created, nopen + dopen, k2 + [True] * created, tuple(types) + (nt if created else ()))

    rec([], 0, 0, [], ())
    return out


def gen_c19(tier, rng):
    big = tier == "thorough"
    out = []
    names = ["NV_A", "nv.b-c", "NV_\xe9\x01", "X"]
    values = ["", "v", " ", "a=b", "-5", "--x=y", "\xff\x80\x01", "x" * 300, "a;b", "\t\n"]
    dflts = ["", "d", "other"]
    for n in names:
        for d in dflts:
            out.append(case("own", "e", hexs(n), "unset", hexs(""), hexs(d)))
            for v in values:
                out.append(case("own", "e", hexs(n), "set", hexs(v), hexs(d)))
    for _ in range(3000 if big else 300):
        n = "NV_" + "".join(chr(rng.choice([65, 97, 46, 200, 1])) for _ in range(rng.below(6)))
        v = "".join(chr(1 + rng.below(255)) for _ in range(rng.below(20)))
        d = "".join(chr(1 + rng.below(255)) for _ in range(rng.below(5)))
        out.append(case("own", "e", hexs(n), rng.choice(["set", "set", "unset"]), hexs(v), hexs(d)))
    for h in dl_histories(5 if big else 4):
        out.append(case("own", "d", h))
    for _ in range(8000 if big else 2500):
        seq, nobj, nopen, alive, types = [], 0, 0, [], []
        for _ in range(1 + rng.below(40)):
            r = rng.below(100)
            if (nobj == 0 or r < 12) and nopen < 6:
                seq.append("open"); nobj += 1; nopen += 1; alive.append(True); types.append("d")
            elif r < 18:
                seq.append(rng.choice(["openbad", "openbad", "self"]))
            elif nobj:
                o = rng.below(nobj)
                k = rng.choice(["load", "loadbad", "copy", "copy", "del", "del", "call", "asgn", "asgn"])
                if k == "asgn":
                    cands = [p for p in range(nobj) if types[p] == types[o]]
                    seq.append("asgn:%d:%d" % (o, rng.choice(cands)))
                    continue
                seq.append("%s:%d" % (k, o))
                if k in ("load", "copy") and alive[o]:
                    nobj += 1; alive.append(True); types.append("s" if k == "load" else types[o])
                if k == "del":
                    alive[o] = False
        out.append(case("own", "d", ";".join(seq)))
    return out


NOTE = ("Trusted: Lean kernel; propext/Classical.choice/Quot.sound; std::unique_ptr, std::function, std::shared_ptr, "
        "getenv, dlopen/dlsym/dlclose/dlerror are modelled (ownership rules), not verified; C++ object lifetime is "
        "observed at run time (instance counters, destructor log with the static type that ran, ASan/LSan, --wrap "
        "counting of the loader calls); correspondence is sampled.")

C18 = Prop(
    "C18", "own", ["NitroVerif.Props.C18"], gen_c18,
    rule="quaint_ptr: pool of 4 pointers + a std::vector<quaint_ptr>; exhaustive: all histories of depth <=3 over a "
         "35-operation alphabet (create with 3 payload types, move-assign incl. self and to/from vector cells, reset, "
         "assign nullptr, push into the vector (reallocations included), pop, swap - qualified std::swap and the unqualified call after using std::swap); optional: pool of 3, all histories "
         "of depth <=3 over 31 operations (assign value by const&/&&, copy-assign, copy-construct, assign empty, read); "
         "seeded random histories up to 80 / 40 operations. Compared: which object every cell owns, the destructor log "
         "(object, static type of the destructor that ran) after every step and at the end, live-instance counts, "
         "storage addresses of engaged optionals. Non-trivial: at least 2 operations. Distinct = distinct case line. " \
                "optional: the histories also run over optional<bool> and optional<T> for a T with a catch-all converting constructor; copy construction from non-const and const lvalues compared; ops cpk/mvk rebuild a slot in place by copy / move construction, so that a copy-constructed object stays (storage addresses of all engaged slots are compared after every step).",
    harness=HARNESS, search=lambda dis, rng: gen_c18("thorough", rng)[:150000],
    theorem_hint="NitroVerif.Props.C18.{history_inv,exactly_once,never_twice,failed_creation_neutral,moved_from_empty,ohistory_inv,independent,"
                 "target_reads,no_alias}",
    level_text="Lean 4 invariant proofs over all ownership histories: every object is owned by exactly one pointer or "
               "destroyed exactly once by its creation type's destructor; when all pointers are gone every object has "
               "been destroyed exactly once; optionals never share storage, operations on one never change what another "
               "reads, assigning an empty optional empties the target, reading an empty one raises. The theorems are "
               "about ownership logic (comparatively shallow); actual C++ destruction is observed by the harness.",
    level_note=NOTE, technique="Lean 4 proof (counting invariant by induction over histories) + differential correspondence with instance counting",
    design_ref="4 Engine Own (C18, C19)",
    assumptions=["unique_ptr move assignment releases the old pointee through the stored deleter; self move assignment is a no-op (libstdc++)"],
)

C19 = Prop(
    "C19", "own", ["NitroVerif.Props.C19"], gen_c19,
    rule="env::get: 4 names x {unset, 10 values incl. empty, blanks, option-like, non-ASCII, 300 bytes} x 3 defaults "
         "(exhaustive) with real setenv/unsetenv, plus seeded random byte strings; dl: all valid histories of depth <=4 "
         "over open / failed open / load / failed lookup / copy / destroy / call on up to 3 libraries (distinct file "
         "copies so that every dlopen has its own handle), plus seeded random histories up to 40 operations; dlopen and "
         "dlclose are counted per handle through linker --wrap; symbols are called after their dl object is gone, under "
         "ASan. Non-trivial: a set variable, or at least 2 loader operations. Distinct = distinct case line. " \
                "Every caught dl exception is kept (copied) and its diagnostic re-read after every later step: it has to name what was missing and to stay what it was at catch time.",
    harness=HARNESS, search=lambda dis, rng: gen_c19("thorough", rng)[:150000],
    theorem_hint="NitroVerif.Props.C19.{get_set,get_unset,get_empty_is_not_unset,default_only_if_unset,dhistory_inv,"
                 "close_discipline,failed_ops_neutral}",
    level_text="Lean 4 theorems: env::get by cases (set => exact value also when empty; default only when unset; no-default "
               "form raises exactly when unset); for every history of open/load/copy/destroy operations incl. failed ones, "
               "a handle is closed at most once, never while an object sharing it is alive, and exactly once after the "
               "last one is destroyed, in any destruction order. The loader and getenv are modelled; the harness counts the "
               "real calls.",
    level_note=NOTE, technique="Lean 4 proof (use-count invariant by induction over histories) + differential correspondence with --wrap call counting",
    design_ref="4 Engine Own (C18, C19)",
    assumptions=["shared_ptr runs its deleter exactly when the last copy is destroyed",
                 "distinct library files give distinct loader handles"],
)

C18.rule += (" Op mkx: creation of a payload whose constructor throws after a member was built (no destructor of the payload type may run, the member "
             "dies exactly once, the target keeps what it had; model QOp.makeFails).")
