"""C08 — format / exception messages."""
import itertools
from .check import Prop
from .core import hexs
from .gen import strings, case, rand_string

HARNESS = dict(name="fmt", source="fmt.cpp")

# fork+more: two copies of a partially filled formatter go their own ways (the second renders its own arguments only)
APIS = ["pct", "args", "stream", "conv", "args+stream", "args+conv", "pct+more", "copy+more", "fork+more"]


def tok(t, text):
    return t + hexs(text)


def argf(toks):
    return ",".join(toks) if toks else "."


def gen_c08(tier, rng):
    out = []
    big = tier == "thorough"
    fmts = list(strings("{}a", 8 if big else 7))
    texts = ["", "x", "{}", "{", "}"]
    for i, fmt in enumerate(fmts):
        k = 0
        j = 0
        while True:  # leftmost non-overlapping {}  (only used to choose argument counts)
            j = fmt.find("{}", j)
            if j < 0:
                break
            k += 1
            j += 2
        for n in range(0, k + 2):
            # a few argument texts per count, rotating through the alphabet; all of them on short formats
            combos = list(itertools.product(texts, repeat=n)) if (n <= 2 and len(fmt) <= 4) else \
                [tuple(texts[(i + a + b) % 5] for a in range(n)) for b in range(3)]
            for combo in combos:
                api = APIS[(i + n + len(out)) % len(APIS)]
                out.append(case("fmt", "str", api, hexs(fmt), argf([tok("s", t) for t in combo])))
    # const char* format overload (no NUL in the format)
    for fmt in list(strings("{}a", 4)):
        out.append(case("fmt", "str", "cfmt", hexs(fmt), argf([tok("p", "z")] * fmt.count("{}"))))
    # typed arguments
    typed = [("i", "0"), ("i", "-42"), ("i", "2147483647"), ("i", "-2147483648"), ("l", "9223372036854775807"),
             ("c", "x"), ("c", "{"), ("c", "}"), ("d", "1.5"), ("d", "-0.25"), ("d", "100"), ("d", "0"),
             ("s", ""), ("s", "{}"), ("s", "a b"), ("s", "\xff\x80"), ("p", "{}"), ("p", ""), ("p", "lit"),
             # user types whose inserters leave sticky formatting state behind (hex/showbase; fixed/precision)
             # partly filled fixed-size character buffers: the text up to the terminating NUL
             ("a", "eth0"), ("a", ""), ("a", "{}"),
             ("h", "0xff"), ("h", "0x10"), ("f", "2.50"), ("f", "-0.13"), ("i", "255"), ("d", "0.125"),
             # doubles whose shortest text is not their 17-digit text (default precision 6 is part of the representation)
             ("d", "0.1"), ("d", "1e+06"), ("d", "0.333333"), ("d", "-2.7")]
    for n in (1, 2, 3):
        combos = list(itertools.product(typed, repeat=n)) if n < 3 else \
            [tuple(rng.choice(typed) for _ in range(3)) for _ in range(600 if big else 200)]
        for combo in combos:
            fmt = rng.choice(["{}" * n, "a{}" * n + "b", "{{}}" + "{} " * (n - 1), "{}" * (n + 1), "x" + "{}" * (n - 1) if n > 1 else "x"])
            api = rng.choice(APIS)
            out.append(case("fmt", "str", api, hexs(fmt), argf([tok(t, x) for t, x in combo])))
            # (exception messages are built in ONE stream, `msg << a << b`, so there a sticky inserter legitimately
            # shows in what follows, as with any stream: those argument types stay out of the exception family)
            if rng.chance(1, 3) and not any(t in "hfa" for t, _ in combo):
                out.append(case("fmt", "exc", rng.choice(["ctor", "raise"]), argf([tok(t, x) for t, x in combo])))
    # the remaining built-in argument types, one per case (optionally followed by a string): a signed / unsigned char
    # (int8_t / uint8_t) is a character, a bool is 1 / 0, the other integer types are numbers, a float has 6 digits
    ext = [("b", "A"), ("b", "{"), ("b", "z"), ("u", "A"), ("u", "}"), ("u", "0"), ("u", "\xe9"), ("w", "A"), ("W", "A"),
           ("W", "7"), ("B", "1"), ("B", "0"), ("S", "-32768"), ("S", "65"), ("T", "65535"), ("T", "48"),
           ("U", "18446744073709551615"), ("U", "65"), ("L", "-9223372036854775808"), ("N", "4294967295"),
           ("N", "65"), ("F", "1.5"), ("F", "0.1"), ("F", "-2.25")]
    for t, x in ext:
        for api in ("ext-pct", "ext-cpct", "ext-args"):
            out.append(case("fmt", "str", api, hexs("{}"), tok(t, x)))
            out.append(case("fmt", "str", api, hexs("<{}|{}>"), tok(t, x) + "," + tok("s", "{}")))
            out.append(case("fmt", "str", api, hexs("{}{}"), tok(t, x)))
        # exception messages: constructor and raise, (value, tail)
        out.append(case("fmt", "exc", "ext-ctor", tok(t, x) + "," + tok("s", " tail")))
    # a type that converts implicitly to std::string and prints decorated; nullptr
    ext += [("C", "<path>"), ("C", "<>"), ("C", "<{}>"), ("n", "nullptr")]
    for t, x in ext:
        out.append(case("fmt", "exc", "ext-raise", tok(t, x) + "," + tok("s", "head ")))
        # a message made of this one argument
        out.append(case("fmt", "exc", "ext1-ctor", tok(t, x)))
        out.append(case("fmt", "exc", "ext1-raise", tok(t, x)))
    for t, x in ext[-4:]:
        for api in ("ext-pct", "ext-cpct", "ext-args"):
            out.append(case("fmt", "str", api, hexs("{}"), tok(t, x)))
            out.append(case("fmt", "str", api, hexs("a{}b"), tok(t, x)))
    for n in (4, 5, 6):
        for _ in range(20):
            out.append(case("fmt", "exc", rng.choice(["ctor", "raise"]),
                            argf([tok("s", rand_string(rng, "ab{} ", 4)) for _ in range(n)])))
    # random longer formats over arbitrary bytes
    for _ in range(20000 if big else 3000):
        a = rng.choice(["{}a", "{}ab \n", "{}\x00\xff{"])
        fmt = "".join(rng.choice(["{}", "{", "}", "{}"] + list(a)) for _ in range(rng.below(30)))
        k = 0
        j = 0
        while True:
            j = fmt.find("{}", j)
            if j < 0:
                break
            k += 1
            j += 2
        n = k if rng.chance(3, 4) else rng.below(k + 3)
        args = [tok("s", rand_string(rng, "{}ab", 4)) for _ in range(n)]
        out.append(case("fmt", "str", rng.choice(APIS), hexs(fmt), argf(args)))
    return out


C08 = Prop(
    "C08", "fmt", ["NitroVerif.Props.C08"], gen_c08,
    rule="exhaustive: every format string of length <=7 over {'{','}','a'} x argument counts 0..k+1 x argument "
         "texts rotating through {'', x, {}, {, }} (all combinations for formats up to length 4), through "
         "operator%, args(...), str(), conversion and operator<<, continued after a rendering (same object, a copy, two copies going their own ways); typed arguments (int, long long, char, double, "
         "std::string, const char*, partly filled character arrays) in all pairs and sampled triples; exception messages through the constructor and "
         "raise(); seeded random formats of length <=30 incl. NUL/0xff. Non-trivial: the format has at least one "
         "placeholder (str) / more than one argument (exception message). Distinct = distinct case line. " \
                "One-argument cases over the remaining built-in types (signed char, unsigned char, int8_t, uint8_t, bool, short, unsigned short, unsigned, long, unsigned long long, float), by value and as const lvalue, through %, args() and exception messages: a signed/unsigned char is its character, a bool 1/0. "
                "Typed arguments include user types whose inserters leave sticky state (hex/showbase; fixed/precision 2) followed by numbers (format family only: an exception message is one stream), and doubles whose 6-digit text differs from their 17-digit text (0.1, 1e+06, 0.333333, -2.7) in both families.",
    harness=HARNESS, search=lambda dis, rng: gen_c08("thorough", rng),
    theorem_hint="NitroVerif.Props.C08.{str_spec,arity_exact,no_rescan,more_args_raise,fewer_args_raise,"
                 "make_string_concat,pieces_glue,pieces_clean}",
    level_text="Lean 4 theorems for every format string, every argument list: str = pieces of the format interleaved "
               "with the arguments iff #args = #placeholders, else raise; arguments are never rescanned; everything "
               "outside placeholders is preserved (via the C17 split laws); exception message = concatenation. Tied "
               "to the working tree by a differential run over all five public ways to supply/read the text.",
    level_note="Trusted: Lean kernel; propext/Classical.choice/Quot.sound; std::sregex_iterator over \\{\\} is modelled as "
               "leftmost non-overlapping search; stream representations of typed arguments come from std::ostringstream "
               "in the harness; correspondence is sampled.",
    technique="Lean 4 proof (induction over the argument list) + differential correspondence",
    design_ref="4 Engine Fmt (C08)",
    assumptions=["std::sregex_iterator over \\{\\} yields leftmost non-overlapping matches",
                 "double arguments are restricted to values with an exact short decimal representation"],
)
