"""Translators: parts of the model regenerated from /repo's source on every run (clang 14 JSON AST)."""
import json
import os
import subprocess
from . import core

GEN = os.path.join(core.LEAN, "NitroVerif", "Generated")


def ast_dump(rel_src, name_filter):
    p = subprocess.run(["clang++-14", "-std=c++17", "-fsyntax-only", "-I" + os.path.join(core.REPO, "include"),
                        "-Xclang", "-ast-dump=json", "-Xclang", "-ast-dump-filter=" + name_filter,
                        rel_src if os.path.isabs(rel_src) else os.path.join(core.REPO, rel_src)], stdout=subprocess.PIPE, stderr=subprocess.PIPE)
    txt = p.stdout.decode("utf-8", "replace")
    dec = json.JSONDecoder()
    i, objs = 0, []
    while i < len(txt):
        while i < len(txt) and txt[i].isspace():
            i += 1
        if i >= len(txt):
            break
        o, i = dec.raw_decode(txt, i)
        objs.append(o)
    return objs, p.stderr.decode("utf-8", "replace")


def walk(n, f):
    f(n)
    for c in n.get("inner", []) or []:
        walk(c, f)


def strip(n):
    """skip implicit casts, parentheses, temporaries"""
    while n.get("kind") in ("ImplicitCastExpr", "ParenExpr", "ExprWithCleanups", "MaterializeTemporaryExpr",
                            "CXXBindTemporaryExpr", "CXXConstructExpr", "CXXFunctionalCastExpr") and len(n.get("inner", [])) == 1:
        n = n["inner"][0]
    return n


def disjunct_literals(cond, var):
    """cond must be  var == "a" || var == "b" || ...  ; returns the literals or raises ValueError"""
    cond = strip(cond)
    if cond.get("kind") == "BinaryOperator" and cond.get("opcode") == "||":
        return disjunct_literals(cond["inner"][0], var) + disjunct_literals(cond["inner"][1], var)
    if cond.get("kind") == "CXXOperatorCallExpr":
        parts = [strip(c) for c in cond["inner"]]
        callee = parts[0]
        opname = (callee.get("referencedDecl") or {}).get("name", "")
        if opname != "operator==":
            raise ValueError("comparison is %s, not ==" % opname)
        args = parts[1:]
        refs = [a for a in args if a.get("kind") == "DeclRefExpr" and (a.get("referencedDecl") or {}).get("name") == var]
        lits = [a for a in args if a.get("kind") == "StringLiteral"]
        if len(refs) != 1 or len(lits) != 1:
            raise ValueError("comparison is not between %s and a string literal" % var)
        return [json.loads(lits[0]["value"])]
    raise ValueError("unexpected condition node " + str(cond.get("kind")))


def lean_chars(s):
    def one(c):
        return "'%s'" % c if (c.isalnum() and ord(c) < 128) else "Char.ofNat %d" % ord(c)
    return "[" + ", ".join(one(c) for c in s) + "]"


def write_if_changed(path, content):
    os.makedirs(os.path.dirname(path), exist_ok=True)
    if os.path.exists(path) and open(path, encoding="utf-8").read() == content:
        return False
    with open(path, "w", encoding="utf-8") as f:
        f.write(content)
    return True


def extract_toggle_vocab():
    """toggle::parse_env_value -> Generated/ToggleVocab.lean.  Returns (ok, note, truthy, falsy)."""
    try:
        objs, err = ast_dump("src/options/toggle.cpp", "parse_env_value")
        defs = [o for o in objs if o.get("name") == "parse_env_value" and
                any(c.get("kind") == "CompoundStmt" for c in o.get("inner", []))]
        if len(defs) != 1:
            raise ValueError("definition of parse_env_value not found (%d candidates) %s" % (len(defs), err[-300:]))
        params = [c for c in defs[0]["inner"] if c.get("kind") == "ParmVarDecl"]
        if len(params) != 1:
            raise ValueError("parse_env_value does not take one parameter")
        var = params[0]["name"]
        body = [c for c in defs[0]["inner"] if c.get("kind") == "CompoundStmt"][0]
        stmts = body.get("inner", [])
        tables = {True: None, False: None}
        tail = []
        for st in stmts:
            if st.get("kind") == "IfStmt" and len(st["inner"]) == 2:
                lits = disjunct_literals(st["inner"][0], var)
                rets = []
                walk(st["inner"][1], lambda n: rets.append(n["value"]) if n.get("kind") == "CXXBoolLiteralExpr" else None)
                nret = []
                walk(st["inner"][1], lambda n: nret.append(1) if n.get("kind") == "ReturnStmt" else None)
                if len(rets) != 1 or len(nret) != 1:
                    raise ValueError("an if branch is not a single 'return true/false'")
                if tables[rets[0]] is not None:
                    raise ValueError("two branches return %s" % rets[0])
                tables[rets[0]] = lits
            else:
                tail.append(st)
        if tables[True] is None or tables[False] is None:
            raise ValueError("did not find one 'return true' and one 'return false' branch")
        # what follows must be the raise of parsing_error (a call, no return)
        raises = False
        for st in tail:
            names = []
            walk(st, lambda n: names.append((n.get("referencedDecl") or {}).get("name")) if n.get("kind") == "DeclRefExpr" else None)
            rets = []
            walk(st, lambda n: rets.append(1) if n.get("kind") == "ReturnStmt" else None)
            if rets:
                raise ValueError("a return statement follows the two tables")
            if "raise" in names:
                raises = True
        if not raises:
            raise ValueError("no raise after the two tables")
    except (ValueError, KeyError, IndexError, json.JSONDecodeError) as e:
        content = ("-- written by vlib/extract.py: the extractor no longer recognises toggle::parse_env_value\n"
                   "namespace NitroVerif.Generated\n"
                   "def truthySrc : List (List Char) := []\n"
                   "def falsySrc : List (List Char) := []\n"
                   "def vocabExtracted : Bool := false\n"
                   "end NitroVerif.Generated\n")
        write_if_changed(os.path.join(GEN, "ToggleVocab.lean"), content)
        return False, "toggle vocabulary: " + str(e), [], []
    content = ("-- written by vlib/extract.py from src/options/toggle.cpp (toggle::parse_env_value) on every run\n"
               "namespace NitroVerif.Generated\n"
               "def truthySrc : List (List Char) := [\n  " + ",\n  ".join(lean_chars(w) for w in tables[True]) + "]\n"
               "def falsySrc : List (List Char) := [\n  " + ",\n  ".join(lean_chars(w) for w in tables[False]) + "]\n"
               "def vocabExtracted : Bool := true\n"
               "end NitroVerif.Generated\n")
    changed = write_if_changed(os.path.join(GEN, "ToggleVocab.lean"), content)
    return True, "toggle vocabulary: %d truthy, %d falsy words extracted%s" % (
        len(tables[True]), len(tables[False]), " (file rewritten)" if changed else ""), tables[True], tables[False]


def _ast_of_header(header, cls):
    import tempfile
    tu = os.path.join(core.BUILD, "extract")
    os.makedirs(tu, exist_ok=True)
    path = os.path.join(tu, cls + "_tu.cpp")
    with open(path, "w") as f:
        f.write("#include <nitro/log/severity.hpp>\n#include <%s>\n" % header)
    p = subprocess.run(["clang++-14", "-std=c++17", "-fsyntax-only", "-I" + os.path.join(core.REPO, "include"),
                        "-Xclang", "-ast-dump=json", "-Xclang", "-ast-dump-filter=" + cls, path],
                       stdout=subprocess.PIPE, stderr=subprocess.PIPE)
    txt = p.stdout.decode("utf-8", "replace")
    dec = json.JSONDecoder()
    i, objs = 0, []
    while i < len(txt):
        while i < len(txt) and txt[i].isspace():
            i += 1
        if i >= len(txt):
            break
        o, i = dec.raw_decode(txt, i)
        objs.append(o)
    return objs


class _Unrecognised(ValueError):
    pass


_CASTS = ("ImplicitCastExpr", "ParenExpr", "ExprWithCleanups", "MaterializeTemporaryExpr", "CXXBindTemporaryExpr",
          "CStyleCastExpr", "CXXStaticCastExpr", "CXXFunctionalCastExpr", "ConstantExpr")


def _uncast(n):
    while n.get("kind") in _CASTS and len(n.get("inner", []) or []) == 1:
        n = n["inner"][0]
    return n


def _severity_values():
    """the enumerators of nitro::log::severity_level with their values, from the AST"""
    objs = _ast_of_header("nitro/log/severity.hpp", "severity_level")
    enums = [o for o in objs if o.get("kind") == "EnumDecl" and o.get("name") == "severity_level" and o.get("inner")]
    if len(enums) != 1:
        raise _Unrecognised("enum severity_level not found")
    vals, nxt = {}, 0
    for c in enums[0]["inner"]:
        if c.get("kind") != "EnumConstantDecl":
            continue
        v = nxt
        found = []
        walk(c, lambda n: found.append(n["value"]) if n.get("kind") == "ConstantExpr" and "value" in n else None)
        if found:
            v = int(found[0])
        vals[c["name"]] = v
        nxt = v + 1
    return vals


def _eval_int(n, sev_param, sev, enum_vals):
    n = _uncast(n)
    if n.get("kind") == "DeclRefExpr":
        ref = n.get("referencedDecl") or {}
        if ref.get("kind") == "ParmVarDecl" and ref.get("name") == sev_param:
            return sev
        if ref.get("kind") == "EnumConstantDecl" and ref.get("name") in enum_vals:
            return enum_vals[ref["name"]]
    if n.get("kind") == "IntegerLiteral":
        return int(n["value"])
    raise _Unrecognised("condition operand " + str(n.get("kind")))


def _eval_cond(n, sev_param, sev, enum_vals):
    n = _uncast(n)
    k = n.get("kind")
    if k == "BinaryOperator":
        op = n.get("opcode")
        a, b = n["inner"]
        if op == "&&":
            return _eval_cond(a, sev_param, sev, enum_vals) and _eval_cond(b, sev_param, sev, enum_vals)
        if op == "||":
            return _eval_cond(a, sev_param, sev, enum_vals) or _eval_cond(b, sev_param, sev, enum_vals)
        x, y = _eval_int(a, sev_param, sev, enum_vals), _eval_int(b, sev_param, sev, enum_vals)
        table = {"==": x == y, "!=": x != y, "<": x < y, "<=": x <= y, ">": x > y, ">=": x >= y}
        if op in table:
            return table[op]
    if k == "UnaryOperator" and n.get("opcode") == "!":
        return not _eval_cond(n["inner"][0], sev_param, sev, enum_vals)
    if k == "CXXBoolLiteralExpr":
        return bool(n.get("value"))
    raise _Unrecognised("condition " + str(k) + " " + str(n.get("opcode", "")))


class _SinkWalker:
    """Executes the body of sink() symbolically for one severity value.  Grammar: lock_guard / scoped_lock /
    unique_lock declarations (the latter also deferred, with .lock()/.unlock() calls), nested blocks, if statements
    whose condition compares the severity parameter with enumerators, stream insertions of the record and of
    flush/endl, <stream>.flush().  Anything else is not recognised (the proof obligation then fails)."""

    def __init__(self, methods, stream_name, rec_param, sev_param, sev, enum_vals):
        self.methods, self.stream, self.rec, self.sevp, self.sev, self.enums = methods, stream_name, rec_param, sev_param, sev, enum_vals
        self.prog = []
        self.locks = {}          # variable -> held?
        self.mutex_static = True

    def _check_mutex(self, v):
        callee, refs = [], []
        walk(v, lambda n: callee.append(n.get("name")) if n.get("kind") == "MemberExpr" else None)
        walk(v, lambda n: refs.append(n.get("referencedDecl") or {}) if n.get("kind") == "DeclRefExpr" else None)
        found = False
        for nm in callee:
            m = self.methods.get(nm)
            if m is not None:
                if self._static_mutex_accessor(m):
                    found = True
        for r in refs:
            if (r.get("type", {}) or {}).get("qualType", "") == "std::mutex" and r.get("kind") == "VarDecl":
                found = True
        if not found:
            self.mutex_static = False

    @staticmethod
    def _static_mutex_accessor(m):
        """the accessor is exactly `static std::mutex m; return m;` - one mutex object, initialised thread-safely by
        the language (a pointer filled in on first use, a member of something else, ... is not recognised)"""
        body = [n for n in m.get("inner", []) if n.get("kind") == "CompoundStmt"]
        if len(body) != 1:
            return False
        stmts = body[0].get("inner", [])
        if len(stmts) != 2 or stmts[0].get("kind") != "DeclStmt" or stmts[1].get("kind") != "ReturnStmt":
            return False
        decls = stmts[0].get("inner", [])
        if len(decls) != 1 or decls[0].get("kind") != "VarDecl" or decls[0].get("storageClass") != "static" or \
                decls[0].get("type", {}).get("qualType", "") != "std::mutex":
            return False
        kinds, refs = [], []
        walk(stmts[1], lambda n: kinds.append(n.get("kind")))
        walk(stmts[1], lambda n: refs.append((n.get("referencedDecl") or {}).get("id")) if n.get("kind") == "DeclRefExpr" else None)
        return set(kinds) <= {"ReturnStmt", "DeclRefExpr", "ImplicitCastExpr"} and refs == [decls[0].get("id")]

    def block(self, stmts, is_body):
        declared = []
        for st in stmts:
            if self.stmt(st, declared) == "return":
                break
        if not is_body:
            for name in reversed(declared):
                if self.locks.get(name):
                    self.prog.append("unlock")
                    self.locks[name] = False

    def stmt(self, st, declared):
        k = st.get("kind")
        if k == "NullStmt":
            return None
        if k == "ReturnStmt":
            if st.get("inner"):
                raise _Unrecognised("return with a value")
            return "return"
        if k == "CompoundStmt":
            self.block(st.get("inner", []) or [], False)
            return None
        if k == "IfStmt":
            inner = st.get("inner", []) or []
            if st.get("hasInit") or st.get("hasVar") or len(inner) < 2:
                raise _Unrecognised("if statement with initialiser")
            taken = _eval_cond(inner[0], self.sevp, self.sev, self.enums)
            branch = inner[1] if taken else (inner[2] if len(inner) > 2 else None)
            if branch is not None:
                if branch.get("kind") == "CompoundStmt":
                    self.block(branch.get("inner", []) or [], False)
                else:
                    self.block([branch], False)
            return None
        if k == "DeclStmt":
            for v in st.get("inner", []) or []:
                if v.get("kind") != "VarDecl":
                    raise _Unrecognised("declaration " + str(v.get("kind")))
                ty = v.get("type", {}).get("qualType", "")
                if not any(x in ty for x in ("lock_guard", "unique_lock", "scoped_lock")):
                    raise _Unrecognised("local variable of type " + ty)
                names = []
                walk(v, lambda n: names.append((n.get("referencedDecl") or {}).get("name")) if n.get("kind") == "DeclRefExpr" else None)
                if any(x in names for x in ("try_to_lock", "adopt_lock")):
                    raise _Unrecognised("try_to_lock / adopt_lock")
                self._check_mutex(v)
                deferred = "defer_lock" in names
                if deferred and "unique_lock" not in ty:
                    raise _Unrecognised("defer_lock on " + ty)
                self.locks[v["name"]] = not deferred
                declared.append(v["name"])
                if not deferred:
                    self.prog.append("lock")
            return None
        # expression statements
        e = _uncast(st)
        if e.get("kind") == "CXXMemberCallExpr":
            callee = _uncast(e["inner"][0])
            if callee.get("kind") == "MemberExpr":
                base = _uncast(callee["inner"][0])
                bname = (base.get("referencedDecl") or {}).get("name") if base.get("kind") == "DeclRefExpr" else None
                if bname in self.locks and callee.get("name") == "lock" and len(e["inner"]) == 1:
                    if self.locks[bname]:
                        raise _Unrecognised("lock() on a lock that is already held")
                    self.locks[bname] = True
                    self.prog.append("lock")
                    return None
                if bname in self.locks and callee.get("name") == "unlock" and len(e["inner"]) == 1:
                    self.locks[bname] = False
                    self.prog.append("unlock")
                    return None
                if bname == self.stream and callee.get("name") == "flush":
                    self.prog.append("flush")
                    return None
            raise _Unrecognised("member call")
        if e.get("kind") == "CXXOperatorCallExpr":
            ops = []
            walk(e, lambda n: ops.append(((n.get("range", {}).get("begin", {}) or {}).get("offset", 0), n.get("referencedDecl") or {}))
                 if n.get("kind") == "DeclRefExpr" else None)
            seen_stream = False
            for _, ref in sorted(ops, key=lambda x: x[0]):
                nm = ref.get("name")
                if nm == "operator<<":
                    continue
                if nm == self.stream:
                    seen_stream = True
                elif nm == self.rec and ref.get("kind") == "ParmVarDecl":
                    self.prog.append("write")
                elif nm in ("flush", "endl"):
                    self.prog.append("flush")
                else:
                    raise _Unrecognised("operand %s in a stream insertion" % nm)
            if not seen_stream:
                raise _Unrecognised("insertion into something else than std::" + self.stream)
            return None
        raise _Unrecognised("statement " + str(k))


def _sink_program(header, cls, stream_name):
    """returns ([program per severity value 0..n-1], mutex_static) for class cls's sink() body, or raises ValueError"""
    objs = _ast_of_header(header, cls)
    recs = [o for o in objs if o.get("kind") == "CXXRecordDecl" and o.get("name") == cls and o.get("inner")]
    if len(recs) != 1:
        raise _Unrecognised("class %s not found" % cls)
    methods = {m.get("name"): m for m in recs[0]["inner"] if m.get("kind") == "CXXMethodDecl"}
    if "sink" not in methods:
        raise _Unrecognised("%s::sink not found" % cls)
    body = [c for c in methods["sink"].get("inner", []) if c.get("kind") == "CompoundStmt"]
    if not body:
        raise _Unrecognised("%s::sink has no body" % cls)
    params = [c for c in methods["sink"].get("inner", []) if c.get("kind") == "ParmVarDecl"]
    if len(params) != 2:
        raise _Unrecognised("%s::sink does not take (severity, record)" % cls)
    sev_param, rec_param = params[0].get("name"), params[1].get("name")
    enum_vals = _severity_values()
    order = sorted(enum_vals.values())
    if order != list(range(len(order))) or len(order) != 6:
        raise _Unrecognised("severity_level is not six enumerators 0..5: %s" % enum_vals)
    progs, static = [], True
    for sev in order:
        w = _SinkWalker(methods, stream_name, rec_param, sev_param, sev, enum_vals)
        w.block(body[0].get("inner", []) or [], True)
        progs.append(w.prog)
        static = static and w.mutex_static
    return progs, static


def extract_mt_sinks():
    """Generated/MtSinks.lean from the sink bodies.  Returns (ok, note)."""
    try:
        so, sm = _sink_program("nitro/log/sink/stdout_mt.hpp", "stdout_mt", "cout")
        se, em = _sink_program("nitro/log/sink/stderr_mt.hpp", "StdErrThreaded", "cerr")
        ok = True

        def show(ps):
            return ps[0] if all(p == ps[0] for p in ps) else ps
        note = "mt sinks by severity: stdout_mt = %s (static mutex %s), StdErrThreaded = %s (static mutex %s)" % (
            show(so), sm, show(se), em)
    except (ValueError, KeyError, IndexError, json.JSONDecodeError) as e:
        so, se, sm, em, ok = [], [], False, False, False
        note = "mt sinks: extractor no longer recognises the code: " + str(e)

    def lst(p):
        return "[" + ", ".join("." + x for x in p) + "]"

    def lsts(ps):
        return "[" + ", ".join(lst(p) for p in ps) + "]"
    content = ("-- written by vlib/extract.py from include/nitro/log/sink/{stdout_mt,stderr_mt}.hpp on every run\n"
               "import NitroVerif.Model.MT\n"
               "namespace NitroVerif.Generated\n"
               "open NitroVerif.MT\n"
               "def stdoutSinkBySev : List (List Instr) := %s\n"
               "def stderrSinkBySev : List (List Instr) := %s\n"
               "def stdoutMutexStatic : Bool := %s\n"
               "def stderrMutexStatic : Bool := %s\n"
               "def mtExtracted : Bool := %s\n"
               "end NitroVerif.Generated\n") % (lsts(so), lsts(se), "true" if sm else "false", "true" if em else "false",
                                                 "true" if ok else "false")
    changed = write_if_changed(os.path.join(GEN, "MtSinks.lean"), content)
    return ok, note + (" (file rewritten)" if changed else "")


# ---------------------------------------------------------------------------------------------------------
# C16: the hash combiner.  `detail::hash_combine_impl<unsigned long>` is translated, expression by expression,
# into a Lean function over BitVec 64 (Generated/HashCombine.lean); the seeds of hash(tuple) / hash(variant)
# and the shape of hash(pair) are read off the templates.

_INT_TYPES = {"unsigned long": (64, False), "long": (64, True), "unsigned int": (32, False), "int": (32, True),
              "unsigned long long": (64, False), "long long": (64, True), "std::size_t": (64, False),
              "size_t": (64, False), "unsigned short": (16, False), "short": (16, True),
              "unsigned char": (8, False), "char": (8, True), "signed char": (8, True), "bool": (1, False)}


def _ity(n):
    q = (n.get("type") or {}).get("qualType", "")
    d = (n.get("type") or {}).get("desugaredQualType", q)
    for t in (q, d):
        if t in _INT_TYPES:
            return _INT_TYPES[t]
    raise ValueError("expression of type '%s' is outside the translated subset" % q)


def _bv_expr(n, params):
    """C++ integer expression -> (Lean term, width).  Subset: parameters, integer literals, + - * ^ | &, << >> by a
    literal, integral conversions, parentheses."""
    k = n.get("kind")
    if k == "ParenExpr":
        return _bv_expr(n["inner"][0], params)
    if k == "ImplicitCastExpr":
        ck = n.get("castKind")
        inner = n["inner"][0]
        if ck in ("LValueToRValue", "NoOp"):
            return _bv_expr(inner, params)
        if ck == "IntegralCast":
            t, w0 = _bv_expr(inner, params)
            w1, _ = _ity(n)
            _, signed0 = _ity(inner)
            if w1 == w0:
                return t, w1
            if w1 > w0 and signed0:
                return "(BitVec.signExtend %d %s)" % (w1, t), w1
            return "(BitVec.setWidth %d %s)" % (w1, t), w1
        raise ValueError("cast kind %s is outside the translated subset" % ck)
    if k == "IntegerLiteral":
        w, _ = _ity(n)
        return "(%s#%d)" % (n["value"], w), w
    if k == "DeclRefExpr":
        name = (n.get("referencedDecl") or {}).get("name")
        if name not in params:
            raise ValueError("reference to '%s', which is not a parameter" % name)
        w, _ = _ity(n)
        return name, w
    if k == "BinaryOperator":
        op = n.get("opcode")
        a, b = n["inner"]
        if op in ("<<", ">>"):
            ta, wa = _bv_expr(a, params)
            _, signed_a = _ity(a)
            bb = b
            while bb.get("kind") in ("ParenExpr", "ImplicitCastExpr"):
                bb = bb["inner"][0]
            if bb.get("kind") != "IntegerLiteral":
                raise ValueError("shift by something that is not a literal")
            amount = int(bb["value"])
            if amount >= wa:
                raise ValueError("shift by %d on a %d-bit value is undefined" % (amount, wa))
            if op == ">>" and signed_a:
                return "(BitVec.sshiftRight %s %d)" % (ta, amount), wa
            return "(%s %s %d)" % (ta, "<<<" if op == "<<" else ">>>", amount), wa
        lean_op = {"+": "+", "-": "-", "*": "*", "^": "^^^", "|": "|||", "&": "&&&"}.get(op)
        if lean_op is None:
            raise ValueError("operator %s is outside the translated subset" % op)
        ta, wa = _bv_expr(a, params)
        tb, wb = _bv_expr(b, params)
        wr, _ = _ity(n)
        if not (wa == wb == wr):
            raise ValueError("operands of %s have widths %d and %d, result %d" % (op, wa, wb, wr))
        return "(%s %s %s)" % (ta, lean_op, tb), wr
    raise ValueError("node %s is outside the translated subset" % k)


def _find(n, pred, out):
    if pred(n):
        out.append(n)
    for c in n.get("inner", []) or []:
        _find(c, pred, out)
    return out


def _seed_init(fn):
    """the initialiser of `std::size_t seed = <literal>;` in a function template body"""
    vds = _find(fn, lambda x: x.get("kind") == "VarDecl" and x.get("name") == "seed", [])
    if len(vds) != 1 or not vds[0].get("inner"):
        raise ValueError("no single initialised variable 'seed' in %s" % fn.get("name"))
    init = vds[0]["inner"][0]
    while init.get("kind") in ("ImplicitCastExpr", "ParenExpr"):
        init = init["inner"][0]
    return init


def extract_hash_combine():
    """Generated/HashCombine.lean from include/nitro/lang/hash.hpp.  Returns (ok, note)."""
    term, seeds, pair_ok, ok = "seed", {"tuple": "0", "variant": "0"}, False, True
    try:
        os.makedirs(os.path.join(core.BUILD, "tu"), exist_ok=True)
        tu = os.path.join(core.BUILD, "tu", "hash_tu.cpp")
        with open(tu, "w") as f:
            f.write("#include <nitro/lang/hash.hpp>\n#include <string>\n"
                    "std::size_t nitro_verif_probe_t(const std::tuple<int, long>& t) { return nitro::lang::hash(t); }\n"
                    "std::size_t nitro_verif_probe_p(const std::pair<int, long>& t) { return nitro::lang::hash(t); }\n"
                    "std::size_t nitro_verif_probe_v(const std::variant<int, long>& t) { return nitro::lang::hash(t); }\n")
        objs, err = ast_dump(tu, "nitro::lang")
        if not objs:
            raise ValueError("clang produced no AST: " + err[-300:])
        root = {"inner": objs}
        inst = _find(root, lambda x: x.get("kind") == "FunctionDecl" and x.get("name") == "hash_combine_impl" and
                     (x.get("type") or {}).get("qualType") == "void (unsigned long &, unsigned long)", [])
        inst = [i for i in inst if any(c.get("kind") == "CompoundStmt" for c in i.get("inner", []))]
        if len(inst) != 1:
            raise ValueError("%d instantiations hash_combine_impl<unsigned long> with a body" % len(inst))
        params = [c["name"] for c in inst[0]["inner"] if c.get("kind") == "ParmVarDecl"]
        if params != ["seed", "value"]:
            raise ValueError("parameters are %s" % params)
        body = [c for c in inst[0]["inner"] if c.get("kind") == "CompoundStmt"][0].get("inner", []) or []
        if len(body) != 1 or body[0].get("kind") != "CompoundAssignOperator":
            raise ValueError("body is not one compound assignment")
        st = body[0]
        lhs, rhs = st["inner"]
        if lhs.get("kind") != "DeclRefExpr" or (lhs.get("referencedDecl") or {}).get("name") != "seed":
            raise ValueError("assignment target is not the seed")
        for key in ("computeLHSType", "computeResultType"):
            if (st.get(key) or {}).get("qualType") != "unsigned long":
                raise ValueError("compound assignment computes in %s" % (st.get(key) or {}).get("qualType"))
        r, w = _bv_expr(rhs, set(params))
        if w != 64:
            raise ValueError("right-hand side has %d bits" % w)
        cop = {"^=": "^^^", "+=": "+", "|=": "|||", "&=": "&&&", "-=": "-", "*=": "*"}.get(st.get("opcode"))
        if cop is None:
            raise ValueError("compound operator %s" % st.get("opcode"))
        term = "seed %s %s" % (cop, r)
        # seeds of hash(tuple), hash(variant); shape of hash(pair): instantiated bodies
        for what, sig in (("tuple", "tuple<int, long>"), ("variant", "variant<int, long>")):
            fns = _find(root, lambda x: x.get("kind") == "FunctionDecl" and x.get("name") == "hash" and
                        sig in (x.get("type") or {}).get("qualType", "") and
                        any(c.get("kind") == "CompoundStmt" for c in x.get("inner", [])), [])
            if len(fns) != 1:
                raise ValueError("%d instantiations of hash(%s)" % (len(fns), what))
            init = _seed_init(fns[0])
            if init.get("kind") != "IntegerLiteral":
                raise ValueError("seed of hash(%s) is not a literal" % what)
            seeds[what] = init["value"]
        fns = _find(root, lambda x: x.get("kind") == "FunctionDecl" and x.get("name") == "hash" and
                    "pair<int, long>" in (x.get("type") or {}).get("qualType", "") and
                    any(c.get("kind") == "CompoundStmt" for c in x.get("inner", [])), [])
        if len(fns) != 1:
            raise ValueError("%d instantiations of hash(pair)" % len(fns))
        init = _seed_init(fns[0])
        mem = _find(init, lambda x: x.get("kind") == "MemberExpr", [])
        calls = _find(fns[0], lambda x: x.get("kind") == "CallExpr", [])
        comb = [c for c in calls if _find(c["inner"][0], lambda x: (x.get("referencedDecl") or {}).get("name") == "hash_combine_impl", [])]
        if not (init.get("kind") == "CallExpr" and len(mem) == 1 and mem[0].get("name") == "first" and len(comb) == 1):
            raise ValueError("hash(pair) is not 'seed = hash(first); hash_combine_impl(seed, hash(second))'")
        m2 = _find(comb[0], lambda x: x.get("kind") == "MemberExpr", [])
        if [m.get("name") for m in m2] != ["second"]:
            raise ValueError("hash(pair) combines %s" % [m.get("name") for m in m2])
        pair_ok = True
        note = "hash combiner: seed := %s; tuple seed %s, variant seed %s, pair = combine (hash first) (hash second)" % (
            term, seeds["tuple"], seeds["variant"])
    except (ValueError, KeyError, IndexError, json.JSONDecodeError) as e:
        ok = False
        term = "seed"
        note = "hash combiner: extractor no longer recognises the code: " + str(e)
    content = ("-- written by vlib/extract.py from include/nitro/lang/hash.hpp on every run\n"
               "namespace NitroVerif.Generated\n"
               "/-- `detail::hash_combine_impl<unsigned long>`, translated expression by expression. -/\n"
               "def combineSrc (seed value : BitVec 64) : BitVec 64 := %s\n"
               "def tupleSeedSrc : BitVec 64 := %s#64\n"
               "def variantSeedSrc : BitVec 64 := %s#64\n"
               "def pairShapeSrc : Bool := %s\n"
               "def hashExtracted : Bool := %s\n"
               "end NitroVerif.Generated\n") % (term, seeds["tuple"], seeds["variant"],
                                                 "true" if pair_ok else "false", "true" if ok else "false")
    changed = write_if_changed(os.path.join(GEN, "HashCombine.lean"), content)
    return ok, note + (" (file rewritten)" if changed else "")


# ---------------------------------------------------------------------------------------------------------
# C12: `arguments::get(int i)` - the index arithmetic, bit for bit (int is 32 bits, size_type 64).

def extract_positional_index():
    """Generated/PosIndex.lean from include/nitro/options/arguments.hpp.  Returns (ok, note)."""
    ok, body_term = True, "BitVec.signExtend 64 i"
    try:
        objs, err = ast_dump("src/options/parser.cpp", "nitro::options::arguments::get")
        ms = [o for o in objs if o.get("kind") == "CXXMethodDecl" and o.get("name") == "get" and
              (o.get("type") or {}).get("qualType", "").startswith("const std::string &(int)")]
        if len(ms) != 1:
            raise ValueError("%d methods arguments::get(int)" % len(ms))
        params = [c["name"] for c in ms[0]["inner"] if c.get("kind") == "ParmVarDecl"]
        if params != ["i"]:
            raise ValueError("parameters are %s" % params)
        stmts = [c for c in ms[0]["inner"] if c.get("kind") == "CompoundStmt"][0].get("inner", []) or []
        if [x.get("kind") for x in stmts] != ["IfStmt", "ReturnStmt"]:
            raise ValueError("body is not 'if (...) {...} return ...;'")
        cond, then = stmts[0]["inner"][0], stmts[0]["inner"][1]
        if len(stmts[0]["inner"]) != 2:
            raise ValueError("the if has an else branch")
        if cond.get("kind") != "BinaryOperator" or cond.get("opcode") != "<":
            raise ValueError("condition is not a '<' comparison")
        lhs, w = _bv_expr(cond["inner"][0], {"i"})
        rhs, w2 = _bv_expr(cond["inner"][1], {"i"})
        if lhs != "i" or w != 32 or w2 != 32 or not _ity(cond["inner"][0])[1]:
            raise ValueError("condition does not compare the (signed 32-bit) index")
        tst = then.get("inner", []) or []
        if then.get("kind") != "CompoundStmt" or len(tst) != 1 or tst[0].get("kind") != "CompoundAssignOperator":
            raise ValueError("then-branch is not one compound assignment")
        ca = tst[0]
        if ca.get("opcode") != "+=" or (ca["inner"][0].get("referencedDecl") or {}).get("name") != "i":
            raise ValueError("then-branch is not 'i += ...'")
        for key in ("computeLHSType", "computeResultType"):
            if (ca.get(key) or {}).get("qualType") != "int":
                raise ValueError("compound assignment computes in %s" % (ca.get(key) or {}).get("qualType"))
        add = ca["inner"][1]
        if add.get("kind") != "CXXStaticCastExpr" or (add.get("type") or {}).get("qualType") != "int":
            raise ValueError("the addend is not static_cast<int>(...)")
        calls = _find(add, lambda x: x.get("kind") == "CXXMemberCallExpr", [])
        mem = _find(add, lambda x: x.get("kind") == "MemberExpr", [])
        if len(calls) != 1 or [m.get("name") for m in mem] != ["size", "positionals_"]:
            raise ValueError("the addend is not positionals_.size()")
        ret = stmts[1]["inner"][0]
        while ret.get("kind") in ("ImplicitCastExpr", "ParenExpr", "ExprWithCleanups"):
            ret = ret["inner"][0]
        rmem = _find(ret["inner"][0], lambda x: x.get("kind") == "MemberExpr", [])
        if ret.get("kind") != "CXXMemberCallExpr" or [m.get("name") for m in rmem] != ["at", "positionals_"]:
            raise ValueError("the result is not positionals_.at(...)")
        arg = ret["inner"][1]
        if not (arg.get("kind") == "ImplicitCastExpr" and arg.get("castKind") == "IntegralCast"):
            raise ValueError("the argument of at() is not an integral conversion of the index")
        a, wa = _bv_expr(arg["inner"][0], {"i"})
        if a != "i" or wa != 32 or not _ity(arg["inner"][0])[1]:
            raise ValueError("at() is not given the (signed 32-bit) index")
        body_term = "BitVec.signExtend 64 (if BitVec.slt i %s then i + (BitVec.setWidth 32 size) else i)" % rhs
        note = "positional index: at((size_t)(i < %s ? i + (int)size : i))" % rhs
    except (ValueError, KeyError, IndexError, json.JSONDecodeError) as e:
        ok = False
        note = "positional index: extractor no longer recognises the code: " + str(e)
    content = ("-- written by vlib/extract.py from include/nitro/options/arguments.hpp on every run\n"
               "namespace NitroVerif.Generated\n"
               "/-- `arguments::get(int i)`: the argument handed to `positionals_.at(...)`, bit for bit\n"
               "(`int` has 32 bits, `size_type` 64; the conversion of a signed index is a sign extension). -/\n"
               "def getIndexSrc (size : BitVec 64) (i : BitVec 32) : BitVec 64 := %s\n"
               "def posIndexExtracted : Bool := %s\n"
               "end NitroVerif.Generated\n") % (body_term, "true" if ok else "false")
    changed = write_if_changed(os.path.join(GEN, "PosIndex.lean"), content)
    return ok, note + (" (file rewritten)" if changed else "")


# ---------------------------------------------------------------------------------------------------------
# C15: the layout constants of the usage text - the arguments of the two calls of format_padded.

def _calls_of(root, callee):
    return _find(root, lambda x: x.get("kind") == "CallExpr" and x.get("inner") and
                 _find(x["inner"][0], lambda y: (y.get("referencedDecl") or {}).get("name") == callee, []), [])


def _lit(n):
    while n.get("kind") in ("ImplicitCastExpr", "ParenExpr"):
        n = n["inner"][0]
    if n.get("kind") != "IntegerLiteral":
        raise ValueError("expected an integer literal, found %s" % n.get("kind"))
    return int(n["value"])


def extract_usage_layout():
    """Generated/UsageLayout.lean from base::format and parser::usage.  Returns (ok, note)."""
    vals, ok = {"entryPad": 0, "entryWidth": 0, "synBase": 0, "synWidth": 0}, True
    try:
        objs, _ = ast_dump("src/options/parser.cpp", "nitro::options::base::format")
        fm = [o for o in objs if o.get("kind") == "CXXMethodDecl" and o.get("name") == "format"]
        calls = [c for m in fm for c in _calls_of(m, "format_padded")]
        if len(calls) != 1 or len(calls[0]["inner"]) != 5:
            raise ValueError("%d calls of format_padded in base::format" % len(calls))
        vals["entryPad"], vals["entryWidth"] = _lit(calls[0]["inner"][3]), _lit(calls[0]["inner"][4])
        objs, _ = ast_dump("src/options/parser.cpp", "nitro::options::parser::usage")
        um = [o for o in objs if o.get("kind") == "CXXMethodDecl" and o.get("name") == "usage"]
        calls = [c for m in um for c in _calls_of(m, "format_padded")]
        if len(calls) != 1 or len(calls[0]["inner"]) != 5:
            raise ValueError("%d calls of format_padded in parser::usage" % len(calls))
        pad = calls[0]["inner"][3]
        while pad.get("kind") in ("ImplicitCastExpr", "ParenExpr"):
            pad = pad["inner"][0]
        if pad.get("kind") != "BinaryOperator" or pad.get("opcode") != "+":
            raise ValueError("the synopsis padding is not a sum")
        a, b = pad["inner"]
        mem = _find(b, lambda x: x.get("kind") == "MemberExpr", [])
        if [m.get("name") for m in mem][:2] != ["size", "app_name_"]:
            raise ValueError("the synopsis padding is not <literal> + app_name_.size()")
        vals["synBase"], vals["synWidth"] = _lit(a), _lit(calls[0]["inner"][4])
        note = "usage layout: entries format_padded(.., %d, %d); synopsis format_padded(.., %d + |app|, %d)" % (
            vals["entryPad"], vals["entryWidth"], vals["synBase"], vals["synWidth"])
    except (ValueError, KeyError, IndexError, json.JSONDecodeError) as e:
        ok = False
        note = "usage layout: extractor no longer recognises the code: " + str(e)
    content = ("-- written by vlib/extract.py from include/nitro/options/option/base.hpp and src/options/parser.cpp on every run\n"
               "namespace NitroVerif.Generated\n"
               "def entryPadSrc : Int := %d\n"
               "def entryWidthSrc : Int := %d\n"
               "def synopsisPadBaseSrc : Nat := %d\n"
               "def synopsisWidthSrc : Int := %d\n"
               "def usageLayoutExtracted : Bool := %s\n"
               "end NitroVerif.Generated\n") % (vals["entryPad"], vals["entryWidth"], vals["synBase"], vals["synWidth"],
                                                 "true" if ok else "false")
    changed = write_if_changed(os.path.join(GEN, "UsageLayout.lean"), content)
    return ok, note + (" (file rewritten)" if changed else "")
