"""Translators: parts of the model regenerated from /repo's source on every run (clang 14 JSON AST)."""
import json
import os
import subprocess
from . import core

GEN = os.path.join(core.LEAN, "NitroVerif", "Generated")


def ast_dump(rel_src, name_filter):
    p = subprocess.run(["clang++-14", "-std=c++17", "-fsyntax-only", "-I" + os.path.join(core.REPO, "include"),
                        "-Xclang", "-ast-dump=json", "-Xclang", "-ast-dump-filter=" + name_filter,
                        os.path.join(core.REPO, rel_src)], stdout=subprocess.PIPE, stderr=subprocess.PIPE)
    txt = p.stdout.decode("utf-8", "replace")
    dec = json.JSONDecoder()
    i, objs = 0, []
    while i < len(txt):
        while i < len(txt) and txt[i].isspace():
            i += 1
        if i >= len(txt):
            break
        o, i = dec.raw_decode(txt, i)
        objs.append(o)
    return objs, p.stderr.decode("utf-8", "replace")


def walk(n, f):
    f(n)
    for c in n.get("inner", []) or []:
        walk(c, f)


def strip(n):
    """skip implicit casts, parentheses, temporaries"""
    while n.get("kind") in ("ImplicitCastExpr", "ParenExpr", "ExprWithCleanups", "MaterializeTemporaryExpr",
                            "CXXBindTemporaryExpr", "CXXConstructExpr", "CXXFunctionalCastExpr") and len(n.get("inner", [])) == 1:
        n = n["inner"][0]
    return n


def disjunct_literals(cond, var):
    """cond must be  var == "a" || var == "b" || ...  ; returns the literals or raises ValueError"""
    cond = strip(cond)
    if cond.get("kind") == "BinaryOperator" and cond.get("opcode") == "||":
        return disjunct_literals(cond["inner"][0], var) + disjunct_literals(cond["inner"][1], var)
    if cond.get("kind") == "CXXOperatorCallExpr":
        parts = [strip(c) for c in cond["inner"]]
        callee = parts[0]
        opname = (callee.get("referencedDecl") or {}).get("name", "")
        if opname != "operator==":
            raise ValueError("comparison is %s, not ==" % opname)
        args = parts[1:]
        refs = [a for a in args if a.get("kind") == "DeclRefExpr" and (a.get("referencedDecl") or {}).get("name") == var]
        lits = [a for a in args if a.get("kind") == "StringLiteral"]
        if len(refs) != 1 or len(lits) != 1:
            raise ValueError("comparison is not between %s and a string literal" % var)
        return [json.loads(lits[0]["value"])]
    raise ValueError("unexpected condition node " + str(cond.get("kind")))


def lean_chars(s):
    def one(c):
        return "'%s'" % c if (c.isalnum() and ord(c) < 128) else "Char.ofNat %d" % ord(c)
    return "[" + ", ".join(one(c) for c in s) + "]"


def write_if_changed(path, content):
    os.makedirs(os.path.dirname(path), exist_ok=True)
    if os.path.exists(path) and open(path, encoding="utf-8").read() == content:
        return False
    with open(path, "w", encoding="utf-8") as f:
        f.write(content)
    return True


def extract_toggle_vocab():
    """toggle::parse_env_value -> Generated/ToggleVocab.lean.  Returns (ok, note, truthy, falsy)."""
    try:
        objs, err = ast_dump("src/options/toggle.cpp", "parse_env_value")
        defs = [o for o in objs if o.get("name") == "parse_env_value" and
                any(c.get("kind") == "CompoundStmt" for c in o.get("inner", []))]
        if len(defs) != 1:
            raise ValueError("definition of parse_env_value not found (%d candidates) %s" % (len(defs), err[-300:]))
        params = [c for c in defs[0]["inner"] if c.get("kind") == "ParmVarDecl"]
        if len(params) != 1:
            raise ValueError("parse_env_value does not take one parameter")
        var = params[0]["name"]
        body = [c for c in defs[0]["inner"] if c.get("kind") == "CompoundStmt"][0]
        stmts = body.get("inner", [])
        tables = {True: None, False: None}
        tail = []
        for st in stmts:
            if st.get("kind") == "IfStmt" and len(st["inner"]) == 2:
                lits = disjunct_literals(st["inner"][0], var)
                rets = []
                walk(st["inner"][1], lambda n: rets.append(n["value"]) if n.get("kind") == "CXXBoolLiteralExpr" else None)
                nret = []
                walk(st["inner"][1], lambda n: nret.append(1) if n.get("kind") == "ReturnStmt" else None)
                if len(rets) != 1 or len(nret) != 1:
                    raise ValueError("an if branch is not a single 'return true/false'")
                if tables[rets[0]] is not None:
                    raise ValueError("two branches return %s" % rets[0])
                tables[rets[0]] = lits
            else:
                tail.append(st)
        if tables[True] is None or tables[False] is None:
            raise ValueError("did not find one 'return true' and one 'return false' branch")
        # what follows must be the raise of parsing_error (a call, no return)
        raises = False
        for st in tail:
            names = []
            walk(st, lambda n: names.append((n.get("referencedDecl") or {}).get("name")) if n.get("kind") == "DeclRefExpr" else None)
            rets = []
            walk(st, lambda n: rets.append(1) if n.get("kind") == "ReturnStmt" else None)
            if rets:
                raise ValueError("a return statement follows the two tables")
            if "raise" in names:
                raises = True
        if not raises:
            raise ValueError("no raise after the two tables")
    except (ValueError, KeyError, IndexError, json.JSONDecodeError) as e:
        content = ("-- written by vlib/extract.py: the extractor no longer recognises toggle::parse_env_value\n"
                   "namespace NitroVerif.Generated\n"
                   "def truthySrc : List (List Char) := []\n"
                   "def falsySrc : List (List Char) := []\n"
                   "def vocabExtracted : Bool := false\n"
                   "end NitroVerif.Generated\n")
        write_if_changed(os.path.join(GEN, "ToggleVocab.lean"), content)
        return False, "toggle vocabulary: " + str(e), [], []
    content = ("-- written by vlib/extract.py from src/options/toggle.cpp (toggle::parse_env_value) on every run\n"
               "namespace NitroVerif.Generated\n"
               "def truthySrc : List (List Char) := [\n  " + ",\n  ".join(lean_chars(w) for w in tables[True]) + "]\n"
               "def falsySrc : List (List Char) := [\n  " + ",\n  ".join(lean_chars(w) for w in tables[False]) + "]\n"
               "def vocabExtracted : Bool := true\n"
               "end NitroVerif.Generated\n")
    changed = write_if_changed(os.path.join(GEN, "ToggleVocab.lean"), content)
    return True, "toggle vocabulary: %d truthy, %d falsy words extracted%s" % (
        len(tables[True]), len(tables[False]), " (file rewritten)" if changed else ""), tables[True], tables[False]


def _ast_of_header(header, cls):
    import tempfile
    tu = os.path.join(core.BUILD, "extract")
    os.makedirs(tu, exist_ok=True)
    path = os.path.join(tu, cls + "_tu.cpp")
    with open(path, "w") as f:
        f.write("#include <nitro/log/severity.hpp>\n#include <%s>\n" % header)
    p = subprocess.run(["clang++-14", "-std=c++17", "-fsyntax-only", "-I" + os.path.join(core.REPO, "include"),
                        "-Xclang", "-ast-dump=json", "-Xclang", "-ast-dump-filter=" + cls, path],
                       stdout=subprocess.PIPE, stderr=subprocess.PIPE)
    txt = p.stdout.decode("utf-8", "replace")
    dec = json.JSONDecoder()
    i, objs = 0, []
    while i < len(txt):
        while i < len(txt) and txt[i].isspace():
            i += 1
        if i >= len(txt):
            break
        o, i = dec.raw_decode(txt, i)
        objs.append(o)
    return objs


def _sink_program(header, cls, stream_name):
    """returns (program, mutex_static) for class cls's sink() body, or raises ValueError"""
    objs = _ast_of_header(header, cls)
    recs = [o for o in objs if o.get("kind") == "CXXRecordDecl" and o.get("name") == cls and o.get("inner")]
    if len(recs) != 1:
        raise ValueError("class %s not found" % cls)
    methods = {m.get("name"): m for m in recs[0]["inner"] if m.get("kind") == "CXXMethodDecl"}
    if "sink" not in methods:
        raise ValueError("%s::sink not found" % cls)
    body = [c for c in methods["sink"].get("inner", []) if c.get("kind") == "CompoundStmt"]
    if not body:
        raise ValueError("%s::sink has no body" % cls)
    prog = []
    mutex_static = True
    param = [c.get("name") for c in methods["sink"].get("inner", []) if c.get("kind") == "ParmVarDecl"]
    rec_name = param[-1] if param else "formatted_record"
    for st in body[0].get("inner", []):
        if st.get("kind") == "DeclStmt":
            vds = [v for v in st.get("inner", []) if v.get("kind") == "VarDecl"]
            for v in vds:
                ty = v.get("type", {}).get("qualType", "")
                if "lock_guard" in ty or "unique_lock" in ty or "scoped_lock" in ty:
                    prog.append("lock")
                    # which mutex? a member function returning a function-local static, or a static member
                    callee = []
                    walk(v, lambda n: callee.append((n.get("referencedMemberDecl"), n.get("name")))
                         if n.get("kind") == "MemberExpr" else None)
                    refs = []
                    walk(v, lambda n: refs.append(n.get("referencedDecl") or {}) if n.get("kind") == "DeclRefExpr" else None)
                    found_static = False
                    for _, nm in callee:
                        m = methods.get(nm)
                        if m is not None:
                            vars_ = []
                            walk(m, lambda n: vars_.append(n) if n.get("kind") == "VarDecl" else None)
                            if any(x.get("storageClass") == "static" and "mutex" in x.get("type", {}).get("qualType", "")
                                   for x in vars_):
                                found_static = True
                    # a static data member / namespace-scope mutex referenced directly
                    for r in refs:
                        if "mutex" in (r.get("type", {}) or {}).get("qualType", "") and r.get("kind") == "VarDecl":
                            found_static = True
                    if not found_static:
                        mutex_static = False
            continue
        # an expression statement: operands in source order
        ops = []
        walk(st, lambda n: ops.append(((n.get("range", {}).get("begin", {}) or {}).get("offset", 0),
                                       (n.get("referencedDecl") or {}).get("name")))
             if n.get("kind") == "DeclRefExpr" else None)
        names = [nm for _, nm in sorted(ops, key=lambda x: x[0])]
        if stream_name not in names and rec_name not in names and "flush" not in names:
            continue
        for nm in names:
            if nm == rec_name:
                prog.append("write")
            elif nm in ("flush", "endl"):
                prog.append("flush")
    return prog, mutex_static


def extract_mt_sinks():
    """Generated/MtSinks.lean from the sink bodies.  Returns (ok, note)."""
    try:
        so, sm = _sink_program("nitro/log/sink/stdout_mt.hpp", "stdout_mt", "cout")
        se, em = _sink_program("nitro/log/sink/stderr_mt.hpp", "StdErrThreaded", "cerr")
        ok = True
        note = "mt sinks: stdout_mt = %s (static mutex %s), StdErrThreaded = %s (static mutex %s)" % (so, sm, se, em)
    except (ValueError, KeyError, IndexError, json.JSONDecodeError) as e:
        so, se, sm, em, ok = [], [], False, False, False
        note = "mt sinks: extractor no longer recognises the code: " + str(e)

    def lst(p):
        return "[" + ", ".join("." + x for x in p) + "]"
    content = ("-- written by vlib/extract.py from include/nitro/log/sink/{stdout_mt,stderr_mt}.hpp on every run\n"
               "import NitroVerif.Model.MT\n"
               "namespace NitroVerif.Generated\n"
               "open NitroVerif.MT\n"
               "def stdoutSink : List Instr := %s\n"
               "def stderrSink : List Instr := %s\n"
               "def stdoutMutexStatic : Bool := %s\n"
               "def stderrMutexStatic : Bool := %s\n"
               "def mtExtracted : Bool := %s\n"
               "end NitroVerif.Generated\n") % (lst(so), lst(se), "true" if sm else "false", "true" if em else "false",
                                                 "true" if ok else "false")
    changed = write_if_changed(os.path.join(GEN, "MtSinks.lean"), content)
    return ok, note + (" (file rewritten)" if changed else "")
