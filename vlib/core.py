"""Runner shared by all checks: Lean build + axiom audit, harness build from /repo's
working tree, correspondence run (implementation vs Lean model), property predicate on
the implementation's answers, verdict, evidence, replay files.  Standard library only."""
import fcntl
import hashlib
import json
import os
import re
import shutil
import subprocess
import sys
import time

VERIF = os.path.dirname(os.path.dirname(os.path.abspath(__file__)))
REPO = os.environ.get("NITRO_REPO", "/repo")
BUILD = os.path.join(VERIF, ".build")
LEAN = os.path.join(VERIF, "lean")
DRIVER = os.path.join(LEAN, ".lake", "build", "bin", "nvdriver")
HOOK_GUARD = "NITRO_VERIF"
ALLOWED_AXIOMS = {"propext", "Classical.choice", "Quot.sound"}
FORBIDDEN = re.compile(
    r"\bsorry\b|\badmit\b|^\s*axiom\s|native_decide|bv_decide|implemented_by|\bunsafe\s|maxHeartbeats\s+0")

CXX = os.environ.get("CXX", "g++")
SAN_FLAGS = ["-std=c++17", "-O1", "-g", "-fsanitize=address,undefined",
             "-fno-sanitize-recover=all", "-fno-omit-frame-pointer", "-D" + HOOK_GUARD]
ASAN_ENV = {
    "ASAN_OPTIONS": "detect_stack_use_after_return=1:detect_leaks=1:abort_on_error=0:exitcode=66:"
                    "allocator_may_return_null=1",
    "UBSAN_OPTIONS": "print_stacktrace=0:halt_on_error=1:exitcode=67",
    "LSAN_OPTIONS": "exitcode=68",
}


class Rng:
    """splitmix64; every random choice of a run derives from one state (VERIF_SEED)."""

    def __init__(self, seed):
        self.s = seed & 0xFFFFFFFFFFFFFFFF

    def next(self):
        self.s = (self.s + 0x9E3779B97F4A7C15) & 0xFFFFFFFFFFFFFFFF
        z = self.s
        z = ((z ^ (z >> 30)) * 0xBF58476D1CE4E5B9) & 0xFFFFFFFFFFFFFFFF
        z = ((z ^ (z >> 27)) * 0x94D049BB133111EB) & 0xFFFFFFFFFFFFFFFF
        return z ^ (z >> 31)

    def below(self, n):
        return self.next() % n if n > 0 else 0

    def choice(self, xs):
        return xs[self.below(len(xs))]

    def chance(self, num, den):
        return self.below(den) < num

    def shuffle(self, xs):
        xs = list(xs)
        for i in range(len(xs) - 1, 0, -1):
            j = self.below(i + 1)
            xs[i], xs[j] = xs[j], xs[i]
        return xs

    def fork(self, tag):
        h = hashlib.sha256(("%d/%s" % (self.s, tag)).encode()).digest()
        return Rng(int.from_bytes(h[:8], "big"))


def hexs(b):
    if isinstance(b, str):
        b = b.encode("latin-1")
    return b.hex() if b else "-"


def hexl(xs):
    return ",".join(hexs(x) for x in xs) if xs else "."


def unhexs(s):
    return b"" if s == "-" else bytes.fromhex(s)


def sha_files(paths):
    h = hashlib.sha256()
    for p in sorted(paths):
        h.update(p.encode())
        try:
            with open(p, "rb") as f:
                h.update(f.read())
        except OSError:
            h.update(b"<missing>")
    return h.hexdigest()


def repo_files():
    out = []
    for sub in ("include", "src"):
        for root, _, files in os.walk(os.path.join(REPO, sub)):
            for f in files:
                out.append(os.path.join(root, f))
    return out


_repo_hash = None


def repo_hash():
    global _repo_hash
    if _repo_hash is None:
        _repo_hash = sha_files(repo_files())
    return _repo_hash


class Lock:
    def __init__(self, name):
        os.makedirs(BUILD, exist_ok=True)
        self.path = os.path.join(BUILD, name + ".lock")

    def __enter__(self):
        self.f = open(self.path, "w")
        fcntl.flock(self.f, fcntl.LOCK_EX)
        return self

    def __exit__(self, *a):
        fcntl.flock(self.f, fcntl.LOCK_UN)
        self.f.close()


def run(cmd, **kw):
    return subprocess.run(cmd, stdout=subprocess.PIPE, stderr=subprocess.PIPE, **kw)


# ----------------------------------------------------------------------------- Lean

def lean_build(targets):
    """lake build of the given modules + the driver; returns (ok, log)."""
    with Lock("lake"):
        t0 = time.time()
        p = run(["lake", "build"] + list(targets) + ["nvdriver"], cwd=LEAN)
        log = (p.stdout + p.stderr).decode("utf-8", "replace")
        return p.returncode == 0, log, time.time() - t0


AUDIT_TMPL = """import Lean
%(imports)s
open Lean Elab Command in
run_cmd do
  let env ← getEnv
  let nss : List Name := [%(nss)s]
  let mut names : Array Name := #[]
  for (n, ci) in env.constants.toList do
    if nss.any (fun ns => ns.isPrefixOf n) && !n.isInternalDetail && (privateToUserName? n).isNone then
      match ci with
      | .thmInfo _ => names := names.push n
      | _ => pure ()
  for n in names.qsort (fun a b => a.toString < b.toString) do
    let ax ← liftCoreM (collectAxioms n)
    logInfo m!"THM {n} | {" ".intercalate (ax.toList.map toString)}"
"""


def lean_audit(prop_id, modules):
    """Lists every public theorem in the property namespaces with its axioms."""
    d = os.path.join(BUILD, "audit")
    os.makedirs(d, exist_ok=True)
    path = os.path.join(d, prop_id + ".lean")
    with open(path, "w") as f:
        f.write(AUDIT_TMPL % {
            "imports": "\n".join("import " + m for m in modules),
            "nss": ", ".join("`" + m for m in modules)})
    p = run(["lake", "env", "lean", path], cwd=LEAN)
    out = (p.stdout + p.stderr).decode("utf-8", "replace")
    thms = []
    for m in re.finditer(r"THM (\S+) \|([^\n]*)", out):
        thms.append((m.group(1), m.group(2).split()))
    return p.returncode == 0, thms, out


def strip_lean_comments(src):
    # block comments (nesting) and line comments
    out, i, depth = [], 0, 0
    while i < len(src):
        if src.startswith("/-", i):
            depth += 1
            i += 2
        elif depth and src.startswith("-/", i):
            depth -= 1
            i += 2
        elif depth:
            if src[i] == "\n":
                out.append("\n")
            i += 1
        elif src.startswith("--", i):
            while i < len(src) and src[i] != "\n":
                i += 1
        else:
            out.append(src[i])
            i += 1
    return "".join(out)


def lean_source_audit():
    """grep for sorry/admit/axiom/native_decide/... in all project sources (comments stripped)."""
    hits = []
    for root, dirs, files in os.walk(LEAN):
        dirs[:] = [d for d in dirs if d != ".lake"]
        for f in files:
            if f.endswith(".lean"):
                p = os.path.join(root, f)
                src = strip_lean_comments(open(p, encoding="utf-8").read())
                for n, line in enumerate(src.split("\n"), 1):
                    if FORBIDDEN.search(line):
                        hits.append("%s:%d: %s" % (os.path.relpath(p, VERIF), n, line.strip()))
    return hits


def leanchecker(module):
    p = run(["lake", "env", "leanchecker", module], cwd=LEAN)
    return p.returncode == 0, (p.stdout + p.stderr).decode("utf-8", "replace")[-2000:]


# ------------------------------------------------------------------------- harness

def prune_cache():
    d = os.path.join(BUILD, "bin")
    if not os.path.isdir(d):
        return
    ents = sorted((os.path.getmtime(os.path.join(d, e)), e) for e in os.listdir(d))
    by_name = {}
    for _, e in ents:
        by_name.setdefault(e.split(".")[0], []).append(e)
    for name, es in by_name.items():
        for e in es[:-3]:
            shutil.rmtree(os.path.join(d, e), ignore_errors=True)


def build_harness(name, source, repo_srcs=(), flags=(), extra_sources=(), san=True, variant="", shared_libs=()):
    """Compiles /verif/harness/<source> against REPO's current working tree.  Cached by the
    content hash of REPO/{include,src}, the harness sources and the flags."""
    src = os.path.join(VERIF, "harness", source)
    extra = [os.path.join(VERIF, "harness", e) for e in extra_sources]
    base = (SAN_FLAGS if san else ["-std=c++17", "-O1", "-g", "-D" + HOOK_GUARD]) + list(flags)
    key = hashlib.sha256((repo_hash() + sha_files(
        [src, os.path.join(VERIF, "harness", "common.hpp")] + extra +
        [os.path.join(VERIF, "harness", sl[0]) for sl in shared_libs]) + " ".join(base) +
        " ".join(repo_srcs)).encode()).hexdigest()[:20]
    d = os.path.join(BUILD, "bin", "%s%s.%s" % (name, variant, key))
    exe = os.path.join(d, name)
    if os.path.exists(exe):
        os.utime(d)
        return True, exe, "cached"
    with Lock("cxx-" + name + variant):
        if os.path.exists(exe):
            return True, exe, "cached"
        os.makedirs(d, exist_ok=True)
        srcs = [src] + extra + [os.path.join(REPO, s) for s in repo_srcs]
        objs, procs = [], []
        for i, s in enumerate(srcs):
            o = os.path.join(d, "o%d.o" % i)
            objs.append(o)
            procs.append(subprocess.Popen(
                [CXX] + base + ["-I" + os.path.join(REPO, "include"),
                                "-I" + os.path.join(VERIF, "harness"), "-c", s, "-o", o],
                stdout=subprocess.PIPE, stderr=subprocess.STDOUT))
        log = ""
        ok = True
        for pr in procs:
            out, _ = pr.communicate()
            log += out.decode("utf-8", "replace")
            ok = ok and pr.returncode == 0
        for sl_src, sl_out, copies in shared_libs:
            p = run([CXX, "-shared", "-fPIC", "-O1", os.path.join(VERIF, "harness", sl_src), "-o",
                     os.path.join(d, sl_out)])
            log += (p.stdout + p.stderr).decode("utf-8", "replace")
            ok = ok and p.returncode == 0
            for k in range(copies):
                shutil.copyfile(os.path.join(d, sl_out), os.path.join(d, sl_out.replace(".so", "_%d.so" % k)))
        if ok:
            link_flags = [f for f in base if f.startswith("-fsanitize") or f in ("-pthread",)] + \
                         [f for f in flags if f.startswith("-Wl,") or f.startswith("-l")]
            p = run([CXX] + link_flags + objs + ["-o", exe + ".tmp", "-ldl", "-pthread"])
            log += (p.stdout + p.stderr).decode("utf-8", "replace")
            ok = p.returncode == 0
            if ok:
                os.rename(exe + ".tmp", exe)
        for o in objs:
            if os.path.exists(o):
                os.unlink(o)
        if not ok:
            shutil.rmtree(d, ignore_errors=True)
        prune_cache()
        return ok, exe, log


def crash_kind(stderr, rc):
    s = stderr.decode("utf-8", "replace")
    if "AddressSanitizer" in s:
        m = re.search(r"AddressSanitizer: ([a-z\-A-Z]+)", s)
        return "crash:asan:" + (m.group(1) if m else "?")
    if "LeakSanitizer" in s:
        return "crash:lsan"
    if "runtime error" in s:
        m = re.search(r"runtime error: ([^\n]{0,60})", s)
        return "crash:ubsan:" + (m.group(1).replace("\t", " ") if m else "?")
    if "terminate called" in s:
        return "crash:terminate"
    return "crash:rc%d" % rc


def run_impl_serial(exe, cases, env=None, max_restarts=40, per_batch_timeout=1800):
    """Feeds the cases to the harness; a dying harness is an answer for the case it was
    executing (crash:<kind>) and the run resumes behind it."""
    answers = []
    e = dict(os.environ)
    e.update(ASAN_ENV)
    if env:
        e.update(env)
    k, restarts, crashes = 0, 0, []
    while k < len(cases):
        data = ("\n".join(cases[k:]) + "\n").encode("latin-1")
        try:
            p = subprocess.run([exe], input=data, stdout=subprocess.PIPE, stderr=subprocess.PIPE,
                               env=e, timeout=per_batch_timeout)
            out, err, rc = p.stdout, p.stderr, p.returncode
        except subprocess.TimeoutExpired as ex:
            out, err, rc = ex.stdout or b"", b"", -99
        lines = out.decode("latin-1").split("\n")
        if lines and lines[-1] == "":
            lines.pop()
        complete = lines
        if rc == 0 and len(complete) == len(cases) - k:
            answers.extend(complete)
            break
        # died: the case after the last complete answer is the culprit
        if complete and complete[-1] == "crash:timeout":
            complete.pop()
            kind = "crash:timeout"
        elif rc == -99:
            kind = "crash:timeout"
        elif rc == 0:
            kind = "crash:short-output"
        else:
            kind = crash_kind(err, rc)
        complete = complete[:len(cases) - k]
        answers.extend(complete)
        k += len(complete)
        if k < len(cases):
            answers.append(kind)
            crashes.append((k, kind, err.decode("utf-8", "replace")[-1500:]))
            k += 1
        restarts += 1
        if restarts > max_restarts:
            answers.extend(["skipped"] * (len(cases) - len(answers)))
            break
    return answers, crashes


def run_impl(exe, cases, env=None, jobs=None, max_restarts=40):
    """Parallel front end of run_impl_serial: contiguous chunks, one harness process each."""
    jobs = jobs or min(16, os.cpu_count() or 4)
    if len(cases) < 400 or jobs <= 1:
        return run_impl_serial(exe, cases, env, max_restarts)
    from concurrent.futures import ThreadPoolExecutor
    n = len(cases)
    size = (n + jobs - 1) // jobs
    chunks = [(k, cases[k:k + size]) for k in range(0, n, size)]
    per = max(3, max_restarts // len(chunks) + 2)
    with ThreadPoolExecutor(len(chunks)) as ex:
        res = list(ex.map(lambda c: run_impl_serial(exe, c[1], env, per), chunks))
    answers, crashes = [], []
    for (k, _), (a, cr) in zip(chunks, res):
        answers.extend(a)
        crashes.extend((k + i, kind, err) for i, kind, err in cr)
    return answers, crashes


def _run_driver_one(mode, lines):
    data = ("\n".join(lines) + "\n").encode("latin-1")
    p = subprocess.run([DRIVER, mode], input=data, stdout=subprocess.PIPE, stderr=subprocess.PIPE)
    out = p.stdout.decode("latin-1").split("\n")
    if out and out[-1] == "":
        out.pop()
    if p.returncode != 0 or len(out) != len(lines):
        raise RuntimeError("driver %s failed rc=%d lines=%d/%d: %s" % (
            mode, p.returncode, len(out), len(lines), p.stderr.decode("utf-8", "replace")[-500:]))
    return out


def run_driver(mode, lines):
    """The Lean driver answers line by line and keeps no state between lines: the lines are dealt round-robin to up
    to 16 driver processes and the answers are put back in order."""
    if not lines:
        return []
    k = min(16, max(1, len(lines) // 8))
    if k == 1:
        return _run_driver_one(mode, lines)
    from concurrent.futures import ThreadPoolExecutor
    parts = [lines[i::k] for i in range(k)]
    with ThreadPoolExecutor(max_workers=k) as ex:
        outs = list(ex.map(lambda part: _run_driver_one(mode, part), parts))
    res = [None] * len(lines)
    for i, o in enumerate(outs):
        res[i::k] = o
    return res


def load_known():
    p = os.path.join(VERIF, "known_findings.json")
    if not os.path.exists(p):
        return {"findings": [], "fixed": []}
    return json.load(open(p))


def corpus_cases(prop_id):
    d = os.path.join(VERIF, "corpus", prop_id)
    out = []
    if os.path.isdir(d):
        for f in sorted(os.listdir(d)):
            if f.endswith(".case"):
                for line in open(os.path.join(d, f), encoding="latin-1"):
                    line = line.rstrip("\n")
                    if line and not line.startswith("#"):
                        out.append(line)
    return out
