"""Regenerates every Generated/*.lean file from /repo's current source (run by setup.sh)."""
import sys
from . import extract


def main():
    ok1, n1, _, _ = extract.extract_toggle_vocab()
    ok2, n2 = extract.extract_mt_sinks()
    ok3, n3 = extract.extract_hash_combine()
    ok4, n4 = extract.extract_positional_index()
    ok5, n5 = extract.extract_usage_layout()
    print(n1)
    print(n2)
    print(n3)
    print(n4)
    print(n5)
    return 0


if __name__ == "__main__":
    sys.exit(main())
