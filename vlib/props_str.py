"""C17 — string helpers."""
from .check import Prop
from .core import hexs, hexl
from .gen import strings, case, rand_string

HARNESS = dict(name="str", source="str.cpp")


def gen_c17(tier, rng):
    out = []
    big = tier == "thorough"
    for alpha in ("ab", "a "):
        ss = list(strings(alpha, 8 if big else 7))
        seps = list(strings(alpha, 3))
        for s in ss:
            for sep in seps:
                out.append(case("str", "split", hexs(s), hexs(sep)))
        ss5 = list(strings(alpha, 6 if big else 5))
        small = list(strings(alpha, 2))
        for s in ss5:
            for pat in small:
                for rep in small:
                    out.append(case("str", "repl", hexs(s), hexs(pat), hexs(rep)))
        for full in ss5:
            for b in seps:
                out.append(case("str", "sw", hexs(full), hexs(b)))
    elems = list(strings("a ", 2))
    for n in range(0, 5 if big else 4):
        import itertools
        for xs in itertools.product(elems, repeat=n):
            for sep in ("", " ", ",", ", "):
                out.append(case("str", "join", hexl(list(xs)), hexs(sep)))
    # random longer ones, arbitrary bytes included
    n = 20000 if big else 3000
    alphas = ["ab", "abc ", "a,; \t", "".join(chr(c) for c in (0, 1, 97, 98, 255, 128, 10))]
    for _ in range(n):
        a = rng.choice(alphas)
        k = rng.below(4)
        s = rand_string(rng, a, 40)
        if k == 0:
            sep = rand_string(rng, a, 3)
            # make occurrences likely: build s from pieces
            if sep and rng.chance(1, 2):
                s = sep.join(rand_string(rng, a, 4) for _ in range(rng.below(6)))
            out.append(case("str", "split", hexs(s), hexs(sep)))
        elif k == 1:
            pat, rep = rand_string(rng, a, 3), rand_string(rng, a, 4)
            if pat and rng.chance(1, 2):
                rep = rep + pat + rep
            out.append(case("str", "repl", hexs(s), hexs(pat), hexs(rep)))
        elif k == 2:
            b = s[:rng.below(len(s) + 1)] if rng.chance(2, 3) else rand_string(rng, a, 5)
            out.append(case("str", "sw", hexs(s), hexs(b)))
        else:
            xs = [rand_string(rng, a, 4) for _ in range(rng.below(7))]
            out.append(case("str", "join", hexl(xs), hexs(rand_string(rng, a, 3))))
    return out


def search_c17(disagreeing, rng):
    out = gen_c17("thorough", rng)
    return out


C17 = Prop(
    "C17", "str", ["NitroVerif.Props.C17"], gen_c17,
    rule="exhaustive: all (s,sep) |s|<=7,|sep|<=3, all (s,pat,rep) |s|<=5,|pat|,|rep|<=2, all (full,b) "
         "|full|<=5,|b|<=3 over {a,b} and {a,blank}; all lists of <=3 elements of length <=2 over {a,blank} x 4 "
         "infixes; plus seeded random longer ones over 4 alphabets incl. NUL/0xff bytes. Non-trivial: the "
         "separator/pattern occurs at least once (or is empty), the prefix test is true or the candidate "
         "occurs further inside, the list has an empty element or >=2 elements. Distinct = distinct case line.",
    harness=HARNESS, search=search_c17,
    theorem_hint="NitroVerif.Props.C17.{split_join,split_count,split_clean,replace_is_single_pass,"
                 "replace_is_split_glue,replace_empty_pattern,starts_with_iff_prefix,join_spec}",
    level_text="Lean 4 theorems over all strings/separators/lists (no length bound) about a hand-written model of "
               "string.hpp: glue-back, piece count, separator-free pieces, replace_all = single pass = glue of split, "
               "prefix relation, join = non-empty elements glued; the model is tied to the working tree by a "
               "differential run (exhaustive small scope + seeded random, ASan/UBSan, 1 s watchdog for hangs).",
    level_note="Trusted: Lean kernel; propext/Classical.choice/Quot.sound; the model/implementation correspondence is "
               "sampled, not proved; std::string::find and stringstream insertion are modelled.",
    technique="Lean 4 proof (induction over the scan) + differential correspondence",
    design_ref="4 Engine Str (C17)",
    assumptions=["std::string::find(needle,pos) returns the leftmost occurrence at or after pos (model find?)",
                 "operator<< of a std::string into a stringstream appends exactly its bytes"],
)

C17.rule += (" Every join case is repeated over elements of a user-defined type whose inserters leave number base, fill, a pending width or the failed "
             "state behind: the text is the join of what each element prints alone.")
