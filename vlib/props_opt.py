"""C01-C04, C11-C14 — the option parser."""
import itertools
from .check import Prop
from .core import hexs, hexl
from .gen import strings
from . import optgen as og
from .optgen import O, D, pcase, env_enc
from . import extract

HARNESS = dict(name="opt", source="opt.cpp",
               repo_srcs=["src/options/parser.cpp", "src/options/option.cpp", "src/options/multi_option.cpp",
                          "src/options/toggle.cpp", "src/options/group.cpp", "src/env/get.cpp"])


def reduced(alpha, d, keep=22):
    """a smaller alphabet that still holds one token of every relation class"""
    pri = []
    for t in alpha:
        if t in ("v", "--", "-", "--zz", "-z", "a=b"):
            pri.append(t)
    for i in d.items[:4]:
        pri += ["--" + i.name, "--" + i.name + "=w"]
        if i.short:
            pri += ["-" + i.short]
    pri += [t for t in alpha if len(t) >= 3 and t[0] == "-" and t[1] != "-" and "=" not in t][:6]
    pri += ["--no-" + i.name for i in d.togs()[:2]]
    out = []
    for t in pri + alpha:
        if t in alpha and t not in out:
            out.append(t)
    return out[:keep]


def random_argv_cases(tag, rng, n):
    out = []
    for _ in range(n):
        d = og.rand_decl(rng)
        al = og.alphabet(d)
        argv = [rng.choice(al) for _ in range(rng.below(13))]
        env = {}
        for i in d.items:
            if i.env and rng.chance(1, 2):
                env[i.env] = rng.choice(["", "v", "TRUE", "off", "a;b", "-5", "--x=y", "maybe"])
        out.append(pcase(tag, d, env, argv))
    return out


def gen_c01(tier, rng):
    big = tier == "thorough"
    out = []
    ts = og.templates()
    for d in ts:
        al = og.alphabet(d)
        for argv in og.all_argv(al, 2):
            out.append(pcase("C01", d, {}, argv))
    for d in (ts[:5] if big else [ts[0], ts[1], ts[3]]):
        al = reduced(og.alphabet(d), d, 30 if big else 20)
        for argv in og.all_argv(al, 3):
            if len(argv) == 3:
                out.append(pcase("C01", d, {}, argv))
    if big:
        for d in (ts[0], ts[1]):
            al = reduced(og.alphabet(d), d, 14)
            for argv in og.all_argv(al, 4):
                if len(argv) == 4:
                    out.append(pcase("C01", d, {}, argv))
    out += random_argv_cases("C01", rng, 40000 if big else 4000)
    return with_histories(with_moved(out, rng, 6000 if tier == "thorough" else 1500), rng, 2400 if tier == "thorough" else 600)


VALUES = ["", "v", "a=b", "=", " ", "x y", "--x", "-", "-5", "x\ny", "a\rb", "\xff\x80", "z" * 200, "--", "42", "-17",
          "2147483647", "-2147483648", "007", "010", "08", "-010", "0123", "00", "no", "=="]


def spell_cases(tag, rng, n):
    """generator with inverse: draw an assignment, draw a spelling, render, (the judge interprets)"""
    out = []
    ts = og.templates()
    for _ in range(n):
        d = rng.choice(ts[:5] + [og.rand_decl(rng) for _ in range(2)])
        items = []
        for i in d.items:
            if i.kind == "o" and rng.chance(2, 3):
                items.append(("val", i, rng.choice(VALUES)))
            elif i.kind == "m":
                for _ in range(rng.below(4)):
                    items.append(("val", i, rng.choice(VALUES)))
            elif i.kind == "t":
                r = rng.below(6)
                if r == 0 and i.flag:
                    for _ in range(1 + rng.below(2)):
                        items.append(("neg", i, None))
                elif r < 4:
                    for _ in range(rng.below(4)):
                        items.append(("tog", i, None))
        # permute, keeping the relative order of each multi-option's values (any permutation does: the
        # expected result is computed from the rendered vector by the specification)
        items = rng.shuffle(items)
        npos = rng.below(4)
        if d.allowed is not None:
            npos = min(npos, d.allowed)
        toks = []
        pending_bundle = []

        def flush():
            if pending_bundle:
                toks.append("-" + "".join(pending_bundle))
                del pending_bundle[:]

        pos_left = npos
        for kind, i, v in items:
            if kind == "tog" and i.short and rng.chance(2, 3):
                pending_bundle.append(i.short)
                if rng.chance(1, 2):
                    flush()
                continue
            flush()
            if kind == "tog":
                toks.append("--" + i.name)
            elif kind == "neg":
                toks.append("--no-" + i.name)
            else:
                form = rng.below(4)
                short = i.short is not None and form in (1, 3)
                head = ("-" + i.short) if short else ("--" + i.name)
                if form >= 2 or v.startswith("-"):
                    toks.append(head + "=" + v)
                else:
                    toks += [head, v]
            if pos_left and not d.greedy and rng.chance(1, 4):
                toks.append(rng.choice(["p1", "", "a=b", "p p"]))
                pos_left -= 1
        flush()
        if pos_left:
            if rng.chance(1, 2) or d.greedy:
                toks.append("--")
                toks += [rng.choice(["p", "--", "-", "---x", "-=x", "--out", "-v", "\xff"]) for _ in range(pos_left)]
            else:
                toks += [rng.choice(["p", "q=r", ""]) for _ in range(pos_left)]
        env = {}
        out.append(pcase(tag, d, env, toks))
    return out


def gen_c02(tier, rng):
    big = tier == "thorough"
    out = spell_cases("C02", rng, 60000 if big else 8000)
    # every value through every form, one option at a time
    d = D([O("o", "opt", "o", flag=True), O("m", "mul", "m", flag=True)], allowed=None)
    for v in VALUES:
        for head in ("--opt", "-o", "--mul", "-m"):
            out.append(pcase("C02", d, {}, [head + "=" + v]))
            if not v.startswith("-"):
                out.append(pcase("C02", d, {}, [head, v]))
            out.append(pcase("C02", d, {}, ["--", v]))
    return with_histories(with_moved(out, rng, 6000 if tier == "thorough" else 1500), rng, 2400 if tier == "thorough" else 600)


ENV_VALUES = [None, "", "v", "--a=b", "-5", "-", "a;b", ";", "x;", "a=b", ";;", "a;;b", ";a", " ", "TRUE", "off", "maybe",
              "\xff;\x01",
              # the environment says exactly what the declared default says (option "dv", multi-option d1;d2)
              "dv", "d1;d2", "cli"]


def hist_defaults(tag):
    """on every template: a parse that falls back on the declared defaults, then a parse that gives the option (each
    spelling), then the defaults again — one parser object, plain and moved in between"""
    out = []
    extra = D([O("t", "lvl", "l", dflt=2, flag=True), O("t", "on", "n", dflt=1), O("o", "out", "o", dflt="dv"),
               O("m", "inc", "I", dflt=["d1", "d2"]), O("o", "req", "r", env="NV_R", flag=True)], allowed=None)
    for d in og.templates() + [extra]:
        for it in d.items:
            if it.dflt is None:
                continue
            if it.kind == "t":
                gives = [["--" + it.name]] + ([["-" + it.short], ["-" + it.short * 2]] if it.short else []) + \
                        ([["--no-" + it.name]] if it.flag else [])
            else:
                gives = [["--" + it.name, "x"], ["--" + it.name + "=x"]] + ([["-" + it.short, "x"]] if it.short else [])
            base = [a for a in ([],) ]
            # whatever else the template requires is given every time
            req = []
            for o in d.items:
                if o.kind in "om" and o.dflt is None and not o.flag and o is not it:
                    req += ["--" + o.name, "r"]
            for g in gives:
                for op in ("H", "HM"):
                    out.append("\t".join(["opt", tag, op, d.enc(), env_enc({}), hexl(req), env_enc({}), hexl(req + g),
                                          env_enc({}), hexl(req)]))
    return out


def with_histories(cases, rng, n):
    """pairs of parses of the family on ONE parser object (plain, and with the parser moved in between): what the
    property says about a parse holds for every parse, not only for the first one on a fresh parser"""
    by_decl = {}
    for c in cases:
        f = c.split("\t")
        if len(f) == 6 and f[2] == "P":
            by_decl.setdefault((f[1], f[3]), []).append((f[4], f[5]))
    keys = [k for k, v in by_decl.items() if len(v) >= 2]
    out = []
    for _ in range(n if keys else 0):
        tag, decl = rng.choice(keys)
        a, b = rng.choice(by_decl[(tag, decl)]), rng.choice(by_decl[(tag, decl)])
        if rng.chance(1, 3):
            a = (env_enc({}), hexl([]))      # the first parse falls back on the defaults
        out.append("\t".join(["opt", tag, rng.choice(["H", "H", "HM"]), decl, a[0], a[1], b[0], b[1]]))
    tags = sorted({k[0] for k in by_decl})
    return cases + out + (hist_defaults(tags[0]) if tags else [])


def with_moved(cases, rng, n):
    """the same parses on a parser object that was move-constructed (PM1) / move-assigned (PM2) after its declaration"""
    ps = [c for c in cases if "\tP\t" in c]
    pick = rng.shuffle(ps)[:n]
    return cases + [c.replace("\tP\t", "\tPM1\t", 1) for c in pick] + [c.replace("\tP\t", "\tPM2\t", 1) for c in pick]


def gen_c03(tier, rng):
    out = []
    for kind in "omt":
        for cli in (False, True):
            for ev in ENV_VALUES:
                for dflt in (False, True):
                    for opt in (False, True):
                        for bound in ((True, False) if ev is None else (True,)):
                            if kind == "o":
                                it = O("o", "x", "x", "NV_X" if bound else None, "dv" if dflt else None, opt)
                                argv = ["--x", "cli"] if cli else []
                            elif kind == "m":
                                it = O("m", "x", "x", "NV_X" if bound else None, ["d1", "d2"] if dflt else None, opt)
                                argv = ["--x", "c1", "-x=c2"] if cli else []
                            else:
                                it = O("t", "x", "x", "NV_X" if bound else None, 2 if dflt else None, opt)
                                argv = ["-xx"] if cli else []
                            d = D([it, O("t", "other", "o")], allowed=0)
                            env = {} if ev is None else {"NV_X": ev}
                            out.append(pcase("C03", d, env, argv))
                            if kind == "t" and cli and opt:
                                out.append(pcase("C03", d, env, ["--no-x"]))
    n = 20000 if tier == "thorough" else 2000
    for _ in range(n):
        d = og.rand_decl(rng)
        env = {}
        for i in d.items:
            if i.env and rng.chance(2, 3):
                env[i.env] = rng.choice([e for e in ENV_VALUES if e is not None] +
                                        ["".join(chr(1 + rng.below(255)) for _ in range(rng.below(6)))])
                # now and then the environment repeats the declared default
                if i.kind == "o" and isinstance(i.dflt, str) and i.dflt and rng.chance(1, 3):
                    env[i.env] = i.dflt
                if i.kind == "m" and isinstance(i.dflt, list) and i.dflt and rng.chance(1, 3):
                    env[i.env] = ";".join(i.dflt)
        al = [t for t in og.alphabet(d) if t.startswith("--") and "zz" not in t and "no-" not in t] + ["val"]
        argv = [rng.choice(al) for _ in range(rng.below(4))] if al else []
        out.append(pcase("C03", d, env, argv))
    return with_histories(with_moved(out, rng, 3200 if tier == "thorough" else 800), rng, 2400 if tier == "thorough" else 600)


def tcase(tok):
    return "\t".join(["opt", "C04", "T", hexs(tok)])


def gen_c04(tier, rng):
    big = tier == "thorough"
    out = []
    # token syntax, exhaustively
    for tok in strings("-=ano\n", 6 if big else 5):
        out.append(tcase(tok))
    ts = og.templates()
    for d in ts:
        al = og.alphabet(d)
        for argv in og.all_argv(al, 2):
            out.append(pcase("C04", d, {}, argv))
    out += [c.replace("\tC01\t", "\tC04\t") for c in random_argv_cases("C01", rng, 30000 if big else 3000)]
    out += [c.replace("\tC02\t", "\tC04\t") for c in spell_cases("C02", rng, 2000)]
    # arbitrary byte strings
    for _ in range(20000 if big else 2500):
        d = rng.choice(ts)
        argv = []
        for _ in range(rng.below(6)):
            n = rng.below(8)
            argv.append("".join(chr(rng.choice([45, 45, 45, 61, 97, 110, 111, 118, 0x80, 10, 1 + rng.below(255)]))
                                for _ in range(n)))
        out.append(pcase("C04", d, {}, argv))
    # characters that mean something to formatting / pattern / shell machinery, in every role a token can have
    metas = ["{}", "{", "}", "{}{}", "x{}y", "{0}", "%s", "%n%n", "%", "%d{}", "\\", "$(x)", "*", ".*", "[a", "(", ")", "\\{\\}",
             "\"", "'", "`", "\t", "\x7f", "\x01"]
    for d in (ts[0], ts[2], ts[5], ts[6]):
        longs = [i.name for i in d.vals()][:1]
        tl = [i.short for i in d.togs() if i.short][:1]
        for m in metas:
            toks = ["--" + m, "--" + m + "=v", "--zz=" + m, "-" + m, "-z" + m, "-z=" + m, m, "--no-" + m]
            toks += ["--" + n + "=" + m for n in longs] + ["--" + n + m for n in longs] + ["-" + x + m for x in tl]
            for t in toks:
                out.append(pcase("C04", d, {}, [t]))
                out.append(pcase("C04", d, {}, ["v", t]))
            for n in longs:
                out.append(pcase("C04", d, {}, ["--" + n, m]))
            out.append(pcase("C04", d, {}, ["--", m, "--" + m]))
    # (histories on inconsistent declarations: see below, behind the single parses)
    # inconsistent declarations: two options share a letter / an option is called no-<toggle>
    bad1 = D([O("t", "a", "x"), O("o", "b", "x", flag=True)], allowed=None)
    bad2 = D([O("t", "x", "x", flag=True), O("o", "no-x", flag=True)], allowed=None)
    bad3 = D([O("m", "a", "m", flag=True), O("m", "b", "m", flag=True)], allowed=None)
    for d in (bad1, bad2, bad3):
        for argv in ([], ["-x"], ["--no-x"], ["v"], ["--b", "1"], ["---"]):
            out.append(pcase("C04", d, {}, argv))
            for argv2 in ([], ["-x"], ["v"]):
                out.append(hcase(d, [({}, argv), ({}, argv2)]).replace("\tC14\t", "\tC04\t", 1))
    # unparsable environment words for a toggle (one of the documented conditions): documented words, case variants
    # that are not documented, near misses
    dt = D([O("t", "tog", "t", env="NV_T"), O("t", "rev", "r", env="NV_R", flag=True, dflt=1)], allowed=0)
    for w in ["TRUE", "true", "True", "tRUE", "yES", "oFF", "nO", "WithOut", "ON", "oN", "maybe", "", " ", "1", "0", "2", "yes ", "Yes", "YES"]:
        out.append(pcase("C04", dt, {"NV_T": w}, []))
        out.append(pcase("C04", dt, {"NV_R": w}, []))
        out.append(pcase("C04", dt, {"NV_T": w}, ["-t"]))
    # whatever a bound environment variable holds, the parse returns or raises the user-input error (it does not hang
    # on a list with empty elements, crash on bytes, or let another exception out)
    de = D([O("m", "inc", "I", env="NV_M", flag=True), O("m", "need", "N", env="NV_Q"), O("o", "opt", "o", env="NV_O", flag=True),
            O("t", "tog", "t", env="NV_T")], allowed=1)
    for ev in [e for e in ENV_VALUES if e is not None] + [";;a;;", "a;" * 50, ";" * 200, "\x00;a"[1:], "a\nb;c"]:
        for var in ("NV_M", "NV_Q", "NV_O", "NV_T"):
            for argv in ([], ["p"], ["-I", "x"]):
                out.append(pcase("C04", de, {var: ev}, argv))
    # very long tokens (stack depth of the old regular expression)
    d = ts[0]
    for n in (1000, 20000, 200000) + ((400000,) if big else ()):
        out.append(pcase("C04", d, {}, ["--req=x", "-" + "v" * n]))
        out.append(pcase("C04", d, {}, ["--req=" + "y" * n]))
        out.append(pcase("C04", d, {}, ["--" + "n" * n]))
        out.append(pcase("C04", d, {}, ["--req=x", "-v=" + "=" * n]))
    return with_histories(out, rng, 2400 if tier == "thorough" else 600)


def ecase(w):
    return "\t".join(["opt", "C11", "E", hexs(w)])


TRUTHY = ["TRUE", "ON", "YES", "true", "on", "yes", "1", "Y", "with", "True", "On", "WITH", "With", "y", "Yes"]
FALSY = ["false", "FALSE", "without", "0", "NO", "no", "Without", "n", "off", "OFF", "N", "False", "Off", "WITHOUT", "No"]


def gen_c11(tier, rng):
    big = tier == "thorough"
    out = []
    words = set(TRUTHY + FALSY)
    near = set()
    for w in TRUTHY + FALSY:
        near |= {w.upper(), w.lower(), w.capitalize(), w.swapcase(), w + " ", " " + w, w + "s", w[:-1], w + w}
        for i in range(len(w)):
            near.add(w[:i] + w[i + 1:])
            near.add(w[:i] + "x" + w[i + 1:])
    near |= {"", "2", "-1", "maybe", "tRUE", "yes\n", "00", "01", "T", "F", "t", "f", "enable", "disabled", "\xff"}
    for w in sorted(words | near):
        out.append(ecase(w))
        d = D([O("t", "tog", "t", env="NV_T", dflt=5)], allowed=0)
        out.append(pcase("C11", d, {"NV_T": w}, []))
        out.append(pcase("C11", d, {"NV_T": w}, ["-t"]))
    # several vocabulary words in one value (a value is one word, not a list of words): every ordered pair with a
    # blank in between, other separators and longer runs sampled
    V = TRUTHY + FALSY
    for a in V:
        for b in V:
            out.append(ecase(a + " " + b))
    for _ in range(4000 if big else 600):
        sep = rng.choice([" ", ",", ";", "|", "\t", "\n", "  ", "="])
        ws = [rng.choice(V) for _ in range(2 + rng.below(3))]
        if rng.chance(1, 2):
            i = rng.below(len(V) - 3)
            ws = V[i:i + 2 + rng.below(3)]
        w = sep.join(ws)
        out.append(ecase(w))
        if rng.chance(1, 4):
            out.append(pcase("C11", D([O("t", "tog", "t", env="NV_T", dflt=5)], allowed=0), {"NV_T": w}, []))
    for _ in range(3000 if big else 300):
        out.append(ecase("".join(chr(rng.choice([78, 79, 110, 111, 70, 102, 89, 121, 49, 48, 32 + rng.below(90)]))
                                 for _ in range(rng.below(5)))))
    # occurrence patterns
    d = D([O("t", "aa", "a", flag=True, dflt=1, env="NV_A"), O("t", "bb", "b"), O("t", "cc", flag=True),
           O("t", "dd", "d", dflt=2), O("o", "o", "o", flag=True), O("t", "ee", "e", flag=True, dflt=3)], allowed=None)
    al = ["--aa", "-a", "-aa", "-ab", "-ba", "-aba", "--no-aa", "--bb", "-b", "--no-bb", "--cc", "--no-cc", "-d", "-dad",
          "p", "--o=1", "-abd", "--no-dd", "-e", "--no-ee"]
    for argv in og.all_argv(al, 3):
        out.append(pcase("C11", d, {}, argv))
    for env in ({"NV_A": "on"}, {"NV_A": "off"}, {"NV_A": "what"}, {"NV_A": ""}):
        for argv in og.all_argv(al[:7], 2):
            out.append(pcase("C11", d, env, argv))
    for _ in range(20000 if big else 2000):
        argv = [rng.choice(al) for _ in range(rng.below(10))]
        out.append(pcase("C11", d, rng.choice([{}, {"NV_A": rng.choice(TRUTHY + FALSY + ["x"])}]), argv))
    # toggles whose own names begin with "no-": their long spelling is an occurrence, `--no-no-…` the reversal
    d3 = D([O("t", "no-cache", "n", flag=True, dflt=0), O("t", "no-wait", "w"), O("t", "other", "c", flag=True)], allowed=0)
    al3 = ["--no-cache", "-n", "-nn", "--no-no-cache", "--no-wait", "-w", "-nw", "--no-no-wait", "--other", "--no-other"]
    for argv in og.all_argv(al3, 3 if big else 2):
        out.append(pcase("C11", d3, {}, argv))
    # names that merely begin like an occurrence or like a reversal: `--no-<name>ly`, `--<name>x`, and a declared toggle
    # `no-colorful` next to the reversible `color`
    d4 = D([O("t", "color", "c", flag=True, dflt=1), O("t", "no-colorful", "f"), O("t", "verbose", "v", flag=True)], allowed=0)
    al4 = ["--color", "--no-color", "--no-colorful", "--no-colorfully", "--no-colo", "--colorful", "--no-verbosely",
           "--no-verbose", "--verbosex", "-c", "-f", "--no-no-colorful", "--no-colorx"]
    for argv in og.all_argv(al4, 2):
        out.append(pcase("C11", d4, {}, argv))
    out = with_histories(with_moved(out, rng, 6000 if tier == "thorough" else 1500), rng, 2400 if tier == "thorough" else 600)
    # a toggle declared *after* the parser has already parsed once counts like any other (declaration histories
    # with probe parses in between: the D engine of C13)
    for g in (0, 1):
        for first in (["-x"], ["--a"], [], ["-xx"]):
            for later in (["-xyy"], ["--b"], ["-y"], ["-yx"], ["--b", "-x", "--b"], ["-yyy", "--a"], ["--no-b"]):
                for rev in (False, True):
                    ops = ["t:0:" + hexs("a"), "sh:0:" + hexs("x"), "probe:" + hexl(first),
                           "t:%d:%s" % (g, hexs("b")), "sh:1:" + hexs("y"), "probe:" + hexl(later), "probe:" + hexl(first)]
                    if rev:
                        ops.insert(3, "o:%d:%s" % (g, hexs("c")))
                        ops[5] = "sh:2:" + hexs("y")
                        ops[4] = "t:%d:%s" % (g, hexs("b"))
                    out.append("\t".join(["opt", "C11", "D", ";".join(ops)]))
    return out


def icase(pos, i):
    return "\t".join(["opt", "C12", "I", hexl(pos), str(i)])


def gen_c12(tier, rng):
    big = tier == "thorough"
    out = []
    after = ["--", "-", "---x", "-=x", "--=", "--opt", "-t", "v", ""]
    for limit in (0, 1, 2, 3, None):
        for greedy in (False, True):
            d = D([O("o", "opt", "o", flag=True), O("t", "tog", "t"), O("m", "mul", "m", flag=True)],
                  allowed=limit, greedy=greedy)
            plain = ["v", "w", "", "--opt", "--opt=x", "-o", "--tog", "-t", "--mul", "--"]
            for argv in og.all_argv(plain, 3):
                out.append(pcase("C12", d, {}, argv))
            for pre in ([], ["v"], ["--opt", "x"], ["--tog"], ["--opt"]):
                for tail in og.all_argv(after, 2):
                    out.append(pcase("C12", d, {}, pre + ["--"] + tail))
    # tokens that hold a NUL byte (only the vector<user_input> entry point can carry them): verbatim like any other
    dn = D([O("o", "opt", "o", flag=True), O("t", "tog", "t"), O("m", "mul", "m", flag=True)], allowed=None)
    for argv in (["a\0b"], ["--", "-\0x"], ["--", "\0--tog"], ["x", "ab\0cd", "--", "\0"], ["--opt", "v\0w"], ["--opt=\0"],
                 ["--mul", "\0", "--mul", "a\0"], ["\0"], ["--tog", "p\0", "--", "--\0"]):
        out.append(pcase("C12", dn, {}, argv).replace("\tP\t", "\tPU\t", 1))
        out.append(pcase("C12", dn, {}, [a.replace("\0", "N") for a in argv]).replace("\tP\t", "\tPU\t", 1))
    for n in range(0, 6):
        pos = ["p%d" % k for k in range(n)]
        for i in range(-n - 2, n + 2):
            out.append(icase(pos, i))
    out.append(icase(["", "--", "-x", "\xff"], -1))
    out.append(icase(["", "--", "-x", "\xff"], -4))
    for _ in range(10000 if big else 1500):
        d = D([O("o", "opt", "o", flag=True), O("t", "tog", "t"), O("m", "mul", "m", flag=True)],
              allowed=rng.choice([0, 1, 2, 3, 5, None]), greedy=rng.chance(1, 3))
        argv = [rng.choice(["v", "w", "", "--opt", "--opt=x", "-o", "--tog", "-t", "--mul", "--", "-", "---x", "a=b"])
                for _ in range(rng.below(9))]
        out.append(pcase("C12", d, {}, argv))
    return with_histories(with_moved(out, rng, 12000 if tier == "thorough" else 3000), rng, 2400 if tier == "thorough" else 600)


def hcase(d, steps):
    f = ["opt", "C14", "H", d.enc()]
    for env, argv in steps:
        f += [env_enc(env), hexl(argv)]
    return "\t".join(f)


def gen_c14(tier, rng):
    big = tier == "thorough"
    out = []
    d = D([O("o", "opt", "o", env="NV_O", flag=True), O("m", "mul", "m", flag=True), O("t", "tog", "t", flag=True),
           O("o", "dfl", dflt="dv")], allowed=2)
    vecs = [[], ["--opt", "v"], ["--opt=w"], ["-t"], ["-tt"], ["--no-tog"], ["--mul", "a", "--mul", "b"], ["p"], ["p", "q"],
            ["p", "q", "r"], ["--opt"], ["--zz"], ["--opt", "a", "--opt", "b"], ["-t", "--no-tog"], ["--", "-x"], ["-"],
            ["--dfl=x"]]
    for a in vecs:
        for b in vecs:
            out.append(hcase(d, [({}, a), ({}, b)]))
    for a, b, c in itertools.product(vecs[:9], repeat=3):
        out.append(hcase(d, [({}, a), ({"NV_O": "envv"}, b), ({}, c)]))
    for _ in range(10000 if big else 1500):
        dd = rng.choice([d, og.templates()[0], og.templates()[3]])
        al = og.alphabet(dd)
        steps = []
        for _ in range(2 + rng.below(5)):
            env = {}
            for i in dd.items:
                if i.env and rng.chance(1, 3):
                    env[i.env] = rng.choice(["v", "TRUE", "off", "bad word"])
            steps.append((env, [rng.choice(al) for _ in range(rng.below(6))] if rng.chance(3, 4) else rng.choice(vecs)))
        out.append(hcase(dd, steps))
    # declarations that are inconsistent and stay so (two options share a letter / an option is called no-<toggle>):
    # every parse on such a parser is refused as a developer error - the second and third as well as the first
    for db in (D([O("t", "a", "x"), O("o", "b", "x", flag=True)], allowed=None),
               D([O("t", "x", "x", flag=True), O("o", "no-x", flag=True)], allowed=None),
               D([O("m", "a", "m", flag=True), O("m", "b", "m", flag=True)], allowed=None)):
        vb = [[], ["-x"], ["--no-x"], ["v"], ["--b", "1"], ["--zz"], ["-m", "1"]]
        for a in vb:
            for b in vb:
                out.append(hcase(db, [({}, a), ({}, b)]))
                out.append(hcase(db, [({}, a), ({}, b), ({}, a)]).replace("\tH\t", "\tHM\t", 1))
    # a second declaration: defaults of every kind, non-zero toggle defaults, a greedy limit
    d2 = D([O("t", "lvl", "l", dflt=2, flag=True), O("t", "on", "n", dflt=1), O("o", "out", "o", dflt="dv"),
            O("m", "inc", "I", dflt=["d1", "d2"]), O("o", "req", "r", env="NV_R", flag=True)], allowed=None, greedy=True)
    vecs2 = [[], ["-l"], ["-ll"], ["--lvl", "--on"], ["--no-lvl"], ["-n"], ["--out", "x"], ["-I", "a", "-I", "b"], ["p", "-l"],
             ["--", "-l"], ["-o=y", "-nn"], ["--zz"]]
    for a in vecs2:
        for b in vecs2:
            out.append(hcase(d2, [({}, a), ({}, b)]))
    for a, b, c in itertools.product(vecs2[:8], repeat=3) if big else []:
        out.append(hcase(d2, [({}, a), ({"NV_R": "e"}, b), ({}, c)]))
    # a third declaration: every kind bound to an environment variable; the environment is consulted in several
    # parses of one parser object (and changes in between)
    d3 = D([O("m", "inc", "I", env="NV_M", flag=True), O("o", "opt", "o", env="NV_O", flag=True),
            O("t", "tog", "t", env="NV_T", flag=True), O("m", "req", "R", env="NV_Q")], allowed=1)
    envs3 = [{"NV_Q": "q"}, {"NV_Q": "q", "NV_M": "a;b"}, {"NV_Q": "q1;q2", "NV_M": "c"}, {"NV_Q": "q", "NV_O": "e"},
             {"NV_Q": "q", "NV_T": "on"}, {"NV_Q": "x;y", "NV_M": "a;b", "NV_O": "e", "NV_T": "off"}, {}]
    vecs3 = [[], ["-I", "x"], ["--opt", "v"], ["-t"], ["-R", "r"]]
    steps3 = [(e, v) for e in envs3 for v in vecs3]
    for a in steps3:
        for b in steps3:
            out.append(hcase(d3, [a, b]))
    for _ in range(3000 if big else 400):
        out.append(hcase(d3, [rng.choice(steps3) for _ in range(3 + rng.below(3))]))
    # the same histories with the parser object moved between the parses
    hs = [c for c in out if "\tH\t" in c]
    out += [c.replace("\tH\t", "\tHM\t", 1) for c in rng.shuffle(hs)[:(4000 if big else 800)]]
    return out


NOTE = ("Trusted: Lean kernel; propext/Classical.choice/Quot.sound; std::map iteration order (sorted by name), "
        "std::string, iostream extraction for typed access, getenv are modelled; error messages are not observables; "
        "the model/implementation correspondence is sampled (small-scope exhaustive + seeded random).")
SRCH = lambda g: (lambda dis, rng: rng.shuffle(g("thorough", rng))[:40000])

COMMON = dict(harness=HARNESS, level_note=NOTE, design_ref="4 Engine Opt")

C01 = Prop("C01", "opt", ["NitroVerif.Props.C01"], gen_c01,
           rule="8 declaration templates (every mix of option/multi-option/toggle, with/without letter, reversible or not, "
                "limits 0/1/2/3/unlimited, greedy on/off) x all argument vectors of length <=2 over an alphabet of ~40 tokens "
                "built relative to the declaration (declared/undeclared long names, toggle letters, option letters, "
                "undeclared letters, bundles mixing those incl. repeats and '-', each with and without =v, value tokens, "
                "--, -, ---x, -=x), length 3 over a 20-token alphabet on 3 templates; seeded random declarations with "
                "random vectors up to 12 tokens. Non-trivial: at least one option-like token and a non-empty declaration. "
                "Distinct = distinct case line. " \
                "A sample of the family is repeated on a parser that was move-constructed (PM1) / move-assigned over a configured parser (PM2) after its declaration; each plain parse is repeated through parse(vector<user_input>) on a parser of its own; 600 (thorough: 2400) two-parse histories of family members on one parser object (H, and HM with the parser moved in between), plus 'defaults, then the option in each spelling, then defaults again' on every template.",
           search=SRCH(gen_c01), theorem_hint="NitroVerif.Props.C01.*",
           level_text="Lean 4: the code-shaped parse loop is proved equal to 'explain, then interpret' (parse_factor), hence every "
                      "accepted command line has a lossless explanation (render(explain) = argv) whose interpretation is the "
                      "result; bundles with a non-toggle letter are rejected. Tied to the working tree differentially.",
           technique="Lean 4 refinement proof (loop -> explain/interp) + differential correspondence", **COMMON)

C02 = Prop("C02", "opt", ["NitroVerif.Props.C02"], gen_c02,
           rule="generator with inverse: draw an assignment (values from a list incl. empty, '=', blanks, leading dashes, line "
                "breaks, 0xff bytes, 200 bytes, int boundaries), draw a spelling per occurrence (long/short, separate/=, "
                "bundled toggle letters, permutation, inline positionals or after --), render; plus every value through "
                "every form. Non-trivial: as C01. " \
                "A sample of the family is repeated on a parser that was move-constructed (PM1) / move-assigned over a configured parser (PM2) after its declaration; each plain parse is repeated through parse(vector<user_input>) on a parser of its own; 600 (thorough: 2400) two-parse histories of family members on one parser object (H, and HM with the parser moved in between), plus 'defaults, then the option in each spelling, then defaults again' on every template. Typed access also for every multi-option value.",
           search=SRCH(gen_c02), theorem_hint="NitroVerif.Props.C02.*",
           level_text="Lean 4: every explainable command line parses to the interpretation of its items, the interpretation does "
                      "not depend on item order beyond multi-option values and positionals, values are carried verbatim; "
                      "checked differentially with a render-then-parse generator.",
           technique="Lean 4 proof (parse = interp o explain; render o explain = id) + differential correspondence", **COMMON)

C03 = Prop("C03", "opt", ["NitroVerif.Props.C03"], gen_c03,
           rule="exhaustive matrix {option, multi-option, toggle} x {given on the command line or not} x {env unbound, unset, "
                "empty, 15 contents incl. option-like, ';' forms, toggle words} x {default or not} x {optional or required} with "
                "real setenv/unsetenv; seeded random declarations/environments. Non-trivial: as C01 or a bound variable. " \
                "A sample of the family is repeated on a parser that was move-constructed (PM1) / move-assigned over a configured parser (PM2) after its declaration; each plain parse is repeated through parse(vector<user_input>) on a parser of its own; 600 (thorough: 2400) two-parse histories of family members on one parser object (H, and HM with the parser moved in between), plus 'defaults, then the option in each spelling, then defaults again' on every template. Environment contents include the declared defaults themselves ('dv', 'd1;d2').",
           search=SRCH(gen_c03), theorem_hint="NitroVerif.Props.C03.*",
           level_text="Lean 4: the value of every option after a successful parse is the first available of command line, "
                      "non-empty bound environment variable (verbatim; split at ';' for multi-options; closed vocabulary for "
                      "toggles), default; required without source fails; provided iff command line or environment.",
           technique="Lean 4 proof (case analysis of the check phase on top of parse_factor) + differential correspondence", **COMMON)

C04 = Prop("C04", "opt", ["NitroVerif.Props.C04"], gen_c04,
           rule="exhaustive token syntax: every string of length <=5 over {-,=,a,n,o,newline} through the user_input constructor; "
                "C01's vectors of length <=2; random vectors; arbitrary byte strings; inconsistent declarations (shared letter, "
                "option named no-<toggle>); tokens of 1e3..2e5 characters (4e5 in the thorough tier); ASan/UBSan and a 5 s "
                "CPU-time watchdog per case. Non-trivial: as C01, every token case. " \
                "Two-parse histories as in the other option families (no moved-parser variants here).",
           search=SRCH(gen_c04), theorem_hint="NitroVerif.Props.C04.*",
           level_text="Lean 4: parse returns a result or the user-input error for every argument vector and environment when "
                      "the declaration is consistent, the developer error exactly when it is not; the user error is raised "
                      "exactly when the explanation fails or an interpretation condition fails (the documented list). Crashes, "
                      "hangs and out-of-bounds reads are outside a theorem about the model: watched at run time (ASan/UBSan, "
                      "watchdog, long-token family) - partial.",
           technique="Lean 4 proof (totality + boundary via parse_factor) + differential correspondence under sanitizers", **COMMON)

C11 = Prop("C11", "opt", ["NitroVerif.Props.C11"], gen_c11,
           rule="the 30 documented words, case variants, one-edit near misses, every ordered pair of vocabulary words joined by a blank, sampled runs of 2-4 words with "
                "eight separators, and random strings through parse_env_value and through a full parse; all vectors of length <=3 over 18 occurrence patterns (long, short, repeated letters, "
                "bundles with other toggles, --no- forms, other arguments in between) x environments. Non-trivial: as C01, every "
                "word case. 112 declaration histories in which a toggle is declared after the parser has already parsed (probe parses before and after). " \
                "A sample of the family is repeated on a parser that was move-constructed (PM1) / move-assigned over a configured parser (PM2) after its declaration; each plain parse is repeated through parse(vector<user_input>) on a parser of its own; 600 (thorough: 2400) two-parse histories of family members on one parser object (H, and HM with the parser moved in between), plus 'defaults, then the option in each spelling, then defaults again' on every template.",
           search=SRCH(gen_c11), theorem_hint="NitroVerif.Props.C11.*",
           level_text="Lean 4: count = number of positive occurrences (long spellings + letter multiplicities), --no- only for "
                      "reversible toggles and yields 0, both polarities rejected in either order, environment word by the "
                      "closed 15+15 vocabulary (extracted from the source on every run and compared with the documented "
                      "lists by a decidable theorem), default otherwise.",
           technique="Lean 4 proof + translator-checked vocabulary table + differential correspondence", **COMMON)

C12 = Prop("C12", "opt", ["NitroVerif.Props.C12"], gen_c12,
           rule="limits {0,1,2,3,unlimited} x greedy on/off x all vectors of length <=3 over plain valid option uses, values and "
                "--; every prefix in {[], v, --opt x, --tog, --opt} followed by -- and all pairs over {--, -, ---x, -=x, --=, "
                "--opt, -t, v, ''}; arguments::get(i) for n in 0..5 and all i in [-n-2, n+1]. Non-trivial: as C01, every index "
                "case. " \
                "A sample of the family is repeated on a parser that was move-constructed (PM1) / move-assigned over a configured parser (PM2) after its declaration; each plain parse is repeated through parse(vector<user_input>) on a parser of its own; 600 (thorough: 2400) two-parse histories of family members on one parser object (H, and HM with the parser moved in between), plus 'defaults, then the option in each spelling, then defaults again' on every template. arguments::get(i) and operator[](i) are evaluated independently and must agree, also in raising.",
           search=SRCH(gen_c12), theorem_hint="NitroVerif.Props.C12.*",
           level_text="Lean 4: positionals are the value tokens before the cut plus every token after the first -- (or after the "
                      "first positional when greedy), verbatim and in order; success implies count <= limit; index -k is the "
                      "k-th from the end, out-of-range indices raise.",
           technique="Lean 4 proof + differential correspondence", **COMMON)

C14 = Prop("C14", "opt", ["NitroVerif.Props.C14"], gen_c14,
           rule="one parser object, histories of 2-6 parses: all ordered pairs over 17 vectors (successes and every kind of "
                "failure), all triples over 9 with an environment change in between, seeded random histories over three "
                "declarations; each step compared with the specification of a fresh parse. Non-trivial: at least 2 parses. " \
                "A second declaration with defaults of every kind (non-zero toggle defaults, option and multi-option defaults, greedy) with all ordered pairs over 12 vectors; a third declaration with every kind bound to an environment variable: all ordered pairs over 35 (environment, command line) steps and 400 (thorough: 3000) longer histories; 800 (thorough: 4000) histories repeated with the parser object moved between the parses (HM: alternately move-constructed and move-assigned).",
           search=SRCH(gen_c14), theorem_hint="NitroVerif.Props.C14.*",
           level_text="Lean 4: the outcome of the n-th parse on one parser object equals the outcome on a fresh parser, for every "
                      "history of earlier parses (prepare() erases all per-option state).",
           technique="Lean 4 proof (state erased by prepare) + differential correspondence over parse histories", **COMMON)


def c11_extract():
    ok, note, t, f = extract.extract_toggle_vocab()
    return ok, note


def c11_search(dis, rng):
    # the words of the regenerated table (a word added to the source is tried against the real code),
    # then the thorough family
    ok, note, t, f = extract.extract_toggle_vocab()
    out = [ecase(w) for w in t + f]
    d = D([O("t", "tog", "t", env="NV_T", dflt=5)], allowed=0)
    out += [pcase("C11", d, {"NV_T": w}, []) for w in t + f]
    return out + rng.shuffle(gen_c11("thorough", rng))[:30000]


C11.extract = c11_extract
C11.search = c11_search
C11.lean_modules = ["NitroVerif.Props.C11"]
C11.extra_trusted = ["translator vlib/extract.py (clang 14 JSON AST of toggle::parse_env_value -> Generated/ToggleVocab.lean)"]


def dcase(ops):
    return "\t".join(["opt", "C13", "D", ";".join(ops)])


def d_alphabet():
    a = []
    for k in "omt":
        for g in (0, 1):
            for n in ("a", "b"):
                a.append("%s:%d:%s" % (k, g, hexs(n)))
    for i in (0, 1):
        for s in ("x", "y", "", "xy"):
            a.append("sh:%d:%s" % (i, hexs(s)))
        for e in ("NVD_E1", "NVD_E2"):
            a.append("en:%d:%s" % (i, hexs(e)))
    a += ["mv:0:%s" % hexs("M"), "mv:0:%s" % hexs(""), "move", "movea", "grp:1"]
    return a


PROBES = [[], ["-x"], ["--a"], ["--a", "v"], ["-xy"], ["--b=w", "-y"], ["-xx"], ["--a", "v", "--a", "w"]]


def gen_c13(tier, rng):
    big = tier == "thorough"
    out = []
    A = d_alphabet()
    k = 0
    setups = [[], ["o:0:" + hexs("a")], ["o:0:" + hexs("a"), "t:1:" + hexs("b")]]
    for su in setups:
        for d in ((1, 2, 3) if len(su) == 2 else (1, 2)):
            for seq in itertools.product(A, repeat=d):
                k += 1
                out.append(dcase(su + list(seq) + ["probe:" + hexl(PROBES[k % len(PROBES)])]))
    if big:
        for seq in itertools.product(A[::2], repeat=4):
            k += 1
            out.append(dcase(list(seq) + ["probe:" + hexl(PROBES[k % len(PROBES)])]))
    names = ["a", "b", "no-a", "c"]
    for _ in range(20000 if big else 3000):
        ops = []
        nobj = 0
        for _ in range(1 + rng.below(20)):
            r = rng.below(100)
            if r < 40 or nobj == 0:
                ops.append("%s:%d:%s" % (rng.choice("omt"), rng.below(3), hexs(rng.choice(names))))
                nobj += 1
            elif r < 60:
                ops.append("sh:%d:%s" % (rng.below(nobj + 1), hexs(rng.choice(["x", "y", "z", "", "xy", "-"]))))
            elif r < 70:
                ops.append("en:%d:%s" % (rng.below(nobj + 1), hexs(rng.choice(["NVD_E1", "NVD_E2", ""]))))
            elif r < 75:
                ops.append("mv:%d:%s" % (rng.below(nobj + 1), hexs(rng.choice(["M", ""]))))
            elif r < 85:
                ops.append(rng.choice(["move", "movea"]))
            elif r < 90:
                ops.append("grp:%d" % rng.below(3))
            else:
                ops.append("probe:" + hexl(rng.choice(PROBES + [["--no-a"], ["--c", "1", "-z"]])))
        ops.append("probe:" + hexl(rng.choice(PROBES)))
        out.append(dcase(ops))
    return out


C13 = Prop("C13", "opt", ["NitroVerif.Props.C13"], gen_c13,
           rule="all declaration histories of depth <=3 over a 31-call alphabet (option/multi_option/toggle on the default "
                "group and a named group with 2 names, short_name with 4 values incl. empty and two characters, env, metavar "
                "incl. empty, moving the parser object by move construction and by move assignment over another parser, requesting a group), each followed by a probe parse; seeded random "
                "histories up to 20 calls over 4 names (incl. no-a) and 3 groups with interleaved moves and probes; built with "
                "ASan detect_stack_use_after_return (the moved parser is heap-allocated, a dangling back-reference is a "
                "use-after-free). Compared: exception type of every call, identity of the returned object (creation index), "
                "outcome and values of every probe. Non-trivial: at least 2 calls.",
           search=SRCH(gen_c13), theorem_hint="NitroVerif.Props.C13.*",
           level_text="Lean 4 invariant over all declaration histories: long names pairwise distinct across groups and kinds, "
                      "short names one character, same declaration returns the same object, any other re-declaration is a "
                      "developer error that changes nothing, a set short name cannot be changed, moving the parser is neutral, "
                      "a shared letter makes every parse a developer error. Object identity and lifetime across the move are "
                      "C++ runtime matters observed by the harness under ASan.",
           technique="Lean 4 proof (invariant by induction over declaration histories) + differential correspondence under ASan",
           **COMMON)

# round 10 additions to the family descriptions
for _p in (C01, C02, C03, C04, C11, C12, C14):
    _p.rule += (" A ninth declaration template has digits as letters and toggle letters whose bundles read like numbers "
                "(-1, -111, -9 v, -inf, -nan, -1e1; -5, -1.5, -0x1f undeclared). Every history keeps a copy of each step's result and re-reads its "
                "positionals (list, get(0), get(-1), [-1]) after the last step: a result is what its parse returned, whatever is done with the parser afterwards.")
C04.rule += (" Tokens made of characters that mean something to formatting / pattern / shell machinery ({}, {0}, %s, %n, backslash, $(x), .*, [a, quotes, "
             "control characters) in every role: unknown long name, unknown letter, inside a bundle, =value, separate value, positional, behind --.")
C13.rule += " The first named group is called like the heading of the default group ('arguments'): a different group."


def c12_extract():
    return extract.extract_positional_index()


C12.extract = c12_extract
C12.extra_trusted = ["translator vlib/extract.py (clang 14 JSON AST of arguments::get(int) -> Generated/PosIndex.lean; int is 32 bits, size_type 64)"]
C12.theorem_hint += " + source_index_bits, model_index_is_source (the model's unbounded index arithmetic is the header's 32/64-bit arithmetic for every int and every list below 2^31 elements)"
