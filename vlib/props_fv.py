"""C06 / C07 — fixed_vector."""
import itertools
from .check import Prop
from .gen import case

HARNESS = dict(name="fv", source="fv.cpp")


def vl(xs):
    return ".".join(str(x) for x in xs) if xs else "_"


def alphabet(full=True):
    a = []
    for c in range(0, 4):
        a.append("new:0:%d" % c)
    for c in (0, 1, 2, 3):
        for xs in ([], [1], [1, 2], [1, 2, 3]):
            a.append("newiter:0:%d:%s" % (c, vl(xs)))
    for xs in ([], [4], [4, 5], [4, 5, 6]):
        a.append("newlist:0:%s" % vl(xs))
        a.append("lasg:0:%s" % vl(xs))
    for x in (1, 2):
        for n in ("eb", "ic", "im", "pb"):
            a.append("%s:0:%d" % (n, x))
    for pos in range(0, 4):
        for xs in ([], [7], [7, 8]):
            a.append("rng:0:%d:%s" % (pos, vl(xs)))
    for xs in ([], [7], [7, 8], [7, 8, 9, 3]):
        a.append("prng:0:%s" % vl(xs))
    for pos in range(0, 5):
        a.append("emp:0:%d:9" % pos)
    a.append("era:0:18446744073709551615")    # the position just before the first slot
    for big in (4294967296, 4294967297):       # indices whose low 32 bits are a valid index
        a += ["at:0:%d" % big, "get:0:%d" % big]
    for pos in range(0, 4):
        a.append("era:0:%d" % pos)
        a.append("at:0:%d" % pos)
        a.append("get:0:%d" % pos)
        a.append("idx:0:%d" % pos)
    a.append("pop:0")
    for k in range(0, 3):
        a += ["pba:0:%d" % k, "eba:0:%d" % k, "ica:0:%d" % k]
        for pos in range(0, 4):
            a.append("empa:0:%d:%d" % (pos, k))
    a += ["copy:1:0", "move:1:0", "asg:0:1", "asg:1:0", "masg:0:1", "masg:1:0", "copy:0:0", "move:0:0",
          "asg:0:0", "masg:0:0", "copy:2:1", "move:0:1"]
    return a


def m_alphabet():
    a = ["new:0:%d" % c for c in range(0, 4)]
    a += ["eb:0:1", "eb:0:2", "im:0:3"]
    a += ["emp:0:%d:9" % p for p in range(0, 5)]
    a += ["era:0:%d" % p for p in range(0, 4)] + ["at:0:%d" % p for p in range(0, 4)] + ["idx:0:%d" % p for p in range(0, 3)]
    a += ["get:0:0", "get:0:2", "pop:0", "move:1:0", "masg:0:1", "masg:1:0", "move:0:0", "masg:0:0", "new:1:2"]
    return a


def setups():
    out = []
    for c in range(0, 4):
        for k in range(0, c + 1):
            out.append(["new:0:%d" % c] + ["pb:0:%d" % (10 + i) for i in range(k)] + ["newlist:1:5.6"])
    return out


def m_setups():
    out = []
    for c in range(0, 4):
        for k in range(0, c + 1):
            out.append(["new:0:%d" % c] + ["eb:0:%d" % (10 + i) for i in range(k)] + ["new:1:2", "eb:1:5"])
    return out


def nofuel(ops):
    return ";".join(o + ":-" for o in ops)


class Sim:
    """Tiny size/capacity tracker used only to steer the random generator towards valid arguments."""

    def __init__(self):
        self.v = [None, None, None]

    def apply(self, op):
        t = op.split(":")
        n, i = t[0], int(t[1])
        v = self.v
        if n == "new":
            v[i] = [0, int(t[2])]
        elif n == "newiter":
            k = 0 if t[3] == "_" else len(t[3].split("."))
            if k <= int(t[2]):
                v[i] = [k, int(t[2])]
        elif n in ("newlist", "lasg"):
            k = 0 if t[2] == "_" else len(t[2].split("."))
            if n == "newlist" or v[i]:
                v[i] = [k, k]
        elif n in ("copy", "asg"):
            j = int(t[2])
            if v[j] and (n == "copy" or v[i]):
                v[i] = list(v[j])
        elif n == "move":
            j = int(t[2])
            if v[j]:
                s = list(v[j])
                v[j] = [0, s[1]]
                v[i] = s
        elif n == "masg":
            j = int(t[2])
            if v[i] and v[j]:
                v[i], v[j] = v[j], v[i]
        elif v[i]:
            s = v[i]
            if n in ("eb", "ic", "im", "pb") and s[0] < s[1]:
                s[0] += 1
            elif n == "emp" and int(t[2]) <= s[0] < s[1]:
                s[0] += 1
            elif n == "era" and int(t[2]) < s[0]:
                s[0] -= 1
            elif n == "pop" and s[0] > 0:
                s[0] -= 1
            elif n == "prng":
                k = 0 if t[2] == "_" else len(t[2].split("."))
                s[0] = min(s[1], s[0] + k)
            elif n == "rng":
                k = 0 if t[3] == "_" else len(t[3].split("."))
                p = int(t[2])
                if p <= s[0]:
                    s[0] = max(s[0], min(s[1], p + k))


def rand_seq(rng, n, kind, with_fuel, interior_range):
    sim = Sim()
    ops = []
    for _ in range(n):
        i = rng.below(3)
        s = sim.v[i]
        r = rng.below(100)
        x = 1 + rng.below(50)
        if s is None or r < 4:
            if kind == "c" and rng.chance(1, 3):
                xs = [1 + rng.below(9) for _ in range(rng.below(5))]
                op = rng.choice(["newlist:%d:%s" % (i, vl(xs)), "newiter:%d:%d:%s" % (i, rng.below(6), vl(xs))])
            else:
                op = "new:%d:%d" % (i, rng.below(6))
        elif r < 40:
            names = ["eb", "im"] + (["ic", "pb"] if kind == "c" else [])
            op = "%s:%d:%d" % (rng.choice(names), i, x)
        elif r < 52:
            op = "emp:%d:%d:%d" % (i, rng.below(s[0] + 2), x)
        elif r < 64:
            op = "era:%d:%d" % (i, rng.below(s[0] + 2)) if rng.chance(19, 20) else "era:%d:18446744073709551615" % i
        elif r < 70:
            op = "pop:%d" % i
        elif r < 73:
            op = "%s:%d:%d" % (rng.choice(["at", "get", "idx"]), i, rng.below(s[0] + 2))
            if not op.startswith("idx") and rng.chance(1, 8):
                op = "%s:%d:%d" % (op.split(":")[0], i, 4294967296 * (1 + rng.below(3)) + rng.below(s[0] + 1))
        elif r < 76 and kind == "c":
            k = rng.below(s[0] + 1)
            op = rng.choice(["pba:%d:%d" % (i, k), "eba:%d:%d" % (i, k), "ica:%d:%d" % (i, k),
                             "empa:%d:%d:%d" % (i, rng.below(s[0] + 2), k)])
        elif r < 84 and kind == "c":
            xs = [1 + rng.below(9) for _ in range(rng.below(4))]
            if rng.chance(1, 2):
                op = "prng:%d:%s" % (i, vl(xs))
            else:
                pos = rng.below(s[0] + 2) if interior_range else s[0]
                op = "rng:%d:%d:%s" % (i, pos, vl(xs))
        else:
            j = rng.below(3)
            names = ["move", "masg"] + (["copy", "asg", "lasg"] if kind == "c" else [])
            nm = rng.choice(names)
            if nm == "lasg":
                op = "lasg:%d:%s" % (i, vl([1 + rng.below(9) for _ in range(rng.below(5))]))
            else:
                op = "%s:%d:%d" % (nm, i, j)
        sim.apply(op)
        fuel = "-"
        if with_fuel and rng.chance(1, 8):
            fuel = str(rng.below(4))
            # an op that may have thrown leaves sizes the tracker cannot follow exactly; harmless: the
            # tracker only steers argument choice
        ops.append(op + ":" + fuel)
    return ";".join(ops)


def gen_c06(tier, rng):
    big = tier == "thorough"
    out = []
    A = alphabet()
    S = setups()
    # depth 1 and 2 behind every setup (depth 3 over a reduced alphabet in the thorough tier)
    for s in S:
        for a in A:
            out.append(case("fv", "c06", "c", nofuel(s + [a])))
    pick = S if big else [S[0], S[2], S[5], S[8], S[9]]
    for s in pick:
        for a in A:
            for b in A:
                out.append(case("fv", "c06", "c", nofuel(s + [a, b])))
    # fault enumeration: every operation x every throw point, followed by probes
    probes = ["pb:0:77", "at:0:0", "pop:0", "copy:2:0", "era:0:0"]
    for s in S:
        for a in A:
            for fuel in range(0, 5):
                out.append(case("fv", "c06", "c", nofuel(s) + ";" + a + ":" + str(fuel) + ";" + nofuel(probes)))
    MA, MS = m_alphabet(), m_setups()
    for s in MS:
        for a in MA:
            out.append(case("fv", "c06", "m", nofuel(s + [a])))
            for fuel in range(0, 4):
                out.append(case("fv", "c06", "m", nofuel(s) + ";" + a + ":" + str(fuel) + ";eb:0:77:-;pop:0:-"))
    for s in (MS if big else MS[::3]):
        for a in MA:
            for b in MA:
                out.append(case("fv", "c06", "m", nofuel(s + [a, b])))
    for _ in range(30000 if big else 3000):
        kind = "c" if rng.chance(2, 3) else "m"
        out.append(case("fv", "c06", kind, rand_seq(rng, 1 + rng.below(40), kind, True, True)))
    return out


def gen_c07(tier, rng):
    big = tier == "thorough"
    out = []
    A = [a for a in alphabet() if not a.startswith("rng:")]
    S = setups()
    for s in S:
        k = len(s) - 2
        A2 = A + ["rng:0:%d:%s" % (k, vl(xs)) for xs in ([], [7], [7, 8])]
        for a in A2:
            out.append(case("fv", "c07", "c", nofuel(s + [a])))
    pick = S if big else [S[1], S[2], S[4], S[5], S[8], S[9]]
    for s in pick:
        for a in A:
            for b in A:
                out.append(case("fv", "c07", "c", nofuel(s + [a, b])))
    MA, MS = m_alphabet(), m_setups()
    for s in MS:
        for a in MA:
            for b in (MA if big else MA[::2]):
                out.append(case("fv", "c07", "m", nofuel(s + [a, b])))
    # elements built in place from constructor arguments (n, v), for element types with an initializer-list constructor
    for n in range(0, 5):
        for v in (1, 7, 65, 120):
            for where in "bp":
                for typ in "sv":
                    out.append(case("fv", "c07", "il", "%d:%d:%s:%s" % (n, v, where, typ)))
    # an append whose element copy/move throws adds nothing: the sequence afterwards is the sequence before
    for s in S:
        for name in ("eb", "ic", "im", "pb"):
            for fuel in (0, 1):
                for after in ("pb:0:9", "pop:0", "copy:1:0"):
                    out.append(case("fv", "c07", "c", nofuel(s) + ";%s:0:5:%d;" % (name, fuel) + nofuel([after])))
    for _ in range(30000 if big else 4000):
        kind = "c" if rng.chance(2, 3) else "m"
        out.append(case("fv", "c07", kind, rand_seq(rng, 1 + rng.below(40), kind, False, False)))
    return out


COMMON_NOTE = ("Trusted: Lean kernel; propext/Classical.choice/Quot.sound; std::unique_ptr<T[]> and the C++ object "
               "model are modelled (slots), not verified; object lifetime (leak / double destruction) is observed at "
               "run time only (instance counters, ASan, LSan); the model/implementation correspondence is sampled.")

C06 = Prop(
    "C06", "fv", ["NitroVerif.Props.C06"], gen_c06,
    rule="pool of 3 vectors; exhaustive: every operation of a ~100-op concrete alphabet (all constructors, 4 appends, "
         "range insert at every position, positional emplace/erase/at/get/[] at every index 0..cap+1, erase at the position just before the first slot, pop, copy/move "
         "construction, 3 assignments incl. self) behind each of 10 setups (capacity 0..3 x fill 0..cap), all pairs of "
         "operations behind 5 setups; fault enumeration: every operation x throw point 0..4 followed by probe "
         "operations; the same for a move-only element type; seeded random histories up to 40 operations with random "
         "throw points. Non-trivial: at least 2 operations. Distinct = distinct case line.",
    harness=HARNESS, search=lambda dis, rng: rng.shuffle(gen_c06("thorough", rng))[:30000],
    theorem_hint="NitroVerif.Props.C06.{history_safe,apply_safe,pstep_safe,capacity_fixed,failed_single_unchanged,"
                 "append_full_raises,pop_empty_raises,at_oob_raises,erase_oob_raises,range_overflow_raises}",
    level_text="Lean 4 proof by invariant over all operation histories on a pool of vectors and all throw schedules: "
               "size<=capacity, allocation of exactly capacity slots, no slot access outside the allocation (UB outcome "
               "unreachable), capacity fixed, exact raise conditions, failed single-element operations leave the "
               "container unchanged. Element-object lifetime is outside the model and checked by the harness "
               "(instance counting, ASan/UBSan/LSan) - that part is runtime observation, labelled partial.",
    level_note=COMMON_NOTE,
    technique="Lean 4 proof (invariant by induction over histories x throw schedules) + differential correspondence with fault enumeration",
    design_ref="4 Engine FV (C06, C07)",
    assumptions=["element copy/move/construct may throw at any point (fuel); default construction does not throw",
                 "operator[]/front/back are only called inside their precondition (index < size)"],
)

C07 = Prop(
    "C07", "fv", ["NitroVerif.Props.C07"], gen_c07,
    rule="as C06 without throw points and without interior range inserts: every operation behind each of 10 setups, "
         "all pairs behind 6 setups, move-only element type, seeded random histories up to 40 operations; every step's "
         "size/capacity/forward/reverse contents compared with a plain capacity-bounded list (Ref); 80 cases on "
         "fixed_vector<std::string> / fixed_vector<std::vector<int>>: emplace_back(n, v) and emplace(pos, n, v) build n copies of v. Non-trivial: at "
         "least 2 operations. Distinct = distinct case line.",
    harness=HARNESS, search=lambda dis, rng: rng.shuffle(gen_c07("thorough", rng))[:30000],
    theorem_hint="NitroVerif.Props.C07.{run_refines,apply_refines,copy_equal,move_transfers,move_assign_transfers,"
                 "copy_assign_equal,list_assign_replaces,reverse_is_reverse,shown_elements_are_callers}",
    level_text="Lean 4 refinement proof: for every capacity and every operation sequence the contents shown by the model "
               "of fixed_vector equal those of a plain bounded list (append, erase, insert-before, pop, indexing), copy "
               "yields an equal container, move/move-assign transfer, list assignment replaces, reverse iteration is "
               "the reverse; the model is tied to the working tree by a differential run after every step.",
    level_note=COMMON_NOTE + " Range insertion at an interior position is outside C07's alphabet (specified nowhere).",
    technique="Lean 4 refinement proof (slot model -> bounded list) + differential correspondence",
    design_ref="4 Engine FV (C06, C07)",
    assumptions=["no element operation throws in C07 histories (throwing histories are C06's)"],
)

C07.rule += " Half of the range appends / range insertions hand over a single-pass input range (iterator copies share one read position, like istream_iterator)."
C06.rule += " Half of the range appends / range insertions hand over a single-pass input range."
