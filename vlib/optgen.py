"""Generators for the option-parser engine: declarations, token alphabets relative to a declaration,
spellings of assignments.  Pure Python, no randomness except through the Rng passed in."""
import itertools
from .core import hexs, hexl


class O:
    def __init__(self, kind, name, short=None, env=None, dflt=None, flag=False, group=0):
        self.kind, self.name, self.short, self.env, self.dflt, self.flag, self.group = \
            kind, name, short, env, dflt, flag, group

    def enc(self):
        if self.kind == "m":
            d = "~" if self.dflt is None else ("." if not self.dflt else "+".join(hexs(x) for x in self.dflt))
        elif self.kind == "t":
            d = "~" if self.dflt is None else str(self.dflt)
        else:
            d = "~" if self.dflt is None else hexs(self.dflt)
        return ":".join([self.kind, str(self.group), hexs(self.name),
                         "~" if self.short is None else hexs(self.short),
                         "~" if self.env is None else hexs(self.env), d, "1" if self.flag else "0"])


class D:
    def __init__(self, items, allowed=0, greedy=False):
        self.items, self.allowed, self.greedy = items, allowed, greedy

    def enc(self):
        return "%s,%d|%s" % ("*" if self.allowed is None else self.allowed, 1 if self.greedy else 0,
                             ";".join(i.enc() for i in self.items))

    def togs(self):
        return [i for i in self.items if i.kind == "t"]

    def vals(self):
        return [i for i in self.items if i.kind in "om"]


def env_enc(env):
    return ",".join("%s=%s" % (hexs(k), hexs(v)) for k, v in env.items()) if env else "."


def pcase(tag, d, env, argv):
    return "\t".join(["opt", tag, "P", d.enc(), env_enc(env), hexl(argv)])


def templates():
    """Declaration templates: every mix of kinds, with and without letters, reversible or not."""
    t = []
    # T0: the rich one
    t.append(D([O("t", "verbose", "v", env="NV_V"), O("t", "quiet", "q", flag=True), O("t", "long"),
                O("o", "out", "o", env="NV_O", dflt="dflt"), O("o", "req"), O("m", "multi", "m", flag=True)],
               allowed=None))
    # T1: toggles only, two letters, one reversible with default 1
    t.append(D([O("t", "all", "a"), O("t", "brief", "b", flag=True, dflt=1), O("t", "nol", flag=True)], allowed=0))
    # T2: options only (optional), limit 1
    t.append(D([O("o", "opt", "o", flag=True), O("o", "name", flag=True), O("m", "inc", "I", flag=True)], allowed=1))
    # T3: greedy, limit 2, one toggle, one multi with default
    t.append(D([O("t", "x", "x"), O("m", "list", "l", dflt=["d1", "d2"]), O("o", "k", "k", flag=True, group=1)],
               allowed=2, greedy=True))
    # T4: names that look like each other: toggle "no" / option "n", toggle named like a prefix
    t.append(D([O("t", "no", "n"), O("t", "nox", flag=True), O("o", "no-thing", flag=True), O("t", "t", "t", flag=True)],
               allowed=None))
    # T5: nothing declared, unlimited positionals
    t.append(D([], allowed=None))
    # T6: nothing declared, no positionals
    t.append(D([], allowed=0))
    # T7: a required multi and a toggle with int default
    t.append(D([O("m", "need", "N"), O("t", "lvl", "L", dflt=3)], allowed=3))
    # T8: letters that are digits, and toggle letters whose bundles read like numbers (-11, -1e1, -inf, -nan)
    t.append(D([O("t", "one", "1"), O("t", "inf", "i"), O("o", "nine", "9", flag=True), O("t", "nan", "n"), O("t", "fff", "f"),
                O("t", "aaa", "a"), O("t", "eee", "e", flag=True)], allowed=None))
    return t


def alphabet(d):
    """Tokens that stand in every relation to the declaration."""
    a = ["v", "", "a=b", "=x", "--", "-", "---x", "-=x", "--=x", "--zz", "--zz=v", "-z", "-z=v", "-zy", "--no-zz"]
    togletters = [i.short for i in d.togs() if i.short]
    optletters = [i.short for i in d.vals() if i.short]
    for i in d.items:
        a += ["--" + i.name, "--" + i.name + "=w", "--" + i.name + "=", "--no-" + i.name]
        if i.kind == "t":
            a += ["--no-" + i.name + "=w", "--no-" + i.name + "="]
            if i.flag:
                # a longer name that begins like the reversal of a reversible toggle
                a += ["--no-" + i.name + "ly"]
    for i in d.items[:2]:
        a += ["--" + i.name + "ly"]
    for i in d.items:
        if i.short:
            a += ["-" + i.short, "-" + i.short + "=w", "-" + i.short + i.short]
    for x, y in itertools.product(togletters[:2], repeat=2):
        a.append("-" + x + y)
    if togletters:
        tl = togletters[0]
        a += ["-" + tl + "z", "-z" + tl, "-" + tl + "-" + tl, "-" + tl + tl + tl, "-" + tl + "z=w"]
        for ol in optletters[:1]:
            a += ["-" + tl + ol, "-" + ol + tl, "-" + tl + ol + "=w"]
    if len(togletters) >= 2:
        a.append("-" + togletters[0] + togletters[1] + togletters[0])
    # bundles of declared toggle letters that read like numbers; number-like tokens as such
    for w in ("inf", "nan", "1e1", "111", "infinity"):
        if all(ch in togletters for ch in w):
            a.append("-" + w)
    if "1" in togletters or "9" in optletters:
        a += ["-5", "-1.5", "-0x1f"]
    seen, out = set(), []
    for x in a:
        if x not in seen:
            seen.add(x)
            out.append(x)
    return out


def all_argv(alpha, maxlen):
    for n in range(0, maxlen + 1):
        for t in itertools.product(alpha, repeat=n):
            yield list(t)


def rand_decl(rng):
    names = ["a", "ab", "b", "no", "no-a", "x-y", "n", "long-name", "Z", "v1"]
    letters = list("abnxvZ1")
    rng_names = rng.shuffle(names)[:1 + rng.below(5)]
    used = set()
    items = []
    for nm in rng_names:
        k = rng.choice("oomtt")
        short = None
        if rng.chance(2, 3):
            c = rng.choice(letters)
            if c not in used:
                used.add(c)
                short = c
        env = ("NV_" + nm.upper().replace("-", "_")) if rng.chance(1, 3) else None
        if k == "o":
            items.append(O("o", nm, short, env, rng.choice([None, "d", ""]), rng.chance(1, 2), rng.below(3)))
        elif k == "m":
            items.append(O("m", nm, short, env, rng.choice([None, [], ["d"], ["d", ""]]), rng.chance(1, 2), rng.below(3)))
        else:
            items.append(O("t", nm, short, env, rng.choice([None, 0, 1, 2]), rng.chance(1, 2), rng.below(3)))
    # the library refuses to parse when an option is called no-<toggle>: keep that rare but present
    return D(items, rng.choice([0, 1, 2, 3, None, None]), rng.chance(1, 4))
