"""C16 — hashing and tuple comparison."""
import itertools
from .check import Prop
from .core import hexs
from .gen import case

HARNESS = dict(name="hash", source="hash.cpp")

STRS = ["", "a", "ab", "b", "\xff", "a\x00"]
STR_RANK = {s: i for i, s in enumerate(sorted(STRS, key=lambda s: s.encode("latin-1")))}
DBLS = [("-2", 0), ("-0.0", 1), ("0.0", 1), ("1.5", 2)]

# leaf kinds per shape, shape expression
SHAPES = {
    "A": ("c(L,u)", ["i8"]),
    "B": ("c(L,c(L,u))", ["i32", "s"]),
    "C": ("c(L,c(L,c(L,u)))", ["i64", "u64", "d"]),
    "D": ("c(L,c(L,c(L,c(L,u))))", ["i32", "s", "i32", "i32"]),
    "E": ("c(c(L,c(L,u)),c(L,u))", ["i32", "s", "i32"]),
    "T": ("c(L,c(p(L,L),u))", ["i32", "i32", "s"]),
    "P": ("p(c(L,c(L,u)),L)", ["i32", "i32", "i32"]),
    "VI": ("v(L)", ["i32"]),
    "VS": ("v(L)", ["s"]),
    "U": ("q(c(L,c(L,u)))", ["i32", "s"]),
    "S": ("q(L)", ["s"]),
    "TS": ("c(L,c(q(L),u))", ["i32", "s"]),    # a smart pointer to a plain type inside a tuple
    "PU": ("p(q(L),L)", ["i32", "i32"]),       # ... inside a pair
    "W": ("c(L,c(L,u))", ["i32", "w"]),        # a wide string (char32_t) as a member
    "G": ("u", []),
}

GRID = {
    "i8": [(str(v), v) for v in (-128, -1, 0, 1, 127)],
    "i32": [(str(v), v) for v in (-2147483648, -1, 0, 1, 2)],
    "i64": [(str(v), v) for v in (-9223372036854775808, -1, 0, 7)],
    "u64": [(str(v), v) for v in (0, 1, 9223372036854775809, 18446744073709551615)],
    "s": [(hexs(s), STR_RANK[s]) for s in STRS],
    "d": DBLS,
    # wide strings of at most one character, written as its code point ("e": empty); several of them are
    # congruent modulo 256 (U+0041, U+0141, U+0241, U+10041)
    "w": [("e", 0)] + [(str(cp), cp + 1) for cp in (0x41, 0x141, 0x241, 0x10041, 0x42)],
}
SMALL = {k: v[:3] if k != "d" else v for k, v in GRID.items()}
SMALL["s"] = [(hexs(s), STR_RANK[s]) for s in ("", "a", "b")]


def values(name, grid):
    kinds = SHAPES[name][1]
    for combo in itertools.product(*[grid[k] for k in kinds]):
        yield (",".join(t for t, _ in combo) or "_", ",".join(str(r) for _, r in combo) or "_")


def cmp_case(name, x, y):
    return case("hash", "cmp", SHAPES[name][0], x[1], y[1], name, x[0], y[0])


M64 = (1 << 64) - 1
KGOLD = 0x9e3779b9


def _comb(seed, v):
    return seed ^ ((v + KGOLD + ((seed << 6) & M64) + (seed >> 2)) & M64)


def collisions_c(rng, n):
    """pairs of *unequal* values of shape C (int64, uint64, double) with equal combined hash, solved for the second
    member (std::hash of an integer is the integer itself in libstdc++; if it were not, these are ordinary pairs)"""
    out = []
    for _ in range(n):
        a = rng.choice([0, 1, -1, 7, 2 ** 40, -2 ** 63]) + rng.below(5)
        a2 = a + 1 + rng.below(9)
        b = rng.choice([0, 1, 5, 2 ** 63, 12345678901234567])
        x1, x2 = _comb(0, a & M64), _comb(0, a2 & M64)
        g = lambda x: (((x << 6) & M64) + (x >> 2)) & M64
        b2 = ((x1 ^ x2 ^ ((b + KGOLD + g(x1)) & M64)) - KGOLD - g(x2)) & M64
        assert _comb(x1, b) == _comb(x2, b2)
        ct, cr = rng.choice(DBLS)
        out.append((("%d,%d,%s" % (a, b, ct), "%d,%d,%d" % (a, b, cr)), ("%d,%d,%s" % (a2, b2, ct), "%d,%d,%d" % (a2, b2, cr))))
    return out


def gen_c16(tier, rng):
    big = tier == "thorough"
    out = []
    # unequal values whose hashes collide: the operators have to go by the members, never by the hash
    for x, y in collisions_c(rng, 200 if big else 40):
        out.append(cmp_case("C", x, y))
        out.append(cmp_case("C", y, x))
    for name in SHAPES:
        vals = list(values(name, GRID if (big or len(SHAPES[name][1]) <= 2) else SMALL))
        if len(vals) > 60 and not big:
            vals = rng.shuffle(vals)[:60]
        for x in vals:
            for y in vals:
                out.append(cmp_case(name, x, y))
    # sets / maps whose members include unequal keys with colliding hashes: both are members, both are found
    cols = collisions_c(rng, 40 if big else 12)
    for i in range(0, len(cols), 4):
        ms = [v for pair in cols[i:i + 4] for v in pair]
        ps = [v for pair in cols[(i + 4) % len(cols):(i + 4) % len(cols) + 2] for v in pair]
        out.append(case("hash", "set", "C", ";".join(m[1] for m in ms), ";".join(p[1] for p in ps),
                        ";".join(m[0] for m in ms), ";".join(p[0] for p in ps)))
    # sets / maps: insert a grid, look every member up, probe non-members
    for name in ("A", "B", "C", "D", "E"):
        vals = list(values(name, SMALL))
        for _ in range(60 if big else 15):
            k = 1 + rng.below(min(12, len(vals)))
            ms = [rng.choice(vals) for _ in range(k)]
            ps = [rng.choice(vals) for _ in range(6)]
            out.append(case("hash", "set", name, ";".join(m[1] for m in ms), ";".join(p[1] for p in ps),
                            ";".join(m[0] for m in ms), ";".join(p[0] for p in ps)))
        out.append(case("hash", "set", name, ";".join(v[1] for v in vals[:40]), ";".join(v[1] for v in vals[40:50]),
                        ";".join(v[0] for v in vals[:40]), ";".join(v[0] for v in vals[40:50])))
    # random values beyond the grid
    for _ in range(20000 if big else 2000):
        name = rng.choice(list(SHAPES))
        def rv():
            toks, ranks = [], []
            for k in SHAPES[name][1]:
                if k == "s":
                    s = "".join(chr(rng.choice([0, 97, 98, 255])) for _ in range(rng.below(4)))
                    toks.append(hexs(s))
                    # rank of an arbitrary string: its bytes as a big-endian base-257 number (order preserving)
                    r = 0
                    bs = s.encode("latin-1")
                    for i in range(4):
                        r = r * 257 + (bs[i] + 1 if i < len(bs) else 0)
                    ranks.append(r)
                elif k == "d":
                    t, r = rng.choice(DBLS)
                    toks.append(t); ranks.append(r)
                elif k == "w":
                    cp = rng.choice([0x41, 0x141, 0x41 + 256 * rng.below(4000), rng.below(0x10ffff)])
                    toks.append(str(cp)); ranks.append(cp + 1)
                else:
                    lo, hi = {"i8": (-128, 127), "i32": (-2**31, 2**31 - 1), "i64": (-2**63, 2**63 - 1), "u64": (0, 2**64 - 1)}[k]
                    v = rng.choice([lo, hi, 0, 1, -1 if lo < 0 else 2, lo + rng.below(hi - lo + 1)])
                    toks.append(str(v)); ranks.append(v)
            return (",".join(toks) or "_", ",".join(str(r) for r in ranks) or "_")
        x = rv()
        y = rv() if rng.chance(2, 3) else x
        if rng.chance(1, 4) and SHAPES[name][1]:
            # differ in one leaf only
            xt, xr = x[0].split(","), x[1].split(",")
            yt, yr = rv()
            yt, yr = yt.split(","), yr.split(",")
            i = rng.below(len(xt))
            nt, nr = list(xt), list(xr)
            nt[i], nr[i] = yt[i], yr[i]
            y = (",".join(nt), ",".join(nr))
        out.append(cmp_case(name, x, y))
    return out


def model_input(c, a):
    f = c.split("\t")
    if f[1] != "cmp":
        return c
    lh = [t for t in a.split(" ") if t.startswith("lh=")]
    if not lh or "/" not in lh[0]:
        return c
    hx, hy = lh[0][3:].split("/")
    return c + "\t" + hx + "\t" + hy


C16 = Prop(
    "C16", "hash", ["NitroVerif.Props.C16"], gen_c16,
    rule="15 value shapes (mix-in structs with 1-4 members over int8/int32/int64/uint64/string/double incl. signed "
         "zeros, a struct nested in a struct, tuple<int,pair<int,string>>, pair<tuple<int,int>,int>, variant<int,string> "
         "in both alternatives, unique_ptr<struct>, shared_ptr<string>, tuple<int,shared_ptr<string>>, pair<unique_ptr<int>,int>, tuple<int,u32string>, empty tuple); exhaustive: all ordered pairs over a "
         "grid of 3-6 values per member (sampled to 60 values per shape in the quick tier for 3+ members); unordered_set/"
         "map insert-then-lookup over grids; seeded random values incl. one-leaf differences. The harness prints each "
         "leaf's std::hash, so the model predicts the exact 64-bit combined hash. Non-trivial: at least two leaves. "
         "Distinct = distinct case line. " \
                "Every mix-in comparison also overwrites a hashed copy of x member by member with y's members (through as_tuple()) and demands hash and operators of the value it now holds; the set family fills a second set through one reused scratch key; 40 (thorough: 200) pairs of unequal (int64, uint64, double) values whose combined hashes collide, solved from the combiner. Order clause (a statement about the family, \"up to rare collisions\"): of the pairs whose leaf hashes are a transposition of each other (two components exchanged) at most a quarter may collide.",
    harness=HARNESS, search=lambda dis, rng: gen_c16("thorough", rng),
    theorem_hint="NitroVerif.Props.C16.{eq_hash,ops_agree_with_lex,trichotomy,order_trans,six_consistent,combine_inj,"
                 "tuple_last_injective,pair_second_injective,order_matters,model_combiner_is_source,source_combiner_injective_in_value}",
    level_text="Lean 4 theorems for all value trees: equal values hash equal (given std::hash is a function of the leaf "
               "value), the six operators agree with lexicographic comparison of the member tuple, trichotomy, "
               "transitivity, the 64-bit combiner is injective in the last component, a swap witness for order "
               "sensitivity. 'Rare collisions' is statistical: collisions over the grids are counted in the evidence, "
               "not proved absent. The combiner itself is regenerated from the header on every run (expression translator, "
               "Generated/HashCombine.lean) and model_combiner_is_source re-proves that the model's arithmetic, seeds and pair "
               "rule are the source's. Tied to the working tree also by exact prediction of the 64-bit hash and the six operator "
               "bits on exhaustive grids.",
    level_note="Trusted: Lean kernel; propext/Classical.choice/Quot.sound; std::hash of leaves is an input read off the "
               "implementation (its coherence with == is checked per case); std::tuple's operators and std::unordered_* "
               "are modelled; correspondence is sampled.",
    technique="Lean 4 proof (induction over value trees, BitVec algebra) + differential correspondence",
    design_ref="4 Engine Hash (C16)",
    assumptions=["std::hash<T> is a function of the value (checked per case for the leaves used)",
                 "NaN is excluded (no lawful order)"],
)
C16.model_input = model_input


def c16_extract():
    from . import extract
    return extract.extract_hash_combine()


C16.extract = c16_extract
C16.extra_trusted = ["translator vlib/extract.py (clang 14 JSON AST of detail::hash_combine_impl<unsigned long>, hash(tuple), "
                     "hash(pair), hash(variant) -> Generated/HashCombine.lean)"]


def _collision_clause(cases, verdicts, feats):
    """'up to rare collisions', per shape: of the pairs of unequal values of one shape at most a quarter may have equal
    hashes (shape C holds the deliberately solved collisions as well: they are a small share of its grid)"""
    per = {}
    for i, (c, f) in enumerate(zip(cases, feats)):
        t = c.split("\t")
        if len(t) > 6 and t[1] == "cmp" and "different" in f:
            per.setdefault(t[5], [[], []])
            per[t[5]][0].append(i)
            if "collision" in f:
                per[t[5]][1].append(i)
    bad = {}
    # the same bound for the pairs that differ in exactly one component ("the hash depends on every component"):
    # a component whose changes are systematically ignored shows here even when it is a small part of the grid
    one = {}
    for i, (c, f) in enumerate(zip(cases, feats)):
        t = c.split("\t")
        if len(t) > 6 and t[1] == "cmp" and "one-leaf-differs" in f:
            which = [x for x in f if x.startswith("leaf") and x.endswith("-differs")]
            key = (t[5], which[0] if which else "")         # per shape and per component
            one.setdefault(key, [[], []])
            one[key][0].append(i)
            if "collision" in f:
                one[key][1].append(i)
    for name, (diff, col) in one.items():
        if len(diff) >= 8 and 4 * len(col) > len(diff):
            for i in col:
                bad[i] = "bad:changing-one-component-does-not-change-the-hash(%d-of-%d-such-pairs-of-this-shape-and-component-collide)" % (len(col), len(diff))
    for name, (diff, col) in per.items():
        if len(diff) >= 8 and 4 * len(col) > len(diff):
            for i in col:
                bad[i] = "bad:unequal-values-hash-equal-systematically(%d-of-%d-unequal-pairs-of-this-shape-collide)" % (len(col), len(diff))
    return bad


def _order_clause(cases, verdicts, feats):
    """'The hash depends on component order (up to rare collisions)': of the pairs of a run whose leaf hashes are a
    transposition of each other at most a quarter may collide (the boost-style mixer does collide on a few structured
    small-integer pairs across nesting levels; a combiner that ignores order collides on all of them)."""
    ex = [i for i, f in enumerate(feats) if "two-components-exchanged" in f]
    col = [i for i in ex if "exchange-collision" in feats[i]]
    if len(ex) >= 4 and 4 * len(col) > len(ex):
        return {i: "bad:exchanging-two-components-does-not-change-the-hash(%d-of-%d-exchanged-pairs-collide)" % (len(col), len(ex))
                for i in col}
    return {}


C16.aggregate = lambda cases, verdicts, feats: {**_collision_clause(cases, verdicts, feats), **_order_clause(cases, verdicts, feats)}
