from . import props_str

PROPS = {}
for mod in (props_str,):
    for v in vars(mod).values():
        if v.__class__.__name__ == "Prop":
            PROPS[v.pid] = v
