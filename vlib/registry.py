from . import props_str, props_fmt, props_fv, props_hash, props_iter, props_own, props_opt, props_log, props_mt, props_usage

PROPS = {}
for mod in (props_str, props_fmt, props_fv, props_hash, props_iter, props_own, props_opt, props_log, props_mt, props_usage):
    for v in vars(mod).values():
        if v.__class__.__name__ == "Prop":
            PROPS[v.pid] = v
