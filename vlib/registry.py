from . import props_str, props_fmt, props_fv, props_hash, props_iter, props_own, props_opt, props_log

PROPS = {}
for mod in (props_str, props_fmt, props_fv, props_hash, props_iter, props_own, props_opt, props_log):
    for v in vars(mod).values():
        if v.__class__.__name__ == "Prop":
            PROPS[v.pid] = v
