"""C20 — enumerate / reverse."""
from .check import Prop
from .gen import case

HARNESS = dict(name="iter", source="iter.cpp", san=False,
               variants=[("asan", ["-fsanitize=address,undefined", "-fno-sanitize-recover=all", "-fno-omit-frame-pointer"]),
                         # the range of more than 2^32 elements is walked by an optimised build without sanitizers
                         ("fast", ["-O2", "-DNV_FAST"])],
               variant_of=lambda c: "fast" if c.split("\t")[1] == "ebig" else "asan")

KINDS = {
    # kind: (categories, writable, min length, max length, needs sorted distinct values)
    "vec": (("lv", "const", "rv", "prv", "cprv"), True, 0, 6, False),
    "deq": (("lv", "const", "rv", "prv", "cprv"), True, 0, 6, False),
    "list": (("lv", "const", "rv", "prv", "cprv"), True, 0, 6, False),
    "fv": (("lv", "const", "rv", "prv", "cprv"), True, 0, 6, False),
    "fvp": (("lv", "const", "rv", "prv", "cprv"), True, 0, 6, False),   # a fixed_vector with stale slots behind its end
    "arr": (("lv", "const", "rv", "prv", "cprv"), True, 0, 6, False),
    "set": (("lv", "const", "rv", "prv", "cprv"), False, 0, 6, True),
    "map": (("lv", "const", "rv", "prv", "cprv"), False, 0, 6, True),
    "carr": (("lv", "const"), True, 1, 6, False),
    # temporaries whose element type (std::any) can be constructed from the range itself
    "anyv": (("rv", "prv", "cprv"), False, 0, 4, False),
    "anyl": (("rv", "prv", "cprv"), False, 0, 4, False),
    "il": (("rv",), False, 1, 4, False),
}


def vl(xs):
    return ",".join(str(x) for x in xs) if xs else "_"


def gen_c20(tier, rng):
    out = []
    big = tier == "thorough"
    for ad in ("e", "r"):
        for kind, (cats, writable, lo, hi, srt) in KINDS.items():
            for cat in cats:
                for n in range(lo, hi + 1):
                    variants = [list(range(11, 11 + n)), [5 * (n - i) for i in range(n)] if not srt else list(range(1, 2 * n, 2))]
                    for k in range(12 if big else 3):
                        xs = [rng.below(90) - 20 for _ in range(n)]
                        variants.append(sorted(set(xs)) if srt else xs)
                    for xs in variants:
                        if len(xs) < lo:
                            continue
                        out.append(case("iter", ad, kind, cat, "0", vl(xs)))
                        if writable and cat == "lv":
                            out.append(case("iter", ad, kind, cat, "1", vl(xs)))
                        # composed / moved adaptors and the post-increment loop (container classes only)
                        if ad == "e" and kind not in ("carr", "il", "anyv", "anyl"):
                            out.append(case("iter", "er", kind, cat, "0", vl(xs)))
                            if cat == "lv":
                                out.append(case("iter", "ep", kind, cat, "0", vl(xs)))
                                out.append(case("iter", "ek", kind, cat, "0", vl(xs)))
                                out.append(case("iter", "ec", kind, cat, "0", vl(xs)))
                        if ad == "r" and kind not in ("carr", "il", "anyv", "anyl") and cat == "rv":
                            out.append(case("iter", "rm", kind, cat, "0", vl(xs)))
    # a range whose iterator throws once from an increment (without moving); the loop tries that step again
    for n in range(1, 7):
        for k in range(4 if big else 2):
            out.append(case("iter", "e", "thr", "lv", "0", vl([rng.below(90) - 20 for _ in range(n)])))
    # ranges that are longer than 2^32 elements (lazy: element k is k)
    for n, cat in (((2 ** 32 + 3, "lv"), (2 ** 32 + 3, "rv"), (2 ** 32 - 1, "lv"), (70000, "rv")) if big else ((2 ** 32 + 3, "lv"), (65539, "rv"))):
        out.append(case("iter", "ebig", "count", cat, "0", str(n)))
    return out


C20 = Prop(
    "C20", "iter", ["NitroVerif.Props.C20"], gen_c20,
    rule="exhaustive over adaptor {enumerate, reverse} x container kind {vector, deque, list, fixed_vector, std::array, "
         "set, map, built-in array, initializer list} x value category {lvalue, const, rvalue moved from a named object, genuine temporary returned by a call, const temporary} (where the language "
         "allows) x length 0..6 (1..6 / 1..4 for built-in arrays / initializer lists) x read-only / write-through, with "
         "distinct ascending, descending and seeded random values; all under ASan (a dangling temporary is a "
         "use-after-scope). Non-trivial: length >= 2. Distinct = distinct case line. " \
                "For lvalue ranges (const or not) the addresses of the visited elements are compared with the container's own elements; kind fvp: a fixed_vector with stale slots behind its end (two elements pushed and popped again); kind thr: a range whose iterator throws once from an increment, the step being tried again; adaptor ebig: a lazy range of 2^32+3 elements (element k is k) walked by an optimised build without sanitizers - every visit must pair index k with element k.",
    harness=HARNESS, search=lambda dis, rng: gen_c20("thorough", rng),
    theorem_hint="NitroVerif.Props.C20.{enumerate_visits,reverse_visits,enumerate_values,reverse_values,enumerate_alias,empty_ranges}",
    level_text="Lean 4 theorems for every length: the range-for protocol over the enumerate iterator (index kept beside the "
               "wrapped iterator, end detected by the wrapped iterator only) visits positions 0..n-1 once each with "
               "indices 0,1,2,...; over reverse iterators visits n-1..0; writes through the handed-out references update "
               "every element once; the loop terminates and never dereferences outside. Overload selection, value "
               "categories and temporaries' lifetime are C++ semantics outside the model: covered by the harness over all "
               "container kinds x categories under ASan, labelled partial.",
    level_note="Trusted: Lean kernel; propext/Classical.choice/Quot.sound; iterators of the standard containers are "
               "modelled as positions; correspondence is exhaustive over the stated grid but the grid is finite.",
    technique="Lean 4 proof (induction over loop fuel/position) + differential correspondence over container kinds",
    design_ref="4 Engine Iter (C20)",
    assumptions=["standard containers' begin/end/rbegin/rend form valid ranges"],
)
