"""C05 / C10 — logging front end."""
import itertools
from .check import Prop
from .core import hexs

HARNESS = dict(name="log", source="log.cpp",
               variants=[(str(m), ["-DNV_MIN=%d" % m]) for m in range(6)],
               variant_of=lambda c: c.split("\t")[2])


def item(kind, text, lid=0):
    if kind in ("L", "M"):
        return "%s%d.%s" % (kind, lid, hexs(text))
    return kind + hexs(text)


def st(sev, tag, named, items):
    return "st:%d:%s:%s:%s" % (sev, "~" if tag is None else hexs(tag), named, ",".join(items) if items else "_")


def ov(sa, ta, ia, sb, tb, ib):
    f = lambda t: "~" if t is None else hexs(t)
    g = lambda its: ",".join(its) if its else "_"
    return "ov:%d:%s:%s:%d:%s:%s" % (sa, f(ta), g(ia), sb, f(tb), g(ib))


def lcase(ptag, minsev, fid, members, ops):
    return "\t".join(["log", ptag, str(minsev), str(fid), str(members), ";".join(ops)])


ITEM_PATTERNS = [[], ["s"], ["L"], ["s", "L"], ["L", "s"], ["i", "c", "d"], ["L", "L"], ["s", "i", "L", "s"], ["p", "L", "d"],
                 # x: a value whose inserter leaves the statement's stream in the failed state
                 ["s", "x", "L", "s"], ["x", "L", "L"], ["L", "x", "s"],
                 # M: a callable with a non-const call operator which could also be printed as a value
                 ["M"], ["s", "M", "L"], ["M", "M", "d"],
                 # a: a partly filled fixed-size character buffer
                 ["a"], ["s", "a", "i"], ["a", "L", "a"],
                 # T: a callable that changes the runtime threshold while the statement is being evaluated
                 ["s", "T", "L", "s"], ["T", "T"], ["L", "T", "i"]]


def mk_items(pattern, base):
    out = []
    for k, kind in enumerate(pattern):
        if kind == "s":
            out.append(item("s", ["", "msg", "a b", "{}", "\xff"][(base + k) % 5]))
        elif kind == "p":
            out.append(item("p", "lit%d" % k))
        elif kind == "i":
            out.append(item("i", str((base * 7 + k) % 100 - 20)))
        elif kind == "c":
            out.append(item("c", "xyz"[(base + k) % 3]))
        elif kind == "d":
            out.append(item("d", ["1.5", "-0.25", "100", "0"][(base + k) % 4]))
        elif kind == "a":
            out.append(item("a", ["eth0", "n=7", "", "abc def"][(base + k) % 4]))
        elif kind == "x":
            out.append(item("x", ""))
        elif kind == "T":
            # a callable that sets threshold 0 (to 0..5) when it is called
            out.append(item("L", "tz%d" % k, 900 + (base + k) % 6))
        elif kind == "M":
            out.append(item("M", "mz%d" % k, 10 * (base % 7) + k))
        else:
            out.append(item("L", "lz%d" % k, 10 * (base % 7) + k))
    return out


def forms(n):
    f = ["e", "n0"]
    if n >= 1:
        f.append("n1")
    if n >= 2:
        f.append("n%d" % n)
    # u…: the same statement executed from a destructor while an exception propagates
    f += ["ue", "un0"] + (["un1"] if n >= 1 else [])
    return f


def gen_log(ptag, tier, rng):
    big = tier == "thorough"
    out = []
    for m in range(6):
        out.append("\t".join(["log", ptag, str(m), "TYPES"]))
    base = 0
    # one filter (threshold 0), all 6 x 6 x 6 (statement severity x minimum x threshold), every shape and form
    for m in range(6):
        for thr in range(6):
            for sev in range(6):
                for pi, pat in enumerate(ITEM_PATTERNS):
                    for form in forms(len(pat)):
                        if not big and (pi + sev + thr + m) % 3 and form not in ("e",):
                            continue
                        base += 1
                        tag = [None, "tg", ""][base % 3]
                        one = st(sev, tag, form, mk_items(pat, base))
                        if base % 7 == 3:
                            one = "stx" + one[2:]     # the statement runs on another thread than the one that configured the filter
                        out.append(lcase(ptag, m, 0, 1 + 2 * (base % 2), [["thr:0:%d", "thrx:0:%d"][base % 5 == 0] % thr, one]))
    # every filter type x threshold triples (sampled), two members configurations
    for fid in range(13):
        for m in (0, 2, 4):
            for t0, t1, t2 in itertools.product((0, 2, 3, 5), repeat=3):
                for sev in (0, 1, 2, 3, 4, 5):
                    base += 1
                    if not big and base % 4:
                        continue
                    pat = ITEM_PATTERNS[base % len(ITEM_PATTERNS)]
                    form = forms(len(pat))[base % len(forms(len(pat)))]
                    out.append(lcase(ptag, m, fid, 1 + 2 * (base % 2),
                                     [["thr:0:%d", "thrx:0:%d"][(base // 4) % 2] % t0, "thr:1:%d" % t1, "thr:2:%d" % t2,
                                      st(sev, [None, "T", "t"][(base // 4) % 3], form, mk_items(pat, base))]))
    # two named streams open at the same time (same severity, or the next one), interleaved insertions
    for m in (0, 2, 3):
        for thr in (0, 2, 4):
            for sa in range(6):
                for same in (True, False):
                    for pa, pb in ((["s"], ["s"]), (["s", "L"], ["L", "s", "s"]), ([], ["s"]), (["L"], [])):
                        base += 1
                        sb = sa if same else (sa + 1) % 6
                        out.append(lcase(ptag, m, 0, 1 + 2 * (base % 2),
                                         ["thr:0:%d" % thr, ov(sa, "A", mk_items(pa, base), sb, [None, "B"][base % 2], mk_items(pb, base + 3))]))
    # histories: several statements, thresholds changing in between
    for _ in range(20000 if big else 2500):
        m = rng.below(6)
        fid = rng.below(13)
        ops = []
        for _ in range(1 + rng.below(8)):
            if rng.chance(1, 4):
                ops.append("%s:%d:%d" % (rng.choice(["thr", "thr", "thrx"]), rng.below(3), rng.below(6)))
            elif rng.chance(1, 6):
                sa = rng.below(6)
                ops.append(ov(sa, rng.choice([None, "a"]), mk_items([rng.choice("sLixL") for _ in range(rng.below(4))], rng.below(1000)),
                              rng.choice([sa, (sa + 1) % 6]), rng.choice([None, "b"]),
                              mk_items([rng.choice("sLd") for _ in range(rng.below(4))], rng.below(1000))))
            else:
                pat = [rng.choice("ssLLicdpMTa") for _ in range(rng.below(6))]
                n = len(pat)
                form = rng.choice(["e", "ue"] + ["n%d" % k for k in range(n + 1)] + ["un%d" % k for k in range(n + 1)])
                one = st(rng.below(6), rng.choice([None, "t", "T", "tag two", ""]), form, mk_items(pat, rng.below(1000)))
                ops.append(("stx" + one[2:]) if rng.chance(1, 5) else one)
        out.append(lcase(ptag, m, fid, rng.choice([1, 3]), ops))
    return out


NOTE = ("Trusted: Lean kernel; propext/Classical.choice/Quot.sound; the C++ object model (temporaries destroyed in "
        "reverse order at the end of the full expression, guaranteed copy elision), unique_ptr and stringstream are "
        "modelled; the chain of temporaries is emulated by nested calls in the harness; correspondence is sampled "
        "(the 6x6 type table is exhaustive).")

C05 = Prop(
    "C05", "log", ["NitroVerif.Props.C05"], lambda tier, rng: gen_log("C05", tier, rng),
    rule="harness compiled six times (one per compile-time minimum); recording Sink, recording Formatter, a plain sink "
         "and a three-member sink::sequence, 8 filter types (threshold, and, or, not, not-not, two depth-3 expressions, "
         "null); all 6x6x6 (statement severity x minimum x threshold) for 9 item patterns (strings, const char*, int, char, "
         "double, lambdas and std::function callables, 0-4 items) in the one-expression form and the named-stream forms "
         "(quick: a third of the named forms); every filter type x 64 threshold triples x 6 severities (quick: a quarter); "
         "seeded random histories of up to 8 statements with threshold changes in between. Compared: the exact event "
         "trace (callable calls, format calls, sink calls per member). Item kind a: a partly filled 24-byte character buffer (const and non-const array). Item kind T: a callable that sets threshold 0 when it is called (the statement it belongs to is unaffected, later ones see it). Two members of the three-member sequence take the "
         "formatted record by value and consume it. Non-trivial: at least one statement. " \
                "Item kind x: a value whose inserter puts the statement's string stream into the failed state (nothing is appended afterwards, callables are still evaluated); overlapping statements (a statement evaluated inside an item of another one).",
    harness=HARNESS, search=lambda dis, rng: rng.shuffle(gen_log("C05", "thorough", rng))[:40000],
    theorem_hint="NitroVerif.Props.C05.{statement_spec,run_spec,exactly_once,nothing_when_disabled,form_irrelevant,window_filter,inverted_window_rejects_everything,not_not}",
    level_text="Lean 4: the operational model of smart_stream (filter evaluated once at construction, ownership of record and "
               "buffer moving along the << chain, only the last owner logging, destruction order) is proved equal to the "
               "specification for every statement in every syntactic form and every history: nothing when disabled, else "
               "formatter once with severity, tag and the concatenation of everything streamed, every member sink once "
               "in declaration order, program order kept.",
    level_note=NOTE, technique="Lean 4 proof (induction over the << chain and over histories) + differential correspondence (6 builds)",
    design_ref="4 Engine Log (C05, C10)",
    assumptions=["single thread (cross-thread ordering is C09's)", "the Formatter/Sink template parameters are called as the logger documents"],
)

C10 = Prop(
    "C10", "log", ["NitroVerif.Props.C10"], lambda tier, rng: gen_log("C10", tier, rng),
    rule="as C05, plus the 6x6 type table: for each compile-time minimum the harness reports std::is_same<decltype("
         "logger::<sev>()), null_stream> for all six severities (exhaustive). Non-trivial: at least one statement / "
         "every type-table case.",
    harness=HARNESS, search=lambda dis, rng: rng.shuffle(gen_log("C10", "thorough", rng))[:40000],
    theorem_hint="NitroVerif.Props.C10.{disabled_no_effect,enabled_once_in_place,stream_type}",
    level_text="Lean 4: a statement below the compile-time minimum or rejected by the runtime filter produces no event at all "
               "(no callable is called, no format, no sink), an emitted one calls each callable exactly once, in place, "
               "before the formatter; the stream-type table is decided exhaustively by compiling all six configurations.",
    level_note=NOTE, technique="Lean 4 proof + exhaustive compile-time type table + differential correspondence (6 builds)",
    design_ref="4 Engine Log (C05, C10)",
    assumptions=["callables are side-effect free apart from being observed"],
)

for _p in (C05, C10):
    _p.rule += " Callables also come as a plain function, as a pointer to a function and as a capturing lambda lvalue."

for _p in (C05, C10):
    _p.rule += " Filter types 10-12: two-operand windows (T0 and not T1, in both operand orders; not T0 or T1) with independent - also inverted - thresholds."
