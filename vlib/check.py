"""One check run: extract -> prove -> build harness -> correspond -> judge -> evidence."""
import json
import os
import sys
import time

from . import core
from .core import Rng


class Prop:
    """Description of one property's check.  Filled in by vlib/props_*.py."""

    def __init__(self, pid, engine, lean_modules, gen, rule, harness, describe=None,
                 search=None, extract=None, known=None, env=None, statics=None,
                 assumptions=(), theorem_hint="", extra_trusted=(), level_text="", level_note="",
                 technique="", design_ref=""):
        self.pid = pid
        self.engine = engine
        self.lean_modules = lean_modules
        self.gen = gen                  # (tier, rng) -> [case line]
        self.rule = rule
        self.harness = harness          # dict(name, source, repo_srcs, flags, ...)
        self.describe = describe or default_describe
        self.search = search            # (disagreeing cases, rng) -> [case line]
        self.extract = extract          # () -> (ok, note)   regenerates Generated/*.lean
        self.known = known or {}        # key -> predicate(case, impl, judge)
        self.env = env
        self.statics = statics          # (exe) -> [problem strings]  extra exhaustive static checks
        self.assumptions = list(assumptions)
        self.theorem_hint = theorem_hint
        self.extra_trusted = list(extra_trusted)
        self.level_text = level_text
        self.level_note = level_note
        self.technique = technique
        self.design_ref = design_ref
        self.model_input = None         # (case, impl answer) -> model input line (inputs read off the implementation)
        self.aggregate = None           # (cases, verdicts, feats) -> {index: "bad:..."}: clauses that are statements
                                        # about a family of cases ("up to rare collisions"), not about single ones


def default_describe(case):
    out = []
    for f in case.split("\t"):
        try:
            if f and all(c in "0123456789abcdef,-." for c in f) and (len(f) > 1 or f in "-."):
                if "," in f or f == ".":
                    out.append([core.unhexs(x).decode("latin-1") for x in f.split(",")] if f != "." else [])
                else:
                    out.append(core.unhexs(f).decode("latin-1"))
            else:
                out.append(f)
        except ValueError:
            out.append(f)
    return out


def dedupe(xs):
    seen, out = set(), []
    for x in xs:
        if x not in seen:
            seen.add(x)
            out.append(x)
    return out


def run_variants(prop, exes, cases):
    """several builds of one harness (e.g. one per compile-time minimum): every case goes to its build"""
    sel = prop.harness["variant_of"]
    groups = {}
    for i, c in enumerate(cases):
        groups.setdefault(sel(c), []).append(i)
    impl = [None] * len(cases)
    crashes = []
    for key, idxs in groups.items():
        if key not in exes:
            for i in idxs:
                impl[i] = "no-such-build"
            continue
        a, cr = core.run_impl(exes[key], [cases[i] for i in idxs], env=prop.env)
        for i, x in zip(idxs, a):
            impl[i] = x
        crashes.extend((idxs[k] if k < len(idxs) else 0, kind, err) for k, kind, err in cr)
    return impl, crashes


def evaluate(prop, exe, cases):
    if isinstance(exe, dict):
        impl, crashes = run_variants(prop, exe, cases)
    else:
        impl, crashes = core.run_impl(exe, cases, env=prop.env)
    # cases behind the restart cap were not executed: they are dropped (and counted), never judged
    keep = [i for i, a in enumerate(impl) if a != "skipped"]
    if len(keep) != len(cases):
        crashes.append((len(keep), "skipped:%d-cases-behind-restart-cap" % (len(cases) - len(keep)), ""))
        cases[:] = [cases[i] for i in keep]
        impl = [impl[i] for i in keep]
    mi = getattr(prop, "model_input", None)
    model = core.run_driver("model", [mi(c, a) for c, a in zip(cases, impl)] if mi else cases)
    judged = core.run_driver("judge", [c + "\t=>\t" + a for c, a in zip(cases, impl)])
    verdicts, feats = [], []
    for j in judged:
        v, _, ft = j.partition("\t")
        verdicts.append(v)
        feats.append(ft.split())
    return impl, model, verdicts, feats, crashes


def run_check(prop, tier, seed, replay=None):
    t0 = time.time()
    pid = prop.pid
    rng = Rng(seed).fork(pid)
    os.makedirs(os.path.join(core.VERIF, "evidence"), exist_ok=True)
    os.makedirs(os.path.join(core.VERIF, "replays"), exist_ok=True)
    notes = []
    proof_problems = []   # names of theorems / obligations that no longer check
    corr_problems = []    # names of correspondence streams that no longer check

    # 1. extract ---------------------------------------------------------------
    if prop.extract:
        ok, note = prop.extract()
        notes.append("extract: " + note)
        if not ok:
            proof_problems.append("translator: " + note)

    # 2. prove -----------------------------------------------------------------
    ok_drv, log_drv, _ = core.lean_build([])
    if not ok_drv:
        proof_problems.append("lake build nvdriver failed")
        notes.append(log_drv[-3000:])
    ok_build, log, build_s = core.lean_build(prop.lean_modules)
    thms = []
    if not ok_build:
        errs = [l for l in log.split("\n") if l.startswith("error")]
        proof_problems.append("lake build %s failed: %s" % (" ".join(prop.lean_modules), " | ".join(errs[:5])))
        notes.append(log[-3000:])
    else:
        ok_a, thms, out = core.lean_audit(pid, prop.lean_modules)
        if not ok_a or not thms:
            proof_problems.append("axiom audit failed")
            notes.append(out[-2000:])
    bad_ax = [(n, [a for a in ax if a not in core.ALLOWED_AXIOMS]) for n, ax in thms]
    bad_ax = [(n, a) for n, a in bad_ax if a]
    for n, a in bad_ax:
        proof_problems.append("theorem %s depends on axioms %s" % (n, " ".join(a)))
    forb = core.lean_source_audit()
    for h in forb:
        proof_problems.append("forbidden token: " + h)
    if tier == "thorough" and ok_build:
        for m in prop.lean_modules:
            okc, outc = core.leanchecker(m)
            if not okc:
                proof_problems.append("leanchecker rejects " + m)
                notes.append(outc)
    obligations = len(thms) if thms else max(1, len(proof_problems))
    discharged = len(thms) - len(bad_ax) if (thms and ok_build and not forb) else 0

    # 3. harness -----------------------------------------------------------------
    h = prop.harness
    if "variants" in h:
        from concurrent.futures import ThreadPoolExecutor
        def bv(kv):
            key, vflags = kv
            return key, core.build_harness(h["name"], h["source"], h.get("repo_srcs", ()),
                                           list(h.get("flags", ())) + list(vflags), h.get("extra_sources", ()),
                                           h.get("san", True), "-" + str(key), h.get("shared_libs", ()))
        with ThreadPoolExecutor(len(h["variants"])) as ex:
            built = list(ex.map(bv, h["variants"]))
        okh = all(r[0] for _, r in built)
        exe = {key: r[1] for key, r in built}
        hlog = "\n".join(r[2] for _, r in built if not r[0])
    else:
        okh, exe, hlog = core.build_harness(h["name"], h["source"], h.get("repo_srcs", ()),
                                            h.get("flags", ()), h.get("extra_sources", ()),
                                            h.get("san", True), "", h.get("shared_libs", ()))
    cases, impl, model, verdicts, feats, crashes = [], [], [], [], [], []
    static_problems = []
    if not okh:
        corr_problems.append("harness %s does not compile against the working tree" % h["source"])
        notes.append(hlog[-4000:])
    elif not os.path.exists(core.DRIVER):
        corr_problems.append("model driver missing")
    else:
        # 4. correspond ----------------------------------------------------------
        if replay:
            rp = json.load(open(replay))
            cases = [c["case"] for c in rp.get("cases", [])]
        else:
            cases = dedupe(core.corpus_cases(pid) + prop.gen(tier, rng))
        impl, model, verdicts, feats, crashes = evaluate(prop, exe, cases)
        if prop.aggregate:
            for i, v in prop.aggregate(cases, verdicts, feats).items():
                if verdicts[i] == "ok":
                    verdicts[i] = v
        if prop.statics:
            static_problems = prop.statics(exe)
            corr_problems.extend(static_problems)

    # 5. judge -------------------------------------------------------------------
    known = core.load_known()
    known_keys = {f["key"]: f for f in known.get("findings", []) if f["property"] == pid}
    disagree = [i for i in range(len(cases)) if impl[i] != model[i]]
    failing = [i for i in range(len(cases)) if verdicts[i] != "ok"]
    known_hits, new_fail = {}, []
    for i in failing:
        key = None
        for k, pred in prop.known.items():
            if k in known_keys and pred(cases[i], impl[i], verdicts[i]):
                key = k
                break
        if key:
            known_hits.setdefault(key, []).append(i)
        else:
            new_fail.append(i)
    known_idx = {i for v in known_hits.values() for i in v}
    disagree_unexplained = [i for i in disagree if i not in known_idx]
    if disagree_unexplained:
        corr_problems.append("model/implementation answers differ on %d of %d cases (stream %s)" % (
            len(disagree_unexplained), len(cases), prop.engine))

    searched = 0
    if not new_fail and (proof_problems or corr_problems) and okh and prop.search and not replay:
        # something no longer checks: look for a concrete failing input
        extra = dedupe(prop.search([cases[i] for i in disagree_unexplained[:50]], rng.fork("search")))
        extra = [c for c in extra if c not in set(cases)]
        if extra:
            i2, m2, v2, f2, c2 = evaluate(prop, exe, extra)
            if prop.aggregate:
                for i, v in prop.aggregate(extra, v2, f2).items():
                    if v2[i] == "ok":
                        v2[i] = v
            searched = len(extra)
            base = len(cases)
            cases += extra; impl += i2; model += m2; verdicts += v2; feats += f2
            for j in range(len(extra)):
                if v2[j] != "ok":
                    i = base + j
                    key = None
                    for k, pred in prop.known.items():
                        if k in known_keys and pred(cases[i], impl[i], verdicts[i]):
                            key = k
                    if key:
                        known_hits.setdefault(key, []).append(i)
                    else:
                        new_fail.append(i)

    def rec(i):
        return {"case": cases[i], "readable": prop.describe(cases[i]), "impl": impl[i],
                "model": model[i], "property_verdict": verdicts[i]}

    violation_line = None
    replay_path = None
    if new_fail:
        new_fail.sort(key=lambda i: (len(cases[i]), cases[i]))
        replay_path = os.path.join(core.VERIF, "replays", "%s-%s-seed%d.json" % (pid, tier, seed))
        json.dump({"property": pid, "kind": "failing-input",
                   "what": "the property predicate is false on the implementation's answer",
                   "theorem": prop.theorem_hint,
                   "replay_cmd": "./check %s --replay %s" % (pid, replay_path),
                   "cases": [rec(i) for i in new_fail[:20]],
                   "failing_total": len(new_fail),
                   "proof_problems": proof_problems, "correspondence_problems": corr_problems},
                  open(replay_path, "w"), indent=1)
        violation_line = "VIOLATION property=%s replay=%s" % (pid, replay_path)
    elif proof_problems or corr_problems:
        replay_path = os.path.join(core.VERIF, "replays", "%s-%s-seed%d.json" % (pid, tier, seed))
        json.dump({"property": pid, "kind": "no-failing-input-found",
                   "what": "a proof obligation or the model/implementation correspondence no longer "
                           "checks; the search found no input on which the property predicate fails",
                   "no_longer_checks": proof_problems + corr_problems,
                   "theorem": prop.theorem_hint,
                   "searched_extra_cases": searched,
                   "replay_cmd": "./check %s --replay %s" % (pid, replay_path),
                   "cases": [rec(i) for i in disagree_unexplained[:20]],
                   "disagreeing_total": len(disagree_unexplained),
                   "notes": notes[-3:]},
                  open(replay_path, "w"), indent=1)
        violation_line = "VIOLATION property=%s replay=%s no-failing-input-found" % (pid, replay_path)

    # evidence -------------------------------------------------------------------
    hist = {}
    nontrivial = set()
    for c, ft in zip(cases, feats):
        for f in ft:
            if f == "nt":
                nontrivial.add(c)
            else:
                hist[f] = hist.get(f, 0) + 1
    outcome_hist = {}
    for a in impl:
        k = a.split(" ")[0].split("\t")[0][:24]
        outcome_hist[k] = outcome_hist.get(k, 0) + 1
    step = max(1, len(cases) // 6)
    samples = [rec(i) for i in range(0, len(cases), step)][:6]
    samples += [{"theorem": n, "axioms": ax} for n, ax in thms[:40]]
    ev = {
        "property_id": pid, "tier": tier, "seed": seed, "level": "proof",
        "coverage": {
            "obligations": obligations, "discharged": discharged,
            "checker_cmd": "cd lean && lake build %s && lake env lean ../.build/audit/%s.lean "
                           "(#print-axioms audit of every theorem in the namespace)%s" % (
                               " ".join(prop.lean_modules), pid,
                               " && lake env leanchecker <module>" if tier == "thorough" else ""),
            "trusted_base": ["Lean 4.33.0 kernel", "axioms: propext, Classical.choice, Quot.sound (nothing else; audited this run)",
                             "hand-written model NitroVerif.Model.* tied to /repo by the correspondence run below",
                             "C++ harness harness/%s + g++ ASan/UBSan" % h["source"],
                             "Lean compiler for the native driver (same definitions as the theorems)"] + prop.extra_trusted,
            "theorems": [n for n, _ in thms],
            "evaluations": len(cases), "distinct_nontrivial": len(nontrivial),
            "rule": prop.rule,
            "samples": samples,
            "feature_histogram": hist, "impl_outcome_histogram": outcome_hist,
            "model_impl_disagreements": len(disagree), "property_failures": len(failing),
            "known_finding_hits": {k: len(v) for k, v in known_hits.items()},
            "crashes": [{"case": cases[k] if k < len(cases) else "?", "kind": kind} for k, kind, _ in crashes[:10]],
            "search_extra_cases": searched,
            "static_problems": static_problems,
            "proof_problems": proof_problems, "correspondence_problems": corr_problems,
            "repo_tree_sha256": core.repo_hash(), "lean_build_s": round(build_s, 1),
            "notes": notes[-5:],
        },
        "assumptions": prop.assumptions,
        "wall_s": round(time.time() - t0, 2),
        "violations": len(new_fail) if new_fail else (1 if violation_line else 0),
    }
    if not replay:
        json.dump(ev, open(os.path.join(core.VERIF, "evidence", pid + ".json"), "w"), indent=1)

    for k, idxs in sorted(known_hits.items()):
        print("KNOWN-FINDING: property=%s %s: %s (%d cases, e.g. %s)" % (
            pid, k, known_keys[k]["what"], len(idxs), json.dumps(prop.describe(cases[idxs[0]]))[:300]))
    print("%s %s seed=%d: %d theorems (%d discharged), %d cases (%d non-trivial), %d disagreements, "
          "%d property failures, %.1fs" % (pid, tier, seed, obligations, discharged, len(cases),
                                           len(nontrivial), len(disagree), len(failing), time.time() - t0))
    if replay:
        for i in range(len(cases)):
            print(json.dumps(rec(i)))
    if violation_line:
        print(violation_line)
        return 1
    return 0
