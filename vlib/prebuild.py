import sys
from concurrent.futures import ThreadPoolExecutor
from . import core
from .registry import PROPS


def main():
    hs = {}
    for p in PROPS.values():
        h = p.harness
        hs[h["name"]] = h
    def b(h):
        if "variants" in h:
            oks, logs = [], ""
            for key, vflags in h["variants"]:
                ok, exe, log = core.build_harness(h["name"], h["source"], h.get("repo_srcs", ()),
                                                  list(h.get("flags", ())) + list(vflags), h.get("extra_sources", ()),
                                                  h.get("san", True), "-" + str(key), h.get("shared_libs", ()))
                oks.append(ok)
                logs += log if not ok else ""
            return h["name"], all(oks), logs
        ok, exe, log = core.build_harness(h["name"], h["source"], h.get("repo_srcs", ()), h.get("flags", ()),
                                          h.get("extra_sources", ()), h.get("san", True), "", h.get("shared_libs", ()))
        return h["name"], ok, log
    with ThreadPoolExecutor(8) as ex:
        for name, ok, log in ex.map(b, hs.values()):
            print("harness %s: %s" % (name, "ok" if ok else "FAILED\n" + log[-2000:]))
    return 0


if __name__ == "__main__":
    sys.exit(main())
