"""Small helpers for case generators."""
import itertools
from .core import hexs, hexl


def strings(alphabet, maxlen, minlen=0):
    for n in range(minlen, maxlen + 1):
        for t in itertools.product(alphabet, repeat=n):
            yield "".join(t)


def case(engine, *fields):
    return "\t".join([engine] + list(fields))


def rand_string(rng, alphabet, maxlen):
    n = rng.below(maxlen + 1)
    return "".join(rng.choice(alphabet) for _ in range(n))
