"""C09 — thread-safe sinks."""
from .check import Prop
from . import extract

HARNESS = dict(name="mt", source="mt.cpp", san=False,
               variants=[("asan", ["-fsanitize=address,undefined", "-fno-sanitize-recover=all", "-pthread"]),
                         ("tsan", ["-fsanitize=thread", "-pthread"])],
               variant_of=lambda c: c.split("\t")[-1])


SEV_PAIRS = [(2, b) for b in range(6)] + [(a, 2) for a in range(6) if a != 2] + [(5, 5), (0, 5), (5, 0)]


def gen_c09(tier, rng):
    big = tier == "thorough"
    out = []
    for sink in "oe":
        # turnstile: every severity of the second writer against an info record, every severity of the parked
        # writer, fatal against fatal; parked in the write and in the flush
        for (sa, sb) in SEV_PAIRS:
            for park in "ws":
                for rep in range(2 if big else 1):
                    out.append("\t".join(["mt", "turn", sink, str(sa), str(sb), park, str(rep), "asan"]))
        # the same after many earlier records (65535, 65536+255: counters inside a lock wrap around)
        for before in ((255, 65535, 65791, 131071) if big else (65535,)):
            for park in "ws":
                out.append("\t".join(["mt", "turn", sink, "2", "2", park, str(before), "asan"]))
        # sequences of turnstiles among three long-lived threads: the parked writer of one round is the intruder of the
        # next, a thread that waited comes back while a third one is inside, ...
        seqs = ["01.10.01", "01.12.20.02", "01.01.10.21.12"] + (["10.02.21.10.01.20", "02.20.12.21.01.10"] if big else [])
        for rounds in seqs:
            for park in "ws":
                out.append("\t".join(["mt", "turnseq", sink, rounds, park, "asan"]))
        # chains of turnstiles without a gap (the blocked thread of one round is the parked one of the next)
        for seq in ["0120", "01210", "0101"] + (["012012", "02120", "010201"] if big else []):
            for park in "ws":
                out.append("\t".join(["mt", "chain", sink, seq, park, "asan"]))
        for n in (2, 4, 8):
            for r in ((20, 120, 250) if big else (20, 120)):
                for mode in ((2, 5, 6, 7, 8) if big else (6, 7, 8)):
                    for k in range(4 if big else 1):
                        out.append("\t".join(["mt", "stress", sink, str(n), str(min(r, 120) if mode == 8 else r), str(mode), str(rng.below(10 ** 6)), "asan"]))
        # records longer than a page from one thread, short ones from the others
        for n in ((2, 4, 8) if big else (2, 4)):
            for k in range(3 if big else 1):
                out.append("\t".join(["mt", "stress", sink, str(n), "3", "9", str(rng.below(10 ** 6)), "asan"]))
        # records of megabytes from one thread while the others keep logging short ones
        for n, mb in (((2, 2), (4, 4), (8, 8), (4, 16)) if big else ((4, 2),)):
            out.append("\t".join(["mt", "heavy", sink, str(n), "2", str(mb), str(rng.below(10 ** 6)), "asan"]))
        for n in ((2, 4, 8) if big else (4,)):
            for r in ((100, 250) if big else (60,)):
                for mode in (6, 7, 8):
                    out.append("\t".join(["mt", "stress", sink, str(n), str(min(r, 120) if mode == 8 else r), str(mode), str(rng.below(10 ** 6)), "tsan"]))
    return out


def c09_extract():
    return extract.extract_mt_sinks()


C09 = Prop(
    "C09", "mt", ["NitroVerif.Props.C09"], gen_c09,
    rule="real threads through one logger whose sink is stdout_mt / StdErrThreaded, with std::cout / std::cerr's buffer "
         "replaced by a deliberately unsynchronised, buffering one that detects concurrent entry into write and flush: a "
         "turnstile scenario (writer A parked inside the stream buffer - in its write or in the flush that follows - "
         "writer B given 300 ms to get in) for 14 pairs of severities (every severity of B against info, every severity "
         "of A, fatal/fatal; also after 65535 earlier records) and stress runs with N in {2,4,8} threads x 20/120 records of varying length and mixed "
         "severities (thorough: up to 250, more seeds, more mixes) with yields, byte-exact reassembly of the device "
         "contents; records of 2 MiB (thorough: up to 16 MiB) from one thread while three (1..7) others log 1500 short "
         "records each (for these the model side does not simulate: it answers from the theorem when the extracted "
         "bodies have the proved shape, and 'not-proved' otherwise); ThreadSanitizer builds. The model side runs the *extracted* per-severity sink bodies under seeded "
         "pseudo-random schedules. Severity mode 8: every statement's operand is a callable that logs a record of its own "
         "(nested statements on one thread: two records per statement). Non-trivial: at least 2 threads. Distinct = "
         "distinct case line.",
    harness=HARNESS, extract=c09_extract,
    search=lambda dis, rng: gen_c09("thorough", rng),
    theorem_hint="NitroVerif.Props.C09.{runs_inv,mutex,atomic,complete,extracted_sinks_are_good,stdout_mt_safe,stderr_mt_safe,*_counterexample}",
    level_text="Lean 4 theorem over every schedule (any interleaving, any number of threads and records, one step per "
               "byte, no atomicity assumed of the stream, the sink body may depend on the record's severity): for "
               "the sink bodies extracted from the source on every run, one per severity (lock guard on a function-local "
               "static mutex first, then the insertion, then flushes, nothing released before the body ends) at most one "
               "thread is past the lock and the output is an order-preserving merge of whole records, nothing lost or "
               "duplicated. The scheduler, std::mutex and lock_guard are modelled; real threads are exercised by the "
               "harness (turnstile, stress, TSan) as support - that part is runtime observation, labelled partial.",
    level_note="Trusted: Lean kernel; propext/Classical.choice/Quot.sound; translator vlib/extract.py (clang 14 JSON AST of "
               "the two sink bodies, executed symbolically per severity value: guards, deferred locks, nested blocks, "
               "severity conditions, insertions and flushes; anything else is reported as unrecognised -> Generated/MtSinks.lean); the semantics given to lock_guard/mutex/operator<< in "
               "Model/MT.lean; real schedules are sampled, not enumerated.",
    technique="Lean 4 proof (invariant over all schedules of the extracted sink program) + translator + real-thread turnstile/TSan support",
    design_ref="4 Engine MT (C09)",
    assumptions=["std::mutex provides mutual exclusion; lock_guard releases at the end of the sink body",
                 "logger::instance() (function-local static) is initialised thread-safely (C++11)"],
    extra_trusted=["translator vlib/extract.py for the *_mt sink bodies"],
)

C09.rule += (" Sequences of turnstiles among three long-lived threads (turnseq) and chains of turnstiles without a gap (chain: the blocked thread of one "
             "round is the parked one of the next, so every thread enters while somebody is inside and leaves while somebody waits); the Lean side answers "
             "these from the mutual-exclusion theorem when the extracted bodies have the proved shape.")
