import NitroVerif.Proto
import NitroVerif.Model.Str
import NitroVerif.Spec.Str
import NitroVerif.Lemmas.Str
import NitroVerif.Props.C17
import NitroVerif.Drv.Str
