import NitroVerif.Proto
import NitroVerif.Drv.Str
import NitroVerif.Drv.Fmt
import NitroVerif.Drv.FV
import NitroVerif.Drv.Hash
import NitroVerif.Drv.Iter
import NitroVerif.Drv.Own
import NitroVerif.Drv.Opt
import NitroVerif.Drv.Log
import NitroVerif.Drv.MT
import NitroVerif.Drv.Usage

/-!
`nvdriver model`  : one case per line on stdin, the model's answer per line on stdout.
`nvdriver judge`  : lines `case<TAB>=><TAB>answer`; prints `ok|bad:<why><TAB>features`.
The first field of a case names the engine.
-/
open NitroVerif

def modelLine (line : String) : String :=
  match Proto.fields line with
  | "str" :: rest => Drv.Str.model rest
  | "fmt" :: rest => Drv.Fmt.model rest
  | "fv" :: rest => Drv.FV.model rest
  | "hash" :: rest => Drv.Hash.model rest
  | "iter" :: rest => Drv.Iter.model rest
  | "own" :: rest => Drv.Own.model rest
  | "opt" :: rest => Drv.Opt.model rest
  | "log" :: rest => Drv.Log.model rest
  | "mt" :: rest => Drv.MT.model rest
  | "usage" :: rest => Drv.Usage.model rest
  | _ => "bad-op"

def judgeLine (line : String) : String :=
  match line.splitOn "\t=>\t" with
  | [c, ans] =>
    match Proto.fields c with
    | "str" :: rest => Drv.Str.judge rest ans
    | "fmt" :: rest => Drv.Fmt.judge rest ans
    | "fv" :: rest => Drv.FV.judge rest ans
    | "hash" :: rest => Drv.Hash.judge rest ans
    | "iter" :: rest => Drv.Iter.judge rest ans
    | "own" :: rest => Drv.Own.judge rest ans
    | "opt" :: rest => Drv.Opt.judge rest ans
    | "log" :: rest => Drv.Log.judge rest ans
    | "mt" :: rest => Drv.MT.judge rest ans
    | "usage" :: rest => Drv.Usage.judge rest ans
    | _ => "bad-op"
  | _ => "bad-op"

partial def loopLines (h : IO.FS.Stream) (out : IO.FS.Stream) (f : String → String) : IO Unit := do
  let line ← h.getLine
  if line.isEmpty then return ()
  let line := if line.endsWith "\n" then (line.dropEnd 1).toString else line
  out.putStrLn (f line)
  loopLines h out f

def main (args : List String) : IO UInt32 := do
  let stdin ← IO.getStdin
  let stdout ← IO.getStdout
  match args with
  | ["model"] => loopLines stdin stdout modelLine; return 0
  | ["judge"] => loopLines stdin stdout judgeLine; return 0
  | _ => IO.eprintln "usage: nvdriver model|judge"; return 2
