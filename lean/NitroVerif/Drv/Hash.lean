import NitroVerif.Proto
import NitroVerif.Model.Hash
import NitroVerif.Spec.Hash

/-! Driver glue for C16. -/
namespace NitroVerif.Drv.Hash
open NitroVerif.Hash

/-- Shape expressions: `L` leaf, `u` unit, `c(x,y)` cons, `p(x,y)` pair, `v(x)` variant, `q(x)` pointer. -/
inductive Shape where
  | leaf | unit
  | cons (a b : Shape) | pair (a b : Shape) | var (a : Shape) | ptr (a : Shape)
  deriving Repr

partial def parseShape (cs : List Char) : Option (Shape × List Char) :=
  match cs with
  | 'L' :: r => some (.leaf, r)
  | 'u' :: r => some (.unit, r)
  | k :: '(' :: r =>
    if k = 'c' || k = 'p' then
      match parseShape r with
      | some (a, ',' :: r2) =>
        match parseShape r2 with
        | some (b, ')' :: r3) => some (if k = 'c' then .cons a b else .pair a b, r3)
        | _ => none
      | _ => none
    else if k = 'v' || k = 'q' then
      match parseShape r with
      | some (a, ')' :: r2) => some (if k = 'v' then .var a else .ptr a, r2)
      | _ => none
    else none
  | _ => none

/-- Fill the leaves, left to right, with (rank, hash). -/
def fill : Shape → List (Int × BitVec 64) → Option (Val × List (Int × BitVec 64))
  | .leaf, (r, h) :: rest => some (.leaf r h, rest)
  | .leaf, [] => none
  | .unit, l => some (.unit, l)
  | .cons a b, l => do
    let (x, l1) ← fill a l
    let (y, l2) ← fill b l1
    pure (.cons x y, l2)
  | .pair a b, l => do
    let (x, l1) ← fill a l
    let (y, l2) ← fill b l1
    pure (.pair x y, l2)
  | .var a, l => do let (x, l1) ← fill a l; pure (.var x, l1)
  | .ptr a, l => do let (x, l1) ← fill a l; pure (.ptr x, l1)

def ints? (s : String) : Option (List Int) :=
  if s = "_" then some [] else (s.splitOn ",").mapM String.toInt?

def hexNat (s : String) : Option Nat :=
  s.toList.foldlM (fun acc c => (Proto.hexVal c).map (acc * 16 + ·)) 0

def hashes? (s : String) : Option (List (BitVec 64)) :=
  if s = "_" then some [] else (s.splitOn ",").mapM fun t => (hexNat t).map (BitVec.ofNat 64)

def hexOf (b : BitVec 64) : String := String.ofList (Nat.toDigits 16 b.toNat)

def mk (shape : String) (ranks hashes : String) : Option Val := do
  let (sh, rest) ← parseShape shape.toList
  if rest ≠ [] then none
  let rs ← ints? ranks
  let hs ← hashes? hashes
  if rs.length ≠ hs.length then none
  let (v, left) ← fill sh (rs.zip hs)
  if left ≠ [] then none
  pure v

def bit (b : Bool) : String := if b then "1" else "0"

def opsBits (x y : Val) : String :=
  bit (ne x y) ++ bit (eqV x y) ++ bit (ltV x y) ++ bit (gt x y) ++ bit (le x y) ++ bit (ge x y)

/-- does this shape contain only mix-in / tuple / pair structure (comparable)? -/
def comparable : Shape → Bool
  | .leaf | .unit => true
  | .cons a b | .pair a b => comparable a && comparable b
  | .var _ | .ptr _ => false

/-- model input: `cmp <shape> <ranks x> <ranks y> <leaf hashes x> <leaf hashes y>` -/
def model (f : List String) : String :=
  match f with
  | ["cmp", shape, rx, ry, name, _vx, _vy, hx, hy] =>
    match mk shape rx hx, mk shape ry hy, parseShape shape.toList with
    | some x, some y, some (sh, _) =>
      "lh=" ++ hx ++ "/" ++ hy ++ " hx=" ++ hexOf (hashV x) ++ " hy=" ++ hexOf (hashV y) ++ " ops=" ++
        (if comparable sh then opsBits x y else "------") ++ " self=" ++
        (if comparable sh then opsBits x x else "------") ++
        -- a mix-in object overwritten member by member is the value it was given (harness: `mut`)
        (if ["A", "B", "C", "D", "E"].contains name then " mut=1" else " mut=-")
    | _, _, _ => "bad-op"
  | "cmp" :: _ => "no-leaf-hashes"
  | ["set", _name, members, probes, _mv, _pv] =>
    -- members / probes: rank lists separated by ';'
    let parse := fun (s : String) => if s = "" then some [] else (s.splitOn ";").mapM ints?
    match parse members, parse probes with
    | some ms, some ps =>
      let distinct := ms.eraseDups
      "size=" ++ toString distinct.length ++ " found=" ++ String.join (ms.map fun _ => "1") ++
        " probes=" ++ String.join (ps.map fun p => bit (ms.contains p))
    | _, _ => "bad-op"
  | _ => "bad-op"

def field (ans : String) (key : String) : Option String :=
  (ans.splitOn " ").findSome? fun t => if t.startsWith (key ++ "=") then some (t.drop (key.length + 1)).toString else none

/-- `b` is `a` with exactly two entries exchanged, and those two differ -/
def swapped {α : Type} [BEq α] (a b : List α) : Bool :=
  a.length == b.length &&
  match ((a.zip b).filter fun (x, y) => !(x == y)) with
  | [(x1, y1), (x2, y2)] => x1 == y2 && x2 == y1
  | _ => false

def judge (f : List String) (ans : String) : String :=
  match f with
  | ["set", _name, members, _probes, _mv, _pv] =>
    -- the model's answer is the specification here: every inserted key is found, and only those
    let n := (members.splitOn ";").length
    if ans = model f then "ok\tset" ++ (if n ≥ 2 then " nt" else "") else "bad:" ++ ans ++ "\tset"
  | ["cmp", shape, rx, ry, _name, _vx, _vy] =>
    match field ans "lh", field ans "hx", field ans "hy", field ans "ops", ints? rx, ints? ry with
    | some lh, some hx, some hy, some ops, some rxs, some rys =>
      match lh.splitOn "/" with
      | [lhx, lhy] =>
        match mk shape rx lhx, mk shape ry lhy, hashes? lhx, hashes? lhy, parseShape shape.toList with
        | some x, some y, some hxs, some hys, some (sh, _) =>
          let c := cmp x y
          let equal := rxs == rys
          let feat := "\t" ++ (if equal then "equal" else "different") ++
            (if !equal && hx == hy then " collision" else "") ++
            (if ((rxs.zip rys).filter fun (a, b) => a != b).length == 1 then
              " one-leaf-differs leaf" ++ toString ((rxs.zip rys).findIdx fun (a, b) => a != b) ++ "-differs" else "") ++
            (if swapped hxs hys then " two-components-exchanged" else "") ++
            (if swapped hxs hys && hx == hy then " exchange-collision" else "") ++
            (if rxs.length ≥ 2 then " nt" else "")
          -- leaf hashes respect leaf equality
          let incoherent := (List.zip (List.zip rxs rys) (List.zip hxs hys)).any fun ((a, b), (h, k)) => a == b && h != k
          if incoherent then "bad:leaf-hash-differs-for-equal-leaf" ++ feat
          else if equal && hx != hy then "bad:equal-values-hash-differently" ++ feat
          else
            -- last-member sensitivity: only the last leaf differs and its std::hash differs => hashes differ
            let lastOnly := rxs.length ≥ 1 && rxs.dropLast == rys.dropLast && hxs.getLast? != hys.getLast?
            -- (for every shape: the combiner is injective in its last argument — `combine_inj`,
            --  `tuple_last_injective`, `pair_second_injective` — and variants and pointers pass their content on)
            if lastOnly && hx == hy then "bad:last-member-change-did-not-change-hash" ++ feat
            -- (order sensitivity - y is x with two components exchanged - holds "up to rare collisions": the cases
            --  are marked `two-components-exchanged` / `exchange-collision` and counted by the check, which
            --  demands that at most a quarter of the exchanged pairs of a run collide: vlib/props_hash.py)
            else if comparable sh then
              let want := bit (c != .eq) ++ bit (c == .eq) ++ bit (c == .lt) ++ bit (c == .gt) ++
                bit (c != .gt) ++ bit (c != .lt)
              if ops != want then "bad:operators-disagree-with-lexicographic-order want " ++ want ++ feat
              else if field ans "self" != some "010011" then "bad:comparing-a-value-with-itself" ++ feat
              else if field ans "mut" == some "0" then "bad:object-changed-in-place-is-not-the-value-it-holds" ++ feat
              else "ok" ++ feat
            else "ok" ++ feat
        | _, _, _, _, _ => "bad:unparsable" ++ "\tunparsable"
      | _ => "bad:unparsable" ++ "\tunparsable"
    | _, _, _, _, _, _ => "bad:" ++ ans ++ "\tcrash"
  | _ => "bad-op"

end NitroVerif.Drv.Hash
