import NitroVerif.Proto
import NitroVerif.Model.Iter

/-! Driver glue for C20. -/
namespace NitroVerif.Drv.Iter
open NitroVerif.Iter

def ints? (s : String) : Option (List Int) :=
  if s = "_" then some [] else (s.splitOn ",").mapM String.toInt?

def intsStr (l : List Int) : String := if l.isEmpty then "_" else ",".intercalate (l.map toString)

def seenStr (withIndex : Bool) (l : List (Nat × Option Int)) : String :=
  if l.isEmpty then "_" else
  ",".intercalate (l.map fun (i, v) =>
    (if withIndex then toString i ++ ":" else "") ++ (match v with | some x => toString x | none => "OOR"))

def answer (adaptor : String) (write : Bool) (l : List Int) (steps : List Step) : String :=
  let after := if write then writeThrough (· + 100) l steps else l
  "seen=" ++ seenStr (adaptor = "e") (seen l steps) ++ " after=" ++ intsStr after

def model (f : List String) : String :=
  match f with
  -- a lazy range of n elements (element k is k), n beyond 2^32: nothing is enumerated here — by
  -- `Props.C20.enumerate_visits` visit k carries index k for every length
  | ["ebig", _kind, _cat, _write, n] => "visited=" ++ n ++ " firstbad=_"
  | [adaptor, _kind, _cat, write, vals] =>
    match ints? vals with
    | some l =>
      if adaptor = "er" then answer "e" false l.reverse (enumerateSteps l.length) |>.replace
          (" after=" ++ intsStr l.reverse) (" after=" ++ intsStr l)
      else
      let steps := if adaptor = "e" then enumerateSteps l.length
        else if adaptor = "ep" then enumeratePostSteps l.length else reverseSteps l.length
      -- "ek": the proxies are kept while the iterator walks on and read afterwards: the same pairs
      -- "ec": the pair is bound to a const reference: the same pairs
      answer (if adaptor = "ep" || adaptor = "ek" || adaptor = "ec" then "e" else if adaptor = "rm" then "r" else adaptor)
        (write = "1") l (if adaptor = "ek" || adaptor = "ec" then enumerateSteps l.length else steps)
    | none => "bad-op"
  | _ => "bad-op"

/-- Specification, written directly: indices 0,1,2,… with the elements / the reversed elements;
after writing, every element updated once. -/
def judge (f : List String) (ans : String) : String :=
  match f with
  | ["ebig", _kind, cat, _write, n] =>
    let feat := "\tebig-" ++ cat ++ " len3 nt"
    if ans = "visited=" ++ n ++ " firstbad=_" then "ok" ++ feat else "bad:" ++ ans ++ feat
  | [adaptor, kind, cat, write, vals] =>
    match ints? vals with
    | some l =>
      let expSeen := if adaptor = "e" || adaptor = "ep" || adaptor = "ek" || adaptor = "ec" then
          seenStr true ((List.range l.length).zip (l.map some))
        else if adaptor = "er" then seenStr true ((List.range l.length).zip (l.reverse.map some))
        else seenStr false (l.reverse.map fun v => (0, some v))
      let expAfter := if write = "1" then l.map (· + 100) else l
      let feat := "\t" ++ adaptor ++ "-" ++ kind ++ "-" ++ cat ++ " len" ++ toString (min l.length 3) ++
        (if l.length ≥ 2 then " nt" else "")
      if ans = "seen=" ++ expSeen ++ " after=" ++ intsStr expAfter then "ok" ++ feat
      else "bad:" ++ ans ++ feat
    | none => "bad-op"
  | _ => "bad-op"

end NitroVerif.Drv.Iter
