import NitroVerif.Proto
import NitroVerif.Model.Usage

/-! Driver glue for C15 (usage text). -/
namespace NitroVerif.Drv.Usage
open NitroVerif.Usage NitroVerif.Str
open NitroVerif.Proto (unhex hex unhexList)

def strLt : Str → Str → Bool
  | [], [] => false
  | [], _ :: _ => true
  | _ :: _, [] => false
  | a :: as, b :: bs => a.toNat < b.toNat || (a.toNat == b.toNat && strLt as bs)

def insertBy (x : Entry) : List Entry → List Entry
  | [] => [x]
  | y :: ys => if strLt x.name y.name then x :: y :: ys else y :: insertBy x ys

def sortByName (l : List Entry) : List Entry := l.foldr insertBy []

/-- `kind,name,short,env,metavar,desc,dflt,rev` -/
def parseEntry (tok : String) : Option Entry :=
  match tok.splitOn "," with
  | [k, name, short, env, mv, desc, dflt, rev] => do
    let kind ← if k = "o" then some Kind.o else if k = "m" then some .m else if k = "t" then some .t else none
    let dO ← if kind = .o then (if dflt = "~" then some none else (unhex dflt).map some) else some none
    let dM ← if kind = .m then
        (if dflt = "~" then some none else
          (if dflt = "." then some (some []) else ((dflt.splitOn "+").mapM unhex).map some))
      else some none
    let dT ← if kind = .t then (if dflt = "~" then some 0 else dflt.toInt?) else some 0
    pure ⟨kind, ← unhex name, ← unhex short, ← unhex env, ← unhex mv, ← unhex desc, dO, dM, dT, rev = "1"⟩
  | _ => none

def parseGroup (tok : String) : Option Group :=
  match tok.splitOn ":" with
  | [name, desc, entries] => do
    let es ← if entries = "" then some [] else (entries.splitOn "|").mapM parseEntry
    pure ⟨← unhex name, ← unhex desc, es⟩
  | _ => none

def parseCase (f : List String) : Option UDecl :=
  match f with
  | app :: about :: pos :: groups :: _ =>
    match pos.splitOn "," with
    | pf :: pn :: _ => do     -- an optional third component asks the harness to request every entry once more
      let gs ← (groups.splitOn ";").mapM parseGroup
      pure ⟨← unhex app, ← unhex about, gs, pf = "1", ← unhex pn⟩
    | _ => none
  | _ => none

def longTogglesOf (d : UDecl) : List Entry :=
  sortByName ((allEntries d).filter fun e => e.kind = .t ∧ (e.short = [] ∨ e.reversible))

/-- order the long toggles as the implementation's `std::set<toggle*>` did (names read off its text) -/
def orderAs (names : List Str) (ts : List Entry) : List Entry :=
  let first := names.filterMap fun n => ts.find? (·.name = n)
  first ++ ts.filter fun t => !first.contains t

def modelText (d : UDecl) (order : List Str) : Str :=
  let all := allEntries d
  usage d (sortByName (all.filter (·.kind = .t))) (sortByName (all.filter (·.kind = .o)))
    (sortByName (all.filter (·.kind = .m))) (orderAs order (longTogglesOf d))

def model (f : List String) : String :=
  match parseCase f with
  | some d =>
    let order := match f.getLast? with
      | some o => if f.length ≥ 5 then (unhexList o).getD [] else []
      | none => []
    "ok " ++ hex (modelText d order)
  | none => "bad-op"

/-! ### the property, evaluated on a usage text -/

def lines (t : Str) : List Str :=
  (splitGo ['\n'] (by decide) t)

def wordsOf (t : Str) : List Str :=
  ((splitGo [' '] (by decide) (t.map fun c => if c = '\n' ∨ c = '\t' then ' ' else c))).filter (· ≠ [])

/-- the long name an option-section line starts with, if it is the first line of an entry -/
def entryName (l : Str) : Option Str :=
  match l with
  | ' ' :: ' ' :: '-' :: rest =>
    let r := match rest with
      | '-' :: r => r                        -- "  --name"
      | _ :: ',' :: ' ' :: '-' :: '-' :: r => r   -- "  -s, --name"
      | _ => []
    let r := if ['[', 'n', 'o', '-', ']'].isPrefixOf r then r.drop 5 else r
    some (r.takeWhile fun c => c ≠ ' ')
  | _ => none

def isSubseq : List Str → List Str → Bool
  | [], _ => true
  | _ :: _, [] => false
  | a :: as, b :: bs => if a = b then isSubseq as bs else isSubseq (a :: as) bs

def dropTrailingBlanks (l : Str) : Str := (l.reverse.dropWhile (· = ' ')).reverse

/-- is `l` at most 80 long after taking off trailing forcing pieces (with the blanks before them)? -/
def stripForcing (forcing : List Str) : Nat → Str → Bool
  | 0, l => decide (l.length ≤ 80)
  | fuel + 1, l =>
    decide (l.length ≤ 80) ||
      forcing.any fun x => x.isSuffixOf l && stripForcing forcing fuel (dropTrailingBlanks (l.take (l.length - x.length)))

def judgeText (d : UDecl) (t : Str) : Option String :=
  let ls := lines t
  -- the option section: everything behind the synopsis paragraph
  let listed := ls.filterMap entryName
  let expected := (d.groups.filter (·.entries ≠ [])).flatMap fun g => g.entries.map (·.name)
  if listed ≠ expected then some "option-section-does-not-list-every-entry-once-in-declaration-order" else
  -- group headers: once each, in creation order, empty groups skipped
  let headers := ls.filter fun l => l.getLast? = some ':' ∧ (d.groups.any fun g => g.name ++ [':'] = l)
  let expHeaders := (d.groups.filter (·.entries ≠ [])).map fun g => g.name ++ [':']
  if headers ≠ expHeaders then some "group-headers" else
  -- synopsis: everything up to the first empty line
  let syn := (ls.takeWhile (· ≠ [])).flatMap (· ++ [' '])
  let synWords := wordsOf syn
  let missing := (allEntries d).filter fun e =>
    match e.kind with
    | .t =>
      let long := synWords.contains (['['] ++ formatName e ++ [']'])
      let inShort := e.short ≠ [] ∧ synWords.any fun w => ['[', '-'].isPrefixOf w ∧ !(['[', '-', '-'].isPrefixOf w) ∧
        w.getLast? = some ']' ∧ e.short.all (fun c => w.contains c)
      !(long || inShort)
    | _ => !(synWords.any fun w => w.dropWhile (· = '[') = formatName e)
  if missing ≠ [] then some "synopsis-misses-an-option" else
  -- every entry: spelling, placeholder, env hint and default among its words; description words in order
  let bad := (allEntries d).filter fun e =>
    -- the block of the entry: from its first line up to the next entry / header / blank line
    let after := (ls.dropWhile fun l => entryName l ≠ some e.name)
    let block := match after with
      | [] => []
      | h :: tl => h :: tl.takeWhile fun l => entryName l = none ∧ l.head? = some ' '
    let ws := wordsOf (block.flatMap (· ++ [' ']))
    let want := wordsOf e.description ++
      (if e.env ≠ [] then wordsOf ("Can be set using the environment variable '".toList ++ e.env ++ "'.".toList) else []) ++
      wordsOf (formatDefault e)
    let headOk := (if e.short ≠ [] then ws.head? = some (['-'] ++ e.short ++ [',']) else ws.head? = some (formatName e)) ∧
      ws.contains (formatName e) ∧ (e.kind = .t ∨ isSubseq (wordsOf e.metavar) ws)
    !(headOk && isSubseq want ws)
  if bad ≠ [] then some ("entry-incomplete:" ++ hex ((bad.head?.map (·.name)).getD [])) else
  -- width: a line is longer than 80 only if one unbreakable piece forces it.  Pieces are the
  -- blank-separated pieces of the *source* texts (a tab inside a piece is a character of it: that is
  -- how the synopsis keeps `--name <ARG>` together); a piece x forces a line when pad + |x| >= 80.
  let piecesOf := fun (t : Str) => (splitGo [' '] (by decide) t).map untab
  let synPad := 8 + d.app.length
  let synPieces := (allEntries d).flatMap fun e => piecesOf (formatSynopsis e)
  let descPieces := (allEntries d).flatMap fun e =>
    piecesOf e.description ++ piecesOf (formatDefault e) ++
      (if e.env ≠ [] then ["'".toList ++ e.env ++ "'.".toList] else [])
  -- such a piece is written at the end of the line that is current, and only further pieces of that kind
  -- may follow it there: a line is in order when it is at most 80 long once its trailing forcing pieces
  -- (and the blanks in front of each) are taken off
  let forcing := (synPieces.filter fun x => x ≠ [] ∧ synPad + x.length ≥ 80) ++
    (descPieces.filter fun x => x ≠ [] ∧ 40 + x.length ≥ 80)
  let forced := fun (l : Str) => stripForcing forcing l.length l
  let tooLong := ls.filter fun l => l.length > 80 ∧ !forced l
  -- report a line that is not a verbatim line of the about text / a group description first (those are
  -- never wrapped - a recorded finding - and must not hide another line that is too long)
  let verbatim := lines d.about ++ d.groups.flatMap fun g => lines g.description
  let tooLong := (tooLong.filter fun l => !verbatim.contains l) ++ (tooLong.filter fun l => verbatim.contains l)
  if tooLong ≠ [] then some ("line-longer-than-80:" ++ hex ((tooLong.head?).getD [])) else none

def judge (f : List String) (ans : String) : String :=
  match parseCase f with
  | some d =>
    let n := (allEntries d).length
    let feat := "\tentries" ++ toString (min n 8) ++ " groups" ++ toString (min d.groups.length 4) ++
      (if n ≥ 1 then " nt" else "")
    match ans.splitOn " " with
    | ["ok", h] =>
      match unhex h with
      | some t => (match judgeText d t with | none => "ok" ++ feat | some e => "bad:" ++ e ++ feat)
      | none => "bad:unparsable" ++ feat
    | _ => "bad:" ++ ans ++ feat
  | none => "bad-op"

end NitroVerif.Drv.Usage
