import NitroVerif.Proto
import NitroVerif.Model.Str
import NitroVerif.Spec.Str

/-! Driver glue for the string engine (C17): model answers and the property
predicate evaluated on an implementation answer. -/
namespace NitroVerif.Drv.Str
open NitroVerif.Proto NitroVerif.Str

def model (f : List String) : String :=
  match f with
  | ["split", s, sep] =>
    match unhex s, unhex sep with
    | some s, some sep =>
      match split s sep with
      | some ps => "ok " ++ hexList ps
      | none => "raise"
    | _, _ => "bad-op"
  | ["repl", s, pat, rep] =>
    match unhex s, unhex pat, unhex rep with
    | some s, some pat, some rep => "ok " ++ hex (replaceAll s pat rep)
    | _, _, _ => "bad-op"
  | ["sw", full, b] =>
    match unhex full, unhex b with
    | some full, some b => if startsWith full b then "ok 1" else "ok 0"
    | _, _ => "bad-op"
  | ["join", xs, sep] =>
    match unhexList xs, unhex sep with
    | some xs, some sep => "ok " ++ hex (join xs sep)
    | _, _ => "bad-op"
  | _ => "bad-op"

def isInfix (n h : Str) : Bool :=
  (List.range (h.length + 1)).any fun j => n.isPrefixOf (h.drop j)

/-- The property predicate on an implementation answer, with feature labels. -/
def judge (f : List String) (ans : String) : String :=
  match f with
  | ["split", s, sep] =>
    match unhex s, unhex sep with
    | some s, some sep =>
      if hn : sep = [] then
        (if ans = "raise" then "ok" else "bad:empty-separator-must-raise") ++ "\tsplit-raise"
      else
        let occ := countOcc sep hn s
        let feat := "\tsplit-occ" ++ toString (min occ 3) ++ (if occ > 0 then " nt" else "")
        match ans.splitOn " " with
        | ["ok", ps] =>
          match unhexList ps with
          | some ps =>
            if glue sep ps ≠ s then "bad:pieces-do-not-glue-back" ++ feat
            else if ps.length ≠ occ + 1 then "bad:piece-count" ++ feat
            else if ps.any (isInfix sep) then "bad:piece-contains-separator" ++ feat
            else "ok" ++ feat
          | none => "bad:unparsable-answer" ++ feat
        | _ => "bad:" ++ ans ++ feat
    | _, _ => "bad-op"
  | ["repl", s, pat, rep] =>
    match unhex s, unhex pat, unhex rep with
    | some s, some pat, some rep =>
      let expect := if hn : pat = [] then s else replaceSpec pat hn rep s
      let feat := if pat = [] then "\trepl-emptypat nt"
                  else if expect = s then "\trepl-nohit" else
                    (if isInfix pat rep then "\trepl-selfcontaining nt" else "\trepl-hit nt")
      if ans = "ok " ++ hex expect then "ok" ++ feat else "bad:" ++ ans ++ feat
    | _, _, _ => "bad-op"
  | ["sw", full, b] =>
    match unhex full, unhex b with
    | some full, some b =>
      let e := b.isPrefixOf full
      let feat := if e then "\tsw-true nt" else if isInfix b full then "\tsw-inner nt" else "\tsw-false"
      if ans = (if e then "ok 1" else "ok 0") then "ok" ++ feat else "bad:" ++ ans ++ feat
    | _, _ => "bad-op"
  | ["join", xs, sep] =>
    match unhexList xs, unhex sep with
    | some xs, some sep =>
      let e := glue sep (xs.filter (· ≠ []))
      let feat := if xs.any (· = []) then "\tjoin-with-empty nt"
                  else if xs.length ≥ 2 then "\tjoin-multi nt" else "\tjoin-small"
      if ans = "ok " ++ hex e then "ok" ++ feat else "bad:" ++ ans ++ feat
    | _, _ => "bad-op"
  | _ => "bad-op"

end NitroVerif.Drv.Str
