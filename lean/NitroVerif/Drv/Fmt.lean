import NitroVerif.Proto
import NitroVerif.Model.Fmt
import NitroVerif.Spec.Fmt
import NitroVerif.Spec.Str

/-! Driver glue for C08. -/
namespace NitroVerif.Drv.Fmt
open NitroVerif.Proto NitroVerif.Fmt NitroVerif.Str

/-- A typed argument token: one type letter followed by the hex of its stream representation. -/
def argText (tok : String) : Option Proto.Str :=
  match tok.toList with
  | _ :: rest => unhex (String.ofList rest)
  | [] => none

def argList (s : String) : Option (List Proto.Str) :=
  if s = "." then some [] else (s.splitOn ",").mapM argText

def model (f : List String) : String :=
  match f with
  | ["str", _api, fmt, args] =>
    match unhex fmt, argList args with
    | some fmt, some args =>
      match str fmt args with
      | some r => "ok " ++ hex r
      | none => "raise"
    | _, _ => "bad-op"
  | ["exc", _api, args] =>
    match argList args with
    | some args => "ok " ++ hex (makeString args)
    | none => "bad-op"
  | _ => "bad-op"

def judge (f : List String) (ans : String) : String :=
  match f with
  | ["str", _api, fmt, args] =>
    match unhex fmt, argList args with
    | some fmt, some args =>
      let ps := splitGo ph ph_ne_nil fmt
      let k := ps.length - 1
      let feat := "\tph" ++ toString (min k 3) ++ "-args" ++ toString (min args.length 4) ++
        (if k > 0 then " nt" else "") ++
        (if args.any (fun a => (find? a ph).isSome) then " arg-has-placeholder" else "")
      let expect := if ps.length = args.length + 1 then "ok " ++ hex (interleave ps args) else "raise"
      if ans = expect then "ok" ++ feat else "bad:" ++ ans ++ feat
    | _, _ => "bad-op"
  | ["exc", _api, args] =>
    match argList args with
    | some args =>
      let feat := "\texc-args" ++ toString (min args.length 4) ++ (if args.length > 1 then " nt" else "")
      if ans = "ok " ++ hex args.flatten then "ok" ++ feat else "bad:" ++ ans ++ feat
    | none => "bad-op"
  | _ => "bad-op"

end NitroVerif.Drv.Fmt
