import NitroVerif.Proto
import NitroVerif.Model.FV
import NitroVerif.Spec.FV

/-! Driver glue for C06 / C07 (fixed_vector). -/
namespace NitroVerif.Drv.FV
open NitroVerif.FV

def vals? (s : String) : Option (List Nat) :=
  if s = "_" then some [] else (s.splitOn ".").mapM String.toNat?

def fuel? (s : String) : Option (Option Nat) :=
  if s = "-" then some none else s.toNat?.map some

/-- `name:args:fuel` -/
def parseOp (tok : String) : Option (POp × Option Nat) :=
  match tok.splitOn ":" with
  | ["new", i, c, f] => do pure (.new (← i.toNat?) (← c.toNat?), ← fuel? f)
  | ["newiter", i, c, xs, f] => do pure (.newIter (← i.toNat?) (← c.toNat?) (← vals? xs), ← fuel? f)
  | ["newlist", i, xs, f] => do pure (.newList (← i.toNat?) (← vals? xs), ← fuel? f)
  | ["copy", i, j, f] => do pure (.copy (← i.toNat?) (← j.toNat?), ← fuel? f)
  | ["move", i, j, f] => do pure (.move (← i.toNat?) (← j.toNat?), ← fuel? f)
  | ["asg", i, j, f] => do pure (.asg (← i.toNat?) (← j.toNat?), ← fuel? f)
  | ["masg", i, j, f] => do pure (.masg (← i.toNat?) (← j.toNat?), ← fuel? f)
  | ["lasg", i, xs, f] => do pure (.lasg (← i.toNat?) (← vals? xs), ← fuel? f)
  | ["eb", i, x, f] => do pure (.on (← i.toNat?) (.emplaceBack (← x.toNat?)), ← fuel? f)
  | ["ic", i, x, f] => do pure (.on (← i.toNat?) (.insertC (← x.toNat?)), ← fuel? f)
  | ["im", i, x, f] => do pure (.on (← i.toNat?) (.insertM (← x.toNat?)), ← fuel? f)
  | ["pb", i, x, f] => do pure (.on (← i.toNat?) (.pushBack (← x.toNat?)), ← fuel? f)
  | ["rng", i, p, xs, f] => do pure (.on (← i.toNat?) (.range (← p.toNat?) (← vals? xs)), ← fuel? f)
  | ["prng", i, xs, f] => do pure (.on (← i.toNat?) (.pushRange (← vals? xs)), ← fuel? f)
  | ["emp", i, p, x, f] => do pure (.on (← i.toNat?) (.emplaceAt (← p.toNat?) (← x.toNat?)), ← fuel? f)
  | ["era", i, p, f] => do pure (.on (← i.toNat?) (.erase (← p.toNat?)), ← fuel? f)
  | ["pop", i, f] => do pure (.on (← i.toNat?) .pop, ← fuel? f)
  | ["at", i, k, f] => do pure (.on (← i.toNat?) (.atKey (← k.toNat?)), ← fuel? f)
  | ["get", i, k, f] => do pure (.on (← i.toNat?) (.atKey (← k.toNat?)), ← fuel? f)
  | ["idx", i, k, f] => do pure (.on (← i.toNat?) (.index (← k.toNat?)), ← fuel? f)
  | ["empa", i, p, k, f] => do pure (.onA (← i.toNat?) (.emplaceAtAlias (← p.toNat?) (← k.toNat?)), ← fuel? f)
  | ["pba", i, k, f] => do pure (.onA (← i.toNat?) (.pushBackAlias (← k.toNat?)), ← fuel? f)
  | ["eba", i, k, f] => do pure (.onA (← i.toNat?) (.emplaceBackAlias (← k.toNat?)), ← fuel? f)
  | ["ica", i, k, f] => do pure (.onA (← i.toNat?) (.insertAlias (← k.toNat?)), ← fuel? f)
  | _ => none

def parseOps (s : String) : Option (List (POp × Option Nat)) :=
  if s = "" then some [] else (s.splitOn ";").mapM parseOp

def slotStr : Slot → String
  | .val v => toString v
  | .stale => "S"

def slotsStr (l : List Slot) : String := ".".intercalate (l.map slotStr)

def resStr : Res → String
  | .ok => "ok"
  | .elem s => "e" ++ slotStr s
  | .raised => "raised"
  | .threw => "threw"
  | .ub => "UB"

def vecStr : Option Vec → String
  | none => "~"
  | some v => toString v.size ++ "/" ++ toString v.cap ++ ":" ++ slotsStr (elems v) ++ "|" ++ slotsStr (relems v)

def poolStr (p : Pool) : String := " ".intercalate (p.map vecStr)

def runModel (p : Pool) : List (POp × Option Nat) → List String
  | [] => []
  | (op, fuel) :: rest =>
    let (p', r) := pstep p op fuel
    (resStr r ++ " " ++ poolStr p') :: runModel p' rest

/-- an element built from constructor arguments `(n, v)`: n copies of v (`T(n, v)`, never `T{n, v}`) -/
def ilModel (spec : String) : String :=
  match spec.splitOn ":" with
  | [n, v, _w, _t] =>
    match n.toNat?, v.toNat? with
    | some n, some v => "ok " ++ ".".intercalate (List.replicate n (toString v))
    | _, _ => "bad-op"
  | _ => "bad-op"

def model (f : List String) : String :=
  match f with
  | [_sub, "il", spec] => ilModel spec
  | [_sub, _kind, ops] =>
    match parseOps ops with
    | some ops => ";".intercalate (runModel [none, none, none] ops)
    | none => "bad-op"
  | _ => "bad-op"

/-! ### judging an implementation answer -/

structure Seen where
  size : Nat
  cap : Nat
  elems : List String
  relems : List String

def parseVec (s : String) : Option (Option Seen) :=
  if s = "~" then some none else
  match s.splitOn ":" with
  | [sc, er] =>
    match sc.splitOn "/", er.splitOn "|" with
    | [sz, cp], [e, r] => do
      let l := fun (x : String) => if x = "" then [] else x.splitOn "."
      pure (some ⟨← sz.toNat?, ← cp.toNat?, l e, l r⟩)
    | _, _ => none
  | _ => none

def parseStep (s : String) : Option (String × List (Option Seen)) :=
  match s.splitOn " " with
  | r :: vs => do pure (r, ← vs.mapM parseVec)
  | [] => none

def seenEq (a b : Option Seen) : Bool :=
  match a, b with
  | none, none => true
  | some x, some y => x.size == y.size && x.cap == y.cap && x.elems == y.elems
  | _, _ => false

def isSingleElem : POp → Bool
  | .on _ (.range _ _) => false
  | .on _ (.pushRange _) => false
  | .on _ _ => true
  | .onA _ _ => true
  | _ => false

def targetOf : POp → Nat
  | .new i _ | .newIter i _ _ | .newList i _ | .copy i _ | .move i _ | .asg i _ | .masg i _
  | .lasg i _ | .on i _ | .onA i _ => i

/-- C06 on implementation output: safety facts that must hold after every step, and the
exact raise conditions of single-vector operations, computed from the *implementation's own*
previous state. -/
def judge06Go (prev : List (Option Seen)) (holes : Bool) : List (POp × Option Nat) → List String → Option String
  | [], [] => none
  | (op, _fuel) :: ops, s :: ss =>
    match parseStep s with
    | none => some ("unparsable-step:" ++ s)
    | some (r, cur) =>
      if cur.length ≠ 3 then some "pool-size" else
      let bad := cur.any fun v => match v with
        | none => false
        | some x => x.size > x.cap || x.elems.length ≠ x.size || x.relems ≠ x.elems.reverse
      if bad then some ("state-inconsistent:" ++ s) else
      -- an element exception in the middle of a shifting operation may leave a moved-from hull in the
      -- live range (basic guarantee); otherwise the caller must only ever see elements it put there
      let shifting := match op with
        | .on _ (.emplaceAt _ _) | .on _ (.erase _) | .onA _ (.emplaceAtAlias _ _) => true
        | _ => false
      let holes := holes || (r = "threw" && shifting)
      if !holes && cur.any (fun v => match v with | some x => x.elems.contains "S" | none => false) then
        some ("unfilled-slot-visible:" ++ s) else
      let i := targetOf op
      let before := (prev[i]?).join
      let after := (cur[i]?).join
      let op := match op, before with
        | .onA i a, some b =>
          (match resolveL (b.elems.map fun (e : String) => match e.toNat? with | some n => Slot.val n | none => Slot.stale) a with
            | some o => POp.on i o
            | none => op)
        | _, _ => op
      let err : Option String :=
        match op, before with
        | .onA _ _, some _ => if r = "raised" && seenEq before after then none else some "alias-op-on-missing-element"
        | .on _ o, some b =>
          -- capacity is fixed
          (match after with
            | some a => if a.cap ≠ b.cap then some "capacity-changed" else none
            | none => some "vector-vanished") <|>
          -- a failed operation leaves the container unchanged (single-element operations)
          (if r = "raised" && isSingleElem op && !seenEq before after then some "failed-op-changed-container" else none) <|>
          -- … also when it fails because an element's copy or move throws: the contents may then hold a
          -- moved-from hull (shifting operations), but the container is as long as it was
          (match after with
            | some a => if r = "threw" && isSingleElem op && a.size ≠ b.size then some "failed-op-changed-size" else none
            | none => none) <|>
          -- exact raise conditions
          (match o with
            | .emplaceBack _ | .insertC _ | .insertM _ | .pushBack _ =>
              if (b.size ≥ b.cap) ≠ (r = "raised") then some "append-raise-condition" else none
            | .pop => if (b.size = 0) ≠ (r = "raised") then some "pop-raise-condition" else none
            | .atKey k => if (k ≥ b.size) ≠ (r = "raised") then some "at-raise-condition" else
                (if k < b.size ∧ r ≠ "e" ++ (b.elems[k]?).getD "?" then some "at-wrong-element" else none)
            | .erase k => if (k ≥ b.size) ≠ (r = "raised") then some "erase-raise-condition" else none
            | .emplaceAt k _ => if (k > b.size ∨ b.size ≥ b.cap) ≠ (r = "raised") then some "emplace-raise-condition" else none
            | .pushRange xs => if (b.size + xs.length > b.cap) ≠ (r = "raised") && r ≠ "threw" then some "range-raise-condition" else none
            | .range k xs => if (k > b.size ∨ k + xs.length > b.cap) ≠ (r = "raised") && r ≠ "threw" then some "range-raise-condition" else none
            | .index _ => none)
        | _, _ => none
      -- other vectors untouched by single-vector operations
      let others : Option String :=
        match op with
        | .on _ _ | .onA _ _ =>
          if (List.range 3).any (fun k => k ≠ i && !seenEq ((prev[k]?).join) ((cur[k]?).join))
          then some "other-vector-changed" else none
        | _ => none
      match err <|> others with
      | some e => some (e ++ ":" ++ s)
      | none => judge06Go cur holes ops ss
  | _, _ => some "step-count"

/-- Reference pool for C07: capacity + plain list, nothing else. -/
abbrev RPool := List (Option (Nat × List Slot))

def rstep (p : RPool) (op : POp) : RPool × Res :=
  let get := fun (i : Nat) => (p[i]?).join
  match op with
  | .new i cap => (p.set i (some (cap, [])), .ok)
  | .newIter i cap xs => if xs.length ≤ cap then (p.set i (some (cap, xs.map .val)), .ok) else (p, .raised)
  | .newList i xs => (p.set i (some (xs.length, xs.map .val)), .ok)
  | .copy i j => match get j with
    | some s => (p.set i (some s), .ok)
    | none => (p, .raised)
  | .move i j => match get j with
    | some s => ((p.set j (some (s.1, []))).set i (some s), .ok)
    | none => (p, .raised)
  | .asg i j => match get i, get j with
    | some _, some s => (p.set i (some s), .ok)
    | _, _ => (p, .raised)
  | .masg i j => match get i, get j with
    | some d, some s => ((p.set j (some d)).set i (some s), .ok)
    | _, _ => (p, .raised)
  | .lasg i xs => match get i with
    | some _ => (p.set i (some (xs.length, xs.map .val)), .ok)
    | none => (p, .raised)
  | .on i o => match get i with
    | some (cap, l) =>
      let (l', r) := Ref.apply cap l o
      (p.set i (some (cap, l')), r)
    | none => (p, .raised)
  | .onA i a => match get i with
    | some (cap, l) =>
      let (l', r) := Ref.applyA cap l a
      (p.set i (some (cap, l')), r)
    | none => (p, .raised)

def rvecStr : Option (Nat × List Slot) → String
  | none => "~"
  | some (cap, l) => toString l.length ++ "/" ++ toString cap ++ ":" ++ slotsStr l ++ "|" ++ slotsStr l.reverse

def judge07Go (p : RPool) : List (POp × Option Nat) → List String → Option String
  | [], [] => none
  | (op, _) :: ops, s :: ss =>
    -- range insertion at an interior position is specified nowhere and is outside C07's alphabet:
    -- the comparison stops there (C06 still covers the operation for safety)
    let interior := match op with
      | .on i (.range pos _) => (match (p[i]?).join with | some (_, l) => pos != l.length | none => false)
      | _ => false
    if interior then none else
    -- an element's copy/move threw inside this step (the case carries a throw point): for a plain append the
    -- bounded list is what it was before (a failed append adds nothing); for any other operation the contents
    -- behind a throw are C06's business, and the comparison stops
    if s.startsWith "threw" then
      (match op with
        | .on _ (.emplaceBack _) | .on _ (.insertC _) | .on _ (.insertM _) | .on _ (.pushBack _) =>
          let expect := "threw " ++ " ".intercalate (p.map rvecStr)
          if s == expect then judge07Go p ops ss
          else some ("a-failed-append-changed-the-sequence:got " ++ s ++ " want " ++ expect)
        | _ => none) else
    let (p', r) := rstep p op
    -- after a move assignment the source holds the target's old contents in the implementation
    -- (swap); the property only says the target receives the sequence, so the source is not compared
    let expect := resStr r ++ " " ++ " ".intercalate (p'.map rvecStr)
    let ok := match op with
      | .masg i j =>
        match parseStep s, parseStep expect with
        | some (r1, c1), some (r2, c2) =>
          r1 == r2 && (List.range 3).all fun k => k == j && k != i || seenEq ((c1[k]?).join) ((c2[k]?).join)
        | _, _ => false
      | _ => s == expect
    if !ok then some ("differs-from-bounded-list:got " ++ s ++ " want " ++ expect) else
    -- continue from the implementation's view for the moved-from source
    let p'' := match op with
      | .masg i j => if i = j then p' else
        match parseStep s with
        | some (_, c1) => match (c1[j]?).join with
          | some x => p'.set j (some (x.cap, x.elems.map fun e => match e.toNat? with | some n => Slot.val n | none => Slot.stale))
          | none => p'
        | none => p'
      | _ => p'
    judge07Go p'' ops ss
  | _, _ => some "step-count"

def feats (ops : List (POp × Option Nat)) (ans : String) : String :=
  let n := ops.length
  let raised := (ans.splitOn "raised").length - 1
  let threw := (ans.splitOn "threw").length - 1
  let two := ops.any fun (o, _) => match o with
    | .copy _ _ | .move _ _ | .asg _ _ | .masg _ _ => true | _ => false
  "\tlen" ++ toString (min n 8) ++ (if raised > 0 then " has-raise" else "") ++
    (if threw > 0 then " has-throw" else "") ++ (if two then " two-vector" else "") ++
    (if n ≥ 2 then " nt" else "")

def judge (f : List String) (ans : String) : String :=
  match f with
  | [_sub, "il", spec] =>
    if ans = ilModel spec then "ok\tbuilt-from-arguments nt" else "bad:" ++ ans ++ " want " ++ ilModel spec ++ "\tbuilt-from-arguments nt"
  | [sub, _kind, ops] =>
    match parseOps ops with
    | none => "bad-op"
    | some ops =>
      if (ans.splitOn "crash").length > 1 || (ans.splitOn "LEAK").length > 1 ||
         (ans.splitOn "INCONSISTENT").length > 1 || (ans.splitOn "UB").length > 1 then
        "bad:" ++ ans ++ feats ops ans
      else
      let steps := if ans = "" then [] else ans.splitOn ";"
      let v := if sub = "c07" then judge07Go [none, none, none] ops steps
               else judge06Go [none, none, none] false ops steps
      match v with
      | none => "ok" ++ feats ops ans
      | some e => "bad:" ++ e ++ feats ops ans
  | _ => "bad-op"

end NitroVerif.Drv.FV
