import NitroVerif.Proto
import NitroVerif.Model.Log
import NitroVerif.Props.C05

/-! Driver glue for C05 / C10. -/
namespace NitroVerif.Drv.Log
open NitroVerif.Log
open NitroVerif.Proto (unhex hex)

def filterOf (id : Nat) : FExpr :=
  match id with
  | 0 => .thr 0
  | 1 => .and (.thr 0) (.thr 1)
  | 2 => .or (.thr 0) (.thr 1)
  | 3 => .not (.thr 0)
  | 4 => .not (.not (.thr 0))
  | 5 => .and (.or (.thr 0) (.thr 1)) (.not (.thr 2))
  | 6 => .or (.and (.thr 0) (.thr 1)) (.thr 2)
  | 7 => .null
  | 8 => .tagNot ['T']                       -- a user-written filter that looks at the tag
  | 9 => .and (.thr 0) (.tagNot ['t'])
  | 10 => .and (.thr 0) (.not (.thr 1))          -- a window, in both operand orders
  | 11 => .and (.not (.thr 1)) (.thr 0)
  | 12 => .or (.not (.thr 0)) (.thr 1)
  | _ => .null

def parseItem (tok : String) : Option Item :=
  match tok.toList with
  | 'M' :: rest =>    -- a callable with a non-const call operator (that could also be printed): a callable
    match (String.ofList rest).splitOn "." with
    | [id, h] => do pure (.lazy (← id.toNat?) (← unhex h))
    | _ => none
  | 'L' :: rest =>
    match (String.ofList rest).splitOn "." with
    | [id, h] => do pure (.lazy (← id.toNat?) (← unhex h))
    | _ => none
  | _ :: rest => (unhex (String.ofList rest)).map .text
  | [] => none

/-- An item of kind `x` is a value whose inserter puts the statement's string stream into the failed
state; the iostream rule for what follows is `Log.silence` (Model/Log). -/
def parseRaw (tok : String) : Option RawItem :=
  match tok.toList with
  | 'x' :: _ => some .fail
  | _ =>
    match parseItem tok with
    | some (.text t) => some (.text t)
    | some (.lazy id t) => some (.lazy id t)
    | none => none

def parseItems (items : String) : Option (List Item) :=
  if items = "_" then some [] else ((items.splitOn ",").mapM parseRaw).map (silence false)

def parseOp (tok : String) : Option Op :=
  match tok.splitOn ":" with
  | ["thr", n, s] => do pure (.setThr (← n.toNat?) (← s.toNat?))
  | ["thrx", n, s] => do pure (.setThr (← n.toNat?) (← s.toNat?))   -- set by another thread: the same threshold
  | ["st", sev, tag, named, items] | ["stx", sev, tag, named, items] => do   -- stx: executed by another thread
    let tg ← if tag = "~" then some none else (unhex tag).map some
    -- a leading `u`: the statement is executed from a destructor during stack unwinding — the same statement
    let named := if named.startsWith "u" then (named.drop 1).toString else named
    let nm ← if named = "e" then some none else ((named.drop 1).toString.toNat?).map some
    let its ← parseItems items
    pure (.stmt (← sev.toNat?) tg its nm)
  | ["ov", sa, ta, ia, sb, tb, ib] => do
    let tg := fun (t : String) => if t = "~" then some none else (unhex t).map some
    let its := fun (i : String) => parseItems i
    pure (.overlap (← sa.toNat?) (← tg ta) (← its ia) (← sb.toNat?) (← tg tb) (← its ib))
  | _ => none

/-- a null or empty tag leaves the record's tag empty -/
def tagStr : Option Str → String
  | none => "-"
  | some t => hex t

def evStr : Event → String
  | .lazyCall id => "lazy " ++ toString id
  | .fmt s t m => "fmt " ++ toString s ++ " " ++ tagStr t ++ " " ++ hex m
  | .sink k s t m => "sink " ++ toString k ++ " " ++ toString s ++ " " ++ tagStr t ++ " " ++ hex m

def traceStr (l : List Event) : String := if l.isEmpty then "-" else ";".intercalate (l.map evStr)

def parseCase (f : List String) : Option (Cfg × List Op) :=
  match f with
  | [_tag, minsev, fid, members, ops] => do
    let ops ← if ops = "" then some [] else (ops.splitOn ";").mapM parseOp
    pure (⟨← minsev.toNat?, filterOf (← fid.toNat?), ← members.toNat?⟩, ops)
  | _ => none

def typesStr (minSev : Nat) : String :=
  String.join ((List.range 6).map fun s => if streamIsNull minSev s then "1" else "0")

def model (f : List String) : String :=
  match f with
  | [_tag, minsev, "TYPES"] => (match minsev.toNat? with | some m => typesStr m | none => "bad-op")
  | _ =>
    match parseCase f with
    | some (cfg, ops) => traceStr (runT cfg (fun _ => 0) ops)
    | none => "bad-op"

def judge (f : List String) (ans : String) : String :=
  match f with
  | [_tag, minsev, "TYPES"] =>
    (match minsev.toNat? with
      | some m =>
        -- written out: the stream type is the discarding one exactly for severities below the minimum
        let want := String.join ((List.range 6).map fun s => if s < m then "1" else "0")
        if ans = want then "ok\ttypes nt" else "bad:" ++ ans ++ " want " ++ want ++ "\ttypes nt"
      | none => "bad-op")
  | _ =>
    match parseCase f with
    | some (cfg, ops) =>
      let want := traceStr (Props.C05.specRunT cfg (fun _ => 0) ops)
      let nst := (ops.filter fun o => match o with | .stmt .. => true | .overlap .. => true | _ => false).length
      let feat := "\tmin" ++ toString cfg.minSev ++ " stmts" ++ toString (min nst 6) ++
        (if want = "-" then " silent" else " emits") ++
        (if ops.any (fun o => match o with | .stmt _ _ its _ => its.any (fun i => match i with | .lazy .. => true | _ => false) | _ => false) then " has-lazy" else "") ++
        (if ops.any (fun o => match o with | .stmt _ _ _ (some _) => true | _ => false) then " named-form" else "") ++
        (if ops.any (fun o => match o with | .overlap .. => true | _ => false) then " overlapping-streams" else "") ++
        (if ((f.getD 4 "").splitOn "thrx:").length > 1 then " threshold-set-by-another-thread" else "") ++
        (if ((f.getD 4 "").splitOn "stx:").length > 1 then " statement-on-another-thread" else "") ++
        (if f.getD 2 "" = "8" ∨ f.getD 2 "" = "9" then " tag-aware-filter" else "") ++
        (if ((f.getD 4 "").splitOn "L90").length > 1 then " callable-changes-threshold" else "") ++
        (if nst ≥ 1 then " nt" else "")
      if ans = want then "ok" ++ feat else "bad:" ++ ans ++ " want " ++ want ++ feat
    | none => "bad-op"

end NitroVerif.Drv.Log
