import NitroVerif.Proto
import NitroVerif.Model.Own

/-! Driver glue for C18 / C19. -/
namespace NitroVerif.Drv.Own
open NitroVerif.Own NitroVerif.Proto

def pool : Nat := 4

def parseQ (tok : String) : Option QOp :=
  match tok.splitOn ":" with
  | ["mk", i, t] => do pure (.make (← i.toNat?) (← t.toNat?))
  | ["mkx", i, t] => do pure (.makeFails (← i.toNat?) (← t.toNat?))
  | ["mv", i, j] => do pure (.mov (← i.toNat?) (← j.toNat?))
  | ["rs", i] => do pure (.reset (← i.toNat?))
  | ["nul", i] => do pure (.reset (← i.toNat?))
  | ["push", i] => do pure (.push (← i.toNat?))
  | ["pop"] => some .pop
  | ["swap", i, j] => do pure (.swap (← i.toNat?) (← j.toNat?))
  | _ => none

def cellsStr (l : List (Option Nat)) : String :=
  ",".intercalate (l.map fun c => match c with | some id => toString id | none => "-")

def deadStr (l : List (Nat × Nat)) : String :=
  if l.isEmpty then "_" else ",".intercalate (l.map fun (a, b) => toString a ++ ":" ++ toString b)

def qState (s : QS) : String := cellsStr s.cells ++ "|" ++ deadStr s.dead

def runQ (s : QS) : List QOp → List String
  | [] => ["end " ++ deadStr (QS.finish s s.cells.length).dead]
  | op :: rest => let s' := s.step pool op; qState s' :: runQ s' rest

def parseO (tok : String) : Option (Option OOp × Option Nat) :=   -- (state change, cell read)
  match tok.splitOn ":" with
  | ["set", i, v] => do pure (some (.setValue (← i.toNat?) (← v.toInt?)), none)
  | ["cp", i, j] => do pure (some (.copy (← i.toNat?) (← j.toNat?)), none)
  | ["cpc", i, j] => do pure (some (.copy (← i.toNat?) (← j.toNat?)), none)
  | ["cpk", i, j] => do pure (some (.copy (← i.toNat?) (← j.toNat?)), none)   -- rebuilt in place by copy construction
  | ["mvk", i, j] => do pure (some (.copy (← i.toNat?) (← j.toNat?)), none)   -- … by move construction from a copy
  | ["clr", i] => do pure (some (.clear (← i.toNat?)), none)
  | ["rd", i] => do pure (none, some (← i.toNat?))
  | _ => none

def oState (s : OS) : String :=
  ",".intercalate ((List.range s.cells.length).map fun i =>
    match s.read i with | some v => toString v | none => "-")

def runO (s : OS) : List (Option OOp × Option Nat) → List String
  | [] => []
  | (some op, _) :: rest => let s' := s.step op; oState s' :: runO s' rest
  | (none, some i) :: rest =>
    ((match s.read i with | some v => "val " ++ toString v | none => "raise") ++ " " ++ oState s) :: runO s rest
  | (none, none) :: rest => runO s rest

def parseD (tok : String) : Option DOp :=
  match tok.splitOn ":" with
  | ["open"] => some .openOk
  | ["openbad"] => some .openFail
  | ["self"] => some .openFail      -- dl(self) opened, used and destroyed inside the step: no lasting state
  | ["load", o] => do pure (.loadOk (← o.toNat?))
  | ["loadbad", o] => do pure (.loadFail (← o.toNat?))
  | ["copy", o] => do pure (.copy (← o.toNat?))
  | ["del", o] => do pure (.destroy (← o.toNat?))
  | ["call", o] => do pure (.loadFail (← o.toNat?))   -- calling changes nothing
  | ["asgn", o, p] => do pure (.assign (← o.toNat?) (← p.toNat?))
  | _ => none

def natsStr (l : List Nat) : String := if l.isEmpty then "_" else ",".intercalate (l.map toString)

def dRes (s : DS) (tok : String) : String :=
  let alive := fun (o : String) => match o.toNat? with
    | some o => match s.objs[o]? with | some (some _) => true | _ => false
    | none => false
  match tok.splitOn ":" with
  | ["open"] => "ok"
  | ["openbad"] => "raise"
  | ["self"] => "ok"
  | ["load", o] => if alive o then "ok" else "skip"
  | ["loadbad", o] => if alive o then "raise" else "skip"
  | ["copy", o] => if alive o then "ok" else "skip"
  | ["del", o] => if alive o then "ok" else "skip"
  | ["call", o] => if alive o then "ok" else "skip"
  | ["asgn", o, p] => if alive o && alive p then "ok" else "skip"
  | _ => "bad"

def runD (s : DS) : List String → List String
  | [] =>
    let e := (List.range s.objs.length).foldl (fun acc o => acc.step (.destroy o)) s
    ["end c=" ++ natsStr e.closes]
  | tok :: rest =>
    match parseD tok with
    | none => ["bad-op"]
    | some op =>
      let s' := s.step op
      (dRes s tok ++ " c=" ++ natsStr s'.closes) :: runD s' rest

def model (f : List String) : String :=
  match f with
  | ["q", ops] =>
    match (if ops = "" then some [] else (ops.splitOn ";").mapM parseQ) with
    | some ops => ";".intercalate (runQ (QS.init pool) ops)
    | none => "bad-op"
  | ["o", ops] =>
    match (if ops = "" then some [] else (ops.splitOn ";").mapM parseO) with
    | some ops => ";".intercalate (runO ⟨List.replicate 3 none, []⟩ ops)
    | none => "bad-op"
  | ["og", ops] =>      -- optional of a type with a catch-all converting constructor: the same model
    match (if ops = "" then some [] else (ops.splitOn ";").mapM parseO) with
    | some ops => ";".intercalate (runO ⟨List.replicate 3 none, []⟩ ops)
    | none => "bad-op"
  | ["ob", ops] =>      -- optional<bool>: the harness stores `v odd`
    match (if ops = "" then some [] else (ops.splitOn ";").mapM parseO) with
    | some ops =>
      let ops := ops.map fun (o, r) => (match o with
        | some (.setValue i v) => some (OOp.setValue i (if v % 2 = 0 then 0 else 1))
        | o => o, r)
      ";".intercalate (runO ⟨List.replicate 3 none, []⟩ ops)
    | none => "bad-op"
  | ["e", name, state, value, dflt] =>
    match unhex name, unhex value, unhex dflt with
    | some _, some v, some d =>
      let env : String → Option String := fun _ => if state = "set" then some (String.ofList v) else none
      let a := envGet env "n" (String.ofList d)
      let b := envGetNoDefault env "n"
      "ok " ++ hex a.toList ++ " " ++ (match b with | some x => "ok " ++ hex x.toList | none => "raise")
    | _, _, _ => "bad-op"
  | ["d", ops] => ";".intercalate (runD DS.init (if ops = "" then [] else ops.splitOn ";"))
  | _ => "bad-op"

/-- The models are exact on every observable here, and the observables are the property's own
(destructor log, reads, environment results, dlclose log); the judge therefore compares with the
model's answer and adds the run-time markers the harness raises itself. -/
def judge (f : List String) (ans : String) : String :=
  let feat := match f with
    | [k, ops] => "\t" ++ k ++ " ops" ++ toString (min (ops.splitOn ";").length 9) ++
        (if (ops.splitOn ";").length ≥ 2 then " nt" else "")
    | "e" :: _ :: st :: v :: _ => "\te-" ++ st ++ (if v = "-" then "-emptyvalue nt" else " nt")
    | _ => "\t?"
  if (ans.splitOn "LEAK").length > 1 || (ans.splitOn "ALIAS").length > 1 ||
     (ans.splitOn "crash").length > 1 || (ans.splitOn "WRONG").length > 1 then "bad:" ++ ans ++ feat
  else if ans = model f then "ok" ++ feat else "bad:" ++ ans ++ feat

end NitroVerif.Drv.Own
