import NitroVerif.Proto
import NitroVerif.Model.Opt
import NitroVerif.Spec.Opt
import NitroVerif.Model.OptDecl

/-! Driver glue for the option parser (C01–C04, C11–C14): line parsing, canonical output. -/
namespace NitroVerif.Drv.Opt
open NitroVerif.Opt
open NitroVerif.Proto (unhex hex unhexList hexList)

def strLt : Str → Str → Bool
  | [], [] => false
  | [], _ :: _ => true
  | _ :: _, [] => false
  | a :: as, b :: bs => a.toNat < b.toNat || (a.toNat == b.toNat && strLt as bs)

def insertBy {α : Type} (key : α → Str) (x : α) : List α → List α
  | [] => [x]
  | y :: ys => if strLt (key x) (key y) then x :: y :: ys else y :: insertBy key x ys

def sortBy {α : Type} (key : α → Str) (l : List α) : List α := l.foldr (insertBy key) []

/-- `~` = absent, otherwise hex (`-` = empty string). -/
def optHex (s : String) : Option (Option Str) :=
  if s = "~" then some none else (unhex s).map some

def optChar (s : String) : Option (Option Char) :=
  if s = "~" then some none else
  match unhex s with
  | some [c] => some (some c)
  | _ => none

inductive AnyD where
  | o (d : OptD) | m (d : MulD) | t (d : TogD)

/-- `kind:group:name:short:env:default:flag` -/
def parseOne (tok : String) : Option AnyD :=
  match tok.splitOn ":" with
  | ["o", _g, name, short, env, dflt, fl] => do
    pure (.o ⟨← unhex name, ← optChar short, ← optHex env, ← optHex dflt, fl = "1"⟩)
  | ["m", _g, name, short, env, dflt, fl] => do
    let dv ← if dflt = "~" then some none else (unhexList ((dflt.replace "+" ","))).map some
    pure (.m ⟨← unhex name, ← optChar short, ← optHex env, dv, fl = "1"⟩)
  | ["t", _g, name, short, env, dflt, fl] => do
    pure (.t ⟨← unhex name, ← optChar short, ← optHex env, ← (if dflt = "~" then some 0 else dflt.toInt?), fl = "1"⟩)
  | _ => none

def parseDecl (s : String) : Option Decl :=
  match s.splitOn "|" with
  | [hd, body] =>
    match hd.splitOn "," with
    | [al, gr] => do
      let allowed ← if al = "*" then some none else al.toNat?.map some
      let items ← if body = "" then some [] else (body.splitOn ";").mapM parseOne
      let opts := items.filterMap fun x => match x with | .o d => some d | _ => none
      let muls := items.filterMap fun x => match x with | .m d => some d | _ => none
      let togs := items.filterMap fun x => match x with | .t d => some d | _ => none
      pure ⟨sortBy (·.name) opts, sortBy (·.name) muls, sortBy (·.name) togs, allowed, gr = "1"⟩
    | _ => none
  | _ => none

def parseEnv (s : String) : Option Env :=
  if s = "." then some (fun _ => none) else do
    let pairs ← (s.splitOn ",").mapM fun kv =>
      match kv.splitOn "=" with
      | [k, v] => do pure (← unhex k, ← unhex v)
      | _ => none
    pure fun n => (pairs.find? fun p => p.1 = n).map (·.2)

/-- decimal text of an `int`: an optional minus sign and 1-10 digits (leading zeros allowed: they
are still decimal), within range -/
def isCanonInt (s : Str) : Option Int :=
  let body := match s with | '-' :: r => r | r => r
  if !body.isEmpty && body.all Char.isDigit && body.length ≤ 10 then
    let n : Int := body.foldl (fun acc c => acc * 10 + (c.toNat - '0'.toNat : Nat)) 0
    let v : Int := match s with | '-' :: _ => -n | _ => n
    if -2147483648 ≤ v && v ≤ 2147483647 then some v else none
  else none

def resultStr (r : Result) : String :=
  let j := fun (l : List String) => if l.isEmpty then "." else ",".intercalate l
  "ok T:" ++ j (r.togs.map fun (n, c) => hex n ++ "=" ++ toString c) ++
  "|O:" ++ j (r.opts.map fun (n, v) => hex n ++ "=" ++ (match v with | some x => hex x | none => "~")) ++
  "|M:" ++ j (r.muls.map fun (n, vs) => hex n ++ "=" ++ (if vs.isEmpty then "." else "+".intercalate (vs.map hex))) ++
  "|P:" ++ hexList r.pos ++
  "|V:" ++ hexList (sortBy id r.provided) ++
  "|I:" ++ j (r.opts.filterMap fun (n, v) => match v with
      | some x => (isCanonInt x).map fun k => hex n ++ "=" ++ toString k
      | none => none)

def outcomeStr : Except Err Result → String
  | .ok r => resultStr r
  | .error .user => "user"
  | .error .dev => "dev"

def boolStr (b : Bool) : String := if b then "1" else "0"

def histGo (d : Decl) (s : Dyn) : List String → List String
  | e :: a :: rest =>
    match parseEnv e, unhexList a with
    | some env, some argv =>
      let (s', out) := parseOn d s env argv
      outcomeStr out :: histGo d s' rest
    | _, _ => ["bad-op"]
  | _ => []

def kindOfStr (k : String) : Option Kind :=
  if k = "o" then some .o else if k = "m" then some .m else if k = "t" then some .t else none

def dresStr : DRes → String
  | .obj id => "ok" ++ toString id
  | .ok => "ok"
  | .dev => "dev"
  | .skip => "skip"

def probeStr (s : DState) (argv : List Str) : String :=
  let d := toDecl s (some 0)
  let d := { d with opts := sortBy (·.name) d.opts, muls := sortBy (·.name) d.muls, togs := sortBy (·.name) d.togs }
  match parse d (fun _ => none) argv with
  | .error .user => "user"
  | .error .dev => "dev"
  | .ok r =>
    "parsed" ++ String.join ((List.range s.length).map fun i =>
      match s[i]? with
      | none => ""
      | some x =>
        " " ++ toString i ++ "=" ++ (match x.kind with
          | .t => (match r.togs.find? (·.1 = x.name) with | some (_, c) => toString c | none => "?")
          | .m => "#" ++ (match r.muls.find? (·.1 = x.name) with | some (_, vs) => toString vs.length | none => "?")
          | .o => if r.provided.contains x.name then
                    (match r.opts.find? (·.1 = x.name) with | some (_, some v) => hex v | _ => "?")
                  else "~"))

def declRun (s : DState) : List String → List String
  | [] => []
  | tok :: rest =>
    match tok.splitOn ":" with
    | [k, g, name] =>
      (match kindOfStr k, g.toNat?, unhex name with
        | some k, some g, some name =>
          let (s', r) := dstep s (.declare k g name)
          dresStr r :: declRun s' rest
        | _, _, _ =>
          if k = "sh" || k = "en" || k = "mv" then
            (match g.toNat?, unhex name with
              | some id, some v =>
                let op := if k = "sh" then DOp.setShort id v else if k = "en" then .setEnv id v else .setMetavar id v
                let (s', r) := dstep s op
                dresStr r :: declRun s' rest
              | _, _ => ["bad-op"])
          else ["bad-op"])
    | ["grp", _] => "ok" :: declRun s rest
    | ["move"] => "ok" :: declRun s rest
    | ["movea"] => "ok" :: declRun s rest      -- move-assigned over another parser: as neutral as move construction
    | ["probe", argv] =>
      (match unhexList argv with
        | some argv => probeStr s argv :: declRun s rest
        | none => ["bad-op"])
    | _ => ["bad-op"]

/-- `PM1` / `PM2`: the same parse on a parser object that was move-constructed / move-assigned after
its declaration — for the model and the specification the same thing as `P`; `HM`: a parse history
with the parser object moved between the parses — the same thing as `H`; `PU`: the parse goes through
`parse(vector<user_input>)` only (tokens with embedded NUL bytes) — the same thing as `P` -/
def normOp (f : List String) : List String :=
  f.map fun x => if x = "PM1" ∨ x = "PM2" ∨ x = "PU" then "P" else if x = "HM" then "H" else x

def model (f00 : List String) : String :=
  let f0 := normOp f00
  let f := match f0 with
    | t :: rest => if t.startsWith "C" then rest else f0
    | [] => f0
  match f with
  | ["P", decl, env, argv] =>
    match parseDecl decl, parseEnv env, unhexList argv with
    | some d, some env, some argv => outcomeStr (parse d env argv)
    | _, _, _ => "bad-op"
  | "H" :: decl :: rest =>
    match parseDecl decl with
    | some d => ";".intercalate (histGo d Dyn.fresh rest)
    | none => "bad-op"
  | ["I", pos, i] =>
    match unhexList pos, i.toInt? with
    | some pos, some i => (match argGet pos i with | some s => "ok " ++ hex s | none => "raise")
    | _, _ => "bad-op"
  | ["T", tok] =>
    match unhex tok with
    | some tok =>
      match mkUI tok with
      | none => "user"
      | some u => "ui " ++ hex u.name ++ " " ++ (match u.value with | some v => hex v | none => "~") ++ " " ++
          boolStr u.isValue ++ boolStr u.isDoubleDash ++ boolStr u.isShort ++ boolStr u.isNamed ++
          boolStr u.hasValue ++ boolStr u.hasPrefix
    | none => "bad-op"
  | ["E", w] =>
    match unhex w with
    | some w => (match parseEnvWord w with | some true => "1" | some false => "0" | none => "user")
    | none => "bad-op"
  | ["D", ops] => ";".intercalate (declRun [] (ops.splitOn ";"))
  | _ => "bad-op"

end NitroVerif.Drv.Opt

namespace NitroVerif.Drv.Opt
open NitroVerif.Opt
open NitroVerif.Proto (unhex hex unhexList hexList)

/-- part of a result string between `|X:` markers -/
def part (ans : String) (key : String) : String :=
  match (ans.splitOn ("|" ++ key ++ ":")) with
  | [_, r] => (r.splitOn "|").headD ""
  | _ =>
    match ans.splitOn ("ok " ++ key ++ ":") with
    | [_, r] => (r.splitOn "|").headD ""
    | _ => "?"

def kindOf (ans : String) : String :=
  if ans.startsWith "ok " then "ok" else ans

/-- the documented vocabulary of toggle environment words (property C11), as literals -/
def truthyDoc : List String :=
  ["TRUE", "ON", "YES", "true", "on", "yes", "1", "Y", "with", "True", "On", "WITH", "With", "y", "Yes"]
def falsyDoc : List String :=
  ["false", "FALSE", "without", "0", "NO", "no", "Without", "n", "off", "OFF", "N", "False", "Off",
   "WITHOUT", "No"]

def pFeat (d : Decl) (argv : List Str) (spec : String) : String :=
  let optLike := argv.filter fun t => !isValueTok t
  "\targv" ++ toString (min argv.length 6) ++ " spec-" ++ kindOf spec ++
    (if d.opts.length + d.muls.length + d.togs.length > 0 && !optLike.isEmpty then " nt" else "") ++
    (if argv.any (fun t => isDoubleDashTok t) then " has-dd" else "") ++
    (if optLike.any (fun t => match t with | '-' :: c :: _ :: _ => c != '-' | _ => false) then " has-bundle-or-short-eq" else "")

def judgeP (tag : String) (d : Decl) (env : Env) (argv : List Str) (ans : String) : String :=
  let spec := outcomeStr (specParse d env argv)
  let feat := pFeat d argv spec
  let k := kindOf ans
  if k != "ok" && k != "user" && k != "dev" then "bad:" ++ ans ++ feat
  else if k == "dev" && consistent d then "bad:developer-error-escapes-parse" ++ feat
  else if !consistent d then (if k == "dev" then "ok" ++ feat else "bad:inconsistent-declaration-must-refuse-to-parse" ++ feat)
  else
  let eqOn := fun (keys : List String) => keys.all fun key => part ans key == part spec key
  match tag with
  | "C01" =>
    -- success => every token is accounted for: the result is the interpretation of an explanation
    if k == "ok" then
      (if kindOf spec != "ok" then "bad:accepted-a-command-line-that-has-no-explanation" ++ feat
       else if !eqOn ["T", "O", "M", "P"] then "bad:result-is-not-the-interpretation-of-the-explanation want " ++ spec ++ feat
       else "ok" ++ feat)
    else "ok" ++ feat
  | "C02" =>
    -- every spelling of an assignment parses to that assignment
    if kindOf spec == "ok" then
      (if ans == spec then "ok" ++ feat else "bad:spelling-does-not-parse-back want " ++ spec ++ feat)
    else "ok" ++ feat
  | "C04" =>
    if k == kindOf spec then "ok" ++ feat else "bad:accept/reject-boundary want " ++ kindOf spec ++ feat
  | "C11" =>
    if k == kindOf spec && (k != "ok" || (eqOn ["T"] && part ans "V" == part spec "V")) then "ok" ++ feat
    else "bad:toggle-result want " ++ spec ++ feat
  | "C12" =>
    if k == kindOf spec && (k != "ok" || eqOn ["P"]) then "ok" ++ feat
    else "bad:positionals want " ++ spec ++ feat
  | _ =>
    if ans == spec then "ok" ++ feat else "bad:want " ++ spec ++ feat

def histJudge (d : Decl) : List String → List String → Option String
  | e :: a :: rest, ans :: more =>
    match parseEnv e, unhexList a with
    | some env, some argv =>
      let spec := outcomeStr (specParse d env argv)
      if ans == spec then histJudge d rest more
      else some ("parse-depends-on-earlier-calls: step answers " ++ ans ++ " but a fresh parser gives " ++ spec)
    | _, _ => some "bad-op"
  | [], [] => none
  | _, _ => some "step-count"

def judge (f0 : List String) (ans : String) : String :=
  let f := normOp f0
  match f with
  | [tag, "P", decl, env, argv] =>
    match parseDecl decl, parseEnv env, unhexList argv with
    | some d, some env, some argv => judgeP tag d env argv ans
    | _, _, _ => "bad-op"
  | _tag :: "H" :: decl :: rest =>
    match parseDecl decl with
    | some d =>
      let n := rest.length / 2
      let feat := "\thist" ++ toString (min n 6) ++ (if n ≥ 2 then " nt" else "")
      (match histJudge d rest (ans.splitOn ";") with
        | none => "ok" ++ feat
        | some e => "bad:" ++ e ++ feat)
    | none => "bad-op"
  | [_tag, "I", pos, i] =>
    match unhexList pos, i.toInt? with
    | some pos, some i =>
      let n : Int := pos.length
      let want := if 0 ≤ i && i < n then some (pos.getD i.toNat [])
                  else if -n ≤ i && i < 0 then some (pos.getD (n + i).toNat []) else none
      let feat := "\tindex" ++ (if i < 0 then "-neg" else "-nonneg") ++ (if want.isSome then " nt" else " oob nt")
      let e := match want with | some s => "ok " ++ hex s | none => "raise"
      if ans == e then "ok" ++ feat else "bad:" ++ ans ++ " want " ++ e ++ feat
    | _, _ => "bad-op"
  | [_tag, "T", tok] =>
    let m := model ["T", tok]
    let feat := "\ttoken-" ++ (if m == "user" then "rejected" else "accepted") ++ " nt"
    if ans == m then "ok" ++ feat else "bad:" ++ ans ++ " want " ++ m ++ feat
  | [_tag, "D", ops] =>
    let m := model ["D", ops]
    let n := (ops.splitOn ";").length
    let feat := "\tdecl" ++ toString (min n 8) ++ (if (ops.splitOn "move").length > 1 then " moved" else "") ++
      (if (m.splitOn "dev").length > 1 then " has-dev" else "") ++ (if n ≥ 2 then " nt" else "")
    if ans == m then "ok" ++ feat else "bad:" ++ ans ++ " want " ++ m ++ feat
  | [_tag, "E", w] =>
    match unhex w with
    | some w =>
      let s := String.ofList w
      let e := if truthyDoc.contains s then "1" else if falsyDoc.contains s then "0" else "user"
      let feat := "\tenvword-" ++ e ++ " nt"
      if ans == e then "ok" ++ feat else "bad:" ++ ans ++ " want " ++ e ++ feat
    | none => "bad-op"
  | _ => "bad-op"

end NitroVerif.Drv.Opt
