import NitroVerif.Proto
import NitroVerif.Model.MT
import NitroVerif.Generated.MtSinks

/-! Driver glue for C09: the extracted sink bodies run under generated schedules. -/
namespace NitroVerif.Drv.MT
open NitroVerif.MT

def progOf (sink : String) : List Instr :=
  if sink = "o" then Generated.stdoutSink else Generated.stderrSink

/-- record k of thread t: [t+1, k+1, payload…, 0]; payload length varies with (t, k) -/
def record (t k : Nat) : Rec :=
  [t + 1, k + 1] ++ List.replicate ((t * 7 + k * 3) % 9) (((t + k) % 200) + 1) ++ [0]

def recsOf (n r : Nat) : Nat → List Rec := fun t => if t < n then (List.range r).map (record t) else []

def splitZero : List Nat → List Nat → List (List Nat)
  | [], cur => if cur.isEmpty then [] else [cur.reverse]   -- an unterminated rest counts as a (torn) line
  | b :: bs, cur => if b = 0 then (cur.reverse ++ [0]) :: splitZero bs [] else splitZero bs (b :: cur)

/-- judge an output stream: whole records only, each once, per-thread order -/
def verdict (n r : Nat) (out : List Nat) (concurrent : Bool) : String :=
  let lines := splitZero out []
  let expected := (List.range n).flatMap fun t => (List.range r).map (record t)
  let torn := (lines.filter fun l => !expected.contains l).length
  let lost := (expected.filter fun e => !lines.contains e).length
  let dup := (expected.filter fun e => (lines.filter (· == e)).length > 1).length
  let order := (List.range n).all fun t =>
    let mine := lines.filter fun l => l.head? == some (t + 1) && expected.contains l
    mine == (mine.mergeSort fun a b => (a.getD 1 0) ≤ (b.getD 1 0))
  "records=" ++ toString (n * r) ++ " concurrent=" ++ (if concurrent then "1" else "0") ++
    " torn=" ++ toString torn ++ " lost=" ++ toString lost ++ " dup=" ++ toString dup ++
    " order=" ++ (if order then "1" else "0")

def lcg (x : Nat) : Nat := (x * 6364136223846793005 + 1442695040888963407) % 18446744073709551616

/-- run under a pseudo-random schedule until everything is done (or the fuel is gone); also watch
whether two threads are ever inside the stream together -/
def simulate (prog : List Instr) (n : Nat) : Nat → Nat → Sys → Bool → Sys × Bool
  | 0, _, s, c => (s, c)
  | fuel + 1, x, s, c =>
    if (List.range n).all (fun t => (s.threads t).todo.isEmpty) then (s, c)
    else
      let x' := lcg x
      let t := (x' / 65536) % n
      let s' := step prog s t
      let inside := ((List.range n).filter fun k => inStream prog s' k).length
      simulate prog n fuel x' s' (c || inside > 1)

def model (f : List String) : String :=
  match f with
  | ["turn", sink, _rep, _build] =>
    let prog := progOf sink
    let recs : Nat → List Rec := fun t => if t = 0 then [[1, 1, 1, 0]] else if t = 1 then [[2, 2, 2, 0]] else []
    -- thread 0 takes the lock and hands the first byte to the stream, where it is parked
    let s0 := runs prog (init recs) [0, 0]
    -- thread 1 is scheduled again and again
    let s1 := runs prog s0 (List.replicate 12 1)
    let entered := s1.out.contains 2
    "blocked=" ++ (if entered then "0" else "1") ++ " concurrent=" ++ (if entered then "1" else "0")
  | ["stress", sink, n, r, seed, _build] =>
    match n.toNat?, r.toNat?, seed.toNat? with
    | some n, some r, some seed =>
      let prog := progOf sink
      let (s, c) := simulate prog n (n * n * r * 60 + 2000) seed (init (recsOf n r)) false
      verdict n r s.out c
    | _, _, _ => "bad-op"
  | _ => "bad-op"

def judge (f : List String) (ans : String) : String :=
  match f with
  | ["turn", _sink, _rep, _build] =>
    if ans = "blocked=1 concurrent=0" then "ok\tturnstile nt" else "bad:" ++ ans ++ "\tturnstile nt"
  | ["stress", _sink, n, r, _seed, build] =>
    match n.toNat?, r.toNat? with
    | some n, some r =>
      let want := "records=" ++ toString (n * r) ++ " concurrent=0 torn=0 lost=0 dup=0 order=1"
      let feat := "\tstress-" ++ build ++ " threads" ++ toString n ++ (if n ≥ 2 then " nt" else "")
      if ans = want then "ok" ++ feat else "bad:" ++ ans ++ feat
    | _, _ => "bad-op"
  | _ => "bad-op"

end NitroVerif.Drv.MT
