import NitroVerif.Proto
import NitroVerif.Model.MT
import NitroVerif.Generated.MtSinks

/-! Driver glue for C09: the extracted sink bodies run under generated schedules. -/
namespace NitroVerif.Drv.MT
open NitroVerif.MT

def progsOf (sink : String) : List (List Instr) :=
  if sink = "o" then Generated.stdoutSinkBySev else Generated.stderrSinkBySev

def progOf (sink : String) : Rec → List Instr := sinkProg (progsOf sink)

def sevMode (t k mode : Nat) : Nat :=
  if mode = 9 then (if t = 0 then 6 else 2) else    -- 6: logged at info, with a payload longer than a page
  if mode = 8 then 2 else
  if mode ≤ 5 then mode else if mode = 6 then (5 * t + k) % 6 else (if t = 0 then 5 else k % 5)

/-- record k of thread t: [t+1, k+1, sev+1, payload…, 0]; payload length varies with (t, k) -/
def record (mode t k : Nat) : Rec :=
  let payload := if sevMode t k mode ≥ 6 then 4090 + (t * 7 + k * 3) % 20 else (t * 7 + k * 3) % 9
  [t + 1, k + 1, sevMode t k mode + 1] ++ List.replicate payload (((t + k) % 200) + 1) ++ [0]

/-- mode 8: every statement's operand is a callable that logs a record of its own first — for the sink
that is two records per statement, the inner one complete before the outer one starts -/
def recCount (mode r : Nat) : Nat := if mode = 8 then 2 * r else r

def recsOf (mode n r : Nat) : Nat → List Rec := fun t =>
  if t < n then (List.range (recCount mode r)).map (record mode t) else []

def splitZero : List Nat → List Nat → List (List Nat)
  | [], cur => if cur.isEmpty then [] else [cur.reverse]   -- an unterminated rest counts as a (torn) line
  | b :: bs, cur => if b = 0 then (cur.reverse ++ [0]) :: splitZero bs [] else splitZero bs (b :: cur)

/-- judge an output stream: whole records only, each once, per-thread order -/
def verdict (mode n r0 : Nat) (out : List Nat) (concurrent : Bool) : String :=
  let r := recCount mode r0
  let lines := splitZero out []
  let expected := (List.range n).flatMap fun t => (List.range r).map (record mode t)
  let torn := (lines.filter fun l => !expected.contains l).length
  let lost := (expected.filter fun e => !lines.contains e).length
  let dup := (expected.filter fun e => (lines.filter (· == e)).length > 1).length
  let order := (List.range n).all fun t =>
    let mine := lines.filter fun l => l.head? == some (t + 1) && expected.contains l
    mine == (mine.mergeSort fun a b => (a.getD 1 0) ≤ (b.getD 1 0))
  "records=" ++ toString (n * r) ++ " concurrent=" ++ (if concurrent then "1" else "0") ++
    " torn=" ++ toString torn ++ " lost=" ++ toString lost ++ " dup=" ++ toString dup ++
    " order=" ++ (if order then "1" else "0")

def lcg (x : Nat) : Nat := (x * 6364136223846793005 + 1442695040888963407) % 18446744073709551616

/-- run under a pseudo-random schedule until everything is done (or the fuel is gone); also watch
whether two threads are ever inside the stream together -/
def simulate (prog : Rec → List Instr) (n : Nat) : Nat → Nat → Sys → Bool → Sys × Bool
  | 0, _, s, c => (s, c)
  | fuel + 1, x, s, c =>
    if (List.range n).all (fun t => (s.threads t).todo.isEmpty) then (s, c)
    else
      let x' := lcg x
      let t := (x' / 65536) % n
      let s' := step prog s t
      let inside := ((List.range n).filter fun k => inStream prog s' k).length
      simulate prog n fuel x' s' (c || inside > 1)

/-- run thread `i` until its next instruction is a flush or the end of the body (it is then inside
the flush the stream performs, still before the end of the body) -/
def runToFlush (P : Rec → List Instr) (i : Nat) : Nat → Sys → Sys
  | 0, s => s
  | fuel + 1, s =>
    match (s.threads i).todo with
    | [] => s
    | r :: _ =>
      match (P r)[(s.threads i).pc]? with
      | none => s
      | some .flush => s
      | some .lock => if s.holder = none then runToFlush P i fuel (step P s i) else s
      | _ => runToFlush P i fuel (step P s i)

def model (f : List String) : String :=
  match f with
  | ["turn", sink, sevA, sevB, park, _rep, _build] =>
    match sevA.toNat?, sevB.toNat? with
    | some sevA, some sevB =>
      let prog := progOf sink
      let recs : Nat → List Rec := fun t =>
        if t = 0 then [record sevA 0 0] else if t = 1 then [record sevB 1 0] else []
      -- thread 0 is parked inside the stream: after its first byte (w) or in its flush (s)
      let s0 := if park = "s" then runToFlush prog 0 64 (init recs) else runs prog (init recs) [0, 0]
      -- thread 1 is scheduled again and again
      let s1 := runs prog s0 (List.replicate 24 1)
      let entered := (s1.threads 1).wpos > 0 || (s1.threads 1).todo.isEmpty || inStream prog s1 1
      "parked=1 blocked=" ++ (if entered then "0" else "1") ++ " concurrent=" ++ (if entered then "1" else "0")
    | _, _ => "bad-op"
  | ["chain", sink, _seq, _park, _build] =>
    if (progsOf sink).length = 6 && (progsOf sink).all goodProg then "all-rounds-blocked" else "not-proved"
  | ["turnseq", sink, _rounds, _park, _build] =>
    -- a sequence of turnstiles among long-lived threads: every round is an instance of `Props.C09.mutex` (no second
    -- thread is inside the stream while one is), which holds in every reachable state of every schedule - whatever
    -- happened in the rounds before - when the extracted bodies have the proved shape; otherwise nothing is claimed
    if (progsOf sink).length = 6 && (progsOf sink).all goodProg then "all-rounds-blocked" else "not-proved"
  | ["heavy", sink, n, r, _mb, _seed, _build] =>
    -- records of megabytes: no schedule is simulated here.  When every extracted sink body has the shape
    -- the theorems are about, `Props.C09.stdout_mt_safe` / `stderr_mt_safe` give the answer for every schedule;
    -- otherwise nothing is claimed (and the real threads are the only witness).
    match n.toNat?, r.toNat? with
    | some n, some r =>
      if (progsOf sink).length = 6 && (progsOf sink).all goodProg then
        "records=" ++ toString (r + (n - 1) * 1500) ++ " concurrent=0 torn=0 lost=0 dup=0 order=1"
      else "not-proved"
    | _, _ => "bad-op"
  | ["stress", sink, n, r, mode, seed, _build] =>
    match n.toNat?, r.toNat?, mode.toNat?, seed.toNat? with
    | some n, some r, some mode, some seed =>
      let prog := progOf sink
      let (s, c) := simulate prog n (n * n * recCount mode r * 60 + 2000 + (if mode = 9 then n * n * r * 15000 else 0)) seed (init (recsOf mode n r)) false
      verdict mode n r s.out c
    | _, _, _, _ => "bad-op"
  | _ => "bad-op"

def judge (f : List String) (ans : String) : String :=
  match f with
  | ["turn", _sink, sevA, sevB, park, _rep, _build] =>
    let feat := "\tturnstile park-" ++ park ++ " sev" ++ sevA ++ "-" ++ sevB ++ " nt"
    if ans = "parked=1 blocked=1 concurrent=0" then "ok" ++ feat else "bad:" ++ ans ++ feat
  | ["chain", _sink, seq, park, _build] =>
    let feat := "\tturnstile-chain park-" ++ park ++ " length" ++ toString seq.length ++ " nt"
    if ans = "all-rounds-blocked" then "ok" ++ feat else "bad:" ++ ans ++ feat
  | ["turnseq", _sink, rounds, park, _build] =>
    let feat := "\tturnstile-sequence park-" ++ park ++ " rounds" ++ toString ((rounds.length + 1) / 3) ++ " nt"
    if ans = "all-rounds-blocked" then "ok" ++ feat else "bad:" ++ ans ++ feat
  | ["heavy", _sink, n, r, mb, _seed, build] =>
    match n.toNat?, r.toNat? with
    | some n, some r =>
      let want := "records=" ++ toString (r + (n - 1) * 1500) ++ " concurrent=0 torn=0 lost=0 dup=0 order=1"
      let feat := "\theavy-" ++ build ++ " threads" ++ toString n ++ " megabytes" ++ mb ++ (if n ≥ 2 then " nt" else "")
      if ans = want then "ok" ++ feat else "bad:" ++ ans ++ feat
    | _, _ => "bad-op"
  | ["stress", _sink, n, r, mode, _seed, build] =>
    match n.toNat?, r.toNat? with
    | some n, some r =>
      let want := "records=" ++ toString (n * recCount (mode.toNat?.getD 0) r) ++ " concurrent=0 torn=0 lost=0 dup=0 order=1"
      let feat := "\tstress-" ++ build ++ " threads" ++ toString n ++ " sevmode" ++ mode ++ (if n ≥ 2 then " nt" else "")
      if ans = want then "ok" ++ feat else "bad:" ++ ans ++ feat
    | _, _ => "bad-op"
  | _ => "bad-op"

end NitroVerif.Drv.MT
