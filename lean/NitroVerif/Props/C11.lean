import NitroVerif.Lemmas.OptResult
import NitroVerif.Model.Opt
import NitroVerif.Spec.Opt
import NitroVerif.Generated.ToggleVocab

/-!
C11 — a toggle counts its occurrences; reversal and env words follow fixed rules.

The vocabulary part is tied to the source by a translator: `Generated/ToggleVocab.lean`
is rewritten from the clang AST of `toggle::parse_env_value` on every run, and the
theorems below compare it with the documented lists (literals in this file) and with
the lists the hand-written model uses.  Adding, removing or re-classifying a word in
the source breaks `vocabulary_is_documented`.
-/
namespace NitroVerif.Props.C11
open NitroVerif.Opt

/-- The documented truthy words. -/
def truthyDocumented : List Str := [
  ['T','R','U','E'], ['O','N'], ['Y','E','S'], ['t','r','u','e'], ['o','n'], ['y','e','s'], ['1'], ['Y'],
  ['w','i','t','h'], ['T','r','u','e'], ['O','n'], ['W','I','T','H'], ['W','i','t','h'], ['y'], ['Y','e','s']]

/-- The documented falsy words. -/
def falsyDocumented : List Str := [
  ['f','a','l','s','e'], ['F','A','L','S','E'], ['w','i','t','h','o','u','t'], ['0'], ['N','O'], ['n','o'],
  ['W','i','t','h','o','u','t'], ['n'], ['o','f','f'], ['O','F','F'], ['N'], ['F','a','l','s','e'], ['O','f','f'],
  ['W','I','T','H','O','U','T'], ['N','o']]

/-- **The source's tables are the documented vocabulary** (as sets: same words, no word in
both classes), and the extractor recognised the function. -/
theorem vocabulary_is_documented :
    Generated.vocabExtracted = true ∧
    (∀ w, w ∈ Generated.truthySrc ↔ w ∈ truthyDocumented) ∧
    (∀ w, w ∈ Generated.falsySrc ↔ w ∈ falsyDocumented) ∧
    (∀ w, w ∈ Generated.truthySrc → w ∉ Generated.falsySrc) := by
  refine ⟨by decide, ?_, ?_, ?_⟩
  · have h1 : ∀ w ∈ Generated.truthySrc, w ∈ truthyDocumented := by decide
    have h2 : ∀ w ∈ truthyDocumented, w ∈ Generated.truthySrc := by decide
    exact fun w => ⟨h1 w, h2 w⟩
  · have h1 : ∀ w ∈ Generated.falsySrc, w ∈ falsyDocumented := by decide
    have h2 : ∀ w ∈ falsyDocumented, w ∈ Generated.falsySrc := by decide
    exact fun w => ⟨h1 w, h2 w⟩
  · decide

/-- The hand-written model uses the same tables as the source. -/
theorem model_tables_are_source : truthy = Generated.truthySrc ∧ falsy = Generated.falsySrc := by
  constructor <;> decide

/-- **Closed world**: a word is accepted iff it is documented; truthy words give 1, falsy words 0,
every other string is rejected (a user-input error), never guessed. -/
theorem env_word_closed (w : Str) :
    (parseEnvWord w = some true ↔ w ∈ truthyDocumented) ∧
    (parseEnvWord w = some false ↔ w ∈ falsyDocumented) ∧
    (parseEnvWord w = none ↔ w ∉ truthyDocumented ∧ w ∉ falsyDocumented) := by
  have ht : truthy = truthyDocumented := by decide
  have hf : falsy = falsyDocumented := by decide
  have hd : ∀ w ∈ truthyDocumented, w ∉ falsyDocumented := by decide
  unfold parseEnvWord
  rw [ht, hf]
  by_cases h1 : w ∈ truthyDocumented
  · have := hd w h1
    simp [List.contains_iff_mem, h1, this]
  · by_cases h2 : w ∈ falsyDocumented
    · simp [List.contains_iff_mem, h1, h2]
    · simp [List.contains_iff_mem, h1, h2]

/-- There are exactly 15 + 15 words. -/
theorem vocabulary_size : truthyDocumented.length = 15 ∧ falsyDocumented.length = 15 ∧
    truthyDocumented.Nodup ∧ falsyDocumented.Nodup := by decide

/-! ### the update rule of one toggle (code level) -/

/-- A positive occurrence adds the letter's multiplicity (short token) or one (long token). -/
theorem update_positive (s : Dyn) (t : TogD) (u : UI) (s' : Dyn)
    (hv : u.hasValue = false) (hp : (u.hasPrefix && u.nameWithoutPrefix == t.name) = false)
    (h : updateTog s t u = .ok s') :
    s'.given t.name = s.given t.name + togInc t u ∧
    s'.dirtyT t.name = true := by
  unfold updateTog at h
  simp only [hv, hp, Bool.false_eq_true, if_false] at h
  split at h
  · simp at h
  · simp only [Except.ok.injEq] at h
    subst h
    exact ⟨by simp [upd], by simp [upd]⟩

/-- `--no-<name>` is refused for a toggle that is not reversible, and for a reversible one sets
the count to 0. -/
theorem update_negative (s : Dyn) (t : TogD) (u : UI)
    (hv : u.hasValue = false) (hp : (u.hasPrefix && u.nameWithoutPrefix == t.name) = true) :
    (t.reversible = false → updateTog s t u = .error .user) ∧
    (∀ s', updateTog s t u = .ok s' → s'.given t.name = 0 ∧ s'.dirtyT t.name = true) := by
  unfold updateTog
  simp only [hv, hp, Bool.false_eq_true, if_false, if_true]
  constructor
  · intro hr; simp [hr]
  · intro s' h
    split at h
    · simp at h
    · split at h
      · simp at h
      · simp only [Except.ok.injEq] at h; subst h; simp [upd]

/-- Both polarities are rejected in either order. -/
theorem update_conflict (s : Dyn) (t : TogD) (u : UI) (hv : u.hasValue = false)
    (hd : s.dirtyT t.name = true) :
    ((u.hasPrefix && u.nameWithoutPrefix == t.name) = true → s.given t.name ≠ 0 →
        updateTog s t u = .error .user) ∧
    ((u.hasPrefix && u.nameWithoutPrefix == t.name) = false → s.given t.name = 0 →
        updateTog s t u = .error .user) := by
  unfold updateTog
  constructor
  · intro hp hg
    simp only [hv, hp, Bool.false_eq_true, if_false, if_true, hd, Bool.true_and]
    split
    · rfl
    · simp [hg]
  · intro hp hg
    simp [hv, hp, hd, hg]

theorem envE_none (env : Env) (name : Option Str) (h : envNonEmpty env name = none) :
    envOf env name = [] := by
  unfold envNonEmpty at h
  cases name with
  | none => rfl
  | some n =>
    simp only [envOf, envVal] at h ⊢
    cases hv : env n with
    | none => rfl
    | some v =>
      simp only [hv] at h
      split at h
      · rename_i h2; simp [h2]
      · simp at h

theorem envE_some (env : Env) (name : Option Str) (e : Str) (h : envNonEmpty env name = some e) :
    envOf env name = e ∧ e ≠ [] := by
  unfold envNonEmpty at h
  cases name with
  | none => simp at h
  | some n =>
    simp only [envOf, envVal] at h ⊢
    cases hv : env n with
    | none => simp [hv] at h
    | some v =>
      simp only [hv] at h
      split at h
      · simp at h
      · rename_i h2
        simp only [Option.some.injEq] at h
        subst h
        exact ⟨rfl, h2⟩

/-- The environment is consulted only when the toggle did not occur; the default only when neither. -/
theorem check_sources (env : Env) (s : Dyn) (t : TogD) :
    (s.dirtyT t.name = true → checkTog env s t = .ok s) ∧
    (s.dirtyT t.name = false → envNonEmpty env t.env = none →
        ∃ s', checkTog env s t = .ok s' ∧ s'.given t.name = t.dflt ∧ s'.dirtyT t.name = false) ∧
    (s.dirtyT t.name = false → ∀ e, envNonEmpty env t.env = some e →
        match parseEnvWord e with
        | some b => ∃ s', checkTog env s t = .ok s' ∧ s'.given t.name = (if b then 1 else 0) ∧
                          s'.dirtyT t.name = true
        | none => checkTog env s t = .error .user) := by
  unfold checkTog
  refine ⟨fun h => by simp [h], ?_, ?_⟩
  · intro hd he
    simp only [hd, Bool.false_eq_true, if_false, envE_none env t.env he]
    simp [upd, hd]
  · intro hd e he
    obtain ⟨h1, h2⟩ := envE_some env t.env e he
    simp only [hd, Bool.false_eq_true, if_false, h1]
    have : (e != []) = true := by simpa using h2
    simp only [this, if_true]
    cases parseEnvWord e with
    | none => rfl
    | some b => simp [upd]

example : parseEnvWord ['m','a','y','b','e'] = none := by decide
example : parseEnvWord ['W','i','t','h'] = some true := by decide


/-- each long spelling adds one, each occurrence of the letter in a short token adds one -/
theorem posCount_cons (t : TogD) (it : Item) (rest : List Item) :
    posCount t (it :: rest) = (match it with
      | .togLong n => if n = t.name then 1 else 0
      | .togShort ls => (match t.short with | some c => ls.count c | none => 0)
      | _ => 0) + posCount t rest := by
  simp only [posCount, List.map_cons, List.sum_cons]
  cases it <;> first | rfl | (cases t.short <;> rfl)

/-- The toggle rules, read off the specification. -/
theorem interpTog_rules (env : Env) (items : List Item) (t : TogD) :
    (negCount t items = 0 → posCount t items > 0 → interpTog env items t = .ok (posCount t items, true)) ∧
    (negCount t items > 0 → t.reversible = true → posCount t items = 0 → interpTog env items t = .ok (0, true)) ∧
    (negCount t items > 0 → t.reversible = false → interpTog env items t = .error .user) ∧
    (negCount t items > 0 → posCount t items > 0 → interpTog env items t = .error .user) ∧
    (negCount t items = 0 → posCount t items = 0 → envNonEmpty env t.env = none →
        interpTog env items t = .ok (t.dflt, false)) ∧
    (negCount t items = 0 → posCount t items = 0 → ∀ e, envNonEmpty env t.env = some e →
        interpTog env items t = match parseEnvWord e with
          | some b => .ok (if b then 1 else 0, true)
          | none => .error .user) := by
  unfold interpTog
  simp only
  refine ⟨?_, ?_, ?_, ?_, ?_, ?_⟩
  · intro hn hp; simp [hn, hp]
  · intro hn hr hp; simp [hn, hr, hp]
  · intro hn hr; simp [hn, hr]
  · intro hn hp
    by_cases hr : t.reversible = true
    · simp [hn, hp, hr]
    · have : t.reversible = false := by simpa using hr
      simp [hn, this]
  · intro hn hp he; simp [hn, hp, he]
  · intro hn hp e he; simp only [hn, hp, he]; cases parseEnvWord e <;> simp

/-- **The rules hold for `parse`**: on success every toggle is reported with the count
`interpTog` assigns it from the explanation of the command line and the environment. -/
theorem parse_toggles (d : Decl) (hn : (allNames d).Nodup) (env : Env) (argv : List Str) (r : Result)
    (h : parse d env argv = .ok r) :
    ∃ items, explain d argv = some items ∧
      ∀ t ∈ d.togs, ∃ c p, interpTog env items t = .ok (c, p) ∧ (t.name, c) ∈ r.togs ∧ (p = true → t.name ∈ r.provided) := by
  obtain ⟨_, items, hex, hi⟩ := parse_ok_inv d hn env argv r h
  exact ⟨items, hex, (interp_ok_inv d env items r hi).2.2.2.2⟩

/-- both polarities in either order, or `--no-` on a toggle that is not reversible: rejected -/
theorem parse_toggle_conflict (d : Decl) (hn : (allNames d).Nodup) (hc : consistent d = true) (env : Env)
    (argv : List Str) (items : List Item) (t : TogD) (ht : t ∈ d.togs) (hex : explain d argv = some items)
    (hneg : negCount t items > 0) (hbad : t.reversible = false ∨ posCount t items > 0) :
    parse d env argv = .error .user := by
  rw [parse_of_explain d hn hc env argv items hex]
  exact interp_of_bad d env items (Or.inr (Or.inl ⟨t, ht, hneg, hbad⟩))

end NitroVerif.Props.C11
