import NitroVerif.Lemmas.Own

/-!
C18 — owning wrappers destroy exactly once and copy deeply.

`quaint_ptr`: for every history of create / move-assign (incl. self) / reset /
push-into-vector / pop / swap over a pool of pointers, every object ever created
is, at every moment, either owned by exactly one pointer and not destroyed, or
owned by none and destroyed exactly once — by the destructor of its creation
type.  When all pointers are gone every object has been destroyed exactly once.
`optional`: live optionals never share storage, operations on one never change
what another reads, assigning an empty optional empties the target.

Memory-level facts (no leak, no double free in the C++ objects) are observed by
the harness (instance counters, ASan, LSan), not proved.
-/
namespace NitroVerif.Props.C18
open NitroVerif.Own

def owners (s : QS) (id : Nat) : Nat := s.cells.count (some id)
def deaths (s : QS) (id : Nat) : Nat := (s.dead.map (·.1)).count id

/-- Every object that exists is owned by exactly one pointer or has been destroyed
exactly once (never both, never twice, never neither = leak); objects that do not
exist are not referenced; every destructor ran as the object's creation type. -/
def QInv (s : QS) : Prop :=
  (∀ id, owners s id + deaths s id = ind (id < s.types.length)) ∧
  (∀ p ∈ s.dead, s.types[p.1]? = some p.2)

theorem owners_ge (s : QS) (i id : Nat) (hi : i < s.cells.length) :
    ind (s.cells[i] = some id) ≤ owners s id := by
  by_cases h : s.cells[i] = some id
  · rw [ind_true h]
    exact List.count_pos_iff.mpr (h ▸ List.getElem_mem hi)
  · rw [ind_false h]; omega

/-- Running the deleter of cell `i`. -/
theorem release_spec (s : QS) (i : Nat) (hi : i < s.cells.length) (h : QInv s) :
    (s.release i).cells = s.cells ∧ (s.release i).types = s.types ∧
    (∀ id, deaths (s.release i) id = deaths s id + ind (s.cells[i] = some id)) ∧
    (∀ p ∈ (s.release i).dead, s.types[p.1]? = some p.2) := by
  unfold QS.release
  rw [List.getElem?_eq_getElem hi]
  cases hc : s.cells[i] with
  | none =>
    refine ⟨rfl, rfl, ?_, fun p hp => h.2 p hp⟩
    intro id; rw [ind_none]; rfl
  | some id0 =>
    refine ⟨rfl, rfl, ?_, ?_⟩
    · intro id
      simp only [deaths, List.map_append, List.map_cons, List.map_nil, List.count_append,
        ind_some]
      have : [id0].count id = ind (id0 = id) := by
        rw [count_cons_ind]; simp
      rw [this]
    · intro p hp
      simp only [List.mem_append, List.mem_singleton] at hp
      rcases hp with hp | hp
      · exact h.2 p hp
      · subst hp
        have h1 := owners_ge s i id0 hi
        rw [ind_true hc] at h1
        have h2 := h.1 id0
        have : id0 < s.types.length := by
          by_cases hn : id0 < s.types.length
          · exact hn
          · rw [ind_false hn] at h2; omega
        simp [this]

/-- Release cell `i`, then store `x` in it. -/
theorem release_set (s : QS) (i : Nat) (x : Option Nat) (hi : i < s.cells.length) (h : QInv s)
    (s' : QS) (hc : s'.cells = (s.release i).cells.set i x) (hd : s'.dead = (s.release i).dead) :
    ∀ id, owners s' id + deaths s' id = owners s id + deaths s id + ind (x = some id) := by
  obtain ⟨r1, _, r3, _⟩ := release_spec s i hi h
  intro id
  have hc' : s'.cells = s.cells.set i x := by rw [hc, r1]
  have e1 := count_set s.cells i x (some id) hi
  have e2 := r3 id
  have : deaths s' id = deaths (s.release i) id := by simp [deaths, hd]
  simp only [owners, hc']
  rw [this, e2]
  omega

theorem qinv_init (pool : Nat) : QInv (QS.init pool) := by
  constructor
  · intro id
    rw [ind_false (by simp [QS.init])]
    simp [QS.init, owners, deaths, List.count_replicate]
  · simp [QS.init]

/-- One step keeps the invariant. -/
theorem step_inv (pool : Nat) (s : QS) (op : QOp) (h : QInv s) : QInv (s.step pool op) := by
  cases op with
  | makeFails i ty => simpa [QS.step] using h
  | make i ty =>
    simp only [QS.step]
    split
    · rename_i hi
      obtain ⟨r1, r2, r3, r4⟩ := release_spec s i hi h
      constructor
      · intro id
        have := release_set s i (some s.types.length) hi h
          { s.release i with cells := (s.release i).cells.set i (some s.types.length),
                             types := s.types ++ [ty] } rfl rfl id
        simp only [owners, deaths] at this ⊢
        rw [this]
        have := h.1 id
        simp only [owners, deaths] at this
        rw [this, List.length_append, List.length_singleton, ind_lt_succ, ind_some]
      · intro p hp
        have := r4 p hp
        simp only
        have hlt : p.1 < s.types.length := by
          by_cases hn : p.1 < s.types.length
          · exact hn
          · rw [List.getElem?_eq_none (by omega)] at this; simp at this
        rw [List.getElem?_append_left hlt]; exact this
    · exact h
  | mov i j =>
    simp only [QS.step]
    split
    · exact h
    · rename_i hij
      split
      · rename_i hb
        obtain ⟨hi, hj⟩ := hb
        obtain ⟨r1, r2, r3, r4⟩ := release_spec s i hi h
        refine ⟨?_, by simpa [r2] using r4⟩
        intro id
        rw [List.getElem?_eq_getElem hj]
        simp only [Option.getD_some]
        -- first the target cell, then the source cell is emptied
        have e1 := release_set s i s.cells[j] hi h
          { s.release i with cells := (s.release i).cells.set i s.cells[j] } rfl rfl id
        have hlen : j < ((s.release i).cells.set i s.cells[j]).length := by simp [r1]; exact hj
        have e2 := count_set ((s.release i).cells.set i s.cells[j]) j none (some id) hlen
        have hget : ((s.release i).cells.set i s.cells[j])[j] = s.cells[j] := by
          simp [r1, List.getElem_set_ne hij]
        rw [hget, ind_none] at e2
        simp only [owners, deaths] at e1 e2 ⊢
        have := h.1 id
        simp only [owners, deaths, r2] at this ⊢
        omega
      · exact h
  | reset i =>
    simp only [QS.step]
    split
    · rename_i hi
      obtain ⟨r1, r2, r3, r4⟩ := release_spec s i hi h
      refine ⟨?_, by simpa [r2] using r4⟩
      intro id
      have := release_set s i none hi h { s.release i with cells := (s.release i).cells.set i none } rfl rfl id
      rw [ind_none] at this
      have h1 := h.1 id
      simp only [owners, deaths, r2] at this h1 ⊢
      omega
    · exact h
  | push i =>
    simp only [QS.step]
    split
    · rename_i hi
      refine ⟨?_, h.2⟩
      intro id
      rw [List.getElem?_eq_getElem hi]
      simp only [Option.getD_some, owners, deaths, List.count_append]
      have e := count_set s.cells i none (some id) hi
      rw [ind_none] at e
      have h1 := h.1 id
      simp only [owners, deaths] at h1
      have : [s.cells[i]].count (some id) = ind (s.cells[i] = some id) := by
        rw [count_cons_ind]; simp
      omega
    · exact h
  | pop =>
    simp only [QS.step]
    split
    · rename_i hp
      have hi : s.cells.length - 1 < s.cells.length := by omega
      obtain ⟨r1, r2, r3, r4⟩ := release_spec s _ hi h
      refine ⟨?_, by simpa [r2] using r4⟩
      intro id
      have e := count_dropLast s.cells (some id)
      have hl : s.cells.getLast? = some s.cells[s.cells.length - 1] := by
        rw [List.getLast?_eq_getElem?, List.getElem?_eq_getElem hi]
      have : ind (s.cells.getLast? = some (some id)) = ind (s.cells[s.cells.length - 1] = some id) := by
        rw [hl]; exact ind_congr (by simp)
      rw [this] at e
      have h1 := h.1 id
      have h3 := r3 id
      simp only [owners, deaths, r1, r2] at e h1 h3 ⊢
      omega
    · exact h
  | swap i j =>
    simp only [QS.step]
    split
    · rename_i hb
      obtain ⟨hi, hj⟩ := hb
      refine ⟨?_, h.2⟩
      intro id
      rw [List.getElem?_eq_getElem hi, List.getElem?_eq_getElem hj]
      simp only [Option.getD_some]
      have e1 := count_set s.cells i s.cells[j] (some id) hi
      have hlen : j < (s.cells.set i s.cells[j]).length := by simpa using hj
      have e2 := count_set (s.cells.set i s.cells[j]) j s.cells[i] (some id) hlen
      have hget : (s.cells.set i s.cells[j])[j] = s.cells[j] := by
        by_cases hij : i = j
        · subst hij; simp
        · simp [List.getElem_set_ne hij]
      rw [hget] at e2
      have h1 := h.1 id
      simp only [owners, deaths] at h1 ⊢
      omega
    · exact h

/-- A creation whose constructor throws creates nothing, destroys nothing and leaves every owner as it was. -/
theorem failed_creation_neutral (pool : Nat) (s : QS) (i ty : Nat) : s.step pool (.makeFails i ty) = s := rfl

/-- **Every reachable state** of every history satisfies the ownership invariant. -/
theorem history_inv (pool : Nat) (ops : List QOp) : QInv (QS.run pool (QS.init pool) ops) := by
  suffices ∀ s, QInv s → QInv (QS.run pool s ops) from this _ (qinv_init pool)
  induction ops with
  | nil => intro s h; exact h
  | cons op rest ih => intro s h; exact ih _ (step_inv pool s op h)

/-- At no time has an object been destroyed more than once, and an object that is
still owned has not been destroyed. -/
theorem never_twice (s : QS) (h : QInv s) (id : Nat) :
    deaths s id ≤ 1 ∧ owners s id ≤ 1 ∧ (owners s id = 1 → deaths s id = 0) := by
  have := h.1 id
  have := ind_le_one (id < s.types.length)
  omega

/-- A moved-from or reset pointer is empty. -/
theorem moved_from_empty (pool : Nat) (s : QS) (i j : Nat) (hij : i ≠ j)
    (hi : i < s.cells.length) (hj : j < s.cells.length) :
    (s.step pool (.mov i j)).cells[j]? = some none ∧ (s.step pool (.reset i)).cells[i]? = some none := by
  simp only [QS.step, if_neg hij, hi, hj, and_self, if_true]
  constructor
  · rw [List.getElem?_set_self]; simp [QS.release]; split <;> simp_all
  · rw [List.getElem?_set_self]; simp [QS.release]; split <;> simp_all

/-- Destroying all pointer objects keeps the invariant and leaves no cell. -/
theorem finish_spec (s : QS) (n : Nat) (h : QInv s) (hn : s.cells.length ≤ n) :
    QInv (QS.finish s n) ∧ (QS.finish s n).cells = [] ∧ (QS.finish s n).types = s.types := by
  induction n generalizing s with
  | zero =>
    have : s.cells = [] := List.length_eq_zero_iff.mp (by omega)
    simp [QS.finish, h, this]
  | succ n ih =>
    unfold QS.finish
    split
    · rename_i hp
      have hstep := step_inv 0 s .pop h
      simp only [QS.step, hp, if_true] at hstep
      have hi : s.cells.length - 1 < s.cells.length := by omega
      obtain ⟨r1, r2, _, _⟩ := release_spec s _ hi h
      have := ih _ hstep (by simp [r1]; omega)
      simpa [r2] using this
    · rename_i hp
      have : s.cells = [] := List.length_eq_zero_iff.mp (by omega)
      exact ⟨h, this, rfl⟩

/-- **Exactly once, by the right destructor**: after any history, when the last owner has
gone away, every object ever created has been destroyed exactly once, and each
destructor ran as the object's creation type. -/
theorem exactly_once (pool : Nat) (ops : List QOp) (s e : QS)
    (hs : s = QS.run pool (QS.init pool) ops) (he : e = QS.finish s s.cells.length) :
    (∀ id, id < s.types.length → deaths e id = 1) ∧ (∀ id, s.types.length ≤ id → deaths e id = 0) ∧
    (∀ p ∈ e.dead, s.types[p.1]? = some p.2) := by
  subst he
  have hs : QInv s := hs ▸ history_inv pool ops
  obtain ⟨he, hc, ht⟩ := finish_spec s s.cells.length hs (Nat.le_refl _)
  refine ⟨?_, ?_, ?_⟩
  · intro id hid
    have := he.1 id
    simp only [owners, hc, List.count_nil, ht] at this
    rw [ind_true hid] at this; omega
  · intro id hid
    have := he.1 id
    simp only [owners, hc, List.count_nil, ht] at this
    rw [ind_false (by omega)] at this; omega
  · intro p hp
    have := he.2 p hp
    rwa [ht] at this

/-! ### optional -/

/-- Live optionals own pairwise distinct storage, inside the heap. -/
def OInv (s : OS) : Prop :=
  ∀ a, s.cells.count (some a) ≤ ind (a < s.heap.length)

theorem ostep_inv (s : OS) (op : OOp) (h : OInv s) : OInv (s.step op) := by
  have hset : ∀ (i : Nat) (x : Option Nat) (a : Nat), (s.cells.set i x).count (some a) ≤
      s.cells.count (some a) + ind (x = some a) := by
    intro i x a
    by_cases hi : i < s.cells.length
    · have := count_set s.cells i x (some a) hi; omega
    · rw [List.set_eq_of_length_le (by omega)]; omega
  have hfresh : ∀ (i : Nat) (v : Int), OInv { cells := s.cells.set i (some s.heap.length), heap := s.heap ++ [v] } := by
    intro i v a
    have := hset i (some s.heap.length) a
    have := h a
    simp only [List.length_append, List.length_singleton]
    rw [ind_lt_succ, ind_some] at *
    omega
  cases op with
  | setValue i v => exact hfresh i v
  | copy i j =>
    simp only [OS.step]
    cases s.read j with
    | some v => exact hfresh i v
    | none =>
      intro a
      have := hset i none a
      rw [ind_none] at this
      have := h a
      simp only; omega
  | clear i =>
    intro a
    have := hset i none a
    rw [ind_none] at this
    have := h a
    simp only [OS.step]; omega

theorem ohistory_inv (n : Nat) (ops : List OOp) : OInv (OS.run ⟨List.replicate n none, []⟩ ops) := by
  suffices ∀ s, OInv s → OInv (OS.run s ops) by
    apply this
    intro a; simp [List.count_replicate]
  induction ops with
  | nil => intro s h; exact h
  | cons op rest ih => intro s h; exact ih _ (ostep_inv s op h)

theorem read_append (s : OS) (k : Nat) (v : Int) (h : OInv s) (cells : List (Option Nat))
    (hc : cells[k]? = s.cells[k]?) :
    OS.read { cells := cells, heap := s.heap ++ [v] } k = OS.read s k := by
  unfold OS.read
  simp only [hc]
  cases hk : s.cells[k]? with
  | none => rfl
  | some c =>
    cases c with
    | none => rfl
    | some a =>
      simp only
      have hmem : some a ∈ s.cells := by
        have := List.mem_of_getElem? hk; exact this
      have hpos : 0 < s.cells.count (some a) := List.count_pos_iff.mpr hmem
      have := h a
      have hlt : a < s.heap.length := by
        by_cases hn : a < s.heap.length
        · exact hn
        · rw [ind_false hn] at this; omega
      rw [List.getElem?_append_left hlt]

/-- **Deep copy / independence**: an operation on optional `i` never changes what any
other optional reads (copying or assigning never aliases the source). -/
theorem independent (s : OS) (op : OOp) (k : Nat) (h : OInv s)
    (hk : k ≠ (match op with | .setValue i _ => i | .copy i _ => i | .clear i => i)) :
    (s.step op).read k = s.read k := by
  cases op with
  | setValue i v =>
    simp only at hk
    exact read_append s k v h _ (by simp [List.getElem?_set_ne (Ne.symm hk)])
  | copy i j =>
    simp only at hk
    simp only [OS.step]
    cases s.read j with
    | some v => exact read_append s k v h _ (by simp [List.getElem?_set_ne (Ne.symm hk)])
    | none => simp [OS.read, List.getElem?_set_ne (Ne.symm hk)]
  | clear i =>
    simp only at hk
    simp [OS.step, OS.read, List.getElem?_set_ne (Ne.symm hk)]

/-- What the target reads afterwards: the assigned value, the source's value, or nothing —
assigning an empty optional empties the target; reading an empty one raises (`none`). -/
theorem target_reads (s : OS) (i : Nat) (hi : i < s.cells.length) (h : OInv s) :
    (∀ v, (s.step (.setValue i v)).read i = some v) ∧
    (∀ j, (s.step (.copy i j)).read i = s.read j) ∧
    (s.step (.clear i)).read i = none := by
  refine ⟨?_, ?_, ?_⟩
  · intro v
    simp [OS.step, OS.read, List.getElem?_set_self hi]
  · intro j
    simp only [OS.step]
    cases hj : s.read j with
    | some v => simp [OS.read, List.getElem?_set_self hi]
    | none => simp [OS.read, List.getElem?_set_self hi]
  · simp [OS.step, OS.read, List.getElem?_set_self hi]

/-- Two engaged optionals never point to the same storage. -/
theorem no_alias (s : OS) (h : OInv s) (i j : Nat) (a : Nat) (hij : i ≠ j)
    (hi : s.cells[i]? = some (some a)) (hj : s.cells[j]? = some (some a)) : False := by
  have hle := h a
  have := ind_le_one (a < s.heap.length)
  have hi' : i < s.cells.length := by
    by_cases hn : i < s.cells.length
    · exact hn
    · rw [List.getElem?_eq_none (by omega)] at hi; simp at hi
  -- emptying cell i still leaves cell j holding `a`: the count was at least 2
  have e := count_set s.cells i none (some a) hi'
  have hget : s.cells[i] = some a := by
    rw [List.getElem?_eq_getElem hi'] at hi; simpa using hi
  rw [ind_true hget, ind_none] at e
  have hj2 : (s.cells.set i none)[j]? = some (some a) := by
    rw [List.getElem?_set_ne hij]; exact hj
  have hmem : some a ∈ s.cells.set i none := List.mem_of_getElem? hj2
  have : 0 < (s.cells.set i none).count (some a) := List.count_pos_iff.mpr hmem
  omega

/-! Non-vacuity. -/
example : (QS.run 2 (QS.init 2) [.make 0 7, .push 0, .make 0 8, .mov 1 0, .mov 1 1, .pop]).dead = [(0, 7)] := by
  decide
example : (OS.run ⟨[none, none], []⟩ [.setValue 0 5, .copy 1 0, .setValue 0 6]).read 1 = some 5 := by decide

end NitroVerif.Props.C18
