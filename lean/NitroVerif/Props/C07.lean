import NitroVerif.Lemmas.FV
import NitroVerif.Spec.FV
import NitroVerif.Props.C06

/-!
C07 — fixed_vector behaves as a bounded sequence, including copy, move and assignment.

`elems v` is what forward iteration / indexing shows.  Every theorem relates it to
the plain bounded list of `Spec/FV.lean` (`Ref`), for every capacity and every
operation sequence (no depth bound), when no element operation throws
(`fuel = none`; the throwing cases are C06's).
-/
namespace NitroVerif.Props.C07
open NitroVerif.FV

/-- Appending range at the end: fills what fits, raises iff something did not fit. -/
theorem rangeGo_append (v : Vec) (xs : List Slot) (h : VInv v) :
    elems (rangeGo v v.size xs none).1 = elems v ++ xs.take (v.cap - v.size) ∧
    (rangeGo v v.size xs none).2 = (if xs.length ≤ v.cap - v.size then .ok else .raised) ∧
    VInv (rangeGo v v.size xs none).1 ∧ (rangeGo v v.size xs none).1.cap = v.cap := by
  induction xs generalizing v with
  | nil => simp [rangeGo, h]
  | cons x xs ih =>
    have h1 := h.1
    have h2 := h.2
    unfold rangeGo
    split
    · rename_i hc
      have : v.cap - v.size = 0 := by omega
      simp [this, h]
    · rename_i hc
      simp only [tick]
      rw [wr_some (by omega)]
      simp only [if_true]
      have hv' : VInv { cap := v.cap, size := v.size + 1, slots := v.slots.set v.size x } :=
        ⟨by simp; omega, by simpa using h2⟩
      have := ih _ hv'
      simp only at this
      obtain ⟨e1, e2, e3, e4⟩ := this
      refine ⟨?_, ?_, e3, e4⟩
      · rw [e1]
        have ht : elems { cap := v.cap, size := v.size + 1, slots := v.slots.set v.size x } =
            elems v ++ [x] := by
          simp only [elems]; exact take_set_succ _ _ _ (by omega)
        rw [ht]
        have : v.cap - v.size = (v.cap - (v.size + 1)) + 1 := by omega
        rw [this, List.take_succ_cons]; simp
      · rw [e2]
        simp only [List.length_cons]
        by_cases hx : xs.length ≤ v.cap - (v.size + 1)
        · rw [if_pos hx, if_pos (by omega)]
        · rw [if_neg hx, if_neg (by omega)]

/-- One operation refines the bounded list (interior range insert excluded). -/
theorem apply_refines (v : Vec) (op : Op) (h : VInv v)
    (hop : match op with | .range pos _ => pos = v.size | _ => True) :
    (elems (apply v op none).1, (apply v op none).2) = Ref.apply v.cap (elems v) op := by
  have h1 := h.1
  have h2 := h.2
  have hlen : (elems v).length = v.size := by simp [elems]; omega
  have happ : ∀ x, (elems (append1 v x none).1, (append1 v x none).2) =
      (if (elems v).length ≥ v.cap then (elems v, Res.raised) else (elems v ++ [.val x], .ok)) := by
    intro x
    unfold append1
    rw [hlen]
    split
    · rfl
    · simp only [tick]
      rw [wr_some (by omega)]
      simp only [elems]
      rw [take_set_succ _ _ _ (by omega)]
  cases op with
  | emplaceBack x =>
    simp only [apply, Ref.apply]
    rw [← happ x]
    unfold emplaceBack append1
    split
    · rfl
    · simp [tick]
  | insertC x => simpa [apply, Ref.apply] using happ x
  | insertM x => simpa [apply, Ref.apply] using happ x
  | pushBack x => simpa [apply, Ref.apply] using happ x
  | range pos xs =>
    simp only at hop
    subst hop
    simp only [apply, Ref.apply, rangeInsert, hlen]
    rw [if_neg (by omega)]
    have := rangeGo_append v (xs.map .val) h
    rw [this.1, this.2.1]; simp
  | pushRange xs =>
    simp only [apply, Ref.apply, rangeInsert, hlen]
    rw [if_neg (by omega)]
    have := rangeGo_append v (xs.map .val) h
    rw [this.1, this.2.1]; simp
  | emplaceAt pos x =>
    simp only [apply, Ref.apply, emplaceAt, hlen]
    by_cases hp : pos > v.size
    · simp [hp]
    · by_cases hc : v.size ≥ v.cap
      · simp [hp, hc]
      · rw [if_neg hp, if_neg hc, if_neg (by omega)]
        simp only [tick]
        obtain ⟨A, B, y, C, hs, hA, hB, ht⟩ := slots_decomp_free v.slots pos v.size (by omega) (by omega)
        have hv : v = ⟨v.cap, v.size, A ++ (B ++ y :: C)⟩ := by rw [← hs]
        have hsz : v.size = A.length + B.length := by omega
        have hn : v.size - pos = B.length := by omega
        rw [hn]
        conv => lhs; rw [hv]
        simp only
        rw [hsz, shiftR_decomp]
        simp only [tick]
        rw [wr_some (by simp; omega)]
        simp only [elems, ht]
        rw [← hA]
        have e : (A ++ (if B = [] then y else Slot.stale) :: (B ++ C)).set A.length (Slot.val x) =
            A ++ Slot.val x :: (B ++ C) := by
          simp [List.set_append_right]
        rw [e]
        have e2 : A.length + B.length + 1 = (A ++ Slot.val x :: B).length := by simp; omega
        have e3 : A ++ Slot.val x :: (B ++ C) = (A ++ Slot.val x :: B) ++ C := by simp
        rw [e2, e3, List.take_left' rfl]
        simp
  | erase pos =>
    simp only [apply, Ref.apply, erase, hlen]
    by_cases hp : pos ≥ v.size
    · simp [hp]
    · rw [if_neg hp, if_neg hp]
      obtain ⟨A, a, B, C, hs, hA, hB, ht⟩ := slots_decomp v.slots pos v.size (by omega) (by omega)
      have hv : v = ⟨v.cap, v.size, A ++ a :: (B ++ C)⟩ := by rw [← hs]
      conv => lhs; rw [hv]
      simp only
      rw [← hB, ← hA, shiftL_decomp]
      simp only [elems, ht]
      have e : v.size - 1 = (A ++ B).length := by simp; omega
      rw [e]
      have e3 : A ++ (B ++ (if B = [] then a else Slot.stale) :: C) =
          (A ++ B) ++ ((if B = [] then a else Slot.stale) :: C) := by simp
      rw [e3, List.take_left' rfl]
      simp
  | pop =>
    simp only [apply, Ref.apply, popBack, hlen]
    split
    · rfl
    · simp only [elems]
      rw [List.dropLast_eq_take, List.take_take]
      congr 2
      simp; omega
  | atKey key =>
    simp only [apply, Ref.apply, atKey, rd, elems]
    by_cases hk : key < v.size
    · rw [if_neg (by omega), if_neg (by omega), List.getElem?_take_of_lt hk]
      rw [List.getElem?_eq_getElem (by omega)]
    · have : (List.take v.size v.slots)[key]? = none := List.getElem?_eq_none (by simp; omega)
      rw [this]
      split
      · rfl
      · rw [if_pos (by omega)]
  | index key =>
    simp only [apply, Ref.apply, index, rd, elems]
    by_cases hk : key < v.size
    · rw [if_pos hk, List.getElem?_take_of_lt hk, List.getElem?_eq_getElem (by omega)]
    · have : (List.take v.size v.slots)[key]? = none := List.getElem?_eq_none (by simp; omega)
      rw [this, if_neg hk]

/-- Aliasing arguments: `v.emplace(pos, v[k])` etc. insert the value `v[k]` had when the call was
made, exactly as the bounded list does. -/
theorem applyA_refines (v : Vec) (a : AOp) (h : VInv v)
    (hop : match a with | .plain (.range pos _) => pos = v.size | _ => True) :
    (elems (applyA v a none).1, (applyA v a none).2) = Ref.applyA v.cap (elems v) a := by
  unfold applyA Ref.applyA
  cases hr : resolveL (elems v) a with
  | none => rfl
  | some op =>
    apply apply_refines v op h
    cases a with
    | plain o =>
      simp [resolveL] at hr; subst hr
      cases o <;> first | trivial | exact hop
    | emplaceAtAlias pos k => simp only [resolveL] at hr; split at hr <;> simp at hr; subst hr; trivial
    | pushBackAlias k => simp only [resolveL] at hr; split at hr <;> simp at hr; subst hr; trivial
    | emplaceBackAlias k => simp only [resolveL] at hr; split at hr <;> simp at hr; subst hr; trivial
    | insertAlias k => simp only [resolveL] at hr; split at hr <;> simp at hr; subst hr; trivial

/-- Histories on one vector (no element exceptions). -/
def run (v : Vec) : List Op → Vec
  | [] => v
  | op :: rest => run (apply v op none).1 rest

/-- `range` is used as an append only (position = current size) along the history. -/
def AppendOnly (v : Vec) : List Op → Prop
  | [] => True
  | op :: rest =>
    (match op with | .range pos _ => pos = v.size | _ => True) ∧ AppendOnly (apply v op none).1 rest

/-- **C07, refinement for every operation sequence**: after any history, what the
vector shows is what the bounded list shows after the same history. -/
theorem run_refines (v : Vec) (ops : List Op) (h : VInv v) (ha : AppendOnly v ops) :
    elems (run v ops) = Ref.run v.cap (elems v) ops ∧ (run v ops).cap = v.cap := by
  induction ops generalizing v with
  | nil => simp [run, Ref.run]
  | cons op rest ih =>
    have hs := C06.apply_safe v op none h
    have hr := apply_refines v op h ha.1
    have := ih (apply v op none).1 hs.1 ha.2
    simp only [run, Ref.run]
    rw [this.1, this.2, hs.2.2]
    have e : elems (apply v op none).1 = (Ref.apply v.cap (elems v) op).1 := by rw [← hr]
    rw [e]
    exact ⟨rfl, rfl⟩

/-! ### construction, copy, move, assignment -/

/-- `fixed_vector(capacity, iterable)` / `fixed_vector(initializer_list)`: the
contents are the range when it fits, otherwise the constructor raises. -/
theorem fromIter_spec (cap : Nat) (xs : List Slot) :
    (xs.length ≤ cap → ∃ v, fromIter cap xs none = (some v, .ok) ∧ elems v = xs ∧ v.cap = cap ∧
      v.size = xs.length) ∧
    (¬ xs.length ≤ cap → fromIter cap xs none = (none, .raised)) := by
  have := rangeGo_append (fresh cap) xs (inv_fresh cap)
  have hc : (fresh cap).cap - (fresh cap).size = cap := by simp [fresh]
  have hz : (fresh cap).size = 0 := rfl
  rw [hc, hz] at this
  obtain ⟨e1, e2, e3, e4⟩ := this
  unfold fromIter rangeInsert
  rw [hz, if_neg (by omega)]
  generalize rangeGo (fresh cap) 0 xs none = res at *
  obtain ⟨v1, r⟩ := res
  simp only at e1 e2 e3 e4
  constructor
  · intro hx
    rw [if_pos hx] at e2
    subst e2
    have hel : elems v1 = xs := by
      rw [e1]; simp [elems, fresh, List.take_of_length_le hx]
    have hsz : v1.size = xs.length := by
      have := congrArg List.length hel
      simp [elems] at this
      have := e3.1; have := e3.2
      omega
    exact ⟨v1, rfl, hel, by simpa [fresh] using e4, hsz⟩
  · intro hx
    rw [if_neg hx] at e2
    subst e2
    rfl

/-- Copy construction yields an equal container of the same capacity.  (Independence
is structural in the model — vectors are values — and is checked on the C++ side
by writing to one and reading the other.) -/
theorem copy_equal (src : Vec) (h : VInv src) :
    ∃ c, copyOf src none = (some c, .ok) ∧ elems c = elems src ∧ c.cap = src.cap ∧
      c.size = src.size := by
  have hl : (elems src).length ≤ src.cap := by have := h.1; have := h.2; simp [elems]; omega
  have hsz : (elems src).length = src.size := by have := h.1; have := h.2; simp [elems]; omega
  obtain ⟨v, hv, he, hc, hs⟩ := (fromIter_spec src.cap (elems src)).1 hl
  exact ⟨v, hv, he, hc, by omega⟩

/-- Move construction transfers the whole sequence; the source is left empty (and
usable, with its capacity). -/
theorem move_transfers (src : Vec) :
    elems (moveOf src).1 = elems src ∧ (moveOf src).1.cap = src.cap ∧
    elems (moveOf src).2 = [] ∧ (moveOf src).2.cap = src.cap := by
  simp [moveOf, elems, fresh]

/-- Move assignment transfers the whole sequence to the target. -/
theorem move_assign_transfers (dst src : Vec) :
    elems (moveAssign dst src).1 = elems src ∧ (moveAssign dst src).1.cap = src.cap := by
  simp [moveAssign]

/-- Copy assignment makes the target equal to the source. -/
theorem copy_assign_equal (dst src : Vec) (h : VInv src) :
    (copyAssign dst src none).2 = .ok ∧ elems (copyAssign dst src none).1 = elems src ∧
    (copyAssign dst src none).1.cap = src.cap := by
  obtain ⟨c, hc, he, hcap, _⟩ := copy_equal src h
  simp [copyAssign, hc, he, hcap]

/-- Assignment from a list replaces the contents (and the capacity) by the list. -/
theorem list_assign_replaces (dst : Vec) (xs : List Slot) :
    (listAssign dst xs none).2 = .ok ∧ elems (listAssign dst xs none).1 = xs ∧
    (listAssign dst xs none).1.cap = xs.length := by
  obtain ⟨v, hv, he, hc, _⟩ := (fromIter_spec xs.length xs).1 (Nat.le_refl _)
  unfold listAssign fromList
  rw [hv]
  exact ⟨rfl, he, hc⟩

/-- Reverse iteration visits the live elements in reverse order. -/
theorem reverse_is_reverse (v : Vec) : relems v = (elems v).reverse := rfl

/-- Forward iteration visits exactly `size` elements. -/
theorem elems_length (v : Vec) (h : VInv v) : (elems v).length = v.size := by
  have := h.1; have := h.2; simp [elems]; omega

/-- "Shows the caller only elements the caller put there": if the live range holds
only caller-provided elements, it still does after any operation of the alphabet
(no element exception). -/
theorem shown_elements_are_callers (v : Vec) (op : Op) (h : VInv v)
    (hop : match op with | .range pos _ => pos = v.size | _ => True)
    (hf : ∀ s ∈ elems v, s ≠ Slot.stale) :
    ∀ s ∈ elems (apply v op none).1, s ≠ Slot.stale := by
  have hr := apply_refines v op h hop
  have e : elems (apply v op none).1 = (Ref.apply v.cap (elems v) op).1 := by rw [← hr]
  rw [e]
  have happ : ∀ x s, s ∈ (if (elems v).length ≥ v.cap then (elems v, Res.raised)
      else (elems v ++ [Slot.val x], Res.ok)).1 → s ≠ Slot.stale := by
    intro x s hs
    split at hs
    · exact hf s hs
    · simp only [List.mem_append, List.mem_singleton] at hs
      rcases hs with hs | hs
      · exact hf s hs
      · subst hs; simp
  have hrange : ∀ (xs : List Nat) s,
      s ∈ elems v ++ (xs.map Slot.val).take (v.cap - (elems v).length) → s ≠ Slot.stale := by
    intro xs s hs
    simp only [List.mem_append] at hs
    rcases hs with hs | hs
    · exact hf s hs
    · have := List.mem_of_mem_take hs
      simp only [List.mem_map] at this
      obtain ⟨a, _, rfl⟩ := this
      simp
  intro s hs
  cases op with
  | emplaceBack x => exact happ x s hs
  | insertC x => exact happ x s hs
  | insertM x => exact happ x s hs
  | pushBack x => exact happ x s hs
  | range pos xs => exact hrange xs s hs
  | pushRange xs => exact hrange xs s hs
  | emplaceAt pos x =>
    simp only [Ref.apply] at hs
    split at hs
    · exact hf s hs
    · simp only [List.mem_append, List.mem_cons] at hs
      rcases hs with hs | hs | hs
      · exact hf s (List.mem_of_mem_take hs)
      · subst hs; simp
      · exact hf s (List.mem_of_mem_drop hs)
  | erase pos =>
    simp only [Ref.apply] at hs
    split at hs
    · exact hf s hs
    · simp only [List.mem_append] at hs
      rcases hs with hs | hs
      · exact hf s (List.mem_of_mem_take hs)
      · exact hf s (List.mem_of_mem_drop hs)
  | pop =>
    simp only [Ref.apply] at hs
    split at hs
    · exact hf s hs
    · rw [List.dropLast_eq_take] at hs; exact hf s (List.mem_of_mem_take hs)
  | atKey key => exact hf s hs
  | index key => exact hf s hs

/-! Non-vacuity. -/
example : VInv (fresh 3) ∧ AppendOnly (fresh 3) [.pushBack 1, .range 1 [2], .emplaceAt 0 9, .erase 1] := by
  refine ⟨inv_fresh 3, ?_⟩
  simp [AppendOnly, apply, append1, tick, wr, fresh, rangeInsert, rangeGo, emplaceAt, shiftR, mv, rd]
example : elems (run (fresh 3) [.pushBack 1, .pushBack 2, .emplaceAt 0 9, .erase 1]) = [.val 9, .val 2] := by
  decide

end NitroVerif.Props.C07
