import NitroVerif.Props.C05

/-!
C10 — a disabled log statement costs nothing and evaluates nothing lazily.

The type-level part (the statement's stream type is `null_stream` exactly below the compile-time
minimum) is a fact about C++ template instantiation; it is settled exhaustively by compiling the
harness once per minimum and comparing all 6 x 6 `std::is_same` results with `streamIsNull`
(complete, not sampled).  The theorems here are about what is evaluated at run time.
-/
namespace NitroVerif.Props.C10
open NitroVerif.Log NitroVerif.Props.C05

def isLazy : Event → Bool
  | .lazyCall _ => true
  | _ => false

/-- A statement below the compile-time minimum, or rejected by the runtime filter, never calls a
lazily evaluated callable, the formatter or a sink — in either syntactic form, with any number of
callables. -/
theorem disabled_no_effect (cfg : Cfg) (th : Nat → Sev) (sev : Sev) (tag : Option Str) (items : List Item)
    (named : Option Nat) (h : sev < cfg.minSev ∨ evalF th cfg.filter sev tag = false) :
    statement cfg th sev tag items named = [] :=
  nothing_when_disabled cfg th sev tag items named h

theorem filter_lazy_lazyCalls (items : List Item) : (lazyCalls items).filter isLazy = lazyCalls items := by
  unfold lazyCalls
  induction items with
  | nil => rfl
  | cons it rest ih =>
    cases it with
    | text s => simpa [List.filterMap_cons] using ih
    | lazy id s => simp only [List.filterMap_cons, List.filter_cons, isLazy, if_true]; rw [ih]

/-- For an emitted record every callable is called exactly once, at the point where it is streamed:
the callable events of the statement are exactly its callables, in statement order, and all of
them precede the formatter. -/
theorem enabled_once_in_place (cfg : Cfg) (th : Nat → Sev) (sev : Sev) (tag : Option Str)
    (items : List Item) (named : Option Nat) (hmin : ¬ sev < cfg.minSev)
    (hf : evalF th cfg.filter sev tag = true) :
    (statement cfg th sev tag items named).filter isLazy = lazyCalls items ∧
    (statement cfg th sev tag items named).take (lazyCalls items).length = lazyCalls items := by
  rw [statement_spec]
  unfold specStatement
  simp only [hmin, hf, Bool.true_eq_false, or_self, if_false]
  constructor
  · rw [List.filter_append, filter_lazy_lazyCalls]
    have : ((Event.fmt sev tag (texts items) ::
        (List.range cfg.members).map fun k => Event.sink k sev tag (texts items))).filter isLazy = [] := by
      rw [List.filter_cons]
      simp only [isLazy, Bool.false_eq_true, if_false]
      induction (List.range cfg.members) with
      | nil => rfl
      | cons k ks ih => simp [isLazy, ih]
    rw [this]; simp
  · simp

/-! ### an insertion that leaves the string stream failed -/

def rawCalls (raw : List RawItem) : List Event :=
  raw.filterMap fun it => match it with | .lazy id _ => some (.lazyCall id) | _ => none

/-- whatever fails in between, the callables of the statement stay the callables -/
theorem lazyCalls_silence (failed : Bool) (raw : List RawItem) : lazyCalls (silence failed raw) = rawCalls raw := by
  induction raw generalizing failed with
  | nil => rfl
  | cons it rest ih =>
    cases it with
    | text s => simp only [silence, lazyCalls, rawCalls, List.filterMap_cons]; exact ih failed
    | lazy id s =>
      simp only [silence, lazyCalls, rawCalls, List.filterMap_cons]
      have := ih failed
      simp only [lazyCalls, rawCalls] at this
      rw [this]
    | fail => simp only [silence, lazyCalls, rawCalls, List.filterMap_cons]; exact ih true

/-- a failed stream receives no text any more -/
theorem texts_silence_failed (raw : List RawItem) : texts (silence true raw) = [] := by
  induction raw with
  | nil => rfl
  | cons it rest ih =>
    cases it <;> simp_all [silence, texts]

/-- the text of a statement is what was streamed before the first failing insertion -/
theorem texts_silence_prefix (pre : List Item) (post : List RawItem) (toRaw : List RawItem)
    (hpre : silence false toRaw = pre) (hnf : RawItem.fail ∉ toRaw) :
    texts (silence false (toRaw ++ .fail :: post)) = texts pre := by
  subst hpre
  induction toRaw with
  | nil =>
    have h := texts_silence_failed post
    simp only [List.nil_append, silence]
    simp only [texts, List.map_cons, List.flatten_cons, List.nil_append, List.map_nil, List.flatten_nil] at h ⊢
    exact h
  | cons it rest ih =>
    have hrest : RawItem.fail ∉ rest := fun h => hnf (by simp [h])
    cases it with
    | fail => exact absurd (by simp) hnf
    | text s =>
      simp only [List.cons_append, silence, Bool.false_eq_true, if_false]
      have := ih hrest
      simp only [texts, List.map_cons, List.flatten_cons] at this ⊢
      rw [this]
    | lazy id s =>
      simp only [List.cons_append, silence, Bool.false_eq_true, if_false]
      have := ih hrest
      simp only [texts, List.map_cons, List.flatten_cons] at this ⊢
      rw [this]

/-- **Callables after a failed insertion are still called exactly once each, in place**: for an
emitted record whose statement contains values that leave the string stream failed, the callable
events are exactly the statement's callables in statement order — in either syntactic form. -/
theorem enabled_once_despite_failure (cfg : Cfg) (th : Nat → Sev) (sev : Sev) (tag : Option Str)
    (raw : List RawItem) (named : Option Nat) (hmin : ¬ sev < cfg.minSev)
    (hf : evalF th cfg.filter sev tag = true) :
    (statement cfg th sev tag (silence false raw) named).filter isLazy = rawCalls raw := by
  rw [(enabled_once_in_place cfg th sev tag (silence false raw) named hmin hf).1, lazyCalls_silence]

example : statement ⟨0, .null, 1⟩ (fun _ => 0) 2 none
    (silence false [.text ['a'], .fail, .lazy 4 ['b'], .text ['c']]) none =
    [.lazyCall 4, .fmt 2 none ['a'], .sink 0 2 none ['a']] := by decide

/-- the statement's stream type is the discarding one exactly below the compile-time minimum -/
theorem stream_type (minSev sev : Sev) : streamIsNull minSev sev = true ↔ sev < minSev := by
  simp [streamIsNull]

example : (statement ⟨3, .null, 1⟩ (fun _ => 0) 2 none [.lazy 1 ['x']] none) = [] := by decide

/-- **The runtime filter is asked about the record the formatter would receive — tag included.**  A
statement carrying the tag a user-written filter mutes produces no event at all: no callable is
called, nothing is formatted, no sink is invoked, in either syntactic form. -/
theorem muted_tag_no_effect (minSev members : Nat) (th : Nat → Sev) (sev : Sev) (t : Str)
    (items : List Item) (named : Option Nat) :
    statement ⟨minSev, .tagNot t, members⟩ th sev (some t) items named = [] :=
  disabled_no_effect _ th sev (some t) items named (Or.inr (by simp [evalF]))

/-- … and every other tag (or none, when the muted tag is not the empty one) passes that filter -/
theorem other_tag_passes (th : Nat → Sev) (sev : Sev) (t : Str) (tag : Option Str) (h : tag.getD [] ≠ t) :
    evalF th (.tagNot t) sev tag = true := by
  simp [evalF, h]

example : statement ⟨0, .and (.thr 0) (.tagNot ['T']), 1⟩ (fun _ => 0) 2 (some ['T']) [.lazy 1 ['x']] (some 0) = [] := by
  decide

end NitroVerif.Props.C10
