import NitroVerif.Props.C05

/-!
C10 — a disabled log statement costs nothing and evaluates nothing lazily.

The type-level part (the statement's stream type is `null_stream` exactly below the compile-time
minimum) is a fact about C++ template instantiation; it is settled exhaustively by compiling the
harness once per minimum and comparing all 6 x 6 `std::is_same` results with `streamIsNull`
(complete, not sampled).  The theorems here are about what is evaluated at run time.
-/
namespace NitroVerif.Props.C10
open NitroVerif.Log NitroVerif.Props.C05

def isLazy : Event → Bool
  | .lazyCall _ => true
  | _ => false

/-- A statement below the compile-time minimum, or rejected by the runtime filter, never calls a
lazily evaluated callable, the formatter or a sink — in either syntactic form, with any number of
callables. -/
theorem disabled_no_effect (cfg : Cfg) (th : Nat → Sev) (sev : Sev) (tag : Option Str) (items : List Item)
    (named : Option Nat) (h : sev < cfg.minSev ∨ evalF th cfg.filter sev = false) :
    statement cfg th sev tag items named = [] :=
  nothing_when_disabled cfg th sev tag items named h

theorem filter_lazy_lazyCalls (items : List Item) : (lazyCalls items).filter isLazy = lazyCalls items := by
  unfold lazyCalls
  induction items with
  | nil => rfl
  | cons it rest ih =>
    cases it with
    | text s => simpa [List.filterMap_cons] using ih
    | lazy id s => simp only [List.filterMap_cons, List.filter_cons, isLazy, if_true]; rw [ih]

/-- For an emitted record every callable is called exactly once, at the point where it is streamed:
the callable events of the statement are exactly its callables, in statement order, and all of
them precede the formatter. -/
theorem enabled_once_in_place (cfg : Cfg) (th : Nat → Sev) (sev : Sev) (tag : Option Str)
    (items : List Item) (named : Option Nat) (hmin : ¬ sev < cfg.minSev)
    (hf : evalF th cfg.filter sev = true) :
    (statement cfg th sev tag items named).filter isLazy = lazyCalls items ∧
    (statement cfg th sev tag items named).take (lazyCalls items).length = lazyCalls items := by
  rw [statement_spec]
  unfold specStatement
  simp only [hmin, hf, Bool.true_eq_false, or_self, if_false]
  constructor
  · rw [List.filter_append, filter_lazy_lazyCalls]
    have : ((Event.fmt sev tag (texts items) ::
        (List.range cfg.members).map fun k => Event.sink k sev tag (texts items))).filter isLazy = [] := by
      rw [List.filter_cons]
      simp only [isLazy, Bool.false_eq_true, if_false]
      induction (List.range cfg.members) with
      | nil => rfl
      | cons k ks ih => simp [isLazy, ih]
    rw [this]; simp
  · simp

/-- the statement's stream type is the discarding one exactly below the compile-time minimum -/
theorem stream_type (minSev sev : Sev) : streamIsNull minSev sev = true ↔ sev < minSev := by
  simp [streamIsNull]

example : (statement ⟨3, .null, 1⟩ (fun _ => 0) 2 none [.lazy 1 ['x']] none) = [] := by decide

end NitroVerif.Props.C10
