import NitroVerif.Lemmas.FV

/-!
C06 — fixed_vector stays inside its storage and never exposes unfilled slots.

Quantifiers: every capacity, every finite history of operations over a pool of
vectors (constructors, appends, range inserts, positional emplace, erase, pop,
checked and unchecked access, copy/move construction, the three assignments),
every argument in or out of range, and **every throw point**: each operation
carries a `fuel : Option Nat` saying after how many element operations an
element's constructor/assignment throws.

What the model cannot say (checked at run time by the harness, see DESIGN.md):
that C++ element objects are neither leaked nor destroyed twice.
-/
namespace NitroVerif.Props.C06
open NitroVerif.FV

/-- Every single-vector operation, at every throw point, keeps the safety
invariant, never touches a slot outside the allocation, and never changes the
capacity. -/
theorem apply_safe (v : Vec) (op : Op) (fuel : Option Nat) (h : VInv v) :
    VInv (apply v op fuel).1 ∧ (apply v op fuel).2 ≠ .ub ∧ (apply v op fuel).1.cap = v.cap := by
  have h1 := h.1
  have h2 := h.2
  have happ : ∀ x, VInv (append1 v x fuel).1 ∧ (append1 v x fuel).2 ≠ .ub ∧
      (append1 v x fuel).1.cap = v.cap := by
    intro x
    unfold append1
    split
    · simp [h]
    · cases tick fuel with
      | none => simp [h]
      | some f =>
        simp only
        rw [wr_some (by omega)]
        simp [VInv]; omega
  cases op with
  | emplaceBack x =>
    simp only [apply]
    unfold emplaceBack
    split
    · simp [h]
    · cases tick fuel with
      | none => simp [h]
      | some f1 =>
        simp only
        cases tick f1 with
        | none => simp [h]
        | some f2 =>
          simp only
          rw [wr_some (by omega)]
          simp [VInv]; omega
  | insertC x => exact happ x
  | insertM x => exact happ x
  | pushBack x => exact happ x
  | range pos xs =>
    simp only [apply]
    unfold rangeInsert
    split
    · simp [h]
    · exact rangeGo_inv v pos _ fuel h (by omega)
  | pushRange xs =>
    simp only [apply]
    unfold rangeInsert
    split
    · simp [h]
    · exact rangeGo_inv v v.size _ fuel h (by omega)
  | emplaceAt pos x =>
    simp only [apply]
    unfold emplaceAt
    split
    · simp [h]
    · split
      · simp [h]
      · cases tick fuel with
        | none => simp [h]
        | some f1 =>
          simp only
          have fr := shiftR_frame v v.size (v.size - pos) f1
          have nu := shiftR_no_ub v v.size (v.size - pos) f1 (by omega) (by omega)
          generalize shiftR v v.size (v.size - pos) f1 = res at fr nu
          obtain ⟨v1, r, f2⟩ := res
          simp only at fr nu
          cases r with
          | ok =>
            simp only
            cases tick f2 with
            | none => simp [VInv]; omega
            | some f3 =>
              simp only
              rw [wr_some (by omega)]
              simp [VInv]; omega
          | elem s => simp [VInv]; omega
          | raised => simp [VInv]; omega
          | threw => simp [VInv]; omega
          | ub => exact absurd rfl nu
  | erase pos =>
    simp only [apply]
    unfold erase
    split
    · simp [h]
    · have fr := shiftL_frame v pos (v.size - 1 - pos) fuel
      have nu := shiftL_no_ub v pos (v.size - 1 - pos) fuel (by omega)
      generalize shiftL v pos (v.size - 1 - pos) fuel = res at fr nu
      obtain ⟨v1, r⟩ := res
      simp only at fr nu
      cases r with
      | ok => simp [VInv]; omega
      | elem s => simp [VInv]; omega
      | raised => simp [VInv]; omega
      | threw => simp [VInv]; omega
      | ub => exact absurd rfl nu
  | pop =>
    simp only [apply]
    unfold popBack
    split
    · simp [h]
    · simp [VInv]; omega
  | atKey key =>
    simp only [apply, atKey, rd]
    refine ⟨h, ?_, trivial⟩
    split
    · simp
    · split
      · simp
      · rw [List.getElem?_eq_getElem (by omega)]; simp
  | index key =>
    simp only [apply, index, rd]
    refine ⟨h, ?_, trivial⟩
    split
    · rw [List.getElem?_eq_getElem (by omega)]; simp
    · simp

/-- The same for operations whose argument aliases an element of the vector. -/
theorem applyA_safe (v : Vec) (a : AOp) (fuel : Option Nat) (h : VInv v) :
    VInv (applyA v a fuel).1 ∧ (applyA v a fuel).2 ≠ .ub ∧ (applyA v a fuel).1.cap = v.cap := by
  unfold applyA
  cases resolveL (elems v) a with
  | none => simp [h]
  | some op => exact apply_safe v op fuel h

/-- Constructors from a range: the object exists only if everything fitted, and then
satisfies the invariant with exactly the requested capacity. -/
theorem fromIter_safe (cap : Nat) (xs : List Slot) (fuel : Option Nat) :
    (fromIter cap xs fuel).2 ≠ .ub ∧
    ∀ v, (fromIter cap xs fuel).1 = some v → VInv v ∧ v.cap = cap := by
  unfold fromIter rangeInsert
  simp only [fresh, Nat.not_lt_zero, if_false]
  have := rangeGo_inv (fresh cap) 0 xs fuel (inv_fresh cap) (by simp [fresh])
  simp only [fresh] at this
  generalize rangeGo _ 0 xs fuel = res at this
  obtain ⟨v1, r⟩ := res
  cases r <;> simp_all

/-- Pool invariant: every vector object that exists satisfies `VInv`. -/
def PInv (p : Pool) : Prop := ∀ i v, getV p i = some v → VInv v

theorem getV_set (p : Pool) (i k : Nat) (x : Option Vec) :
    getV (p.set i x) k = if i = k ∧ i < p.length then x else getV p k := by
  unfold getV
  by_cases hik : i = k
  · subst hik
    by_cases hl : i < p.length
    · simp [hl]
    · simp [hl]
  · simp [hik, List.getElem?_set_ne hik]

theorem pinv_set {p : Pool} {i : Nat} {v : Vec} (hp : PInv p) (hv : VInv v) :
    PInv (p.set i (some v)) := by
  intro k w hk
  rw [getV_set] at hk
  split at hk
  · simp at hk; subst hk; exact hv
  · exact hp k w hk

/-- One pool step, any operation, any throw point: the invariant is kept and no
access leaves an allocation. -/
theorem pstep_safe (p : Pool) (op : POp) (fuel : Option Nat) (hp : PInv p) :
    PInv (pstep p op fuel).1 ∧ (pstep p op fuel).2 ≠ .ub := by
  cases op with
  | new i cap => exact ⟨pinv_set hp (inv_fresh cap), by simp [pstep]⟩
  | newIter i cap xs =>
    simp only [pstep]
    have := fromIter_safe cap (xs.map .val) fuel
    generalize fromIter cap (xs.map .val) fuel = res at this
    obtain ⟨ov, r⟩ := res
    cases ov with
    | none => exact ⟨hp, this.1⟩
    | some v => exact ⟨pinv_set hp (this.2 v rfl).1, by simp⟩
  | newList i xs =>
    simp only [pstep, fromList]
    have := fromIter_safe (xs.map Slot.val).length (xs.map .val) fuel
    generalize fromIter _ (xs.map .val) fuel = res at this
    obtain ⟨ov, r⟩ := res
    cases ov with
    | none => exact ⟨hp, this.1⟩
    | some v => exact ⟨pinv_set hp (this.2 v rfl).1, by simp⟩
  | copy i j =>
    simp only [pstep]
    cases hj : getV p j with
    | none => exact ⟨hp, by simp⟩
    | some s =>
      simp only [copyOf]
      have := fromIter_safe s.cap (elems s) fuel
      generalize fromIter s.cap (elems s) fuel = res at this
      obtain ⟨ov, r⟩ := res
      cases ov with
      | none => exact ⟨hp, this.1⟩
      | some v => exact ⟨pinv_set hp (this.2 v rfl).1, by simp⟩
  | move i j =>
    simp only [pstep]
    cases hj : getV p j with
    | none => exact ⟨hp, by simp⟩
    | some s =>
      simp only [moveOf]
      exact ⟨pinv_set (pinv_set hp (inv_fresh _)) (hp j s hj), by simp⟩
  | asg i j =>
    simp only [pstep]
    cases hi : getV p i with
    | none => exact ⟨hp, by simp⟩
    | some d =>
      cases hj : getV p j with
      | none => exact ⟨hp, by simp⟩
      | some s =>
        simp only
        split
        · exact ⟨hp, by simp⟩
        · simp only [copyAssign, copyOf]
          have := fromIter_safe s.cap (elems s) fuel
          generalize fromIter s.cap (elems s) fuel = res at this
          obtain ⟨ov, r⟩ := res
          cases ov with
          | none => exact ⟨pinv_set hp (hp i d hi), this.1⟩
          | some v => exact ⟨pinv_set hp (this.2 v rfl).1, by simp⟩
  | masg i j =>
    simp only [pstep]
    cases hi : getV p i with
    | none => exact ⟨hp, by simp⟩
    | some d =>
      cases hj : getV p j with
      | none => exact ⟨hp, by simp⟩
      | some s =>
        simp only [moveAssign]
        exact ⟨pinv_set (pinv_set hp (hp i d hi)) (hp j s hj), by simp⟩
  | lasg i xs =>
    simp only [pstep]
    cases hi : getV p i with
    | none => exact ⟨hp, by simp⟩
    | some d =>
      simp only [listAssign, fromList]
      have := fromIter_safe (xs.map Slot.val).length (xs.map .val) fuel
      generalize fromIter _ (xs.map .val) fuel = res at this
      obtain ⟨ov, r⟩ := res
      cases ov with
      | none => exact ⟨pinv_set hp (hp i d hi), this.1⟩
      | some v => exact ⟨pinv_set hp (this.2 v rfl).1, by simp⟩
  | on i op =>
    simp only [pstep]
    cases hi : getV p i with
    | none => exact ⟨hp, by simp⟩
    | some v =>
      have := apply_safe v op fuel (hp i v hi)
      exact ⟨pinv_set hp this.1, this.2.1⟩
  | onA i a =>
    simp only [pstep]
    cases hi : getV p i with
    | none => exact ⟨hp, by simp⟩
    | some v =>
      have := applyA_safe v a fuel (hp i v hi)
      exact ⟨pinv_set hp this.1, this.2.1⟩

theorem pinv_empty (n : Nat) : PInv (List.replicate n none) := by
  intro i v h
  unfold getV at h
  by_cases hi : i < n
  · simp [hi] at h
  · have : (List.replicate n (none : Option Vec))[i]? = none :=
      List.getElem?_eq_none (by simp; omega)
    simp [this] at h

/-- **C06, safety for every history and every throw schedule.**  Starting from a
pool of `n` not-yet-existing vectors, after any finite history — any operations,
any arguments, any throw points — every existing vector has `size ≤ capacity` and
an allocation of exactly `capacity` slots, and the next operation, whatever it
is, does not access a slot outside an allocation. -/
theorem history_safe (n : Nat) (hist : List (POp × Option Nat)) :
    PInv (prun (List.replicate n none) hist) ∧
    ∀ op fuel, (pstep (prun (List.replicate n none) hist) op fuel).2 ≠ .ub := by
  suffices ∀ p, PInv p → PInv (prun p hist) by
    have h := this _ (pinv_empty n)
    exact ⟨h, fun op fuel => (pstep_safe _ op fuel h).2⟩
  induction hist with
  | nil => intro p hp; exact hp
  | cons a rest ih =>
    intro p hp
    obtain ⟨op, fuel⟩ := a
    exact ih _ (pstep_safe p op fuel hp).1

/-- Capacity is fixed at construction: no single-vector operation changes it (only
assigning a whole other container replaces it). -/
theorem capacity_fixed (v : Vec) (op : Op) (fuel : Option Nat) (h : VInv v) :
    (apply v op fuel).1.cap = v.cap := (apply_safe v op fuel h).2.2

/-! ### operations that cannot be satisfied raise, and leave the container unchanged -/

/-- Append on a full vector raises, for all four single-element appends. -/
theorem append_full_raises (v : Vec) (x : Nat) (fuel : Option Nat) (h : v.size ≥ v.cap) :
    apply v (.emplaceBack x) fuel = (v, .raised) ∧ apply v (.insertC x) fuel = (v, .raised) ∧
    apply v (.insertM x) fuel = (v, .raised) ∧ apply v (.pushBack x) fuel = (v, .raised) := by
  simp [apply, emplaceBack, append1, h]

theorem pop_empty_raises (v : Vec) (fuel : Option Nat) (h : v.size = 0) :
    apply v .pop fuel = (v, .raised) := by simp [apply, popBack, h]

/-- Checked access at an index not below size raises — `at(size())` included. -/
theorem at_oob_raises (v : Vec) (key : Nat) (fuel : Option Nat) (h : key ≥ v.size) :
    apply v (.atKey key) fuel = (v, .raised) := by
  simp only [apply, atKey]; split <;> simp_all

theorem erase_oob_raises (v : Vec) (pos : Nat) (fuel : Option Nat) (h : pos ≥ v.size) :
    apply v (.erase pos) fuel = (v, .raised) := by simp [apply, erase, h]

theorem emplace_oob_or_full_raises (v : Vec) (pos x : Nat) (fuel : Option Nat)
    (h : pos > v.size ∨ v.size ≥ v.cap) : apply v (.emplaceAt pos x) fuel = (v, .raised) := by
  simp only [apply, emplaceAt]
  rcases h with h | h
  · simp [h]
  · split <;> simp_all

/-- Checked access inside the live range returns the slot (and only then). -/
theorem at_in_range (v : Vec) (key : Nat) (fuel : Option Nat) (h : VInv v) (hk : key < v.size) :
    ∃ s, apply v (.atKey key) fuel = (v, .elem s) ∧ (elems v)[key]? = some s := by
  have h1 := h.1
  have h2 := h.2
  have hl : key < v.slots.length := by omega
  refine ⟨v.slots[key], ?_, ?_⟩
  · simp only [apply, atKey, rd]
    rw [if_neg (by omega), if_neg (by omega), List.getElem?_eq_getElem hl]
  · simp [elems, List.getElem?_take, hk, List.getElem?_eq_getElem hl]

/-- A range that does not fit raises (after filling what fits — it is not a
single-element operation). -/
theorem range_overflow_raises (v : Vec) (key : Nat) (xs : List Slot) (h : VInv v)
    (hk : key ≤ v.size) (hfit : key + xs.length > v.cap) :
    (rangeGo v key xs none).2 = .raised := by
  induction xs generalizing v key with
  | nil => simp at hfit; have := h.1; omega
  | cons x xs ih =>
    unfold rangeGo
    split
    · rfl
    · rename_i hc
      have h1 := h.1
      have h2 := h.2
      simp only [tick]
      rw [wr_some (by omega)]
      simp only
      split
      · exact ih _ (key + 1) ⟨by simp; omega, by simpa using h2⟩ (by simp; omega)
          (by simp at hfit ⊢; omega)
      · exact ih _ (key + 1) ⟨by simpa using h1, by simpa using h2⟩ (by simp; omega)
          (by simp at hfit ⊢; omega)

/-- **A failed single-element operation leaves the container unchanged**: whenever a
single-element operation reports the library's exception, the vector is what it
was. -/
theorem failed_single_unchanged (v : Vec) (op : Op) (fuel : Option Nat)
    (hop : match op with | .range _ _ => False | .pushRange _ => False | _ => True)
    (hr : (apply v op fuel).2 = .raised) : (apply v op fuel).1 = v := by
  cases op with
  | emplaceBack x =>
    simp only [apply, emplaceBack] at hr ⊢
    split
    · rfl
    · rename_i hc
      simp only [hc, if_false] at hr
      cases h1 : tick fuel with
      | none => simp [h1] at hr
      | some f1 =>
        simp only [h1] at hr
        cases h2 : tick f1 with
        | none => simp [h2] at hr
        | some f2 =>
          simp only [h2] at hr
          cases h3 : wr v v.size (.val x) with
          | none => simp [h3] at hr
          | some v' => simp [h3] at hr
  | insertC x =>
    simp only [apply, append1] at hr ⊢
    split
    · rfl
    · rename_i hc
      simp only [hc, if_false] at hr
      cases h1 : tick fuel with
      | none => simp [h1] at hr
      | some f1 =>
        simp only [h1] at hr
        cases h3 : wr v v.size (.val x) with
        | none => simp [h3] at hr
        | some v' => simp [h3] at hr
  | insertM x =>
    simp only [apply, append1] at hr ⊢
    split
    · rfl
    · rename_i hc
      simp only [hc, if_false] at hr
      cases h1 : tick fuel with
      | none => simp [h1] at hr
      | some f1 =>
        simp only [h1] at hr
        cases h3 : wr v v.size (.val x) with
        | none => simp [h3] at hr
        | some v' => simp [h3] at hr
  | pushBack x =>
    simp only [apply, append1] at hr ⊢
    split
    · rfl
    · rename_i hc
      simp only [hc, if_false] at hr
      cases h1 : tick fuel with
      | none => simp [h1] at hr
      | some f1 =>
        simp only [h1] at hr
        cases h3 : wr v v.size (.val x) with
        | none => simp [h3] at hr
        | some v' => simp [h3] at hr
  | range pos xs => exact absurd hop (by simp)
  | pushRange xs => exact absurd hop (by simp)
  | emplaceAt pos x =>
    simp only [apply, emplaceAt] at hr ⊢
    split
    · rfl
    · split
      · rfl
      · rename_i h1 h2
        simp only [h1, h2, if_false] at hr
        cases ht : tick fuel with
        | none => simp [ht] at hr
        | some f1 =>
          simp only [ht] at hr ⊢
          -- the shifting loop never reports `raised`
          have key : ∀ (w : Vec) (hi n : Nat) (f : Option Nat), (shiftR w hi n f).2.1 ≠ .raised := by
            intro w hi n
            induction n generalizing w hi with
            | zero => intro f; simp [shiftR]
            | succ n ih =>
              intro f
              unfold shiftR
              cases tick f with
              | none => simp
              | some f' =>
                simp only
                cases hi with
                | zero => simp
                | succ hi' =>
                  simp only
                  cases mv w (hi' + 1) hi' with
                  | none => simp
                  | some w' => exact ih w' hi' f'
          have k := key v v.size (v.size - pos) f1
          generalize shiftR v v.size (v.size - pos) f1 = res at hr k ⊢
          obtain ⟨v1, r, f2⟩ := res
          cases r with
          | ok =>
            simp only at hr
            cases ht2 : tick f2 with
            | none => simp [ht2] at hr
            | some f3 =>
              simp only [ht2] at hr
              cases hw : wr v1 pos (.val x) with
              | none => simp [hw] at hr
              | some v2 => simp [hw] at hr
          | elem s => simp at hr
          | raised => exact absurd rfl k
          | threw => simp at hr
          | ub => simp at hr
  | erase pos =>
    simp only [apply, erase] at hr ⊢
    split
    · rfl
    · rename_i h1
      simp only [h1, if_false] at hr
      have key : ∀ (w : Vec) (k n : Nat) (f : Option Nat), (shiftL w k n f).2 ≠ .raised := by
        intro w k n
        induction n generalizing w k with
        | zero => intro f; simp [shiftL]
        | succ n ih =>
          intro f
          unfold shiftL
          cases tick f with
          | none => simp
          | some f' =>
            simp only
            cases mv w k (k + 1) with
            | none => simp
            | some w' => exact ih w' (k + 1) f'
      have k := key v pos (v.size - 1 - pos) fuel
      generalize shiftL v pos (v.size - 1 - pos) fuel = res at hr k ⊢
      obtain ⟨v1, r⟩ := res
      cases r with
      | ok => simp at hr
      | elem s => simp at hr
      | raised => exact absurd rfl k
      | threw => simp at hr
      | ub => simp at hr
  | pop =>
    simp only [apply, popBack] at hr ⊢
    split
    · rfl
    · rename_i h1; simp [h1] at hr
  | atKey key => rfl
  | index key => rfl

/-! Non-vacuity: concrete reachable states and outcomes. -/
example : VInv (fresh 2) ∧ (apply (fresh 2) (.emplaceBack 7) none).2 = .ok := by decide
example : (apply (fresh 0) (.emplaceBack 7) none).2 = .raised := by decide
example : (apply (apply (fresh 2) (.emplaceBack 7) none).1 (.atKey 1) none).2 = .raised := by decide
example : (apply (apply (fresh 2) (.emplaceBack 7) none).1 (.emplaceAt 0 5) (some 1)).2 = .threw := by decide

end NitroVerif.Props.C06
