import NitroVerif.Lemmas.Own

/-!
C19 — environment and dlopen wrappers report faithfully and keep libraries mapped.

`env::get` by cases; for the loader, an invariant over every history of
open / load / copy / destroy operations (failed opens and lookups included): a
library handle is closed exactly once, after — and only after — the last object
sharing it has been destroyed, in whatever order objects are destroyed.

`dlopen`/`dlclose`/`getenv`/`shared_ptr` themselves are modelled, not verified;
the harness counts the real calls through linker `--wrap`.
-/
namespace NitroVerif.Props.C19
open NitroVerif.Own

/-! ### environment -/

/-- A set variable is returned exactly — also when set to the empty string. -/
theorem get_set (env : String → Option String) (name dflt v : String) (h : env name = some v) :
    envGet env name dflt = v ∧ envGetNoDefault env name = some v := by
  simp [envGet, envGetNoDefault, h]

/-- The default is returned only when the variable is unset; the no-default form raises then. -/
theorem get_unset (env : String → Option String) (name dflt : String) (h : env name = none) :
    envGet env name dflt = dflt ∧ envGetNoDefault env name = none := by
  simp [envGet, envGetNoDefault, h]

theorem get_empty_is_not_unset (env : String → Option String) (name dflt : String)
    (h : env name = some "") : envGet env name dflt = "" := by simp [envGet, h]

theorem default_only_if_unset (env : String → Option String) (name dflt : String)
    (h : envGet env name dflt ≠ dflt) : ∃ v, env name = some v ∧ envGet env name dflt = v := by
  unfold envGet at *
  cases hv : env name with
  | none => simp [hv] at h
  | some v => exact ⟨v, rfl, by simp⟩

/-! ### library handles -/

def users (s : DS) (h : Nat) : Nat := s.objs.count (some h)
def closed (s : DS) (h : Nat) : Nat := s.closes.count h

/-- The shared_ptr use count is the number of objects sharing the handle; an opened
handle has been closed exactly once iff nothing shares it any more; a handle that
was never opened is neither shared nor closed. -/
def DInv (s : DS) : Prop :=
  ∀ h, s.rc[h]?.getD 0 = users s h ∧ closed s h + ind (0 < users s h) = ind (h < s.rc.length)

theorem getD_set (l : List Nat) (i k x : Nat) :
    (l.set i x)[k]?.getD 0 = if i = k ∧ i < l.length then x else l[k]?.getD 0 := by
  by_cases hik : i = k
  · subst hik
    by_cases hl : i < l.length
    · simp [hl]
    · simp [hl]
  · simp [hik, List.getElem?_set_ne hik]

theorem getD_append (l : List Nat) (k x : Nat) :
    (l ++ [x])[k]?.getD 0 = if k = l.length then x else l[k]?.getD 0 := by
  by_cases hk : k < l.length
  · rw [List.getElem?_append_left hk, if_neg (by omega)]
  · by_cases he : k = l.length
    · subst he; simp
    · rw [if_neg he, List.getElem?_eq_none (by simp; omega), List.getElem?_eq_none (by omega)]

theorem dinv_init : DInv DS.init := by
  intro h
  simp [DS.init, users, closed, ind_false]

theorem users_pos_of_obj (s : DS) (o h : Nat) (ho : s.objs[o]? = some (some h)) : 0 < users s h :=
  List.count_pos_iff.mpr (List.mem_of_getElem? ho)

theorem share_inv (s : DS) (o : Nat) (hs : DInv s) : DInv (s.shareStep o) := by
  unfold DS.shareStep
  cases ho : s.objs[o]? with
  | none => exact hs
  | some c =>
    cases c with
    | none => exact hs
    | some h0 =>
      intro h
      have hpos := users_pos_of_obj s o h0 ho
      obtain ⟨a1, a2⟩ := hs h0
      obtain ⟨b1, b2⟩ := hs h
      have hlt : h0 < s.rc.length := by
        by_cases hn : h0 < s.rc.length
        · exact hn
        · rw [ind_false hn, ind_true hpos] at a2; omega
      have hu : users { s with objs := s.objs ++ [some h0], rc := s.rc.set h0 (s.rc[h0]?.getD 0 + 1) } h
          = users s h + ind (h0 = h) := by
        simp only [users, List.count_append]
        have : [some h0].count (some h) = ind (h0 = h) := by
          rw [count_cons_ind, ind_some]; simp
        rw [this]
      simp only [closed] at *
      rw [hu, getD_set]
      simp only [List.length_set]
      by_cases he : h0 = h
      · subst he
        rw [ind_true rfl, if_pos ⟨rfl, hlt⟩]
        refine ⟨by omega, ?_⟩
        rw [ind_true (by omega)]
        rw [ind_true hpos] at b2
        exact b2
      · rw [ind_false he, if_neg (by simp [he])]
        exact ⟨by omega, by simpa using b2⟩

theorem destroy_inv (s : DS) (o : Nat) (hs : DInv s) : DInv (s.destroyStep o) := by
  unfold DS.destroyStep
  cases ho : s.objs[o]? with
  | none => exact hs
  | some c =>
    cases c with
    | none => exact hs
    | some h0 =>
      intro h
      have hpos := users_pos_of_obj s o h0 ho
      obtain ⟨a1, a2⟩ := hs h0
      obtain ⟨b1, b2⟩ := hs h
      have hlt : h0 < s.rc.length := by
        by_cases hn : h0 < s.rc.length
        · exact hn
        · rw [ind_false hn, ind_true hpos] at a2; omega
      have ho' : o < s.objs.length := by
        by_cases hn : o < s.objs.length
        · exact hn
        · rw [List.getElem?_eq_none (by omega)] at ho; simp at ho
      have hget : s.objs[o] = some h0 := by
        rw [List.getElem?_eq_getElem ho'] at ho; simpa using ho
      have e := count_set s.objs o none (some h) ho'
      rw [hget, ind_none, ind_some] at e
      simp only [users, closed] at *
      rw [getD_set]
      simp only [List.length_set]
      by_cases he : h0 = h
      · subst he
        rw [ind_true rfl] at e
        rw [if_pos ⟨rfl, hlt⟩]
        refine ⟨by omega, ?_⟩
        rw [ind_true hpos] at b2
        by_cases h1 : s.rc[h0]?.getD 0 = 1
        · rw [if_pos h1, List.count_append]
          have : [h0].count h0 = 1 := by simp
          rw [this, ind_false (by omega)]
          omega
        · rw [if_neg h1, ind_true (by omega)]
          omega
      · rw [ind_false he] at e
        rw [if_neg (by simp [he])]
        refine ⟨by omega, ?_⟩
        have hc : (if s.rc[h0]?.getD 0 = 1 then s.closes ++ [h0] else s.closes).count h = s.closes.count h := by
          split
          · rw [List.count_append]
            have : [h0].count h = 0 := by simp [he]
            omega
          · rfl
        rw [hc]
        have : List.count (some h) (s.objs.set o none) = List.count (some h) s.objs := by omega
        rw [this]; exact b2

/-- Moving the share of the last object into an emptied slot `o` changes no count. -/
theorem relabel_users (objs : List (Option Nat)) (o hp : Nat) (ho : o + 1 < objs.length)
    (he : objs[o]? = some none) (hl : objs.getLast? = some (some hp)) (h : Nat) :
    ((objs.set o (some hp)).dropLast).count (some h) = objs.count (some h) := by
  have ho' : o < objs.length := by omega
  have e1 := count_set objs o (some hp) (some h) ho'
  have hget : objs[o] = none := by
    rw [List.getElem?_eq_getElem ho'] at he; simpa using he
  rw [hget, ind_none] at e1
  have e2 := count_dropLast (objs.set o (some hp)) (some h)
  have hlast : (objs.set o (some hp)).getLast? = some (some hp) := by
    rw [List.getLast?_eq_getElem?] at hl ⊢
    simp only [List.length_set]
    rw [List.getElem?_set_ne (by omega)]; exact hl
  rw [hlast] at e2
  have : ind (some (some hp) = some (some h)) = ind ((some hp : Option Nat) = some h) := ind_congr (by simp)
  rw [this] at e2
  omega

theorem assign_inv (s : DS) (o p : Nat) (hs : DInv s) : DInv (s.assignStep o p) := by
  unfold DS.assignStep
  cases ho : s.objs[o]? with
  | none => exact hs
  | some co =>
    cases co with
    | none => exact hs
    | some h0 =>
      cases hp : s.objs[p]? with
      | none => exact hs
      | some cp =>
        cases cp with
        | none => exact hs
        | some hp' =>
          simp only
          have h2 : DInv ((s.shareStep p).destroyStep o) := destroy_inv _ o (share_inv s p hs)
          -- shape of the intermediate object list
          have ho' : o < s.objs.length := by
            by_cases hn : o < s.objs.length
            · exact hn
            · rw [List.getElem?_eq_none (by omega)] at ho; simp at ho
          have hshare : (s.shareStep p).objs = s.objs ++ [some hp'] := by
            simp [DS.shareStep, hp]
          have hobj1 : (s.shareStep p).objs[o]? = some (some h0) := by
            rw [hshare, List.getElem?_append_left ho']; exact ho
          have hobjs : ((s.shareStep p).destroyStep o).objs = (s.objs ++ [some hp']).set o none := by
            simp only [DS.destroyStep, hobj1]; rw [hshare]
          intro h
          obtain ⟨c1, c2⟩ := h2 h
          have hrel := relabel_users ((s.objs ++ [some hp']).set o none) o hp'
            (by simp; omega) (by rw [List.getElem?_set_self (by simp; omega)])
            (by
              rw [List.getLast?_eq_getElem?]
              simp only [List.length_set, List.length_append, List.length_singleton, Nat.add_sub_cancel]
              rw [List.getElem?_set_ne (by omega), List.getElem?_append_right (by omega)]
              simp) h
          simp only [users, closed, hobjs] at c1 c2 ⊢
          rw [hrel]
          exact ⟨c1, c2⟩

theorem dstep_inv (s : DS) (op : DOp) (hs : DInv s) : DInv (s.step op) := by
  cases op with
  | openOk =>
    intro h
    obtain ⟨b1, b2⟩ := hs h
    obtain ⟨c1, c2⟩ := hs s.rc.length
    have hz : users s s.rc.length = 0 := by
      rw [← c1, List.getElem?_eq_none (Nat.le_refl _)]; rfl
    simp only [DS.step, users, closed, List.count_append, getD_append, List.length_append,
      List.length_singleton] at *
    have : [some s.rc.length].count (some h) = ind (s.rc.length = h) := by
      rw [count_cons_ind, ind_some]; simp
    rw [this, ind_lt_succ]
    by_cases he : h = s.rc.length
    · subst he
      have e1 : ind (s.rc.length < s.rc.length) = 0 := ind_false (by omega)
      have e2 : ind (s.rc.length = s.rc.length) = 1 := ind_true rfl
      have e3 : ind (0 < List.count (some s.rc.length) s.objs + 1) = 1 := ind_true (by omega)
      have e4 : ind (0 < List.count (some s.rc.length) s.objs) = 0 := ind_false (by omega)
      rw [if_pos rfl, e1, e2, e3]
      rw [e1, e4] at c2
      exact ⟨by omega, by omega⟩
    · rw [if_neg he, ind_false (fun e => he e.symm)]
      exact ⟨by omega, by simpa using b2⟩
  | openFail => exact hs
  | loadOk o => exact share_inv s o hs
  | copy o => exact share_inv s o hs
  | loadFail o => exact hs
  | destroy o => exact destroy_inv s o hs
  | assign o p => exact assign_inv s o p hs

/-- **Every history** keeps the invariant. -/
theorem dhistory_inv (ops : List DOp) : DInv (DS.run DS.init ops) := by
  suffices ∀ s, DInv s → DInv (DS.run s ops) from this _ dinv_init
  induction ops with
  | nil => intro s h; exact h
  | cons op rest ih => intro s h; exact ih _ (dstep_inv s op h)

/-- A library is closed at most once; never while an object sharing it is alive; and
exactly once when the last of them is gone — after any history, any destruction order. -/
theorem close_discipline (ops : List DOp) (h : Nat) (s : DS) (hs : s = DS.run DS.init ops) :
    closed s h ≤ 1 ∧ (0 < users s h → closed s h = 0) ∧
    (h < s.rc.length → users s h = 0 → closed s h = 1) ∧ (s.rc.length ≤ h → closed s h = 0) := by
  have := ((hs ▸ dhistory_inv ops : DInv s) h).2
  have h1 := ind_le_one (h < s.rc.length)
  refine ⟨by omega, ?_, ?_, ?_⟩
  · intro hp; rw [ind_true hp] at this; omega
  · intro hl hu
    rw [ind_true hl, ind_false (show ¬ 0 < users s h by omega)] at this; omega
  · intro hl
    rw [ind_false (show ¬ h < s.rc.length by omega)] at this; omega

/-- A failed open or a failed symbol lookup changes nothing. -/
theorem failed_ops_neutral (s : DS) (o : Nat) :
    s.step .openFail = s ∧ s.step (.loadFail o) = s := ⟨rfl, rfl⟩

/-! Non-vacuity. -/
example : (DS.run DS.init [.openOk, .loadOk 0, .destroy 0, .copy 1, .destroy 1]).closes = [] := by decide
example : (DS.run DS.init [.openOk, .loadOk 0, .destroy 0, .copy 1, .destroy 1, .destroy 2]).closes = [0] := by
  decide
-- symA = symB between two libraries: A's library closes as soon as nothing else shares it, B's stays open
example : (DS.run DS.init [.openOk, .openOk, .loadOk 0, .loadOk 1, .destroy 0, .assign 2 3]).closes = [0] := by
  decide

end NitroVerif.Props.C19
