import NitroVerif.Lemmas.OptResult
import NitroVerif.Model.Opt
import NitroVerif.Spec.Opt
import NitroVerif.Lemmas.Opt

/-!
C01 — the option parser never silently ignores a command-line argument.
-/
namespace NitroVerif.Props.C01
open NitroVerif.Opt

/-- Every explanation is lossless: spelled back, it is the argument vector, token for token. -/
theorem explanation_is_lossless (d : Decl) (h : WFNames d) (argv : List Str) (items : List Item)
    (he : explain d argv = some items) : render d items = argv :=
  explainGo_render d h false argv items he


/-- **The refinement theorem** all parse-level statements of C01–C04, C11, C12 rest on: for every
declaration with pairwise distinct long names (what the declaration API guarantees, Props/C13), every
environment and every argument vector, the code-shaped model of `parser::parse` — token loop with
`user_input`, `matches`, `update`, `check_short_list`, then `validate_options` — returns exactly what
the specification says: explain the command line once, then interpret the items per option.
(Proof: Lemmas/OptTok, OptDispatch, OptLoop, OptCheck, OptApply, OptInterp, OptRefine.) -/
theorem parse_refines_spec (d : Decl) (hn : (allNames d).Nodup) (env : Env) (argv : List Str) :
    parse d env argv = specParse d env argv :=
  parse_factor d hn env argv

/-- **Nothing is ignored.**  Whenever `parse` succeeds — for any declaration the declaration API can
produce, any environment, any argument vector — there is an explanation of the *whole* argument
vector: a list of items which, spelled back, is the argument vector token for token; every item
names a declared option of the right kind, every letter of a short bundle is a declared toggle; and
the result is the interpretation of exactly those items (so every occurrence is counted: see
`posCount`, `cliValues`, `positionalsOf`). -/
theorem nothing_ignored (d : Decl) (hn : (allNames d).Nodup) (env : Env) (argv : List Str) (r : Result)
    (h : parse d env argv = .ok r) :
    ∃ items, explain d argv = some items ∧ render d items = argv ∧ (∀ it ∈ items, ItemOk d it) ∧
      interp d env items = .ok r := by
  obtain ⟨_, items, hex, hi⟩ := parse_ok_inv d hn env argv r h
  exact ⟨items, hex, explanation_is_lossless d (wfNames_of_nodup d hn) argv items hex,
    explainGo_itemOk argv false items hex, hi⟩

/-- **What cannot be explained is rejected**, with the user-input error: an argument vector with a
token (or a letter of a bundle) that matches nothing declared has no explanation. -/
theorem unexplained_is_rejected (d : Decl) (hn : (allNames d).Nodup) (hc : consistent d = true) (env : Env)
    (argv : List Str) (h : explain d argv = none) : parse d env argv = .error .user :=
  parse_of_unexplained d hn hc env argv h

/-- a bundle with a letter that is no toggle has no explanation (`-vz`, `-vo file`, `-oo v`) -/
theorem bundle_with_unknown_letter (d : Decl) (letters : Str) (next : Option Str) (c : Char)
    (hlen : 2 ≤ letters.length) (hc : c ∈ letters) (hno : isTogLetter d c = false) (v : Option Str) :
    explainShort d letters v next = none := by
  unfold explainShort
  split
  · simp at hlen
  · have : letters.all (isTogLetter d) = false := by
      rw [List.all_eq_false]; exact ⟨c, hc, by simp [hno]⟩
    simp [this]

example : explainShort ⟨[], [], [⟨['v','e','r'], some 'v', none, 0, false⟩], none, false⟩ ['v', 'z'] none none = none := by
  decide
example : explainShort ⟨[], [], [⟨['v','e','r'], some 'v', none, 0, false⟩], none, false⟩ ['v', 'v'] none none
    = some (.togShort ['v', 'v'], false) := by
  decide

end NitroVerif.Props.C01
