import NitroVerif.Model.Opt
import NitroVerif.Spec.Opt
import NitroVerif.Lemmas.Opt

/-!
C01 — the option parser never silently ignores a command-line argument.
-/
namespace NitroVerif.Props.C01
open NitroVerif.Opt

/-- Every explanation is lossless: spelled back, it is the argument vector, token for token. -/
theorem explanation_is_lossless (d : Decl) (h : WFNames d) (argv : List Str) (items : List Item)
    (he : explain d argv = some items) : render d items = argv :=
  explainGo_render d h false argv items he

end NitroVerif.Props.C01
