import NitroVerif.Model.Hash
import NitroVerif.Spec.Hash
import NitroVerif.Generated.HashCombine

/-!
C16 — hashing agrees with equality, and comparison with the member tuple.

Proved for all value trees (any nesting, any number of members).  "Up to rare
collisions" is a statistical claim and is *measured* by the correspondence run
(collision count over the exhaustive grids), not proved; what is proved about
sensitivity is injectivity in the last combined component and a concrete
order-matters witness.
-/
namespace NitroVerif.Props.C16
open NitroVerif.Hash

/-- Two values have the same shape (they are values of the same C++ type). -/
def SameShape : Val → Val → Prop
  | .leaf _ _, .leaf _ _ => True
  | .unit, .unit => True
  | .cons x t, .cons y u => SameShape x y ∧ SameShape t u
  | .pair a b, .pair c d => SameShape a c ∧ SameShape b d
  | _, _ => False

/-- The leaf hash is a function of the leaf value: `std::hash` of equal values is
equal (for `double`: `0.0` and `-0.0`; sampled against `std::hash<double>`). -/
def LeafCoherent (hOf : Int → BitVec 64) : Val → Prop
  | .leaf r h => h = hOf r
  | .unit => True
  | .cons x t => LeafCoherent hOf x ∧ LeafCoherent hOf t
  | .pair a b => LeafCoherent hOf a ∧ LeafCoherent hOf b
  | .var x => LeafCoherent hOf x
  | .ptr x => LeafCoherent hOf x

theorem hashFrom_congr (hOf : Int → BitVec 64) (t u : Val) (seed : BitVec 64)
    (ih : ∀ x y, sizeOf x < sizeOf t → eqV x y = true → LeafCoherent hOf x →
      LeafCoherent hOf y → hashV x = hashV y)
    (he : eqV t u = true) (ct : LeafCoherent hOf t) (cu : LeafCoherent hOf u) :
    hashFrom seed t = hashFrom seed u := by
  induction t generalizing u seed with
  | cons x t' _ iht =>
    cases u with
    | cons y u' =>
      simp only [eqV, Bool.and_eq_true] at he
      simp only [hashFrom]
      rw [ih x y (by simp; omega) he.1 ct.1 cu.1]
      exact iht u' _ (fun a b hs => ih a b (by simp at hs ⊢; omega)) he.2 ct.2 cu.2
    | _ => simp [eqV] at he
  | unit => cases u <;> simp_all [eqV, hashFrom]
  | leaf r h => cases u <;> simp_all [eqV, hashFrom]
  | pair a b => cases u <;> simp_all [eqV, hashFrom]
  | var x => cases u <;> simp_all [eqV, hashFrom]
  | ptr x => cases u <;> simp_all [eqV, hashFrom]

/-- **Equal values hash equal.** -/
theorem eq_hash (hOf : Int → BitVec 64) (x y : Val) (he : eqV x y = true)
    (cx : LeafCoherent hOf x) (cy : LeafCoherent hOf y) : hashV x = hashV y := by
  induction hn : sizeOf x using Nat.strongRecOn generalizing x y with
  | _ n ih =>
    subst hn
    cases x with
    | leaf r h =>
      cases y with
      | leaf s k =>
        simp only [eqV, beq_iff_eq] at he
        simp only [LeafCoherent] at cx cy
        simp [hashV, cx, cy, he]
      | _ => simp [eqV] at he
    | unit => cases y <;> simp_all [eqV, hashV]
    | cons a t =>
      cases y with
      | cons b u =>
        simp only [eqV, Bool.and_eq_true] at he
        simp only [hashV]
        rw [ih (sizeOf a) (by simp; omega) a b he.1 cx.1 cy.1 rfl]
        exact hashFrom_congr hOf t u _
          (fun p q hs hpq cp cq => ih (sizeOf p) (by simp at hs ⊢; omega) p q hpq cp cq rfl)
          he.2 cx.2 cy.2
      | _ => simp [eqV] at he
    | pair a b =>
      cases y with
      | pair c d =>
        simp only [eqV, Bool.and_eq_true] at he
        simp only [hashV]
        rw [ih (sizeOf a) (by simp; omega) a c he.1 cx.1 cy.1 rfl,
          ih (sizeOf b) (by simp; omega) b d he.2 cx.2 cy.2 rfl]
      | _ => simp [eqV] at he
    | var a => cases y <;> simp [eqV] at he
    | ptr a => cases y <;> simp [eqV] at he

/-- Pointers hash their pointee, variants combine the held value with seed 0. -/
theorem ptr_hash (x : Val) : hashV (.ptr x) = hashV x := by simp [hashV]
theorem var_hash (x : Val) : hashV (.var x) = combine 0#64 (hashV x) := by simp [hashV]

/-! ### sensitivity -/

/-- The combiner is injective in the combined value, for every seed. -/
theorem combine_inj (s a b : BitVec 64) (h : combine s a = combine s b) : a = b := by
  unfold combine at h
  have h1 := (BitVec.xor_right_inj s).mp h
  have h2 := (BitVec.add_left_inj _).mp h1
  have h3 := (BitVec.add_left_inj _).mp h2
  exact (BitVec.add_left_inj _).mp h3

/-- Changing the last member of a tuple (to a member with a different hash) always
changes the tuple's hash: no collision is possible in the last position. -/
theorem tuple_last_injective (seed : BitVec 64) (x y : Val)
    (h : hashFrom seed (.cons x .unit) = hashFrom seed (.cons y .unit)) : hashV x = hashV y := by
  simp only [hashFrom] at h
  exact combine_inj _ _ _ h

/-- The same for the second member of a pair and for a variant's content. -/
theorem pair_second_injective (a b c : Val) (h : hashV (.pair a b) = hashV (.pair a c)) :
    hashV b = hashV c := by
  simp only [hashV] at h; exact combine_inj _ _ _ h

/-- Component order matters: a concrete swap that changes the hash. -/
theorem order_matters :
    hashV (.cons (.leaf 1 1#64) (.cons (.leaf 2 2#64) .unit)) ≠
    hashV (.cons (.leaf 2 2#64) (.cons (.leaf 1 1#64) .unit)) := by
  decide

/-! ### the order -/

theorem lt_irrefl (x : Val) : ltV x x = false := by
  induction x with
  | leaf r h => simp [ltV]
  | unit => simp [ltV]
  | cons a t iha iht => simp [ltV, iha, iht]
  | pair a b iha ihb => simp [ltV, iha, ihb]
  | var a _ => simp [ltV]
  | ptr a _ => simp [ltV]

/-- Exactly one of `<`, `==`, `>` holds (for values of one type). -/
theorem trichotomy (x y : Val) (hs : SameShape x y) :
    (ltV x y = true ∧ eqV x y = false ∧ ltV y x = false) ∨
    (ltV x y = false ∧ eqV x y = true ∧ ltV y x = false) ∨
    (ltV x y = false ∧ eqV x y = false ∧ ltV y x = true) := by
  induction x generalizing y with
  | leaf r h =>
    cases y with
    | leaf s k =>
      simp only [ltV, eqV, decide_eq_true_eq, decide_eq_false_iff_not, beq_iff_eq, beq_eq_false_iff_ne]
      omega
    | _ => simp [SameShape] at hs
  | unit => cases y <;> simp_all [SameShape, ltV, eqV]
  | cons a t iha iht =>
    cases y with
    | cons b u =>
      have ha := iha b hs.1
      have ht := iht u hs.2
      simp only [ltV, eqV]
      rcases ha with ⟨h1, h2, h3⟩ | ⟨h1, h2, h3⟩ | ⟨h1, h2, h3⟩ <;>
        rcases ht with ⟨k1, k2, k3⟩ | ⟨k1, k2, k3⟩ | ⟨k1, k2, k3⟩ <;>
        simp [h1, h2, h3, k1, k2, k3]
    | _ => simp [SameShape] at hs
  | pair a b iha ihb =>
    cases y with
    | pair c d =>
      have ha := iha c hs.1
      have hb := ihb d hs.2
      simp only [ltV, eqV]
      rcases ha with ⟨h1, h2, h3⟩ | ⟨h1, h2, h3⟩ | ⟨h1, h2, h3⟩ <;>
        rcases hb with ⟨k1, k2, k3⟩ | ⟨k1, k2, k3⟩ | ⟨k1, k2, k3⟩ <;>
        simp [h1, h2, h3, k1, k2, k3]
    | _ => simp [SameShape] at hs
  | var a _ => simp [SameShape] at hs
  | ptr a _ => simp [SameShape] at hs

/-- The six operators are consistent: `<=` is `<` or `==`, `>=` is `>` or `==`,
`!=` is the negation of `==`, `>` is `<` with the arguments swapped. -/
theorem six_consistent (x y : Val) (hs : SameShape x y) :
    le x y = (ltV x y || eqV x y) ∧ ge x y = (gt x y || eqV x y) ∧
    ne x y = !eqV x y ∧ gt x y = ltV y x := by
  rcases trichotomy x y hs with ⟨h1, h2, h3⟩ | ⟨h1, h2, h3⟩ | ⟨h1, h2, h3⟩ <;>
    simp [le, ge, ne, gt, h1, h2, h3]

/-- The operators of the mix-in agree with lexicographic comparison of the member
tuple (`cmp`, Spec/Hash.lean), in both argument orders. -/
theorem ops_agree_with_lex (x y : Val) (hs : SameShape x y) :
    ltV x y = (cmp x y == .lt) ∧ ltV y x = (cmp x y == .gt) ∧ eqV x y = (cmp x y == .eq) := by
  induction x generalizing y with
  | leaf r h =>
    cases y with
    | leaf s k =>
      simp only [ltV, eqV, cmp]
      rcases Int.lt_trichotomy r s with h | h | h
      · have : compare r s = .lt := by simp [Int.compare_eq_lt, h]
        simp [this, h]; omega
      · subst h; simp
      · have : compare r s = .gt := by simp [Int.compare_eq_gt, h]
        simp [this, h]; omega
    | _ => simp [SameShape] at hs
  | unit => cases y <;> simp_all [SameShape, ltV, eqV, cmp]
  | cons a t iha iht =>
    cases y with
    | cons b u =>
      obtain ⟨a1, a2, a3⟩ := iha b hs.1
      obtain ⟨t1, t2, t3⟩ := iht u hs.2
      simp only [ltV, eqV, cmp, a1, a2, a3, t1, t2, t3]
      cases cmp a b <;> cases cmp t u <;> simp [Ordering.then]
    | _ => simp [SameShape] at hs
  | pair a b iha ihb =>
    cases y with
    | pair c d =>
      obtain ⟨a1, a2, a3⟩ := iha c hs.1
      obtain ⟨t1, t2, t3⟩ := ihb d hs.2
      simp only [ltV, eqV, cmp, a1, a2, a3, t1, t2, t3]
      cases cmp a c <;> cases cmp b d <;> simp [Ordering.then]
    | _ => simp [SameShape] at hs
  | var a _ => simp [SameShape] at hs
  | ptr a _ => simp [SameShape] at hs

/-- Lexicographic comparison is transitive and compatible with equality. -/
theorem cmp_trans (x y z : Val) (hxy : SameShape x y) (hyz : SameShape y z) :
    (cmp x y = .eq → cmp x z = cmp y z) ∧ (cmp y z = .eq → cmp x z = cmp x y) ∧
    (cmp x y = .lt → cmp y z = .lt → cmp x z = .lt) := by
  induction x generalizing y z with
  | leaf r h =>
    cases y with
    | leaf s k =>
      cases z with
      | leaf t l =>
        simp only [cmp]
        refine ⟨?_, ?_, ?_⟩
        · intro h; have := Int.compare_eq_eq.mp h; subst this; rfl
        · intro h; have := Int.compare_eq_eq.mp h; subst this; rfl
        · intro h1 h2
          rw [Int.compare_eq_lt] at *
          omega
      | _ => simp [SameShape] at hyz
    | _ => simp [SameShape] at hxy
  | unit =>
    cases y <;> simp [SameShape] at hxy
    cases z <;> simp [SameShape] at hyz
    simp [cmp]
  | cons a t iha iht =>
    cases y with
    | cons b u =>
      cases z with
      | cons c w =>
        obtain ⟨a1, a2, a3⟩ := iha b c hxy.1 hyz.1
        obtain ⟨t1, t2, t3⟩ := iht u w hxy.2 hyz.2
        simp only [cmp]
        rcases hab : cmp a b <;> rcases hbc : cmp b c <;> simp_all [Ordering.then]
      | _ => simp [SameShape] at hyz
    | _ => simp [SameShape] at hxy
  | pair a b iha ihb =>
    cases y with
    | pair c d =>
      cases z with
      | pair e f =>
        obtain ⟨a1, a2, a3⟩ := iha c e hxy.1 hyz.1
        obtain ⟨t1, t2, t3⟩ := ihb d f hxy.2 hyz.2
        simp only [cmp]
        rcases hab : cmp a c <;> rcases hbc : cmp c e <;> simp_all [Ordering.then]
      | _ => simp [SameShape] at hyz
    | _ => simp [SameShape] at hxy
  | var a _ => simp [SameShape] at hxy
  | ptr a _ => simp [SameShape] at hxy

theorem sameShape_trans (x y z : Val) (hxy : SameShape x y) (hyz : SameShape y z) :
    SameShape x z := by
  induction x generalizing y z with
  | leaf _ _ => cases y <;> cases z <;> simp_all [SameShape]
  | unit => cases y <;> cases z <;> simp_all [SameShape]
  | cons p q ihp ihq =>
    cases y <;> cases z <;> simp_all [SameShape]
    exact ⟨ihp _ _ hxy.1 hyz.1, ihq _ _ hxy.2 hyz.2⟩
  | pair p q ihp ihq =>
    cases y <;> cases z <;> simp_all [SameShape]
    exact ⟨ihp _ _ hxy.1 hyz.1, ihq _ _ hxy.2 hyz.2⟩
  | var _ _ => cases y <;> simp_all [SameShape]
  | ptr _ _ => cases y <;> simp_all [SameShape]

/-- **The order is transitive**, and `==` is a congruence for it (values of one type). -/
theorem order_trans (x y z : Val) (hxy : SameShape x y) (hyz : SameShape y z) :
    (eqV x y = true → eqV y z = true → eqV x z = true) ∧
    (eqV x y = true → ltV y z = true → ltV x z = true) ∧
    (ltV x y = true → eqV y z = true → ltV x z = true) ∧
    (ltV x y = true → ltV y z = true → ltV x z = true) := by
  have hxz := sameShape_trans x y z hxy hyz
  obtain ⟨l1, _, e1⟩ := ops_agree_with_lex x y hxy
  obtain ⟨l2, _, e2⟩ := ops_agree_with_lex y z hyz
  obtain ⟨l3, _, e3⟩ := ops_agree_with_lex x z hxz
  obtain ⟨c1, c2, c3⟩ := cmp_trans x y z hxy hyz
  rw [l1, l2, l3, e1, e2, e3]
  simp only [beq_iff_eq]
  refine ⟨?_, ?_, ?_, ?_⟩
  · intro h1 h2; rw [c1 h1]; exact h2
  · intro h1 h2; rw [c1 h1]; exact h2
  · intro h1 h2; rw [c2 h2]; exact h1
  · exact c3

/-- **The model's combiner is the source's combiner.**  `Generated/HashCombine.lean` is rewritten on every run by
translating the body of `detail::hash_combine_impl<unsigned long>` expression by expression (integer conversions
made explicit); the seeds of `hash(tuple)` / `hash(variant)` and the shape of `hash(pair)` are read off their
instantiations.  Every theorem above about `combine`, `hashV`, `hashFrom` is therefore a theorem about the
arithmetic that is in the header now: changing a constant, a shift, an operator or a seed breaks this
obligation. -/
theorem model_combiner_is_source :
    Generated.hashExtracted = true ∧ Generated.pairShapeSrc = true ∧
    (∀ seed value, combine seed value = Generated.combineSrc seed value) ∧
    hashV .unit = Generated.tupleSeedSrc ∧
    (∀ x t, hashV (.cons x t) = hashFrom (combine Generated.tupleSeedSrc (hashV x)) t) ∧
    (∀ x, hashV (.var x) = combine Generated.variantSeedSrc (hashV x)) ∧
    (∀ a b, hashV (.pair a b) = Generated.combineSrc (hashV a) (hashV b)) := by
  refine ⟨rfl, rfl, fun _ _ => rfl, rfl, fun _ _ => ?_, fun _ => ?_, fun _ _ => ?_⟩
  · simp [hashV, Generated.tupleSeedSrc]
  · simp [hashV, Generated.variantSeedSrc]
  · simp [hashV, combine, Generated.combineSrc]

/-- The injectivity theorem restated for the translated source expression. -/
theorem source_combiner_injective_in_value (seed v w : BitVec 64)
    (h : Generated.combineSrc seed v = Generated.combineSrc seed w) : v = w := by
  rw [← model_combiner_is_source.2.2.1, ← model_combiner_is_source.2.2.1] at h
  exact combine_inj seed v w h

/-! Non-vacuity: a nested value of a mix-in type with a nested mix-in member. -/
example : SameShape (.cons (.cons (.leaf 1 1#64) (.cons (.leaf 5 9#64) .unit)) (.cons (.leaf 2 2#64) .unit))
    (.cons (.cons (.leaf 1 1#64) (.cons (.leaf 4 7#64) .unit)) (.cons (.leaf 3 3#64) .unit)) := by
  simp [SameShape]

end NitroVerif.Props.C16
