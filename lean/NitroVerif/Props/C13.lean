import NitroVerif.Model.OptDecl
import NitroVerif.Props.C04
import NitroVerif.Lemmas.OptProvided

/-!
C13 — declarations stay unambiguous: one meaning per long name and per letter.
-/
namespace NitroVerif.Props.C13
open NitroVerif.Opt

/-- Long names are pairwise distinct across all groups and kinds; every short name is empty or one
character. -/
def DInv (s : DState) : Prop :=
  (s.map (·.name)).Nodup ∧ ∀ x ∈ s, x.short = [] ∨ x.short.length = 1

theorem set_names (s : DState) (id : Nat) (x y : DObj) (hx : s[id]? = some x) (hn : y.name = x.name) :
    (s.set id y).map (·.name) = s.map (·.name) := by
  rw [List.map_set]
  have hlt : id < s.length := by
    by_cases h : id < s.length
    · exact h
    · rw [List.getElem?_eq_none (by omega)] at hx; simp at hx
  apply List.ext_getElem
  · simp
  · intro i h1 h2
    by_cases hi : id = i
    · subst hi
      rw [List.getElem_set_self]
      rw [List.getElem?_eq_getElem hlt] at hx
      simp at hx
      simp [hn, hx]
    · rw [List.getElem_set_ne hi]

theorem mem_set {s : DState} {id : Nat} {y z : DObj} (h : z ∈ s.set id y) : z = y ∨ z ∈ s := by
  rcases List.mem_or_eq_of_mem_set h with h | h
  · exact Or.inr h
  · exact Or.inl h

/-- Every operation — also a rejected one — keeps the invariant. -/
theorem dstep_inv (s : DState) (op : DOp) (h : DInv s) : DInv (dstep s op).1 := by
  cases op with
  | declare k g name =>
    simp only [dstep, declare]
    split
    · exact h
    · split
      · exact h
      · rename_i hany
        constructor
        · simp only [List.map_append, List.map_cons, List.map_nil]
          rw [List.nodup_append]
          refine ⟨h.1, by simp, ?_⟩
          intro a ha b hb
          simp only [List.mem_singleton] at hb
          subst hb
          intro hab
          subst hab
          apply hany
          simp only [List.any_eq_true, decide_eq_true_eq]
          simp only [List.mem_map] at ha
          obtain ⟨x, hx, hxn⟩ := ha
          exact ⟨x, hx, hxn⟩
        · intro x hx
          simp only [List.mem_append, List.mem_singleton] at hx
          rcases hx with hx | hx
          · exact h.2 x hx
          · subst hx; left; rfl
  | setShort id sh =>
    simp only [dstep]
    cases hx : s[id]? with
    | none => exact h
    | some x =>
      simp only
      split
      · exact h
      · split
        · exact h
        · rename_i h1 h2
          constructor
          · show ((s.set id { x with short := sh }).map (·.name)).Nodup
            rw [set_names s id x { x with short := sh } hx rfl]; exact h.1
          · intro z hz
            rcases mem_set hz with rfl | hz
            · right; simpa using h2
            · exact h.2 z hz
  | setEnv id e =>
    simp only [dstep]
    cases hx : s[id]? with
    | none => exact h
    | some x =>
      simp only
      split
      · exact h
      · constructor
        · show ((s.set id { x with env := e }).map (·.name)).Nodup
          rw [set_names s id x { x with env := e } hx rfl]; exact h.1
        · intro z hz
          rcases mem_set hz with rfl | hz
          · exact h.2 x (List.mem_of_getElem? hx)
          · exact h.2 z hz
  | setMetavar id m =>
    simp only [dstep]
    cases hx : s[id]? with
    | none => exact h
    | some x =>
      simp only
      split
      · exact h
      · constructor
        · show ((s.set id { x with metavar := m }).map (·.name)).Nodup
          rw [set_names s id x { x with metavar := m } hx rfl]; exact h.1
        · intro z hz
          rcases mem_set hz with rfl | hz
          · exact h.2 x (List.mem_of_getElem? hx)
          · exact h.2 z hz
  | newGroup k => exact h
  | moveParser => exact h

/-- **Every reachable declaration state**: after any sequence of declaration calls (repeated and
conflicting ones included, on any groups, interleaved with moving the parser object) a long name
denotes at most one option across all groups and kinds, and every short name is one character. -/
theorem history_inv (ops : List DOp) : DInv (drun [] ops) := by
  suffices ∀ s, DInv s → DInv (drun s ops) from this [] ⟨by simp, by simp⟩
  induction ops with
  | nil => intro s h; exact h
  | cons op rest ih => intro s h; exact ih _ (dstep_inv s op h)

/-- Declaring the same name with the same kind in the same group again returns the identical object
and changes nothing. -/
theorem same_returns_same (s : DState) (k : Kind) (g : Nat) (name : Str) (id : Nat)
    (h : (declare s k g name).2 = .obj id) (hid : id < s.length) :
    declare (declare s k g name).1 k g name = ((declare s k g name).1, .obj id) := by
  unfold declare at h ⊢
  cases hf : s.findIdx? (fun x => x.kind = k ∧ x.group = g ∧ x.name = name) with
  | some j =>
    simp only [hf] at h ⊢
    simp only [DRes.obj.injEq] at h
    subst h
    simp [hf]
  | none =>
    simp only [hf] at h
    split at h
    · simp at h
    · simp only [DRes.obj.injEq] at h; omega

/-- ... and a fresh declaration followed by the same declaration returns the object just created. -/
theorem redeclare_new (s : DState) (k : Kind) (g : Nat) (name : Str)
    (h : (declare s k g name).2 = .obj s.length) :
    (declare (declare s k g name).1 k g name).2 = .obj s.length := by
  unfold declare at h ⊢
  cases hf : s.findIdx? (fun x => x.kind = k ∧ x.group = g ∧ x.name = name) with
  | some j =>
    simp only [hf] at h ⊢
    simp only [DRes.obj.injEq] at h
    have := List.findIdx?_eq_some_iff_getElem.mp hf
    obtain ⟨hlt, _⟩ := this
    omega
  | none =>
    simp only [hf] at h ⊢
    split at h
    · simp at h
    · rename_i hany
      simp only [hany, Bool.false_eq_true, if_false]
      have hnone : ∀ x ∈ s, ¬ (x.kind = k ∧ x.group = g ∧ x.name = name) := by
        intro x hx hc
        apply hany
        simp only [List.any_eq_true, decide_eq_true_eq]
        exact ⟨x, hx, hc.2.2⟩
      have : (s ++ [(⟨k, g, name, [], [], ['A', 'R', 'G']⟩ : DObj)]).findIdx?
          (fun (x : DObj) => decide (x.kind = k ∧ x.group = g ∧ x.name = name)) = some s.length := by
        rw [List.findIdx?_append, hf]
        simp
      rw [this]

/-- Any other re-declaration of a taken name — another kind, or another group — is a developer error
and changes nothing. -/
theorem other_redeclaration_rejected (s : DState) (k : Kind) (g : Nat) (name : Str)
    (htaken : ∃ x ∈ s, x.name = name) (hother : ∀ x ∈ s, x.name = name → ¬ (x.kind = k ∧ x.group = g)) :
    declare s k g name = (s, .dev) := by
  unfold declare
  have hf : s.findIdx? (fun x => x.kind = k ∧ x.group = g ∧ x.name = name) = none := by
    rw [List.findIdx?_eq_none_iff]
    intro x hx
    simp only [decide_eq_false_iff_not]
    intro hc
    exact hother x hx hc.2.2 ⟨hc.1, hc.2.1⟩
  simp only [hf]
  obtain ⟨x, hx, hn⟩ := htaken
  have : s.any (fun x => x.name = name) = true := by
    simp only [List.any_eq_true, decide_eq_true_eq]; exact ⟨x, hx, hn⟩
  simp [this]

/-- A short name must be exactly one character, and once set it cannot be changed. -/
theorem short_rules (s : DState) (id : Nat) (x : DObj) (sh : Str) (hx : s[id]? = some x) :
    (sh.length ≠ 1 → dstep s (.setShort id sh) = (s, .dev)) ∧
    (x.short ≠ [] → x.short ≠ sh → dstep s (.setShort id sh) = (s, .dev)) ∧
    ((dstep s (.setShort id sh)).2 = .ok →
      ((dstep s (.setShort id sh)).1[id]?.map (·.short)) = some sh ∧ sh.length = 1) := by
  simp only [dstep, hx]
  refine ⟨?_, ?_, ?_⟩
  · intro hl
    split
    · rfl
    · simp [hl]
  · intro h1 h2; simp [h1, h2]
  · intro hok
    split at hok
    · simp at hok
    · split at hok
      · simp at hok
      · rename_i h1 h2
        have hlt : id < s.length := by
          by_cases h : id < s.length
          · exact h
          · rw [List.getElem?_eq_none (by omega)] at hx; simp at hx
        simp only [h1, h2, if_false]
        rw [List.getElem?_set_self hlt]
        exact ⟨rfl, by simpa using h2⟩

/-- Moving the parser object changes nothing about the declarations. -/
theorem move_neutral (s : DState) : dstep s .moveParser = (s, .ok) := rfl

/-- A parser in which two options share a letter refuses to parse — whatever the arguments. -/
theorem shared_letter_refuses (d : Decl) (env : Env) (argv : List Str) (h : ¬ (shortNames d).Nodup) :
    parse d env argv = .error .dev := by
  apply (C04.parse_outcomes d env argv).1.mpr
  unfold consistent
  simp [h]

example : (dstep (drun [] [.declare .o 0 ['a'], .setShort 0 ['x']]) (.setShort 0 ['y'])).2 = .dev := by decide
example : (dstep (drun [] [.declare .o 0 ['a']]) (.declare .t 1 ['a'])).2 = .dev := by decide
example : (dstep (drun [] [.declare .o 0 ['a'], .moveParser]) (.declare .o 0 ['a'])).2 = .obj 0 := by decide


/-! ### what this guarantees to the parser -/

theorem nodup_map_inj {α : Type} (f : α → Str) (l : List α) (h : (l.map f).Nodup) (a b : α) (ha : a ∈ l) (hb : b ∈ l)
    (hab : f a = f b) : a = b := by
  have h1 := find?_by_key f l h a ha
  have h2 := find?_by_key f l h b hb
  rw [hab, h2] at h1
  simpa using h1.symm

theorem nodup_filter_append {α : Type} (f : α → Str) (l : List α) (p q : α → Bool)
    (hpq : ∀ x, p x = true → q x = true → False) (h : (l.map f).Nodup) :
    ((l.filter p).map f ++ (l.filter q).map f).Nodup := by
  rw [List.nodup_append]
  refine ⟨h.sublist ((List.filter_sublist).map f), h.sublist ((List.filter_sublist).map f), ?_⟩
  intro x hx y hy hxy
  obtain ⟨a, ha, hfa⟩ := List.mem_map.mp hx
  obtain ⟨b, hb, hfb⟩ := List.mem_map.mp hy
  rw [List.mem_filter] at ha hb
  have : a = b := nodup_map_inj f l h a b ha.1 hb.1 (by rw [hfa, hfb, hxy])
  subst this
  exact hpq a ha.2 hb.2

/-- **Every parser the declaration API can build has pairwise distinct long names** — across kinds
and groups, after any history of declaration calls and moves. -/
theorem declared_names_distinct (ops : List DOp) (allowed : Option Nat) :
    (allNames (toDecl (drun [] ops) allowed)).Nodup := by
  have hinv := (history_inv ops).1
  generalize drun [] ops = s at hinv
  unfold allNames toDecl
  simp only [List.map_map, Function.comp_def]
  have hom := nodup_filter_append (·.name) s (fun x => decide (x.kind = .o)) (fun x => decide (x.kind = .m))
    (by intro x h1 h2; simp only [decide_eq_true_eq] at h1 h2; rw [h1] at h2; cases h2) hinv
  rw [List.nodup_append]
  refine ⟨hom, hinv.sublist ((List.filter_sublist).map _), ?_⟩
  intro x hx y hy hxy
  obtain ⟨b, hb, hfb⟩ := List.mem_map.mp hy
  rw [List.mem_filter] at hb
  rcases List.mem_append.mp hx with hx | hx
  · obtain ⟨a, ha, hfa⟩ := List.mem_map.mp hx
    rw [List.mem_filter] at ha
    have : a = b := nodup_map_inj (·.name) s hinv a b ha.1 hb.1 (by rw [hfa, hfb, hxy])
    subst this
    have h1 := ha.2; have h2 := hb.2
    simp only [decide_eq_true_eq] at h1 h2
    rw [h1] at h2; cases h2
  · obtain ⟨a, ha, hfa⟩ := List.mem_map.mp hx
    rw [List.mem_filter] at ha
    have : a = b := nodup_map_inj (·.name) s hinv a b ha.1 hb.1 (by rw [hfa, hfb, hxy])
    subst this
    have h1 := ha.2; have h2 := hb.2
    simp only [decide_eq_true_eq] at h1 h2
    rw [h1] at h2; cases h2

/-- Hence the refinement theorem of the parser (Props/C01) applies to every parser that can be
declared: whatever the declaration history, its `parse` is the specification. -/
theorem declared_parser_refines_spec (ops : List DOp) (allowed : Option Nat) (env : Env) (argv : List Str) :
    parse (toDecl (drun [] ops) allowed) env argv = specParse (toDecl (drun [] ops) allowed) env argv :=
  parse_factor _ (declared_names_distinct ops allowed) env argv

end NitroVerif.Props.C13
