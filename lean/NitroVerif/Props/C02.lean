import NitroVerif.Model.Opt
import NitroVerif.Spec.Opt
import NitroVerif.Lemmas.Opt

/-!
C02 — every spelling of a command line parses back to the assignment it spells.
-/
namespace NitroVerif.Props.C02
open NitroVerif.Opt

/-- The interpretation of an item list depends only on: the values given to each value-taking option
in command-line order, the number of positive and negative occurrences of each toggle, and the
positionals in order.  Hence any interleaving of the items, any choice of long/short/`=` form per
occurrence and any bundling of toggle letters that leaves these unchanged parses to the same result. -/
theorem interp_depends_only_on_assignment (d : Decl) (env : Env) (a b : List Item)
    (hv : ∀ n, cliValues n a = cliValues n b)
    (hp : ∀ t ∈ d.togs, posCount t a = posCount t b ∧ negCount t a = negCount t b)
    (hpos : positionalsOf a = positionalsOf b) : interp d env a = interp d env b := by
  have ho : ∀ o, interpOpt env a o = interpOpt env b o := by
    intro o; simp [interpOpt, hv]
  have hm : ∀ m, interpMul env a m = interpMul env b m := by
    intro m; simp [interpMul, hv]
  have ht : ∀ l : List TogD, (∀ t ∈ l, t ∈ d.togs) → mapAll (interpTog env a) l = mapAll (interpTog env b) l := by
    intro l hl
    induction l with
    | nil => rfl
    | cons t ts ih =>
      have h1 := hp t (hl t (by simp))
      have : interpTog env a t = interpTog env b t := by simp [interpTog, h1.1, h1.2]
      simp only [mapAll, this, ih (fun x hx => hl x (by simp [hx]))]
  have hol : mapAll (interpOpt env a) d.opts = mapAll (interpOpt env b) d.opts := by
    congr 1; funext o; exact ho o
  have hml : mapAll (interpMul env a) d.muls = mapAll (interpMul env b) d.muls := by
    congr 1; funext m; exact hm m
  unfold interp
  rw [hpos, hol, hml, ht d.togs (fun _ h => h)]

/-- Values arrive byte for byte: the value of a single-valued option given once on the command line
is the very string of its item — whatever it contains. -/
theorem value_verbatim (env : Env) (items : List Item) (o : OptD) (v : Str)
    (h : cliValues o.name items = [v]) : interpOpt env items o = .ok (some v, true) := by
  simp [interpOpt, h]

/-- A multi-option's values keep command-line order. -/
theorem multi_in_order (env : Env) (items : List Item) (m : MulD) (v : Str) (vs : List Str)
    (h : cliValues m.name items = v :: vs) : interpMul env items m = .ok (v :: vs, true) := by
  simp [interpMul, h]

end NitroVerif.Props.C02
