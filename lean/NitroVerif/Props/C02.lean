import NitroVerif.Lemmas.OptSpell
import NitroVerif.Model.Opt
import NitroVerif.Spec.Opt
import NitroVerif.Lemmas.Opt

/-!
C02 — every spelling of a command line parses back to the assignment it spells.
-/
namespace NitroVerif.Props.C02
open NitroVerif.Opt

/-- The interpretation of an item list depends only on: the values given to each value-taking option
in command-line order, the number of positive and negative occurrences of each toggle, and the
positionals in order.  Hence any interleaving of the items, any choice of long/short/`=` form per
occurrence and any bundling of toggle letters that leaves these unchanged parses to the same result. -/
theorem interp_depends_only_on_assignment (d : Decl) (env : Env) (a b : List Item)
    (hv : ∀ n, cliValues n a = cliValues n b)
    (hp : ∀ t ∈ d.togs, posCount t a = posCount t b ∧ negCount t a = negCount t b)
    (hpos : positionalsOf a = positionalsOf b) : interp d env a = interp d env b := by
  have ho : ∀ o, interpOpt env a o = interpOpt env b o := by
    intro o; simp [interpOpt, hv]
  have hm : ∀ m, interpMul env a m = interpMul env b m := by
    intro m; simp [interpMul, hv]
  have ht : ∀ l : List TogD, (∀ t ∈ l, t ∈ d.togs) → mapAll (interpTog env a) l = mapAll (interpTog env b) l := by
    intro l hl
    induction l with
    | nil => rfl
    | cons t ts ih =>
      have h1 := hp t (hl t (by simp))
      have : interpTog env a t = interpTog env b t := by simp [interpTog, h1.1, h1.2]
      simp only [mapAll, this, ih (fun x hx => hl x (by simp [hx]))]
  have hol : mapAll (interpOpt env a) d.opts = mapAll (interpOpt env b) d.opts := by
    congr 1; funext o; exact ho o
  have hml : mapAll (interpMul env a) d.muls = mapAll (interpMul env b) d.muls := by
    congr 1; funext m; exact hm m
  unfold interp
  rw [hpos, hol, hml, ht d.togs (fun _ h => h)]

/-- Values arrive byte for byte: the value of a single-valued option given once on the command line
is the very string of its item — whatever it contains. -/
theorem value_verbatim (env : Env) (items : List Item) (o : OptD) (v : Str)
    (h : cliValues o.name items = [v]) : interpOpt env items o = .ok (some v, true) := by
  simp [interpOpt, h]

/-- A multi-option's values keep command-line order. -/
theorem multi_in_order (env : Env) (items : List Item) (m : MulD) (v : Str) (vs : List Str)
    (h : cliValues m.name items = v :: vs) : interpMul env items m = .ok (v :: vs, true) := by
  simp [interpMul, h]


/-- **Any two command lines that spell the same assignment parse alike**: if both have an explanation
and the explanations agree on the values per option (in order), the occurrence counts per toggle and
the positionals (in order), `parse` returns the same outcome — whatever the spelling per occurrence
(`--name v`, `--name=v`, `-s v`, `-s=v`), the bundling of letters or the interleaving of items. -/
theorem same_assignment_same_outcome (d : Decl) (hn : (allNames d).Nodup) (env : Env)
    (argv₁ argv₂ : List Str) (a b : List Item)
    (h₁ : explain d argv₁ = some a) (h₂ : explain d argv₂ = some b)
    (hv : ∀ n, cliValues n a = cliValues n b)
    (hp : ∀ t ∈ d.togs, posCount t a = posCount t b ∧ negCount t a = negCount t b)
    (hpos : positionalsOf a = positionalsOf b) : parse d env argv₁ = parse d env argv₂ := by
  by_cases hc : consistent d = true
  · rw [parse_of_explain d hn hc env argv₁ a h₁, parse_of_explain d hn hc env argv₂ b h₂]
    exact interp_depends_only_on_assignment d env a b hv hp hpos
  · have : consistent d = false := by simpa using hc
    simp [parse, parseOn, this]

/-- **Values arrive byte for byte**: whatever the string `v` is, if the explanation of the command
line gives `v` (once) to option `o`, the result reports `v` for `o`, marked provided. -/
theorem parsed_value_verbatim (d : Decl) (hn : (allNames d).Nodup) (env : Env) (argv : List Str)
    (items : List Item) (r : Result) (o : OptD) (v : Str) (ho : o ∈ d.opts)
    (hex : explain d argv = some items) (hcv : cliValues o.name items = [v])
    (h : parse d env argv = .ok r) : (o.name, some v) ∈ r.opts ∧ o.name ∈ r.provided := by
  obtain ⟨_, items', hex', hi⟩ := parse_ok_inv d hn env argv r h
  rw [hex] at hex'
  simp only [Option.some.injEq] at hex'
  subst hex'
  obtain ⟨_, _, hO, _, _⟩ := interp_ok_inv d env items r hi
  obtain ⟨v', p, hiv, hmem, hprov⟩ := hO o ho
  rw [value_verbatim env items o v hcv] at hiv
  simp only [Except.ok.injEq, Prod.mk.injEq] at hiv
  rw [← hiv.1] at hmem
  exact ⟨hmem, hprov hiv.2.symm⟩

/-- **Multi-option values keep command-line order.** -/
theorem parsed_multi_in_order (d : Decl) (hn : (allNames d).Nodup) (env : Env) (argv : List Str)
    (items : List Item) (r : Result) (m : MulD) (v : Str) (vs : List Str) (hm : m ∈ d.muls)
    (hex : explain d argv = some items) (hcv : cliValues m.name items = v :: vs)
    (h : parse d env argv = .ok r) : (m.name, v :: vs) ∈ r.muls := by
  obtain ⟨_, items', hex', hi⟩ := parse_ok_inv d hn env argv r h
  rw [hex] at hex'
  simp only [Option.some.injEq] at hex'
  subst hex'
  obtain ⟨_, _, _, hM, _⟩ := interp_ok_inv d env items r hi
  obtain ⟨vs', p, hiv, hmem, _⟩ := hM m hm
  rw [multi_in_order env items m v vs hcv] at hiv
  simp only [Except.ok.injEq, Prod.mk.injEq] at hiv
  rw [← hiv.1] at hmem
  exact hmem

/-- **Positionals keep command-line order.** -/
theorem parsed_positionals (d : Decl) (hn : (allNames d).Nodup) (env : Env) (argv : List Str)
    (items : List Item) (r : Result) (hex : explain d argv = some items) (h : parse d env argv = .ok r) :
    r.pos = positionalsOf items := by
  obtain ⟨_, items', hex', hi⟩ := parse_ok_inv d hn env argv r h
  rw [hex] at hex'
  simp only [Option.some.injEq] at hex'
  subst hex'
  exact (interp_ok_inv d env items r hi).2.1


/-- **Every spelling parses to the assignment it spells.**  For every consistent declaration with
distinct names, every environment and every *canonical* item list — option-like items that name
declared options of the right kind by their long name or their letter, with `--name v`, `--name=v`,
`-s v`, `-s=v`, `--toggle`, `--no-toggle`, bundles `-abc` of toggle letters, in any order and any
interleaving; positionals that are value tokens before the cut; anything at all after `--` (or after
the first positional in greedy mode) — the tokens `render` writes for it parse to exactly the
interpretation of that item list. -/
theorem every_spelling_parses_as_meant (d : Decl) (hn : (allNames d).Nodup) (hc : consistent d = true)
    (env : Env) (items : List Item) (h : CanonGo d false items) :
    parse d env (render d items) = interp d env items :=
  parse_render_canon d hn hc env items h

/-- two canonical spellings of the same assignment parse alike -/
theorem spellings_agree (d : Decl) (hn : (allNames d).Nodup) (hc : consistent d = true) (env : Env)
    (a b : List Item) (ha : CanonGo d false a) (hb : CanonGo d false b)
    (hv : ∀ n, cliValues n a = cliValues n b)
    (hp : ∀ t ∈ d.togs, posCount t a = posCount t b ∧ negCount t a = negCount t b)
    (hpos : positionalsOf a = positionalsOf b) :
    parse d env (render d a) = parse d env (render d b) := by
  rw [parse_render_canon d hn hc env a ha, parse_render_canon d hn hc env b hb]
  exact interp_depends_only_on_assignment d env a b hv hp hpos

/-- the hypotheses are satisfiable: `-o f -vv x -- -y` for an option `out`/`o` and a toggle `verbose`/`v` -/
example : CanonGo ⟨[⟨['o','u','t'], some 'o', none, none, true⟩], [], [⟨['v','e','r'], some 'v', none, 0, false⟩], none, false⟩
    false [.optSep ['o','u','t'] true ['f'], .togShort ['v', 'v'], .pos ['x'], .sep, .pos ['-', 'y']] := by
  refine ⟨⟨by decide, ⟨⟨'o', ['u', 't'], rfl, by decide, by decide⟩, by decide⟩,
    fun _ => ⟨'o', by decide, by decide, by decide⟩, by decide⟩, ?_⟩
  refine ⟨⟨⟨'v', ['v'], rfl, by decide, by decide⟩, by decide, by decide⟩, ?_⟩
  refine ⟨by decide, ?_⟩
  exact ⟨⟨_, rfl⟩, trivial⟩

end NitroVerif.Props.C02
