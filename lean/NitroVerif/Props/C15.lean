import NitroVerif.Lemmas.UsageWidth
import NitroVerif.Lemmas.UsageForced
import NitroVerif.Lemmas.UsageSection
import NitroVerif.Generated.UsageLayout
import NitroVerif.Model.Usage
import NitroVerif.Props.C17

/-!
C15 — usage text lists everything once, in declaration order, on any stream.

The model of `parser::usage` takes no stream argument: after the repair the synopsis is wrapped
in a private string stream, so the text cannot depend on the target stream or on what that
stream already contains (the harness compares three kinds of stream byte for byte).  Proved here:
the structure of the option section, and that wrapping (`format_padded`) never loses, alters or
reorders a word.
-/
namespace NitroVerif.Props.C15
open NitroVerif.Usage NitroVerif.Str

/-! ### words are preserved -/

def isWs (c : Char) : Bool := c = ' ' || c = '\t' || c = '\n'

/-- maximal runs free of blank, tab and newline -/
def tokGo : Str → Str → List Str
  | cur, [] => if cur = [] then [] else [cur.reverse]
  | cur, c :: cs =>
    if isWs c then (if cur = [] then tokGo [] cs else cur.reverse :: tokGo [] cs)
    else tokGo (c :: cur) cs

def tokens (s : Str) : List Str := tokGo [] s

theorem tokGo_ws_end (cur x : Str) (c : Char) (hc : isWs c = true) (y : Str) :
    tokGo cur (x ++ c :: y) = tokGo cur x ++ tokens y := by
  induction x generalizing cur with
  | nil =>
    simp only [List.nil_append, tokGo, hc, if_true, tokens]
    by_cases h : cur = [] <;> simp [h]
  | cons a x ih =>
    simp only [List.cons_append, tokGo]
    by_cases ha : isWs a = true
    · simp only [ha, if_true]
      by_cases h : cur = []
      · simp only [h, if_true]; exact ih []
      · simp only [h, if_false, List.cons_append]; rw [ih []]
    · simp only [ha, Bool.false_eq_true, if_false]; exact ih (a :: cur)

/-- tokens distribute over a concatenation whose right part starts with white space -/
theorem tokens_append_ws (x : Str) (c : Char) (hc : isWs c = true) (y : Str) :
    tokens (x ++ c :: y) = tokens x ++ tokens y := tokGo_ws_end [] x c hc y

theorem tokens_ws_cons (c : Char) (hc : isWs c = true) (y : Str) : tokens (c :: y) = tokens y := by
  have := tokens_append_ws [] c hc y
  simpa [tokens, tokGo] using this

theorem tokens_blanks (n : Int) (y : Str) : tokens (blanks n ++ y) = tokens y := by
  unfold blanks
  generalize (if n ≤ 1 then 1 else n.toNat) = k
  induction k with
  | zero => simp
  | succ k ih =>
    simp only [List.replicate_succ, List.cons_append]
    rw [tokens_ws_cons ' ' (by decide)]; exact ih

theorem tokGo_untab (cur w : Str) : tokGo cur (untab w) = tokGo cur w := by
  induction w generalizing cur with
  | nil => simp [untab, tokGo]
  | cons c cs ih =>
    unfold untab at *
    simp only [List.map_cons, tokGo]
    by_cases ht : c = '\t'
    · subst ht
      have h1 : isWs ' ' = true := by decide
      have h2 : isWs '\t' = true := by decide
      simp only [if_true, h1, h2]
      by_cases h : cur = [] <;> simp [h, ih]
    · simp only [ht, if_false]
      by_cases hw : isWs c = true
      · simp only [hw, if_true]
        by_cases h : cur = [] <;> simp [h, ih]
      · simp only [hw, Bool.false_eq_true, if_false]; exact ih (c :: cur)

theorem tokens_untab (w : Str) : tokens (untab w) = tokens w := tokGo_untab [] w

/-- a chunk (separator ++ word) followed by more output that starts with white space or is empty -/
theorem tokens_chunk (w rest : Str) (h : rest = [] ∨ ∃ c y, rest = c :: y ∧ isWs c = true) :
    tokens (untab w ++ rest) = tokens w ++ tokens rest := by
  rcases h with rfl | ⟨c, y, rfl, hc⟩
  · have : tokens ([] : Str) = [] := rfl
    rw [List.append_nil, tokens_untab, this, List.append_nil]
  · rw [tokens_append_ws _ c hc, tokens_untab, tokens_ws_cons c hc]

theorem blanks_head (n : Int) (y : Str) : ∃ c z, blanks n ++ y = c :: z ∧ isWs c = true := by
  unfold blanks
  have hk : 0 < (if n ≤ 1 then 1 else n.toNat) := by split <;> omega
  generalize (if n ≤ 1 then 1 else n.toNat) = k at hk
  cases k with
  | zero => omega
  | succ k => exact ⟨' ', List.replicate k ' ' ++ y, by simp [List.replicate_succ], by decide⟩

theorem fpGo_head (lp mw space : Int) (p : Option Int) (ws : List Str) :
    fpGo lp mw space p ws = [] ∨ ∃ c y, fpGo lp mw space p ws = c :: y ∧ isWs c = true := by
  cases ws with
  | nil => left; rfl
  | cons w rest =>
    right
    simp only [fpGo]
    split
    · obtain ⟨c, z, hz, hc⟩ := blanks_head (p.getD 1) (untab w ++ fpGo lp mw _ none rest)
      exact ⟨c, z, by simpa [List.append_assoc] using hz, hc⟩
    · exact ⟨'\n', _, rfl, by decide⟩

/-- **Wrapping preserves the word sequence**: the words of what `format_padded` writes are exactly
the words of the pieces it was given, in the same order — nothing lost, altered or reordered,
whatever the column, padding and width. -/
theorem fpGo_tokens (lp mw space : Int) (p : Option Int) (ws : List Str) :
    tokens (fpGo lp mw space p ws) = ws.flatMap tokens := by
  induction ws generalizing space p with
  | nil => simp [fpGo, tokens, tokGo]
  | cons w rest ih =>
    simp only [fpGo, List.flatMap_cons]
    split
    · rw [List.append_assoc, tokens_blanks,
        tokens_chunk w _ (fpGo_head lp mw _ none rest), ih]
    · simp only [List.cons_append]
      rw [tokens_ws_cons '\n' (by decide), List.append_assoc, tokens_blanks,
        tokens_chunk w _ (fpGo_head lp mw _ none rest), ih]

theorem tokens_glue (ws : List Str) : tokens (glue [' '] ws) = ws.flatMap tokens := by
  induction ws with
  | nil => simp [glue, tokens, tokGo]
  | cons w rest ih =>
    cases rest with
    | nil => simp [glue]
    | cons v rest' =>
      simp only [glue, List.flatMap_cons] at ih ⊢
      rw [List.append_assoc]
      simp only [List.singleton_append]
      rw [tokens_append_ws w ' ' (by decide), ih]

/-- The same through the public entry point: the words of `format_padded(s, text, …)`'s output are the
words of `text`. -/
theorem formatPadded_words (col : Int) (text : Str) (lp mw : Int) :
    tokens (formatPadded col text lp mw) = tokens text := by
  unfold formatPadded
  have hsplit := C17.split_join text [' '] (by decide)
  have : tokens text = (splitGo [' '] (by decide) text).flatMap tokens := by
    conv => lhs; rw [← hsplit]
    exact tokens_glue _
  split <;> rw [fpGo_tokens, this]

/-! ### structure of the option section -/

/-- The text is: synopsis paragraph, optional about paragraph, then the groups in the given order
(default group first, then creation order), nothing else. -/
theorem usage_structure (d : UDecl) (t o m l : List Entry) :
    ∃ synopsis, usage d t o m l = synopsis ++ "\n\n".toList ++
      (if d.about ≠ [] then d.about ++ "\n\n".toList else []) ++ (d.groups.map groupUsage).flatten := by
  unfold usage
  exact ⟨_, rfl⟩

/-- A group with no option prints nothing; any other prints its header once and then its entries, each
exactly once, in declaration order. -/
theorem group_structure (g : Group) :
    (g.entries = [] → groupUsage g = []) ∧
    (g.entries ≠ [] → ∃ header, groupUsage g = ['\n'] ++ g.name ++ ":\n".toList ++ header ++
      (g.entries.map formatEntry).flatten) := by
  unfold groupUsage
  constructor
  · intro h; simp [h]
  · intro h; simp only [h, if_false]; exact ⟨_, rfl⟩

/-- Every entry starts with its short and long spelling and ends its (possibly wrapped) text with a
line break; the words of its description, environment hint and default are all there, in order. -/
theorem entry_words (e : Entry) :
    ∃ left body, formatEntry e = left ++ body ++ ['\n'] ∧
      left = "  ".toList ++ (if e.short ≠ [] then ['-'] ++ e.short ++ ", ".toList else []) ++ formatName e ++
        (if e.kind = .t then [] else ' ' :: e.metavar) ∧
      tokens body = tokens (join ([e.description] ++
        (if e.env ≠ [] then ["Can be set using the environment variable '".toList ++ e.env ++ "'.".toList] else []) ++
        [formatDefault e]) [' ']) := by
  unfold formatEntry
  refine ⟨_, _, rfl, rfl, ?_⟩
  generalize join ([e.description] ++
        (if e.env ≠ [] then ["Can be set using the environment variable '".toList ++ e.env ++ "'.".toList] else []) ++
        [formatDefault e]) [' '] = text
  by_cases h : text = []
  · simp [h]
  · simp only [ne_eq, h, not_false_eq_true, if_true]
    exact formatPadded_words _ _ _ _

example : tokens (formatPadded 10 "aa bb\tcc  dd".toList 4 12) = ["aa".toList, "bb".toList, "cc".toList, "dd".toList] := by
  rw [formatPadded_words]; decide


/-! ### the width clause -/

/-- **No line exceeds the width unless a single unbreakable piece forces it** — `format_padded`:
appended to a line that holds `col` characters, a text without line breaks none of whose
blank-separated pieces is too long to ever fit behind the padding produces no line longer than
`maxW`; the line it continues is left alone when it is already beyond the padding column. -/
theorem width_format_padded (col : Nat) (text : Str) (leftPad maxW : Int) (h0 : 0 ≤ leftPad) (h1 : leftPad < maxW)
    (hnl : '\n' ∉ text)
    (hfit : ∀ w ∈ NitroVerif.Str.splitGo [' '] (by decide) text, (w.length : Int) + 1 ≤ maxW - leftPad) :
    ∀ L ∈ lineLens col (formatPadded col text leftPad maxW), (L : Int) ≤ max (col : Int) maxW :=
  formatPadded_width col text leftPad maxW h0 h1 hnl hfit

/-- every entry of the option section whose left column is at most 80 wide (the complement is
known finding U2) and whose description, environment hint and default have no piece longer than 39 -/
theorem width_entry (e : Entry) (hl : '\n' ∉ entryLeft e) (hll : (entryLeft e).length ≤ 80)
    (ht : '\n' ∉ entryText e)
    (hfit : ∀ w ∈ NitroVerif.Str.splitGo [' '] (by decide) (entryText e), w.length + 1 ≤ 40) :
    ∀ L ∈ lineLens 0 (formatEntry e), L ≤ 80 :=
  entry_width e hl hll ht hfit

/-- the synopsis, for application names shorter than 72 characters (the complement is known
finding U3) -/
theorem width_synopsis (d : UDecl) (t o m l : List Entry) (happ : '\n' ∉ d.app) (hlen : d.app.length < 72)
    (hs : '\n' ∉ (synopsisText d t o m l).drop 1)
    (hfit : ∀ w ∈ NitroVerif.Str.splitGo [' '] (by decide) ((synopsisText d t o m l).drop 1),
      w.length + 1 + (8 + d.app.length) ≤ 80) :
    ∀ L ∈ lineLens 0 (synopsisPara d t o m l), L ≤ 80 :=
  synopsis_width d t o m l happ hlen hs hfit

/-- **… unless a single unbreakable word forces it** — `format_padded` with *no* assumption on the
words.  `formatPaddedLines` lists, for every line of the output (the continued one first), its length
and whether a word that can never fit behind the padding (`|w| + 1 > maxW - leftPad`) was put on it;
the first components are exactly the line lengths of the text, and every line without such a word
keeps within the width. -/
theorem width_unless_forced (col : Nat) (text : Str) (leftPad maxW : Int) (h0 : 0 ≤ leftPad) (h1 : leftPad < maxW)
    (hnl : '\n' ∉ text) :
    (formatPaddedLines col text leftPad maxW).map (·.1) = lineLens col (formatPadded col text leftPad maxW) ∧
    ∀ p ∈ formatPaddedLines col text leftPad maxW, p.2 = false → (p.1 : Int) ≤ max (col : Int) maxW :=
  ⟨formatPaddedLines_lens col text leftPad maxW hnl, formatPaddedLines_width col text leftPad maxW h0 h1⟩

/-- a line is flagged only because of such a word: without one among the words nothing is flagged
(so `width_unless_forced` contains `width_format_padded`) -/
theorem no_forcing_word_no_flag (leftPad maxW : Int) (words : List Str)
    (hw : ∀ w ∈ words, ((0 ≤ maxW - leftPad) && decide ((w.length : Int) + 1 > maxW - leftPad)) = false)
    (space : Int) (pending : Option Int) (col : Nat) :
    ∀ p ∈ fpLines leftPad maxW space pending words col false, p.2 = false := by
  intro p hp
  cases h : p.2 with
  | false => rfl
  | true => exact absurd (fpLines_flags leftPad maxW words hw space pending col false p hp h) (by simp)

-- a 12-column text area behind a 4-column padding: the 14-character word can never fit; it is put on the
-- line that is current, that line is flagged, and the lines before and after it keep within 12
/-- one entry of the option section, no assumption on its words: its lines are those of the ghost
(plus the empty rest behind the final line break), and every line without a never-fitting word is at
most as long as the left column or 80 -/
theorem width_entry_unless_forced (e : Entry) (hl : '\n' ∉ entryLeft e) (ht : '\n' ∉ entryText e)
    (hne : entryText e ≠ []) :
    lineLens 0 (formatEntry e) =
      (formatPaddedLines (entryLeft e).length (entryText e) 40 80).map (·.1) ++ [0] ∧
    ∀ p ∈ formatPaddedLines (entryLeft e).length (entryText e) 40 80, p.2 = false →
      p.1 ≤ max (entryLeft e).length 80 := by
  constructor
  · rw [formatEntry_eq, if_pos hne, List.append_assoc, lineLens_append _ _ _ hl, lineLens_snoc_nl,
      formatPaddedLines_lens _ _ _ _ ht]
    simp
  · intro p hp hf
    have := formatPaddedLines_width (entryLeft e).length (entryText e) 40 80 (by omega) (by omega) p hp hf
    omega

/-- the synopsis, no assumption on its pieces (application names shorter than 72 characters) -/
theorem width_synopsis_unless_forced (d : UDecl) (t o m l : List Entry) (happ : '\n' ∉ d.app)
    (hlen : d.app.length < 72) (hs : '\n' ∉ (synopsisText d t o m l).drop 1)
    (hne : synopsisText d t o m l ≠ []) :
    lineLens 0 (synopsisPara d t o m l) =
      (formatPaddedLines (7 + d.app.length) ((synopsisText d t o m l).drop 1) (8 + d.app.length) 80).map (·.1) ∧
    ∀ p ∈ formatPaddedLines (7 + d.app.length) ((synopsisText d t o m l).drop 1) (8 + d.app.length) 80,
      p.2 = false → p.1 ≤ 80 := by
  have h7 : "usage: ".toList.length = 7 := by decide
  have hhead : '\n' ∉ "usage: ".toList ++ d.app := by
    intro h
    rcases List.mem_append.mp h with h | h
    · revert h; decide
    · exact happ h
  constructor
  · unfold synopsisPara
    have hl : ("usage: ".toList ++ d.app).length = 7 + d.app.length := by
      rw [List.length_append, h7]
    rw [lineLens_append _ _ _ hhead, if_pos hne, Nat.zero_add, hl, formatPaddedLines_lens _ _ _ _ hs]
  · intro p hp hf
    have := formatPaddedLines_width (7 + d.app.length) ((synopsisText d t o m l).drop 1) (8 + d.app.length) 80
      (by omega) (by omega) p hp hf
    omega

/-- **Lines that do hold a never-fitting word**: `formatPaddedCores` lists every line's length and its
*core* — the length the line had when the first never-fitting word was put on it (its whole length
if there is none; behind such a word only further never-fitting words can follow, because the
remaining-space counter is negative from then on).  The lengths are those of the text, every core is
a prefix length of its line, and every core keeps within the width: a line exceeds it only by the
never-fitting words at its end. -/
theorem width_up_to_forcing_words (col : Nat) (text : Str) (leftPad maxW : Int) (h0 : 0 ≤ leftPad)
    (h1 : leftPad < maxW) (hnl : '\n' ∉ text) :
    (formatPaddedCores col text leftPad maxW).map (·.1) = lineLens col (formatPadded col text leftPad maxW) ∧
    ∀ p ∈ formatPaddedCores col text leftPad maxW, p.2 ≤ p.1 ∧ (p.2 : Int) ≤ max (col : Int) maxW := by
  refine ⟨formatPaddedCores_lens col text leftPad maxW hnl, fun p hp => ⟨?_, formatPaddedCores_width col text leftPad maxW h0 h1 p hp⟩⟩
  unfold formatPaddedCores at hp
  simp only at hp
  split at hp <;> exact fpCores_core_le _ _ _ _ _ _ _ (by simp) p hp

example : fpCores 4 12 8 (some 4) ["aa".toList, "bb".toList, "cccccccccccccc".toList, "ddddddddddddddd".toList, "e".toList] 0 none =
    [(40, 9), (5, 5)] := by decide

example : fpLines 4 12 8 (some 4) ["aa".toList, "bb".toList, "cccccccccccccc".toList, "dd".toList] 0 false =
    [(24, true), (6, false)] := by decide
example : lineLens 0 (fpGo 4 12 8 (some 4) ["aa".toList, "bb".toList, "cccccccccccccc".toList, "dd".toList]) =
    [24, 6] := by decide

/-- **The width clause for the whole option section**, no assumption on the words: the lines of the concatenated
entries are exactly the ghost lines of the single entries (every entry finishes its last line), every line's core
is a prefix length of the line, and every core keeps within its entry's left column or 80 - a line of the option
section exceeds that only by the never-fitting words at its end. -/
theorem width_option_section (es : List Entry) (h : ∀ e ∈ es, '\n' ∉ entryLeft e ∧ '\n' ∉ entryText e) :
    lineLens 0 ((es.map formatEntry).flatten) = (es.flatMap entryCores).map (·.1) ++ [0] ∧
    ∀ p ∈ es.flatMap entryCores, p.2 ≤ p.1 ∧ ∃ e ∈ es, p.2 ≤ max (entryLeft e).length 80 := by
  refine ⟨section_lines es h, fun p hp => ?_⟩
  obtain ⟨e, he, hpe⟩ := List.mem_flatMap.mp hp
  exact ⟨(entryCores_width e p hpe).1, e, he, (entryCores_width e p hpe).2⟩

/-- … and when every left column fits (the complement is finding U2), every core is at most 80. -/
theorem width_option_section_80 (es : List Entry) (h : ∀ e ∈ es, '\n' ∉ entryLeft e ∧ '\n' ∉ entryText e)
    (hl : ∀ e ∈ es, (entryLeft e).length ≤ 80) :
    ∀ p ∈ es.flatMap entryCores, p.2 ≤ p.1 ∧ p.2 ≤ 80 := by
  intro p hp
  obtain ⟨h1, e, he, h2⟩ := (width_option_section es h).2 p hp
  have := hl e he
  exact ⟨h1, by omega⟩

/-- **The lines of a whole group**: an empty line, the heading, (an empty line, the description, an empty line,)
then the entries' lines.  Heading and description are written as they are (finding U4 is about them). -/
theorem width_group (g : Group) (hne : g.entries ≠ []) (hn : '\n' ∉ g.name) (hd : '\n' ∉ g.description)
    (h : ∀ e ∈ g.entries, '\n' ∉ entryLeft e ∧ '\n' ∉ entryText e) :
    lineLens 0 (groupUsage g) =
      [0, g.name.length + 1] ++ (if g.description ≠ [] then [0, g.description.length, 0] else []) ++
        (g.entries.flatMap entryCores).map (·.1) ++ [0] :=
  group_lines g hne hn hd h

/-- **The lines of the complete usage text.**  For every declaration whose group names, group descriptions, entry
left columns and entry texts hold no line break: the usage text consists of the lines of the synopsis paragraph
(`width_synopsis_unless_forced`), an empty line, the about text exactly as given (finding U4) and an empty line, and per
group with entries an empty line, the heading, the optional description block and the entry lines - each of which
has a core within its entry's left column or 80 (`width_option_section`). -/
theorem width_usage (d : UDecl) (t o m l : List Entry) (h : ∀ g ∈ d.groups, GroupOk g) :
    lineLens 0 (usage d t o m l) =
      lineLens 0 (synopsisPara d t o m l) ++ [0] ++
        (if d.about ≠ [] then lineLens 0 d.about ++ [0] else []) ++ d.groups.flatMap groupLinesOf ++ [0] ∧
    ∀ g ∈ d.groups, ∀ p ∈ g.entries.flatMap entryCores,
      p.2 ≤ p.1 ∧ ∃ e ∈ g.entries, p.2 ≤ max (entryLeft e).length 80 := by
  refine ⟨usage_lines d t o m l h, fun g _ p hp => ?_⟩
  obtain ⟨e, he, hpe⟩ := List.mem_flatMap.mp hp
  exact ⟨(entryCores_width e p hpe).1, e, he, (entryCores_width e p hpe).2⟩

example : GroupOk ⟨"arguments".toList, "what they do".toList,
    [⟨.t, "verbose".toList, "v".toList, [], [], "be chatty".toList, none, none, 0, false⟩]⟩ := by
  intro _; decide

/-- **The model's layout constants are the source's**: the padding and width handed to `format_padded` by
`base::format` (40, 80) and by `parser::usage` (8 + |app|, 80) are read off the two call sites on every run
(`Generated/UsageLayout.lean`); the width theorems above are stated for exactly these numbers. -/
theorem model_layout_is_source :
    Generated.usageLayoutExtracted = true ∧
    (∀ e : Entry, formatEntry e = entryLeft e ++
      (if entryText e ≠ [] then
        formatPadded (entryLeft e).length (entryText e) Generated.entryPadSrc Generated.entryWidthSrc else []) ++ ['\n']) ∧
    (∀ (d : UDecl) (t o m l : List Entry), synopsisPara d t o m l = "usage: ".toList ++ d.app ++
      (if synopsisText d t o m l ≠ [] then
        formatPadded ("usage: ".toList ++ d.app).length ((synopsisText d t o m l).drop 1)
          ((Generated.synopsisPadBaseSrc + d.app.length : Nat) : Int) Generated.synopsisWidthSrc
      else [])) :=
  ⟨rfl, fun _ => rfl, fun _ _ _ _ _ => rfl⟩

-- non-vacuity: two entries, the second with a 45-character word that can never fit behind the 40-column padding, meet
-- the hypotheses (no line break in the left column or the text); evaluated by the driver their ghost is
-- [(49, 49), (88, 42), (42, 42)] and the line lengths of the section are [49, 88, 42, 0]: the 88-column line has a core
-- of 42 - it exceeds the width only by that word
example :
    let e1 : Entry := ⟨.t, "verbose".toList, "v".toList, [], [], "be chatty".toList, none, none, 0, false⟩
    let e2 : Entry := ⟨.o, "out".toList, [], [], "FILE".toList,
      ("to " ++ String.ofList (List.replicate 45 'x') ++ " go").toList, none, none, 0, false⟩
    ∀ e ∈ [e1, e2], '\n' ∉ entryLeft e ∧ '\n' ∉ entryText e := by decide

end NitroVerif.Props.C15
