import NitroVerif.Model.Opt

/-!
C14 — parsing is repeatable.

`parser::parse` starts with `prepare_options()`, which makes every option object forget
what an earlier parse left in it (`value_`, `given_`, `dirty_`).  In the model the objects'
state is `Dyn`; `parseOn d s env argv` is a parse on a parser whose objects carry `s`.
The theorems are short because the repaired code makes them so: nothing of `s` survives
`prepare`.  The substance of the check is the correspondence run over parse histories.
-/
namespace NitroVerif.Props.C14
open NitroVerif.Opt

/-- The state the option objects are in after a history of parses on one parser object. -/
def runHist (d : Decl) : Dyn → List (Env × List Str) → Dyn
  | s, [] => s
  | s, (env, argv) :: rest => runHist d (parseOn d s env argv).1 rest

/-- One parse does not depend on what earlier parses left behind. -/
theorem parse_ignores_state (d : Decl) (s : Dyn) (env : Env) (argv : List Str) :
    (parseOn d s env argv).2 = parse d env argv := by
  unfold parse parseOn
  split <;> rfl

/-- **The outcome of the n-th parse equals the outcome on a fresh parser**, for every history of
earlier calls — successful and failing ones, in any order, with any environments. -/
theorem repeatable (d : Decl) (hist : List (Env × List Str)) (env : Env) (argv : List Str) :
    (parseOn d (runHist d Dyn.fresh hist) env argv).2 = parse d env argv :=
  parse_ignores_state d _ env argv

/-- In particular parsing the same vector twice gives the same outcome twice. -/
theorem same_twice (d : Decl) (env : Env) (argv : List Str) :
    (parseOn d (parseOn d Dyn.fresh env argv).1 env argv).2 = parse d env argv :=
  parse_ignores_state d _ env argv

end NitroVerif.Props.C14
