import NitroVerif.Model.Fmt
import NitroVerif.Spec.Fmt
import NitroVerif.Lemmas.Str
import NitroVerif.Props.C17

/-!
C08 — format substitutes placeholders positionally, verbatim, with exact arity.
-/
namespace NitroVerif.Props.C08
open NitroVerif.Str NitroVerif.Fmt

/-- The pieces of a format: what lies between its `{}` placeholders (the same
left-to-right non-overlapping scan as `split`, so by C17 `glue "{}" pieces = fmt`:
everything outside placeholders, lone and nested braces included, is preserved). -/
def pieces (fmt : Fmt.Str) : List Fmt.Str := splitGo ph ph_ne_nil fmt

theorem pieces_glue (fmt : Fmt.Str) : glue ph (pieces fmt) = fmt :=
  C17.split_join fmt ph ph_ne_nil

theorem pieces_clean (fmt : Fmt.Str) : ∀ p ∈ pieces fmt, ¬ ph <:+: p :=
  C17.split_clean fmt ph ph_ne_nil

/-- Number of placeholders = number of left-to-right non-overlapping `{}`. -/
theorem pieces_count (fmt : Fmt.Str) : (pieces fmt).length = countOcc ph ph_ne_nil fmt + 1 :=
  C17.split_count fmt ph ph_ne_nil

private theorem ph_len : ph.length = 2 := rfl

/-- Main theorem: `str` succeeds exactly when there are as many arguments as
placeholders, and then yields the pieces interleaved with the arguments, the
arguments being inserted verbatim. -/
theorem str_spec (fmt : Fmt.Str) (args : List Fmt.Str) :
    str fmt args =
      if (pieces fmt).length = args.length + 1 then some (interleave (pieces fmt) args)
      else none := by
  unfold str pieces
  induction args generalizing fmt with
  | nil =>
    unfold strGo
    rw [splitGo_eq]
    cases h : find? fmt ph with
    | none => simp [interleave]
    | some pos =>
      simp only
      have := splitGo_ne_nil ph ph_ne_nil (fmt.drop (pos + ph.length))
      have : (splitGo ph ph_ne_nil (fmt.drop (pos + ph.length))).length ≠ 0 := by
        simpa [List.length_eq_zero_iff] using this
      simp only [List.length_cons, List.length_nil]
      rw [if_neg (by omega)]
  | cons a as ih =>
    unfold strGo
    rw [splitGo_eq]
    cases h : find? fmt ph with
    | none => simp
    | some pos =>
      simp only [ph_len]
      rw [ih]
      simp only [List.length_cons]
      by_cases hl : (splitGo ph ph_ne_nil (fmt.drop (pos + 2))).length = as.length + 1
      · simp only [hl, if_true]
        cases hs : splitGo ph ph_ne_nil (fmt.drop (pos + 2)) with
        | nil => exact absurd hs (splitGo_ne_nil _ _ _)
        | cons q qs => simp [interleave]
      · simp only [hl, if_false]
        exact (if_neg (by omega)).symm

/-- Arity is decided by the format and the *number* of arguments only. -/
theorem arity_exact (fmt : Fmt.Str) (args : List Fmt.Str) :
    (str fmt args).isSome ↔ args.length = countOcc ph ph_ne_nil fmt := by
  have hc := pieces_count fmt
  rw [str_spec]
  split <;> simp <;> omega

/-- No rescan: replacing the i-th argument by any other text — in particular one
that contains `{}` — changes neither whether `str` succeeds nor where any other
argument or piece of the format ends up: the result is again the pieces of the
*format* interleaved with the new argument list. -/
theorem no_rescan (fmt : Fmt.Str) (args : List Fmt.Str) (i : Nat) (a' : Fmt.Str)
    (h : (str fmt args).isSome) :
    str fmt (args.set i a') = some (interleave (pieces fmt) (args.set i a')) := by
  rw [str_spec] at h ⊢
  split at h
  · rename_i hl; rw [if_pos (by simpa using hl)]
  · simp at h

/-- Too many and too few arguments both raise; no partial output is produced. -/
theorem more_args_raise (fmt : Fmt.Str) (args : List Fmt.Str)
    (h : countOcc ph ph_ne_nil fmt < args.length) : str fmt args = none := by
  have := arity_exact fmt args
  cases hs : str fmt args with
  | none => rfl
  | some r => rw [hs] at this; simp at this; omega

theorem fewer_args_raise (fmt : Fmt.Str) (args : List Fmt.Str)
    (h : args.length < countOcc ph ph_ne_nil fmt) : str fmt args = none := by
  have := arity_exact fmt args
  cases hs : str fmt args with
  | none => rfl
  | some r => rw [hs] at this; simp at this; omega

private theorem foldl_append_flatten (acc : Fmt.Str) (rs : List Fmt.Str) :
    rs.foldl (· ++ ·) acc = acc ++ rs.flatten := by
  induction rs generalizing acc with
  | nil => simp
  | cons r rs ih => simp [ih, List.append_assoc]

/-- The message of a raised library exception is the concatenation of the stream
representations of its arguments. -/
theorem make_string_concat (reprs : List Fmt.Str) : makeString reprs = reprs.flatten := by
  unfold makeString; rw [foldl_append_flatten]; simp

/-- With exactly k arguments the result, split again at the arguments' positions,
gives back the format's pieces: stated as length bookkeeping. -/
theorem str_length (fmt : Fmt.Str) (args : List Fmt.Str) (r : Fmt.Str) (h : str fmt args = some r) :
    r.length + 2 * args.length = fmt.length + (args.map List.length).sum := by
  unfold str at h
  induction args generalizing fmt r with
  | nil =>
    unfold strGo at h
    cases hf : find? fmt ph with
    | none => simp [hf] at h; subst h; simp
    | some pos => simp [hf] at h
  | cons a as ih =>
    unfold strGo at h
    cases hf : find? fmt ph with
    | none => simp [hf] at h
    | some pos =>
      simp only [hf] at h
      cases ht : strGo (fmt.drop (pos + 2)) as with
      | none => simp [ht] at h
      | some tail =>
        simp only [ht, Option.some.injEq] at h
        subst h
        have := ih _ _ ht
        have hle := find?_le hf
        simp only [ph_len] at hle
        simp only [List.length_append, List.length_take, List.length_cons, List.map_cons,
          List.sum_cons, List.length_drop] at this ⊢
        omega

/-! Non-vacuity. -/
example : str ['a', '{', '}', '{', '{', '}', '}'] [['x'], ['{', '}']]
    = some ['a', 'x', '{', '{', '}', '}'] := by decide
example : str ['{', '}'] [] = none := by decide
example : str ['{', '}'] [['a'], ['b']] = none := by decide

end NitroVerif.Props.C08
