import NitroVerif.Lemmas.Str

/-!
C17 — split, join, replace_all and starts_with obey their string laws.

Every theorem is about the model in `Model/Str.lean`, for all strings over any
alphabet with decidable equality, all separators / patterns / replacements, all
lists of elements.  Nothing here bounds a length.
-/
namespace NitroVerif.Props.C17
open NitroVerif.Str

variable {α : Type} [DecidableEq α]

/-- Splitting loses nothing: the pieces glued with the separator are the input. -/
theorem split_join (s sep : List α) (hn : sep ≠ []) :
    glue sep (splitGo sep hn s) = s := by
  induction s using splitGo.induct sep hn with
  | case1 rest pos h ih =>
    rw [splitGo_eq, h]
    simp only
    rw [glue_cons_of_ne_nil _ _ (splitGo_ne_nil _ _ _), ih]
    exact (find?_some_split h).symm
  | case2 rest h =>
    rw [splitGo_eq, h]; simp [glue]

/-- The same law through the public entry point and the library's `intercalate`. -/
theorem split_intercalate (s sep : List α) (pieces : List (List α))
    (h : split s sep = some pieces) : List.intercalate sep pieces = s := by
  unfold split at h
  split at h
  · simp at h
  · rename_i hn
    simp at h; subst h
    rw [← glue_eq_intercalate]; exact split_join s sep hn

/-- `split` raises exactly for the empty separator. -/
theorem split_raises_iff (s sep : List α) : split s sep = none ↔ sep = [] := by
  unfold split; split <;> simp_all

/-- The number of pieces is one more than the number of left-to-right
non-overlapping separator occurrences. -/
theorem split_count (s sep : List α) (hn : sep ≠ []) :
    (splitGo sep hn s).length = countOcc sep hn s + 1 := by
  induction s using splitGo.induct sep hn with
  | case1 rest pos h ih =>
    rw [splitGo_eq, countOcc_of_find?, h]
    simp only [List.length_cons, ih]; omega
  | case2 rest h =>
    rw [splitGo_eq, countOcc_of_find?, h]; simp

/-- No piece contains the separator. -/
theorem split_clean (s sep : List α) (hn : sep ≠ []) :
    ∀ p ∈ splitGo sep hn s, ¬ sep <:+: p := by
  induction s using splitGo.induct sep hn with
  | case1 rest pos h ih =>
    rw [splitGo_eq, h]
    intro p hp
    simp only [List.mem_cons] at hp
    rcases hp with rfl | hp
    · exact find?_none_iff.mp (find?_take_none hn h)
    · exact ih p hp
  | case2 rest h =>
    rw [splitGo_eq, h]
    intro p hp
    simp only [List.mem_singleton] at hp
    subst hp
    exact find?_none_iff.mp h

/-- `replace_all` is one left-to-right pass over non-overlapping occurrences: the
pieces of `split` glued with the replacement.  The replacement text is never
rescanned (it does not occur on the right-hand side as something searched). -/
theorem replace_is_split_glue (s pat rep : List α) (hn : pat ≠ []) :
    replaceAll s pat rep = glue rep (splitGo pat hn s) := by
  unfold replaceAll
  rw [dif_neg hn]
  induction s using splitGo.induct pat hn with
  | case1 rest pos h ih =>
    rw [splitGo_eq, replaceGo_eq, h]
    simp only
    rw [glue_cons_of_ne_nil _ _ (splitGo_ne_nil _ _ _), ih]
  | case2 rest h =>
    rw [splitGo_eq, replaceGo_eq, h]; simp [glue]

/-- `replace_all` is the single left-to-right scan `replaceSpec` (replace at an
occurrence, continue behind the replaced text, never look at the replacement). -/
theorem replace_is_single_pass (s pat rep : List α) (hn : pat ≠ []) :
    replaceAll s pat rep = replaceSpec pat hn rep s := by
  unfold replaceAll
  rw [dif_neg hn]
  induction s using replaceGo.induct pat hn with
  | case1 rest pos h ih =>
    rw [replaceGo_eq, replaceSpec_of_find?, h]
    simp only [ih]
  | case2 rest h =>
    rw [replaceGo_eq, replaceSpec_of_find?, h]

/-- `replace_all` returns for every input, the empty pattern included (then the
string is unchanged).  Totality itself is the fact that `replaceAll` is a Lean
function: its definition was accepted only with a termination proof. -/
theorem replace_empty_pattern (s rep : List α) : replaceAll s [] rep = s := by
  simp [replaceAll]

/-- Replacing a pattern by itself changes nothing (sanity corollary). -/
theorem replace_self (s pat : List α) (hn : pat ≠ []) : replaceAll s pat pat = s := by
  rw [replace_is_split_glue s pat pat hn, split_join]

/-- `starts_with` is exactly the prefix relation. -/
theorem starts_with_iff_prefix (full b : List α) :
    startsWith full b = true ↔ b <+: full := by
  unfold startsWith
  rw [← List.isPrefixOf_iff_prefix]
  cases full with
  | nil =>
    cases b with
    | nil => simp [find?]
    | cons a as => simp [find?]
  | cons c cs =>
    unfold find?
    split
    · simp_all
    · rename_i hp
      cases find? cs b <;> simp_all

private theorem joinGo_false (sep : List α) (xs : List (List α)) :
    joinGo sep false xs = ((xs.filter (· ≠ [])).map (sep ++ ·)).flatten := by
  induction xs with
  | nil => simp [joinGo]
  | cons x xs ih =>
    unfold joinGo
    by_cases hx : x = []
    · simp [hx, ih]
    · simp [hx, ih]

private theorem glue_eq_head_flatten (sep x : List α) (l : List (List α)) :
    glue sep (x :: l) = x ++ (l.map (sep ++ ·)).flatten := by
  induction l generalizing x with
  | nil => simp [glue]
  | cons y l ih => simp [glue, ih]

/-- `join` yields the non-empty elements separated by the infix: no leading,
trailing or doubled infix, and every element's text unaltered. -/
theorem join_spec (xs : List (List α)) (sep : List α) :
    join xs sep = glue sep (xs.filter (· ≠ [])) := by
  unfold join
  induction xs with
  | nil => simp [joinGo, glue]
  | cons x xs ih =>
    unfold joinGo
    by_cases hx : x = []
    · simp [hx, ih]
    · simp only [hx, if_false, if_true]
      rw [joinGo_false]
      have : (x :: xs).filter (· ≠ []) = x :: xs.filter (· ≠ []) := by simp [hx]
      rw [this, glue_eq_head_flatten]

/-- Corollary: joining non-empty elements and splitting at a separator that
occurs in none of them... is not claimed; what is claimed is `join_spec`. The
elements come back verbatim when the separator is empty: -/
theorem join_empty_sep (xs : List (List α)) : join xs [] = xs.flatten := by
  unfold join
  generalize true = b
  induction xs generalizing b with
  | nil => simp [joinGo]
  | cons x xs ih =>
    unfold joinGo
    by_cases hx : x = []
    · simp [hx, ih]
    · cases b <;> simp [hx, ih]

/-! Non-vacuity: the hypotheses are met by concrete, non-trivial inputs, and the
model computes what one expects on them. -/
example : splitGo [1, 1] (by decide) [0, 1, 1, 1, 2, 1, 1] = [[0], [1, 2], []] := by
  repeat (rw [splitGo_eq]; simp [find?, List.isPrefixOf])
example : replaceAll [1, 1, 1] [1] [1, 1] = [1, 1, 1, 1, 1, 1] := by
  unfold replaceAll; simp only [dif_neg (show ([1] : List Nat) ≠ [] by decide)]
  repeat (rw [replaceGo_eq]; simp [find?, List.isPrefixOf])
example : join [[1], [], [2, 0], []] [9] = [1, 9, 2, 0] := by decide
example : countOcc [1, 1] (by decide) [1, 1, 1, 1, 1] = 2 := by
  repeat (rw [countOcc_of_find?]; simp [find?, List.isPrefixOf])

end NitroVerif.Props.C17
