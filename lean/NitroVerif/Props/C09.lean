import NitroVerif.Model.MT
import NitroVerif.Generated.MtSinks

/-!
C09 — thread-safe sinks emit each concurrent record once and contiguously.

For **every schedule** (any list of thread ids, any number of threads, any records): the sink
bodies extracted from the source satisfy mutual exclusion on the stream and the output is an
order-preserving merge of whole records.  The scheduler, `std::mutex` and `lock_guard` are
modelled, not verified; real threads are exercised by the harness (turnstile stream buffer,
ThreadSanitizer) — that part is runtime observation.
-/
namespace NitroVerif.Props.C09
open NitroVerif.MT

/-- sink bodies of the shape: lock guard first, then one insertion, then only flushes -/
def GoodProg (prog : List Instr) : Prop :=
  ∃ tail, prog = .lock :: .write :: tail ∧ ∀ x ∈ tail, x = Instr.flush

/-- the part of the record in progress that the stream has already received -/
def partialOut (s : Sys) : List Nat :=
  match s.holder with
  | none => []
  | some i =>
    match (s.threads i).todo with
    | [] => []
    | r :: _ => if (s.threads i).pc = 1 then r.take (s.threads i).wpos else r

structure Inv (orig : Nat → List Rec) (s : Sys) : Prop where
  past_lock_holds : ∀ i, (s.threads i).pc > 0 → s.holder = some i
  holder_past_lock : ∀ i, s.holder = some i → (s.threads i).pc > 0 ∧ (s.threads i).todo ≠ []
  idle_wpos : ∀ i, (s.threads i).pc = 0 → (s.threads i).wpos = 0
  accounted : ∀ i, ((s.done.filter (·.1 = i)).map (·.2)) ++ (s.threads i).todo = orig i
  output : s.out = (s.done.map (·.2)).flatten ++ partialOut s

theorem inv_init (recs : Nat → List Rec) : Inv recs (init recs) := by
  constructor <;> simp [init, partialOut]

theorem prog_at {prog : List Instr} (h : GoodProg prog) (k : Nat) :
    (prog[k]? = some .lock ↔ k = 0) ∧ (prog[k]? = some .write ↔ k = 1) ∧
    (prog[k]? = some .flush → 2 ≤ k) ∧ (prog[k]? = none → 2 ≤ k) ∧ prog[k]? ≠ some .unlock := by
  obtain ⟨tail, rfl, ht⟩ := h
  match k with
  | 0 => simp
  | 1 => simp
  | k + 2 =>
    simp only [List.getElem?_cons_succ]
    refine ⟨?_, ?_, fun _ => by omega, fun _ => by omega,
      fun hk => by have := ht _ (List.mem_of_getElem? hk); simp at this⟩
    · constructor
      · intro hk; have := ht _ (List.mem_of_getElem? hk); simp at this
      · intro hk; omega
    · constructor
      · intro hk; have := ht _ (List.mem_of_getElem? hk); simp at this
      · intro hk; omega

/-- One scheduler step of any thread keeps the invariant. -/
theorem step_inv {P : Rec → List Instr} (hp : ∀ r, GoodProg (P r)) (orig : Nat → List Rec) (s : Sys) (i : Nat)
    (h : Inv orig s) : Inv orig (step P s i) := by
  unfold step
  cases htodo : (s.threads i).todo with
  | nil => simp only [htodo]; exact h
  | cons r rest =>
    simp only [htodo]
    have hpa := prog_at (hp r) (s.threads i).pc
    cases hin : (P r)[(s.threads i).pc]? with
    | none =>
      -- the body ends: release, record done
      simp only [hin]
      have hpc : 2 ≤ (s.threads i).pc := hpa.2.2.2.1 hin
      have hhold : s.holder = some i := h.past_lock_holds i (by omega)
      have hothers : ∀ k, k ≠ i → (s.threads k).pc = 0 := by
        intro k hk
        by_cases hz : (s.threads k).pc = 0
        · exact hz
        · have := h.past_lock_holds k (by omega)
          rw [hhold] at this; simp at this; exact absurd this.symm hk
      constructor
      · intro k hk
        by_cases hki : k = i
        · subst hki; simp [updT] at hk
        · simp only [updT, hki, if_false] at hk; have := hothers k hki; omega
      · intro k hk; simp [hhold] at hk
      · intro k hk
        by_cases hki : k = i
        · subst hki; simp [updT]
        · simp only [updT, hki, if_false] at hk ⊢; exact h.idle_wpos k hk
      · intro k
        by_cases hki : k = i
        · subst hki
          have := h.accounted k
          rw [htodo] at this
          simp only [updT, if_true, List.filter_append, List.map_append]
          simp [← this]
        · have := h.accounted k
          simp only [updT, hki, if_false, List.filter_append, List.map_append]
          have hne : ¬ (i = k) := fun e => hki e.symm
          simp [hne, this]
      · have := h.output
        simp only [partialOut, hhold, htodo] at this
        rw [if_neg (by omega)] at this
        simp [partialOut, hhold, this]
    | some ins =>
      cases ins with
      | lock =>
        simp only [hin]
        have hpc0 : (s.threads i).pc = 0 := hpa.1.mp hin
        by_cases hfree : s.holder = none
        · simp only [hfree, if_true]
          constructor
          · intro k hk
            by_cases hki : k = i
            · subst hki; rfl
            · simp only [updT, hki, if_false] at hk
              have := h.past_lock_holds k hk
              rw [hfree] at this; simp at this
          · intro k hk
            simp only [Option.some.injEq] at hk
            subst hk
            simp [updT, htodo]
          · intro k hk
            by_cases hki : k = i
            · subst hki; simp [updT] at hk
            · simp only [updT, hki, if_false] at hk ⊢; exact h.idle_wpos k hk
          · intro k
            by_cases hki : k = i
            · subst hki; simpa [updT, htodo] using (htodo ▸ h.accounted k)
            · simpa [updT, hki] using h.accounted k
          · have := h.output
            simp only [partialOut, hfree] at this
            have hw := h.idle_wpos i hpc0
            simp [partialOut, updT, htodo, hpc0, hw, this]
        · simp only [hfree, if_false]; exact h
      | write =>
        simp only [hin]
        have hpc1 : (s.threads i).pc = 1 := hpa.2.1.mp hin
        have hhold : s.holder = some i := h.past_lock_holds i (by omega)
        cases hb : r[(s.threads i).wpos]? with
        | some b =>
          simp only [hb]
          constructor
          · intro k hk
            by_cases hki : k = i
            · subst hki; exact hhold
            · simp only [updT, hki, if_false] at hk; exact h.past_lock_holds k hk
          · intro k hk
            by_cases hki : k = i
            · subst hki; simp [updT, htodo, hpc1]
            · simp only [updT, hki, if_false]; exact h.holder_past_lock k hk
          · intro k hk
            by_cases hki : k = i
            · subst hki; simp [updT, hpc1] at hk
            · simp only [updT, hki, if_false] at hk ⊢; exact h.idle_wpos k hk
          · intro k
            by_cases hki : k = i
            · subst hki; simpa [updT, htodo] using (htodo ▸ h.accounted k)
            · simpa [updT, hki] using h.accounted k
          · have := h.output
            simp only [partialOut, hhold, htodo, hpc1, if_true] at this
            have hlt : (s.threads i).wpos < r.length := by
              by_cases hl : (s.threads i).wpos < r.length
              · exact hl
              · rw [List.getElem?_eq_none (by omega)] at hb; simp at hb
            have ht : r.take ((s.threads i).wpos + 1) = r.take (s.threads i).wpos ++ [b] := by
              rw [List.take_succ, hb]; rfl
            simp [partialOut, hhold, updT, htodo, hpc1, this, ht]
        | none =>
          simp only [hb]
          constructor
          · intro k hk
            by_cases hki : k = i
            · subst hki; exact hhold
            · simp only [updT, hki, if_false] at hk; exact h.past_lock_holds k hk
          · intro k hk
            by_cases hki : k = i
            · subst hki; simp [updT, htodo]
            · simp only [updT, hki, if_false]; exact h.holder_past_lock k hk
          · intro k hk
            by_cases hki : k = i
            · subst hki; simp [updT] at hk
            · simp only [updT, hki, if_false] at hk ⊢; exact h.idle_wpos k hk
          · intro k
            by_cases hki : k = i
            · subst hki; simpa [updT, htodo] using (htodo ▸ h.accounted k)
            · simpa [updT, hki] using h.accounted k
          · have := h.output
            simp only [partialOut, hhold, htodo, hpc1, if_true] at this
            have hge : r.length ≤ (s.threads i).wpos := by
              by_cases hl : (s.threads i).wpos < r.length
              · rw [List.getElem?_eq_getElem hl] at hb; simp at hb
              · omega
            simp [partialOut, hhold, updT, htodo, hpc1, this, List.take_of_length_le hge]
      | flush =>
        simp only [hin]
        have hpc2 : 2 ≤ (s.threads i).pc := hpa.2.2.1 hin
        have hhold : s.holder = some i := h.past_lock_holds i (by omega)
        constructor
        · intro k hk
          by_cases hki : k = i
          · subst hki; exact hhold
          · simp only [updT, hki, if_false] at hk; exact h.past_lock_holds k hk
        · intro k hk
          by_cases hki : k = i
          · subst hki; simp [updT, htodo]
          · simp only [updT, hki, if_false]; exact h.holder_past_lock k hk
        · intro k hk
          by_cases hki : k = i
          · subst hki; simp [updT] at hk
          · simp only [updT, hki, if_false] at hk ⊢; exact h.idle_wpos k hk
        · intro k
          by_cases hki : k = i
          · subst hki; simpa [updT, htodo] using (htodo ▸ h.accounted k)
          · simpa [updT, hki] using h.accounted k
        · have := h.output
          simp only [partialOut, hhold, htodo] at this
          rw [if_neg (by omega)] at this
          have hne : ¬ ((s.threads i).pc + 1 = 1) := by omega
          simp only [partialOut, hhold, updT, htodo, if_true, hne, if_false, this]
      | unlock => exact absurd hin hpa.2.2.2.2

/-- **Every schedule** keeps the invariant. -/
theorem runs_inv {P : Rec → List Instr} (hp : ∀ r, GoodProg (P r)) (recs : Nat → List Rec) (sched : List Nat) :
    Inv recs (runs P (init recs) sched) := by
  suffices ∀ s, Inv recs s → Inv recs (runs P s sched) from this _ (inv_init recs)
  induction sched with
  | nil => intro s h; exact h
  | cons i rest ih => intro s h; exact ih _ (step_inv hp recs s i h)

/-- **Mutual exclusion**: under every schedule at most one thread is past the lock — no two threads
are ever inside the (not thread-safe) stream at the same time. -/
theorem mutex {P : Rec → List Instr} (hp : ∀ r, GoodProg (P r)) (recs : Nat → List Rec) (sched : List Nat)
    (i j : Nat) (hi : ((runs P (init recs) sched).threads i).pc > 0)
    (hj : ((runs P (init recs) sched).threads j).pc > 0) : i = j := by
  have h := runs_inv hp recs sched
  have a := h.past_lock_holds i hi
  have b := h.past_lock_holds j hj
  rw [a] at b; simpa using b

/-- **Atomic records**: whenever no sink call is in progress (in particular when all threads are
done) the output is the concatenation of whole records, each record logged so far exactly once, and
the records of every thread appear in that thread's program order: `done` restricted to a thread,
followed by what the thread still has to log, is the thread's original sequence. -/
theorem atomic {P : Rec → List Instr} (hp : ∀ r, GoodProg (P r)) (recs : Nat → List Rec) (sched : List Nat)
    (hidle : (runs P (init recs) sched).holder = none) :
    let s := runs P (init recs) sched
    s.out = (s.done.map (·.2)).flatten ∧
    ∀ i, ((s.done.filter (·.1 = i)).map (·.2)) ++ (s.threads i).todo = recs i := by
  intro s
  have h := runs_inv hp recs sched
  refine ⟨?_, h.accounted⟩
  have := h.output
  simpa [partialOut, hidle] using this

/-- When every thread has finished, nothing is lost or duplicated: per thread, exactly its records. -/
theorem complete {P : Rec → List Instr} (hp : ∀ r, GoodProg (P r)) (recs : Nat → List Rec) (sched : List Nat)
    (hall : ∀ i, ((runs P (init recs) sched).threads i).todo = []) :
    let s := runs P (init recs) sched
    s.out = (s.done.map (·.2)).flatten ∧ ∀ i, (s.done.filter (·.1 = i)).map (·.2) = recs i := by
  intro s
  have h := runs_inv hp recs sched
  have hidle : s.holder = none := by
    cases hh : s.holder with
    | none => rfl
    | some i => exact absurd (hall i) (h.holder_past_lock i hh).2
  obtain ⟨h1, h2⟩ := atomic hp recs sched hidle
  refine ⟨h1, fun i => ?_⟩
  have := h2 i
  rw [hall i] at this
  simpa using this

-- `GoodProg`, decidably: `goodProg` (in `Model/MT.lean`, so that the driver can evaluate it as well)

theorem goodProg_sound {prog : List Instr} (h : goodProg prog = true) : GoodProg prog := by
  unfold goodProg at h
  split at h
  · rename_i tail
    exact ⟨tail, rfl, fun x hx => by simpa using List.all_eq_true.mp h x hx⟩
  · simp at h

theorem sinkProg_good (progs : List (List Instr)) (h : progs.all goodProg = true) (hne : progs ≠ []) :
    ∀ r, GoodProg (sinkProg progs r) := by
  intro r
  unfold sinkProg
  have hall := List.all_eq_true.mp h
  by_cases hi : sevOf r < progs.length
  · rw [List.getD_eq_getElem?_getD, List.getElem?_eq_getElem hi]
    exact goodProg_sound (hall _ (List.getElem_mem hi))
  · rw [List.getD_eq_getElem?_getD, List.getElem?_eq_none (by omega)]
    cases progs with
    | nil => exact absurd rfl hne
    | cons p ps => exact goodProg_sound (hall p (by simp))

/-- **The sink bodies found in the source** (one per severity, written by the translator on every
run) all have the required shape — the guard is taken first, for every severity, and held until the
body ends — and their mutex is a function-local static (one mutex for all threads and loggers). -/
theorem extracted_sinks_are_good :
    Generated.mtExtracted = true ∧
    Generated.stdoutSinkBySev.length = 6 ∧ Generated.stdoutSinkBySev.all goodProg = true ∧
    Generated.stderrSinkBySev.length = 6 ∧ Generated.stderrSinkBySev.all goodProg = true ∧
    Generated.stdoutMutexStatic = true ∧ Generated.stderrMutexStatic = true := by
  decide

theorem stdout_good : ∀ r, GoodProg (sinkProg Generated.stdoutSinkBySev r) :=
  sinkProg_good _ extracted_sinks_are_good.2.2.1 (by
    intro h; have := extracted_sinks_are_good.2.1; rw [h] at this; simp at this)

theorem stderr_good : ∀ r, GoodProg (sinkProg Generated.stderrSinkBySev r) :=
  sinkProg_good _ extracted_sinks_are_good.2.2.2.2.1 (by
    intro h; have := extracted_sinks_are_good.2.2.2.1; rw [h] at this; simp at this)

/-- **`sink::stdout_mt` as extracted**: under every schedule, for records of any severities, no two
threads are past the lock together, and whenever no call is in progress the stream holds whole
records only, each once, every thread's in its own order. -/
theorem stdout_mt_safe (recs : Nat → List Rec) (sched : List Nat) :
    let s := runs (sinkProg Generated.stdoutSinkBySev) (init recs) sched
    (∀ i j, (s.threads i).pc > 0 → (s.threads j).pc > 0 → i = j) ∧
    (s.holder = none → s.out = (s.done.map (·.2)).flatten ∧
      ∀ i, ((s.done.filter (·.1 = i)).map (·.2)) ++ (s.threads i).todo = recs i) :=
  ⟨fun i j hi hj => mutex stdout_good recs sched i j hi hj, fun h => atomic stdout_good recs sched h⟩

/-- **`sink::StdErrThreaded` as extracted**: the same. -/
theorem stderr_mt_safe (recs : Nat → List Rec) (sched : List Nat) :
    let s := runs (sinkProg Generated.stderrSinkBySev) (init recs) sched
    (∀ i j, (s.threads i).pc > 0 → (s.threads j).pc > 0 → i = j) ∧
    (s.holder = none → s.out = (s.done.map (·.2)).flatten ∧
      ∀ i, ((s.done.filter (·.1 = i)).map (·.2)) ++ (s.threads i).todo = recs i) :=
  ⟨fun i j hi hj => mutex stderr_good recs sched i j hi hj, fun h => atomic stderr_good recs sched h⟩

/-- Without the lock guard the guarantee fails: two threads, one schedule, a torn record. -/
theorem unlocked_counterexample :
    let recs : Nat → List Rec := fun i => if i = 0 then [[1, 1]] else if i = 1 then [[2, 2]] else []
    (runs (fun _ => [.write]) (init recs) [0, 1, 0, 1]).out = [1, 2, 1, 2] := by
  decide

/-- Releasing the guard before the flush fails too: one thread flushes while the other, which owns
the mutex legitimately, is in the middle of its insertion — two threads inside the stream. -/
theorem flush_outside_lock_counterexample :
    let recs : Nat → List Rec := fun i => if i = 0 then [[1]] else if i = 1 then [[2, 2]] else []
    let P : Rec → List Instr := fun _ => [.lock, .write, .unlock, .flush]
    let s := runs P (init recs) [0, 0, 0, 0, 1, 1]
    inStream P s 0 = true ∧ inStream P s 1 = true := by
  decide

/-- Skipping the guard for one severity fails: a fatal record lands inside an info record. -/
theorem severity_dependent_lock_counterexample :
    let recs : Nat → List Rec := fun i => if i = 0 then [[1, 1, 3, 9]] else if i = 1 then [[2, 1, 6, 9]] else []
    let P : Rec → List Instr := sinkProg [[.lock, .write], [.lock, .write], [.lock, .write], [.lock, .write],
      [.lock, .write], [.write]]
    (runs P (init recs) [0, 0, 0, 1, 1, 0, 0, 1, 1]).out = [1, 1, 2, 1, 3, 9, 6, 9] := by
  decide

end NitroVerif.Props.C09
