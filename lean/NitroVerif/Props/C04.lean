import NitroVerif.Lemmas.OptResult
import NitroVerif.Model.Opt
import NitroVerif.Spec.Opt

/-!
C04 — bad user input always ends in the user-input error, under exact conditions.

What a theorem about the model can carry: for every declaration, environment and argument
vector — any byte strings, any length — `parse` is defined (the loop's termination proof is
part of the model) and yields a result, the user error, or the developer error; the developer
error exactly for inconsistent declarations.  That no input crashes, hangs or reads out of
bounds in the C++ is observed by the harness (ASan/UBSan, watchdog, long-token family).
-/
namespace NitroVerif.Props.C04
open NitroVerif.Opt

theorem tryOpts_err (s : Dyn) (u : UI) (next : Option Str) (l : List OptD) (e : Err)
    (h : tryOpts s u next l = some (.error e)) : e = .user := by
  induction l with
  | nil => simp [tryOpts] at h
  | cons o rest ih =>
    unfold tryOpts at h
    split at h
    · split at h
      · unfold updateOpt at h
        split at h <;> simp [Except.map] at h
        exact h.symm
      · split at h
        · split at h
          · unfold updateOpt at h
            split at h <;> simp [Except.map] at h
            exact h.symm
          · simp at h; exact h.symm
        · simp at h; exact h.symm
    · exact ih h

theorem tryMuls_err (s : Dyn) (u : UI) (next : Option Str) (l : List MulD) (e : Err)
    (h : tryMuls s u next l = some (.error e)) : e = .user := by
  induction l with
  | nil => simp [tryMuls] at h
  | cons o rest ih =>
    unfold tryMuls at h
    split at h
    · split at h
      · simp [updateMul, Except.map] at h
      · split at h
        · split at h
          · simp [updateMul, Except.map] at h
          · simp at h; exact h.symm
        · simp at h; exact h.symm
    · exact ih h

theorem updateTog_err (s : Dyn) (t : TogD) (u : UI) (e : Err) (h : updateTog s t u = .error e) :
    e = .user := by
  unfold updateTog at h
  repeat' split at h
  all_goals first | (simp at h; done) | (simp at h; exact h.symm)

theorem tryTogs_err (u : UI) (s : Dyn) (f : Bool) (l : List TogD) (e : Err)
    (h : tryTogs u s f l = .error e) : e = .user := by
  induction l generalizing s f with
  | nil => simp [tryTogs] at h
  | cons t rest ih =>
    unfold tryTogs at h
    split at h
    · split at h
      · rename_i e' he
        simp at h; subst h
        exact updateTog_err _ _ _ _ he
      · exact ih _ _ h
    · exact ih _ _ h

/-- Everything the parse loop can raise is the user-input error. -/
theorem loop_err (d : Decl) (st : LoopSt) (toks : List Str) (e : Err)
    (h : loop d st toks = .error e) : e = .user := by
  induction st, toks using loop.induct d with
  | case1 st => simp [loop] at h
  | case2 st tok rest hc ha => rw [loop] at h; simp [hc, ha] at h; exact h.symm
  | case3 st tok rest hc ha ih => rw [loop] at h; simp only [hc, ha, if_true, if_false] at h; exact ih h
  | case4 st tok rest hc hm => rw [loop] at h; simp only [hc, hm, if_false] at h; simp at h; exact h.symm
  | case5 st tok rest hc u hm hdd ih =>
    rw [loop] at h; simp only [hc, hm, hdd, if_false, if_true] at h; exact ih h
  | case6 st tok rest hc u hm hdd hs =>
    rw [loop] at h; simp only [hc, hm, hdd, hs, if_false, if_true] at h; simp at h; exact h.symm
  | case7 st tok rest hc u hm hdd hs e' ht =>
    rw [loop] at h; simp only [hc, hm, hdd, hs, ht, if_false] at h
    simp at h; subst h; exact tryOpts_err _ _ _ _ _ ht
  | case8 st tok rest hc u hm hdd hs s' consumed ht ih =>
    rw [loop] at h; simp only [hc, hm, hdd, hs, ht, if_false] at h; exact ih h
  | case9 st tok rest hc u hm hdd hs ht e' htm =>
    rw [loop] at h; simp only [hc, hm, hdd, hs, ht, htm, if_false] at h
    simp at h; subst h; exact tryMuls_err _ _ _ _ _ htm
  | case10 st tok rest hc u hm hdd hs ht s' consumed htm ih =>
    rw [loop] at h; simp only [hc, hm, hdd, hs, ht, htm, if_false] at h; exact ih h
  | case11 st tok rest hc u hm hdd hs ht htm e' htt =>
    rw [loop] at h; simp only [hc, hm, hdd, hs, ht, htm, htt, if_false] at h
    simp at h; subst h; exact tryTogs_err _ _ _ _ _ htt
  | case12 st tok rest hc u hm hdd hs ht htm s' htt ih =>
    rw [loop] at h; simp only [hc, hm, hdd, hs, ht, htm, htt, if_false] at h; exact ih h
  | case13 st tok rest hc u hm hdd hs ht htm s' htt =>
    rw [loop] at h; simp only [hc, hm, hdd, hs, ht, htm, htt, if_false] at h
    simp at h; exact h.symm

theorem foldCheck_err {α : Type} (f : Dyn → α → Except Err Dyn)
    (hf : ∀ s x e, f s x = .error e → e = .user) (s : Dyn) (l : List α) (e : Err)
    (h : foldCheck f s l = .error e) : e = .user := by
  induction l generalizing s with
  | nil => simp [foldCheck] at h
  | cons x xs ih =>
    unfold foldCheck at h
    split at h
    · rename_i e' he; simp at h; subst h; exact hf _ _ _ he
    · exact ih _ h

theorem checkOpt_err (env : Env) (s : Dyn) (o : OptD) (e : Err) (h : checkOpt env s o = .error e) : e = .user := by
  unfold checkOpt at h
  by_cases h1 : (s.val o.name).isSome = true
  · simp [h1] at h
  · simp only [h1, Bool.false_eq_true, if_false] at h
    by_cases h2 : (envOf env o.env != []) = true
    · simp [h2] at h
    · simp only [h2, Bool.false_eq_true, if_false] at h
      cases hd : o.dflt with
      | some dv => simp [hd] at h
      | none =>
        simp only [hd] at h
        by_cases h3 : o.optional = true
        · simp [h3] at h
        · simp [h3] at h; exact h.symm

theorem checkMul_err (env : Env) (s : Dyn) (m : MulD) (e : Err) (h : checkMul env s m = .error e) : e = .user := by
  unfold checkMul at h
  by_cases h1 : (s.vals m.name != []) = true
  · simp [h1] at h
  · simp only [h1, Bool.false_eq_true, if_false] at h
    by_cases h2 : (envOf env m.env != []) = true
    · simp [h2] at h
    · simp only [h2, Bool.false_eq_true, if_false] at h
      cases hd : m.dflt with
      | some dv => simp [hd] at h
      | none =>
        simp only [hd] at h
        by_cases h3 : m.optional = true
        · simp [h3] at h
        · simp [h3] at h; exact h.symm

theorem checkTog_err (env : Env) (s : Dyn) (t : TogD) (e : Err) (h : checkTog env s t = .error e) : e = .user := by
  unfold checkTog at h
  by_cases h1 : s.dirtyT t.name = true
  · simp [h1] at h
  · simp only [h1, Bool.false_eq_true, if_false] at h
    by_cases h2 : (envOf env t.env != []) = true
    · simp only [h2, if_true] at h
      cases hp : parseEnvWord (envOf env t.env) with
      | some b => simp [hp] at h
      | none => simp [hp] at h; exact h.symm
    · simp [h2] at h

theorem validate_err (d : Decl) (env : Env) (s : Dyn) (e : Err) (h : validate d env s = .error e) :
    e = .user := by
  unfold validate at h
  split at h
  · rename_i e' he; simp at h; subst h
    exact foldCheck_err _ (checkOpt_err env) _ _ _ he
  · split at h
    · rename_i e' he; simp at h; subst h
      exact foldCheck_err _ (checkMul_err env) _ _ _ he
    · exact foldCheck_err _ (checkTog_err env) _ _ _ h

/-- **Nothing else escapes**: for every declaration, environment and argument vector, `parse` yields
a result, the user-input error, or — exactly when the declaration is inconsistent (two options
share a letter, or an option is called `no-<toggle>`) — the developer error. -/
theorem parse_outcomes (d : Decl) (env : Env) (argv : List Str) :
    (parse d env argv = .error .dev ↔ consistent d = false) ∧
    (consistent d = true → (∃ r, parse d env argv = .ok r) ∨ parse d env argv = .error .user) := by
  unfold parse parseOn
  by_cases hc : consistent d = true
  · simp only [hc, Bool.not_true, Bool.false_eq_true, if_false]
    cases hl : loop d ⟨Dyn.fresh, [], false⟩ argv with
    | error e =>
      have := loop_err d _ _ e hl
      subst this
      simp
    | ok st =>
      simp only
      cases hv : validate d env st.dyn with
      | error e =>
        have := validate_err d env _ e hv
        subst this
        simp
      | ok s2 => simp
  · have : consistent d = false := by simpa using hc
    simp [this]


/-- **Exactly when parsing fails.**  For a consistent declaration with distinct names, `parse` raises
the user-input error if and only if the argument vector has no explanation (an unknown name or
letter, a value missing after a value-taking option, `=value` on a toggle, a malformed dash token
ahead of `--` — the cases in which `explainTok` is `none`), or its explanation has more positionals
than accepted, or gives a single-valued option two values or leaves a required option without any
source, or negates a toggle that is not reversible or also occurs positively, or leaves a toggle to
an environment word outside the vocabulary. -/
theorem parse_fails_exactly_when (d : Decl) (hn : (allNames d).Nodup) (hc : consistent d = true) (env : Env)
    (argv : List Str) :
    parse d env argv = .error .user ↔
      explain d argv = none ∨
      ∃ items, explain d argv = some items ∧
        (tooMany d (positionalsOf items).length = true ∨
         (∃ o ∈ d.opts, interpOpt env items o = .error .user) ∨
         (∃ m ∈ d.muls, interpMul env items m = .error .user) ∨
         (∃ t ∈ d.togs, interpTog env items t = .error .user)) := by
  cases hex : explain d argv with
  | none => simp [parse_of_unexplained d hn hc env argv hex]
  | some items =>
    rw [parse_of_explain d hn hc env argv items hex]
    simp only [false_or, Option.some.injEq, exists_eq_left', reduceCtorEq]
    constructor
    · intro h
      exact (interp_err_iff d env items).mp ⟨_, h⟩
    · intro h
      obtain ⟨e, he⟩ := (interp_err_iff d env items).mpr h
      have hp := parse_of_explain d hn hc env argv items hex
      have := (parse_outcomes d env argv).2 hc
      rw [hp, he] at this
      rcases this with ⟨r, hr⟩ | hu
      · simp at hr
      · rw [he]; exact hu

/-- the conditions under which one option-like token has no explanation, spelled out for a long token -/
theorem explainLong_none_iff (d : Decl) (n : Str) (v next : Option Str) :
    explainLong d n v next = none ↔
      (isValueOptName d n = true ∧ v = none ∧ (next = none ∨ ∃ nx, next = some nx ∧ isValueTok nx = false)) ∨
      (isValueOptName d n = false ∧ isTogName d n = true ∧ v.isSome = true) ∨
      (isValueOptName d n = false ∧ isTogName d n = false ∧ (noPrefix.isPrefixOf n && isTogName d (n.drop 3)) = true ∧
        v.isSome = true) ∨
      (isValueOptName d n = false ∧ isTogName d n = false ∧ (noPrefix.isPrefixOf n && isTogName d (n.drop 3)) = false) := by
  unfold explainLong explainValue
  by_cases h1 : isValueOptName d n = true
  · simp only [h1, if_true]
    cases v with
    | some v' => simp
    | none =>
      cases next with
      | none => simp
      | some nx => by_cases h : isValueTok nx = true <;> simp [h]
  · have h1' : isValueOptName d n = false := by simpa using h1
    simp only [h1', Bool.false_eq_true, if_false, false_and, false_or, true_and]
    by_cases h2 : isTogName d n = true
    · simp only [h2, if_true]
      cases v <;> simp
    · have h2' : isTogName d n = false := by simpa using h2
      simp only [h2', Bool.false_eq_true, if_false, false_and, false_or, true_and]
      by_cases h3 : (noPrefix.isPrefixOf n && isTogName d (n.drop 3)) = true
      · simp only [h3, if_true]
        cases v <;> simp
      · have h3' : (noPrefix.isPrefixOf n && isTogName d (n.drop 3)) = false := by simpa using h3
        simp [h3']


theorem explainValue_none_iff (n : Str) (sh : Bool) (v next : Option Str) :
    explainValue n sh v next = none ↔
      v = none ∧ (next = none ∨ ∃ nx, next = some nx ∧ isValueTok nx = false) := by
  unfold explainValue
  cases v with
  | some v' => simp
  | none =>
    cases next with
    | none => simp
    | some nx => by_cases h : isValueTok nx = true <;> simp [h]

/-- … and for a short token: a single letter of a value-taking option without a value; a single
letter that is no toggle letter, or a toggle letter with `=value`; a bundle with `=value` or with a
letter that is no toggle letter. -/
theorem explainShort_none_iff (d : Decl) (letters : Str) (v next : Option Str) :
    explainShort d letters v next = none ↔
      (∃ c, letters = [c] ∧
        ((∃ n, valueOptOfLetter d c = some n ∧ v = none ∧
            (next = none ∨ ∃ nx, next = some nx ∧ isValueTok nx = false)) ∨
         (valueOptOfLetter d c = none ∧ (v.isSome = true ∨ isTogLetter d c = false)))) ∨
      ((∀ c, letters ≠ [c]) ∧ (v.isSome = true ∨ letters.all (isTogLetter d) = false)) := by
  unfold explainShort
  split
  · rename_i c
    have hright : ¬ ((∀ c', [c] ≠ [c']) ∧ (v.isSome = true ∨ [c].all (isTogLetter d) = false)) :=
      fun ⟨h, _⟩ => h c rfl
    cases hvl : valueOptOfLetter d c with
    | some n =>
      simp only
      rw [explainValue_none_iff]
      constructor
      · intro h; exact Or.inl ⟨c, rfl, Or.inl ⟨n, hvl, h⟩⟩
      · intro h
        rcases h with ⟨c', hc', hcase⟩ | h
        · simp only [List.cons.injEq, and_true] at hc'
          subst hc'
          rcases hcase with ⟨n', hn', h⟩ | ⟨hnone, _⟩
          · exact h
          · rw [hvl] at hnone; simp at hnone
        · exact absurd h hright
    | none =>
      simp only
      constructor
      · intro h
        refine Or.inl ⟨c, rfl, Or.inr ⟨hvl, ?_⟩⟩
        cases v with
        | some v' => simp
        | none =>
          by_cases ht : isTogLetter d c = true
          · simp [ht] at h
          · right; simpa using ht
      · intro h
        rcases h with ⟨c', hc', hcase⟩ | h
        · simp only [List.cons.injEq, and_true] at hc'
          subst hc'
          rcases hcase with ⟨n', hn', _⟩ | ⟨_, hv | ht⟩
          · rw [hvl] at hn'; simp at hn'
          · cases v with
            | none => simp at hv
            | some v' => simp
          · simp [ht]
        · exact absurd h hright
  · rename_i hnot
    have hne : ∀ c, letters ≠ [c] := fun c hc => hnot c hc
    constructor
    · intro h
      refine Or.inr ⟨hne, ?_⟩
      cases v with
      | some v' => simp
      | none =>
        by_cases ha : letters.all (isTogLetter d) = true
        · simp [ha] at h
        · right; simpa using ha
    · intro h
      rcases h with ⟨c, hc, _⟩ | ⟨_, hv | ha⟩
      · exact absurd hc (hne c)
      · cases v with
        | none => simp at hv
        | some v' => simp
      · simp [ha]

end NitroVerif.Props.C04
