import NitroVerif.Lemmas.OptResult
import NitroVerif.Generated.PosIndex
import NitroVerif.Model.Opt

/-!
C12 — positionals: `--`, greedy mode, the accepted count and negative indices.
(The statements about the parse loop are added in this file as corollaries of
`parse_factor`; the index arithmetic of `arguments::get(int)` is self-contained.)
-/
namespace NitroVerif.Props.C12
open NitroVerif.Opt

/-- Non-negative indices address from the front. -/
theorem index_front (pos : List Str) (i : Nat) (h : i < pos.length) :
    argGet pos (i : Int) = some pos[i] := by
  unfold argGet
  have h1 : ¬ ((i : Int) < 0) := by omega
  simp only [h1, if_false]
  simp [h]

/-- **Index `-k` addresses the k-th positional from the end.** -/
theorem index_from_end (pos : List Str) (k : Nat) (hk : 1 ≤ k) (hn : k ≤ pos.length) :
    argGet pos (-(k : Int)) = pos[pos.length - k]? := by
  unfold argGet
  have h1 : (-(k : Int)) < 0 := by omega
  simp only [h1, if_true]
  have h2 : ¬ (-(k : Int) + (pos.length : Int) < 0) := by omega
  simp only [h2, if_false]
  congr 1
  omega

/-- Indices outside `[-n, n)` raise. -/
theorem index_out_of_range (pos : List Str) (i : Int)
    (h : i < -(pos.length : Int) ∨ (pos.length : Int) ≤ i) : argGet pos i = none := by
  unfold argGet
  rcases h with h | h
  · have h1 : i < 0 := by omega
    simp only [h1, if_true]
    have h2 : i + (pos.length : Int) < 0 := by omega
    simp [h2]
  · have h1 : ¬ i < 0 := by omega
    simp only [h1, if_false]
    rw [List.getElem?_eq_none (by omega)]

/-- Inside the range every index yields an element. -/
theorem index_in_range (pos : List Str) (i : Int)
    (h1 : -(pos.length : Int) ≤ i) (h2 : i < (pos.length : Int)) : (argGet pos i).isSome := by
  unfold argGet
  by_cases hi : i < 0
  · simp only [hi, if_true]
    have : ¬ (i + (pos.length : Int) < 0) := by omega
    simp only [this, if_false]
    rw [List.getElem?_eq_getElem (by omega)]; rfl
  · simp only [hi, if_false]
    rw [List.getElem?_eq_getElem (by omega)]; rfl

example : argGet [['a'], ['b'], ['c']] (-1) = some ['c'] := by decide
example : argGet [['a'], ['b'], ['c']] (-4) = none := by decide


/-- Once in only-positionals mode (after the first `--`, or after the first positional in greedy
mode) every token is a positional, verbatim — whatever it looks like. -/
theorem explainGo_onlyPos (d : Decl) (toks : List Str) : explainGo d true toks = some (toks.map .pos) := by
  induction toks with
  | nil => rw [explainGo]; rfl
  | cons tok rest ih =>
    rw [explainGo]
    simp only [Bool.true_or, if_true, ih, Option.map_some, List.map_cons]

/-- everything after the first `--` is positional -/
theorem explain_after_separator (d : Decl) (rest : List Str) :
    explainGo d false (dashes :: rest) = some (.sep :: rest.map .pos) := by
  rw [explainGo]
  have h1 : isValueTok dashes = false := by decide
  have h2 : isDoubleDashTok dashes = true := by decide
  simp only [h1, Bool.or_self, Bool.false_eq_true, if_false, h2, if_true, explainGo_onlyPos, Option.map_some]

/-- greedy mode: the first positional turns everything behind it into positionals -/
theorem explain_greedy (d : Decl) (hg : d.greedy = true) (tok : Str) (rest : List Str)
    (hv : isValueTok tok = true) : explainGo d false (tok :: rest) = some ((tok :: rest).map .pos) := by
  rw [explainGo]
  simp only [hv, Bool.or_true, if_true, hg, explainGo_onlyPos, Option.map_some, List.map_cons]

/-- **The accepted count**: parsing succeeds only with at most the accepted number of positionals,
which are reported verbatim and in order. -/
theorem parse_positionals (d : Decl) (hn : (allNames d).Nodup) (env : Env) (argv : List Str) (r : Result)
    (h : parse d env argv = .ok r) :
    ∃ items, explain d argv = some items ∧ r.pos = positionalsOf items ∧ tooMany d r.pos.length = false := by
  obtain ⟨_, items, hex, hi⟩ := parse_ok_inv d hn env argv r h
  obtain ⟨h1, h2, _⟩ := interp_ok_inv d env items r hi
  exact ⟨items, hex, h2, by rw [h2]; exact h1⟩

theorem parse_too_many (d : Decl) (hn : (allNames d).Nodup) (hc : consistent d = true) (env : Env)
    (argv : List Str) (items : List Item) (hex : explain d argv = some items)
    (h : tooMany d (positionalsOf items).length = true) : parse d env argv = .error .user := by
  rw [parse_of_explain d hn hc env argv items hex]
  unfold interp; simp [h]

/-- tokens after `--` reach the result verbatim: a later `--`, a lone `-`, `---x`, `-=x` -/
theorem parse_after_separator (d : Decl) (hn : (allNames d).Nodup) (env : Env) (rest : List Str) (r : Result)
    (h : parse d env (dashes :: rest) = .ok r) : r.pos = rest := by
  obtain ⟨items, hex, hpos, _⟩ := parse_positionals d hn env _ r h
  unfold explain at hex
  rw [explain_after_separator] at hex
  simp only [Option.some.injEq] at hex
  subst hex
  rw [hpos]
  simp [positionalsOf, List.filterMap_map, Function.comp_def]

/-- The index arithmetic of `arguments::get(int)` as it is in the header now (`Generated/PosIndex.lean`, rewritten on
every run: 32-bit signed index, `i += (int) size` when negative, sign-extending conversion to `size_type`), evaluated
on bit vectors, addresses the same element as the model's unbounded `argGet` - or lies outside the list exactly when
`argGet` has no answer (`at()` raises) - for every list of fewer than 2^31 positionals and every `int`. -/
theorem source_index_bits (n : Nat) (i : Int) (hn : n < 2^31) (h1 : -2^31 ≤ i) (h2 : i < 2^31) :
    let idx := Generated.getIndexSrc (BitVec.ofNat 64 n) (BitVec.ofInt 32 i)
    let j := if i < 0 then i + n else i
    (j < 0 → n ≤ idx.toNat) ∧ (0 ≤ j → idx.toNat = j.toNat) := by
  intro idx j
  have hi : (BitVec.ofInt 32 i).toInt = i := by
    rw [BitVec.toInt_ofInt, Int.bmod_def]; split <;> omega
  have hs : BitVec.slt (BitVec.ofInt 32 i) (0#32) = decide (i < 0) := by
    simp [BitVec.slt, hi]
  have hsz : (BitVec.setWidth 32 (BitVec.ofNat 64 n)).toInt = n := by
    rw [BitVec.toInt_eq_toNat_bmod]; simp [BitVec.toNat_ofNat]
    rw [Int.bmod_def]; split <;> omega
  by_cases hneg : i < 0
  · have hj : j = i + n := by simp [j, hneg]
    have hadd : (BitVec.ofInt 32 i + BitVec.setWidth 32 (BitVec.ofNat 64 n)).toInt = i + n := by
      rw [BitVec.toInt_add, hi, hsz, Int.bmod_def]; split <;> omega
    have hidx : idx = BitVec.signExtend 64 (BitVec.ofInt 32 i + BitVec.setWidth 32 (BitVec.ofNat 64 n)) := by
      simp [idx, Generated.getIndexSrc, hs, hneg]
    have htoInt : idx.toInt = i + n := by
      rw [hidx, BitVec.toInt_signExtend_of_le (by omega)]; exact hadd
    rw [BitVec.toInt_eq_toNat_cond] at htoInt
    have := idx.isLt
    constructor <;> intro h <;> split at htoInt <;> omega
  · have hj : j = i := by simp [j, hneg]
    have hidx : idx = BitVec.signExtend 64 (BitVec.ofInt 32 i) := by
      simp [idx, Generated.getIndexSrc, hs, hneg]
    have htoInt : idx.toInt = i := by
      rw [hidx, BitVec.toInt_signExtend_of_le (by omega)]; exact hi
    rw [BitVec.toInt_eq_toNat_cond] at htoInt
    have := idx.isLt
    constructor <;> intro h <;> split at htoInt <;> omega

/-- **The model's index access is the source's**: `argGet` (unbounded integers) returns exactly what
`positionals_.at(<the translated index expression>)` returns, and has no answer exactly when `at()` raises. -/
theorem model_index_is_source (pos : List Str) (i : Int) (hn : pos.length < 2^31) (h1 : -2^31 ≤ i) (h2 : i < 2^31) :
    Generated.posIndexExtracted = true ∧
    argGet pos i = pos[(Generated.getIndexSrc (BitVec.ofNat 64 pos.length) (BitVec.ofInt 32 i)).toNat]? := by
  refine ⟨rfl, ?_⟩
  obtain ⟨a, b⟩ := source_index_bits pos.length i hn h1 h2
  simp only [argGet]
  by_cases hj : (if i < 0 then i + (pos.length : Int) else i) < 0
  · rw [if_pos hj, List.getElem?_eq_none (a hj)]
  · rw [if_neg hj, b (by omega)]


end NitroVerif.Props.C12
