import NitroVerif.Model.Opt

/-!
C12 — positionals: `--`, greedy mode, the accepted count and negative indices.
(The statements about the parse loop are added in this file as corollaries of
`parse_factor`; the index arithmetic of `arguments::get(int)` is self-contained.)
-/
namespace NitroVerif.Props.C12
open NitroVerif.Opt

/-- Non-negative indices address from the front. -/
theorem index_front (pos : List Str) (i : Nat) (h : i < pos.length) :
    argGet pos (i : Int) = some pos[i] := by
  unfold argGet
  have h1 : ¬ ((i : Int) < 0) := by omega
  simp only [h1, if_false]
  simp [h]

/-- **Index `-k` addresses the k-th positional from the end.** -/
theorem index_from_end (pos : List Str) (k : Nat) (hk : 1 ≤ k) (hn : k ≤ pos.length) :
    argGet pos (-(k : Int)) = pos[pos.length - k]? := by
  unfold argGet
  have h1 : (-(k : Int)) < 0 := by omega
  simp only [h1, if_true]
  have h2 : ¬ (-(k : Int) + (pos.length : Int) < 0) := by omega
  simp only [h2, if_false]
  congr 1
  omega

/-- Indices outside `[-n, n)` raise. -/
theorem index_out_of_range (pos : List Str) (i : Int)
    (h : i < -(pos.length : Int) ∨ (pos.length : Int) ≤ i) : argGet pos i = none := by
  unfold argGet
  rcases h with h | h
  · have h1 : i < 0 := by omega
    simp only [h1, if_true]
    have h2 : i + (pos.length : Int) < 0 := by omega
    simp [h2]
  · have h1 : ¬ i < 0 := by omega
    simp only [h1, if_false]
    rw [List.getElem?_eq_none (by omega)]

/-- Inside the range every index yields an element. -/
theorem index_in_range (pos : List Str) (i : Int)
    (h1 : -(pos.length : Int) ≤ i) (h2 : i < (pos.length : Int)) : (argGet pos i).isSome := by
  unfold argGet
  by_cases hi : i < 0
  · simp only [hi, if_true]
    have : ¬ (i + (pos.length : Int) < 0) := by omega
    simp only [this, if_false]
    rw [List.getElem?_eq_getElem (by omega)]; rfl
  · simp only [hi, if_false]
    rw [List.getElem?_eq_getElem (by omega)]; rfl

example : argGet [['a'], ['b'], ['c']] (-1) = some ['c'] := by decide
example : argGet [['a'], ['b'], ['c']] (-4) = none := by decide

end NitroVerif.Props.C12
