import NitroVerif.Model.Iter

/-!
C20 — enumerate and reverse visit every element once, in the right order, in place.

For every length `n` (no bound).  Overload selection, value categories and the
lifetime of temporaries are C++ semantics outside the model; they are covered by
the harness under AddressSanitizer (container kinds × lvalue/const/rvalue).
-/
namespace NitroVerif.Props.C20
open NitroVerif.Iter

private theorem eLoop_spec (n fuel k : Nat) (hk : k ≤ n) (hf : n - k < fuel) :
    eLoop n fuel ⟨k, k⟩ = (List.range' k (n - k)).map fun i => Step.visit i i := by
  induction fuel generalizing k with
  | zero => omega
  | succ fuel ih =>
    unfold eLoop
    by_cases hkn : k = n
    · subst hkn; simp [eNe, eEnd]
    · have hlt : k < n := by omega
      have hne : eNe ⟨k, k⟩ (eEnd n) = true := by simp [eNe, eEnd, hkn]
      rw [if_pos hne]
      simp only [hlt, if_true, eNext]
      rw [ih (k + 1) (by omega) (by omega)]
      have : n - k = (n - (k + 1)) + 1 := by omega
      rw [this, List.range'_succ]
      simp

/-- **enumerate**: the loop visits positions `0, 1, …, n-1` in order, each exactly
once, paired with the indices `0, 1, 2, …`; it terminates and never dereferences
outside the container. -/
theorem enumerate_visits (n : Nat) :
    enumerateSteps n = (List.range n).map fun i => Step.visit i i := by
  unfold enumerateSteps eBegin
  rw [eLoop_spec n (n + 1) 0 (by omega) (by omega)]
  simp [List.range_eq_range']

private theorem rLoop_spec (n fuel b : Nat) (hb : b ≤ n) (hf : b < fuel) :
    rLoop n fuel b = ((List.range b).reverse).map fun p => Step.visit 0 p := by
  induction fuel generalizing b with
  | zero => omega
  | succ fuel ih =>
    unfold rLoop
    cases b with
    | zero => simp
    | succ b =>
      simp only [Nat.add_sub_cancel, bne_iff_ne, ne_eq, Nat.add_eq_zero_iff, Nat.succ_ne_self,
        and_false, not_false_eq_true, if_true]
      rw [if_pos (by omega), ih b (by omega) (by omega)]
      simp [List.range_succ]

/-- **reverse**: the loop visits positions `n-1, …, 1, 0`: exactly the opposite order. -/
theorem reverse_visits (n : Nat) :
    reverseSteps n = ((List.range n).reverse).map fun p => Step.visit 0 p := by
  unfold reverseSteps
  exact rLoop_spec n (n + 1) n (by omega) (by omega)

/-- The values seen through `enumerate` are the elements with their indices. -/
theorem enumerate_seen (l : List Int) :
    seen l (enumerateSteps l.length) = (List.range l.length).map fun i => (i, l[i]?) := by
  rw [enumerate_visits]; simp [seen]

/-- ... every one present (no dangling dereference), in container order. -/
theorem enumerate_values (l : List Int) :
    (seen l (enumerateSteps l.length)).map (·.2) = l.map some := by
  rw [enumerate_seen]
  apply List.ext_getElem
  · simp
  · intro i h1 h2
    simp at h1
    simp [h1]

/-- The values seen through `reverse` are the elements in reverse order. -/
theorem reverse_values (l : List Int) :
    (seen l (reverseSteps l.length)).map (·.2) = l.reverse.map some := by
  rw [reverse_visits]
  simp only [seen, List.map_map, List.map_reverse]
  congr 1
  apply List.ext_getElem
  · simp
  · intro i h1 h2
    simp at h1
    simp [h1]

private theorem write_range (f : Int → Int) (l : List Int) (k : Nat) (hk : k ≤ l.length) :
    ((List.range k).map fun i => Step.visit i i).foldl (writeStep f) l =
      (l.take k).map f ++ l.drop k := by
  induction k with
  | zero => simp
  | succ k ih =>
    rw [List.range_succ, List.map_append, List.foldl_append, ih (by omega)]
    simp only [List.map_cons, List.map_nil, List.foldl_cons, List.foldl_nil]
    have hlt : k < l.length := by omega
    have hlen : ((l.take k).map f).length = k := by simp; omega
    have hget : ((l.take k).map f ++ l.drop k)[k]? = some l[k] := by
      rw [List.getElem?_append_right (by omega), hlen]
      simp [hlt]
    simp only [writeStep, hget]
    rw [List.set_append_right _ _ (by omega), hlen, Nat.sub_self]
    rw [List.drop_eq_getElem_cons hlt, List.set_cons_zero]
    have ht : l.take (k + 1) = l.take k ++ [l[k]] := by
      rw [List.take_succ, List.getElem?_eq_getElem hlt]; rfl
    rw [ht, List.map_append]
    simp

/-- **in place**: writing through the references handed out by `enumerate` over an
lvalue range updates every element of the original container exactly once. -/
theorem enumerate_alias (f : Int → Int) (l : List Int) :
    writeThrough f l (enumerateSteps l.length) = l.map f := by
  rw [enumerate_visits]
  unfold writeThrough
  rw [write_range f l l.length (Nat.le_refl _)]
  simp

/-- Empty ranges: the loop body never runs. -/
theorem empty_ranges : enumerateSteps 0 = [] ∧ reverseSteps 0 = [] := by
  constructor <;> decide

/-- A loop that advances the iterator with post-increment sees exactly the same (index, element)
pairs as the range-for loop. -/
theorem post_increment_same (n : Nat) : enumeratePostSteps n = enumerateSteps n := by
  unfold enumeratePostSteps enumerateSteps
  generalize eBegin = it
  generalize n + 1 = fuel
  induction fuel generalizing it with
  | zero => simp [eLoopPost, eLoop]
  | succ fuel ih => simp [eLoopPost, eLoop, ePostInc, ih]

/-- `enumerate(reverse(c))`: indices 0,1,2,… paired with the elements in reverse order. -/
theorem enumerate_of_reverse (l : List Int) :
    (seen l.reverse (enumerateSteps l.reverse.length)).map (·.2) = l.reverse.map some :=
  enumerate_values l.reverse

/-! Non-vacuity. -/
example : seen [7, 8, 9] (enumerateSteps 3) = [(0, some 7), (1, some 8), (2, some 9)] := by decide
example : (seen [7, 8, 9] (reverseSteps 3)).map (·.2) = [some 9, some 8, some 7] := by decide

end NitroVerif.Props.C20
