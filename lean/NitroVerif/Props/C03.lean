import NitroVerif.Model.Opt
import NitroVerif.Spec.Opt
import NitroVerif.Props.C11

/-!
C03 — value sources are ranked: command line, then environment, then default.

The ranking is decided in the post-parse `check()` of each option, stated here for the
state the parse loop leaves (`s.val o.name = some v` iff the command line gave `v`; that
link is `parse_factor`'s, see Props/C01).
-/
namespace NitroVerif.Props.C03
open NitroVerif.Opt NitroVerif.Props.C11

/-- Single-valued option: command line value wins and is untouched; else a non-empty bound
environment variable, delivered verbatim and marked provided; else the default (not provided);
else absent if optional, a user error if required. -/
theorem option_source (env : Env) (s : Dyn) (o : OptD) :
    (∀ v, s.val o.name = some v → checkOpt env s o = .ok s) ∧
    (s.val o.name = none → ∀ e, envNonEmpty env o.env = some e →
        ∃ s', checkOpt env s o = .ok s' ∧ s'.val o.name = some e ∧ s'.dirtyO o.name = true) ∧
    (s.val o.name = none → envNonEmpty env o.env = none → ∀ dv, o.dflt = some dv →
        ∃ s', checkOpt env s o = .ok s' ∧ s'.val o.name = some dv ∧ s'.dirtyO o.name = s.dirtyO o.name) ∧
    (s.val o.name = none → envNonEmpty env o.env = none → o.dflt = none →
        checkOpt env s o = if o.optional then .ok s else .error .user) := by
  unfold checkOpt
  refine ⟨fun v h => by simp [h], ?_, ?_, ?_⟩
  · intro hv e he
    obtain ⟨h1, h2⟩ := envE_some env o.env e he
    have : (e != []) = true := by simpa using h2
    simp [hv, h1, this, upd]
  · intro hv he dv hd
    simp [hv, envE_none env o.env he, hd, upd]
  · intro hv he hd
    simp [hv, envE_none env o.env he, hd]

/-- Multi-option: command line values win; else the environment value split at `;`; else the
default list; else empty if optional, a user error if required. -/
theorem multi_source (env : Env) (s : Dyn) (m : MulD) :
    (s.vals m.name ≠ [] → checkMul env s m = .ok s) ∧
    (s.vals m.name = [] → ∀ e, envNonEmpty env m.env = some e →
        ∃ s', checkMul env s m = .ok s' ∧ s'.vals m.name = splitSemi e) ∧
    (s.vals m.name = [] → envNonEmpty env m.env = none → ∀ dv, m.dflt = some dv →
        ∃ s', checkMul env s m = .ok s' ∧ s'.vals m.name = dv ∧ s'.dirtyM m.name = s.dirtyM m.name) ∧
    (s.vals m.name = [] → envNonEmpty env m.env = none → m.dflt = none →
        checkMul env s m = if m.optional then .ok s else .error .user) := by
  unfold checkMul
  refine ⟨fun h => by simp [h], ?_, ?_, ?_⟩
  · intro hv e he
    obtain ⟨h1, h2⟩ := envE_some env m.env e he
    have : (e != []) = true := by simpa using h2
    simp [hv, h1, this, upd]
  · intro hv he dv hd
    simp [hv, envE_none env m.env he, hd, upd]
  · intro hv he hd
    simp [hv, envE_none env m.env he, hd]

/-! `;`-splitting loses nothing but one trailing separator (`std::getline`'s behaviour). -/

def joinSemi : List Str → Str
  | [] => []
  | [x] => x
  | x :: y :: rest => x ++ ';' :: joinSemi (y :: rest)

private theorem splitSemiGo_nil (s cur : Str) (h : splitSemiGo s cur = []) : s = [] ∧ cur = [] := by
  induction s generalizing cur with
  | nil =>
    unfold splitSemiGo at h
    split at h
    · rename_i hc; exact ⟨rfl, hc⟩
    · simp at h
  | cons c cs ih =>
    unfold splitSemiGo at h
    split at h
    · simp at h
    · have := ih _ h; simp at this

private theorem splitSemiGo_spec (s cur : Str) :
    joinSemi (splitSemiGo s cur) = cur.reverse ++ s ∨
    joinSemi (splitSemiGo s cur) ++ [';'] = cur.reverse ++ s := by
  induction s generalizing cur with
  | nil =>
    unfold splitSemiGo
    by_cases h : cur = []
    · subst h; left; simp [joinSemi]
    · left; simp [h, joinSemi]
  | cons c cs ih =>
    unfold splitSemiGo
    by_cases hc : c = ';'
    · subst hc
      simp only [if_true]
      cases hr : splitSemiGo cs [] with
      | nil =>
        -- nothing follows the separator: it is the dropped trailing one
        have hcs := (splitSemiGo_nil cs [] hr).1
        subst hcs
        right; simp [joinSemi]
      | cons y rest =>
        have := ih []
        rw [hr] at this
        simp only [List.reverse_nil, List.nil_append] at this
        rcases this with h | h
        · left; simp [joinSemi, h]
        · right; simp [joinSemi, ← h]
    · simp only [hc, if_false]
      have := ih (c :: cur)
      simpa using this

/-- The pieces joined with `;` give back the value, up to one trailing `;`. -/
theorem splitSemi_join (s : Str) :
    joinSemi (splitSemi s) = s ∨ joinSemi (splitSemi s) ++ [';'] = s := by
  simpa [splitSemi] using splitSemiGo_spec s []

/-- No piece contains a `;`. -/
theorem splitSemi_clean (s : Str) : ∀ p ∈ splitSemi s, ';' ∉ p := by
  suffices ∀ cur, ';' ∉ cur → ∀ p ∈ splitSemiGo s cur, ';' ∉ p from this [] (by simp)
  induction s with
  | nil =>
    intro cur hc p hp
    unfold splitSemiGo at hp
    split at hp
    · simp at hp
    · simp at hp; subst hp; simpa using hc
  | cons c cs ih =>
    intro cur hc p hp
    unfold splitSemiGo at hp
    split at hp
    · simp only [List.mem_cons] at hp
      rcases hp with rfl | hp
      · simpa using hc
      · exact ih [] (by simp) p hp
    · rename_i hne
      exact ih (c :: cur) (by simp [hc]; exact fun h => hne h.symm) p hp

example : splitSemi ['a', ';', 'b', ';'] = [['a'], ['b']] := by decide
example : splitSemi [';'] = [[]] := by decide

end NitroVerif.Props.C03
