import NitroVerif.Lemmas.OptProvided
import NitroVerif.Model.Opt
import NitroVerif.Spec.Opt
import NitroVerif.Props.C11

/-!
C03 — value sources are ranked: command line, then environment, then default.

The ranking is decided in the post-parse `check()` of each option, stated here for the
state the parse loop leaves (`s.val o.name = some v` iff the command line gave `v`; that
link is `parse_factor`'s, see Props/C01).
-/
namespace NitroVerif.Props.C03
open NitroVerif.Opt NitroVerif.Props.C11

/-- Single-valued option: command line value wins and is untouched; else a non-empty bound
environment variable, delivered verbatim and marked provided; else the default (not provided);
else absent if optional, a user error if required. -/
theorem option_source (env : Env) (s : Dyn) (o : OptD) :
    (∀ v, s.val o.name = some v → checkOpt env s o = .ok s) ∧
    (s.val o.name = none → ∀ e, envNonEmpty env o.env = some e →
        ∃ s', checkOpt env s o = .ok s' ∧ s'.val o.name = some e ∧ s'.dirtyO o.name = true) ∧
    (s.val o.name = none → envNonEmpty env o.env = none → ∀ dv, o.dflt = some dv →
        ∃ s', checkOpt env s o = .ok s' ∧ s'.val o.name = some dv ∧ s'.dirtyO o.name = s.dirtyO o.name) ∧
    (s.val o.name = none → envNonEmpty env o.env = none → o.dflt = none →
        checkOpt env s o = if o.optional then .ok s else .error .user) := by
  unfold checkOpt
  refine ⟨fun v h => by simp [h], ?_, ?_, ?_⟩
  · intro hv e he
    obtain ⟨h1, h2⟩ := envE_some env o.env e he
    have : (e != []) = true := by simpa using h2
    simp [hv, h1, this, upd]
  · intro hv he dv hd
    simp [hv, envE_none env o.env he, hd, upd]
  · intro hv he hd
    simp [hv, envE_none env o.env he, hd]

/-- Multi-option: command line values win; else the environment value split at `;`; else the
default list; else empty if optional, a user error if required. -/
theorem multi_source (env : Env) (s : Dyn) (m : MulD) :
    (s.vals m.name ≠ [] → checkMul env s m = .ok s) ∧
    (s.vals m.name = [] → ∀ e, envNonEmpty env m.env = some e →
        ∃ s', checkMul env s m = .ok s' ∧ s'.vals m.name = splitSemi e) ∧
    (s.vals m.name = [] → envNonEmpty env m.env = none → ∀ dv, m.dflt = some dv →
        ∃ s', checkMul env s m = .ok s' ∧ s'.vals m.name = dv ∧ s'.dirtyM m.name = s.dirtyM m.name) ∧
    (s.vals m.name = [] → envNonEmpty env m.env = none → m.dflt = none →
        checkMul env s m = if m.optional then .ok s else .error .user) := by
  unfold checkMul
  refine ⟨fun h => by simp [h], ?_, ?_, ?_⟩
  · intro hv e he
    obtain ⟨h1, h2⟩ := envE_some env m.env e he
    have : (e != []) = true := by simpa using h2
    simp [hv, h1, this, upd]
  · intro hv he dv hd
    simp [hv, envE_none env m.env he, hd, upd]
  · intro hv he hd
    simp [hv, envE_none env m.env he, hd]

/-! `;`-splitting loses nothing but one trailing separator (`std::getline`'s behaviour). -/

def joinSemi : List Str → Str
  | [] => []
  | [x] => x
  | x :: y :: rest => x ++ ';' :: joinSemi (y :: rest)

private theorem splitSemiGo_nil (s cur : Str) (h : splitSemiGo s cur = []) : s = [] ∧ cur = [] := by
  induction s generalizing cur with
  | nil =>
    unfold splitSemiGo at h
    split at h
    · rename_i hc; exact ⟨rfl, hc⟩
    · simp at h
  | cons c cs ih =>
    unfold splitSemiGo at h
    split at h
    · simp at h
    · have := ih _ h; simp at this

private theorem splitSemiGo_spec (s cur : Str) :
    joinSemi (splitSemiGo s cur) = cur.reverse ++ s ∨
    joinSemi (splitSemiGo s cur) ++ [';'] = cur.reverse ++ s := by
  induction s generalizing cur with
  | nil =>
    unfold splitSemiGo
    by_cases h : cur = []
    · subst h; left; simp [joinSemi]
    · left; simp [h, joinSemi]
  | cons c cs ih =>
    unfold splitSemiGo
    by_cases hc : c = ';'
    · subst hc
      simp only [if_true]
      cases hr : splitSemiGo cs [] with
      | nil =>
        -- nothing follows the separator: it is the dropped trailing one
        have hcs := (splitSemiGo_nil cs [] hr).1
        subst hcs
        right; simp [joinSemi]
      | cons y rest =>
        have := ih []
        rw [hr] at this
        simp only [List.reverse_nil, List.nil_append] at this
        rcases this with h | h
        · left; simp [joinSemi, h]
        · right; simp [joinSemi, ← h]
    · simp only [hc, if_false]
      have := ih (c :: cur)
      simpa using this

/-- The pieces joined with `;` give back the value, up to one trailing `;`. -/
theorem splitSemi_join (s : Str) :
    joinSemi (splitSemi s) = s ∨ joinSemi (splitSemi s) ++ [';'] = s := by
  simpa [splitSemi] using splitSemiGo_spec s []

/-- No piece contains a `;`. -/
theorem splitSemi_clean (s : Str) : ∀ p ∈ splitSemi s, ';' ∉ p := by
  suffices ∀ cur, ';' ∉ cur → ∀ p ∈ splitSemiGo s cur, ';' ∉ p from this [] (by simp)
  induction s with
  | nil =>
    intro cur hc p hp
    unfold splitSemiGo at hp
    split at hp
    · simp at hp
    · simp at hp; subst hp; simpa using hc
  | cons c cs ih =>
    intro cur hc p hp
    unfold splitSemiGo at hp
    split at hp
    · simp only [List.mem_cons] at hp
      rcases hp with rfl | hp
      · simpa using hc
      · exact ih [] (by simp) p hp
    · rename_i hne
      exact ih (c :: cur) (by simp [hc]; exact fun h => hne h.symm) p hp

example : splitSemi ['a', ';', 'b', ';'] = [['a'], ['b']] := by decide
example : splitSemi [';'] = [[]] := by decide


/-- The ranking, read off the specification: command line, then a non-empty environment value
(verbatim), then the default; `provided` exactly for the first two. -/
theorem interpOpt_ranking (env : Env) (items : List Item) (o : OptD) :
    (∀ v, cliValues o.name items = [v] → interpOpt env items o = .ok (some v, true)) ∧
    (cliValues o.name items = [] → ∀ e, envNonEmpty env o.env = some e → interpOpt env items o = .ok (some e, true)) ∧
    (cliValues o.name items = [] → envNonEmpty env o.env = none → ∀ dv, o.dflt = some dv →
        interpOpt env items o = .ok (some dv, false)) ∧
    (cliValues o.name items = [] → envNonEmpty env o.env = none → o.dflt = none →
        interpOpt env items o = if o.optional then .ok (none, false) else .error .user) := by
  unfold interpOpt
  refine ⟨fun v h => by simp [h], fun h e he => by simp [h, he], fun h he dv hd => by simp [h, he, hd],
    fun h he hd => by simp [h, he, hd]⟩

theorem interpMul_ranking (env : Env) (items : List Item) (m : MulD) :
    (∀ v vs, cliValues m.name items = v :: vs → interpMul env items m = .ok (v :: vs, true)) ∧
    (cliValues m.name items = [] → ∀ e, envNonEmpty env m.env = some e →
        interpMul env items m = .ok (splitSemi e, true)) ∧
    (cliValues m.name items = [] → envNonEmpty env m.env = none → ∀ dv, m.dflt = some dv →
        interpMul env items m = .ok (dv, false)) ∧
    (cliValues m.name items = [] → envNonEmpty env m.env = none → m.dflt = none →
        interpMul env items m = if m.optional then .ok ([], false) else .error .user) := by
  unfold interpMul
  refine ⟨fun v vs h => by simp [h], fun h e he => by simp [h, he], fun h he dv hd => by simp [h, he, hd],
    fun h he hd => by simp [h, he, hd]⟩

/-- **The ranking holds for `parse`**: whenever parsing succeeds, every declared option, multi-option
and toggle is reported with the value `interpOpt` / `interpMul` / `interpTog` rank for it from the
explanation of the command line and the environment, and is listed as provided when that value came
from the command line or the environment. -/
theorem parse_sources (d : Decl) (hn : (allNames d).Nodup) (env : Env) (argv : List Str) (r : Result)
    (h : parse d env argv = .ok r) :
    ∃ items, explain d argv = some items ∧
      (∀ o ∈ d.opts, ∃ v p, interpOpt env items o = .ok (v, p) ∧ (o.name, v) ∈ r.opts ∧ (p = true → o.name ∈ r.provided)) ∧
      (∀ m ∈ d.muls, ∃ vs p, interpMul env items m = .ok (vs, p) ∧ (m.name, vs) ∈ r.muls ∧ (p = true → m.name ∈ r.provided)) ∧
      (∀ t ∈ d.togs, ∃ c p, interpTog env items t = .ok (c, p) ∧ (t.name, c) ∈ r.togs ∧ (p = true → t.name ∈ r.provided)) := by
  obtain ⟨_, items, hex, hi⟩ := parse_ok_inv d hn env argv r h
  obtain ⟨_, _, hO, hM, hT⟩ := interp_ok_inv d env items r hi
  exact ⟨items, hex, hO, hM, hT⟩

/-- a required option without any source makes parsing fail with the user-input error -/
theorem required_without_source (d : Decl) (hn : (allNames d).Nodup) (hc : consistent d = true) (env : Env)
    (argv : List Str) (items : List Item) (o : OptD) (ho : o ∈ d.opts) (hex : explain d argv = some items)
    (hcli : cliValues o.name items = []) (henv : envNonEmpty env o.env = none) (hd : o.dflt = none)
    (hreq : o.optional = false) : parse d env argv = .error .user := by
  rw [parse_of_explain d hn hc env argv items hex]
  have herr : interpOpt env items o = .error .user := by
    rw [(interpOpt_ranking env items o).2.2.2 hcli henv hd, hreq]; rfl
  exact interp_err_left d env items (Or.inl (mapAll_err _ _ o ho _ herr))


/-- **`provided` exactly when the value came from the command line or the environment**: after a
successful parse an option (of any kind) is in the provided list if and only if the ranking took its
value from one of those two sources (the second component of `interpOpt` / `interpMul` /
`interpTog`, which is `true` exactly in the command-line and environment cases of
`interpOpt_ranking`, `interpMul_ranking`, C11's `interpTog_rules`). -/
theorem provided_iff (d : Decl) (hn : (allNames d).Nodup) (env : Env) (argv : List Str) (r : Result)
    (h : parse d env argv = .ok r) :
    ∃ items, explain d argv = some items ∧
      (∀ o ∈ d.opts, ∀ v p, interpOpt env items o = .ok (v, p) → (o.name ∈ r.provided ↔ p = true)) ∧
      (∀ m ∈ d.muls, ∀ vs p, interpMul env items m = .ok (vs, p) → (m.name ∈ r.provided ↔ p = true)) ∧
      (∀ t ∈ d.togs, ∀ c p, interpTog env items t = .ok (c, p) → (t.name ∈ r.provided ↔ p = true)) := by
  obtain ⟨_, items, hex, hi⟩ := parse_ok_inv d hn env argv r h
  exact ⟨items, hex, interp_provided_iff d hn env items r hi⟩

end NitroVerif.Props.C03
