import NitroVerif.Model.Log

/-!
C05 — a log statement reaches the sink exactly once iff it is enabled, unaltered.
C10's theorems about lazily evaluated callables are in Props/C10 and reuse the lemmas here.
-/
namespace NitroVerif.Props.C05
open NitroVerif.Log

def texts (items : List Item) : Str :=
  (items.map fun it => match it with | .text s => s | .lazy _ s => s).flatten

def lazyCalls (items : List Item) : List Event :=
  items.filterMap fun it => match it with | .lazy id _ => some (.lazyCall id) | .text _ => none

/-- The specification: what one statement must produce. -/
def specStatement (cfg : Cfg) (th : Nat → Sev) (sev : Sev) (tag : Option Str) (items : List Item) :
    List Event :=
  if sev < cfg.minSev ∨ evalF th cfg.filter sev tag = false then []
  else lazyCalls items ++
    (.fmt sev tag (texts items) :: (List.range cfg.members).map fun k => .sink k sev tag (texts items))

theorem destroy_moved (cfg : Cfg) (o : Obj) : destroy cfg (movedFrom o) = [] := by
  simp [destroy, movedFrom]

theorem insert_dead (o : Obj) (it : Item) (h : o.buf = none) : insertInto o it = (o, []) := by
  simp [insertInto, h]

/-- a rejected stream stays rejected and silent along an rvalue chain -/
theorem rchain_dead (cfg : Cfg) (o : Obj) (items : List Item) (hl : o.live = false) (hb : o.buf = none) :
    (rchain o items).2.2 = [] ∧ destroy cfg (rchain o items).1 = [] ∧
    (rchain o items).2.1.reverse.flatMap (destroy cfg) = [] := by
  induction items generalizing o with
  | nil => simp [rchain, destroy, hl]
  | cons it rest ih =>
    simp only [rchain, insert_dead o it hb]
    obtain ⟨h1, h2, h3⟩ := ih o hl hb
    refine ⟨by simpa using h1, h2, ?_⟩
    simp only [List.reverse_cons, List.flatMap_append, h3, List.flatMap_cons, List.flatMap_nil,
      destroy_moved, List.append_nil]

theorem lchain_dead (cfg : Cfg) (o : Obj) (items : List Item) (hl : o.live = false) (hb : o.buf = none) :
    (lchain o items).2 = [] ∧ destroy cfg (lchain o items).1 = [] := by
  induction items generalizing o with
  | nil => simp [lchain, destroy, hl]
  | cons it rest ih =>
    simp only [lchain, insert_dead o it hb]
    obtain ⟨h1, h2⟩ := ih o hl hb
    exact ⟨by simpa using h1, h2⟩

/-- along an rvalue chain of an accepted stream: the lazies are called in order, the last temporary
owns the record with everything streamed so far, every earlier temporary is empty -/
theorem rchain_live (cfg : Cfg) (sev : Sev) (tag : Option Str) (b : Str) (items : List Item) :
    (rchain ⟨true, sev, tag, some b⟩ items).2.2 = lazyCalls items ∧
    (rchain ⟨true, sev, tag, some b⟩ items).1 = ⟨true, sev, tag, some (b ++ texts items)⟩ ∧
    (rchain ⟨true, sev, tag, some b⟩ items).2.1.reverse.flatMap (destroy cfg) = [] := by
  induction items generalizing b with
  | nil => simp [rchain, lazyCalls, texts]
  | cons it rest ih =>
    cases it with
    | text s =>
      simp only [rchain, insertInto]
      obtain ⟨h1, h2, h3⟩ := ih (b ++ s)
      refine ⟨by simpa [lazyCalls] using h1, by simpa [texts, List.append_assoc] using h2, ?_⟩
      simp only [List.reverse_cons, List.flatMap_append, h3, List.flatMap_cons, List.flatMap_nil,
        destroy_moved, List.append_nil]
    | lazy id s =>
      simp only [rchain, insertInto]
      obtain ⟨h1, h2, h3⟩ := ih (b ++ s)
      refine ⟨by simpa [lazyCalls] using h1, by simpa [texts, List.append_assoc] using h2, ?_⟩
      simp only [List.reverse_cons, List.flatMap_append, h3, List.flatMap_cons, List.flatMap_nil,
        destroy_moved, List.append_nil]

theorem lchain_live (sev : Sev) (tag : Option Str) (b : Str) (items : List Item) :
    (lchain ⟨true, sev, tag, some b⟩ items).2 = lazyCalls items ∧
    (lchain ⟨true, sev, tag, some b⟩ items).1 = ⟨true, sev, tag, some (b ++ texts items)⟩ := by
  induction items generalizing b with
  | nil => simp [lchain, lazyCalls, texts]
  | cons it rest ih =>
    cases it with
    | text s =>
      simp only [lchain, insertInto]
      obtain ⟨h1, h2⟩ := ih (b ++ s)
      exact ⟨by simpa [lazyCalls] using h1, by simpa [texts, List.append_assoc] using h2⟩
    | lazy id s =>
      simp only [lchain, insertInto]
      obtain ⟨h1, h2⟩ := ih (b ++ s)
      exact ⟨by simpa [lazyCalls] using h1, by simpa [texts, List.append_assoc] using h2⟩

theorem texts_append (a b : List Item) : texts (a ++ b) = texts a ++ texts b := by
  simp [texts]

theorem lazyCalls_append (a b : List Item) : lazyCalls (a ++ b) = lazyCalls a ++ lazyCalls b := by
  simp [lazyCalls]

/-- **Main theorem**: every statement, in either syntactic form (one expression, or a named stream
initialised with any number of items and filled over several statements), produces exactly the
specified events: nothing if disabled; otherwise the lazies once each in statement order, then the
formatter once with the statement's severity, tag and the concatenation of everything streamed,
then every member sink once in declaration order. -/
theorem statement_spec (cfg : Cfg) (th : Nat → Sev) (sev : Sev) (tag : Option Str) (items : List Item)
    (named : Option Nat) :
    statement cfg th sev tag items named = specStatement cfg th sev tag items := by
  unfold statement specStatement
  by_cases hmin : sev < cfg.minSev
  · simp [hmin]
  · simp only [hmin, if_false, false_or]
    unfold construct
    by_cases hf : evalF th cfg.filter sev tag = true
    · simp only [hf, if_true, Bool.true_eq_false, if_false]
      cases named with
      | none =>
        obtain ⟨h1, h2, h3⟩ := rchain_live cfg sev tag [] items
        simp only
        rw [h1, h2, h3]
        simp [destroy]
      | some k =>
        obtain ⟨h1, h2, h3⟩ := rchain_live cfg sev tag [] (items.take k)
        simp only
        rw [h1, h2, h3]
        obtain ⟨g1, g2⟩ := lchain_live sev tag ([] ++ texts (items.take k)) (items.drop k)
        rw [g1, g2]
        have ht : texts (items.take k) ++ texts (items.drop k) = texts items := by
          rw [← texts_append, List.take_append_drop]
        have hl : lazyCalls (items.take k) ++ lazyCalls (items.drop k) = lazyCalls items := by
          rw [← lazyCalls_append, List.take_append_drop]
        simp only [List.nil_append, List.append_nil, destroy, if_true, Option.getD_some, ht]
        rw [hl]
    · have hf' : evalF th cfg.filter sev tag = false := by simpa using hf
      simp only [hf', Bool.false_eq_true, if_false, if_true]
      cases named with
      | none =>
        obtain ⟨h1, h2, h3⟩ := rchain_dead cfg ⟨false, sev, tag, none⟩ items rfl rfl
        simp only
        rw [h1, h2, h3]; rfl
      | some k =>
        obtain ⟨h1, h2, h3⟩ := rchain_dead cfg ⟨false, sev, tag, none⟩ (items.take k) rfl rfl
        -- the named object is still a rejected stream
        have hobj : (rchain ⟨false, sev, tag, none⟩ (items.take k)).1 = ⟨false, sev, tag, none⟩ := by
          generalize items.take k = l
          induction l with
          | nil => rfl
          | cons it rest ih => simp only [rchain, insertInto]; exact ih
        obtain ⟨g1, g2⟩ := lchain_dead cfg ⟨false, sev, tag, none⟩ (items.drop k) rfl rfl
        simp only
        rw [h1, h3, hobj, g1, g2]; rfl

/-! ### two streams open at the same time -/

def enabled (cfg : Cfg) (th : Nat → Sev) (sev : Sev) (tag : Option Str) : Bool :=
  !(decide (sev < cfg.minSev)) && evalF th cfg.filter sev tag

/-- the callables of two interleaved item lists, in the order they are streamed; a disabled stream
calls none of its callables -/
def lazyMerge (ea eb : Bool) : List Item → List Item → List Event
  | [], js => if eb then lazyCalls js else []
  | i :: is, [] => if ea then lazyCalls (i :: is) else []
  | i :: is, j :: js =>
    (if ea then lazyCalls [i] else []) ++ (if eb then lazyCalls [j] else []) ++ lazyMerge ea eb is js

def emit (cfg : Cfg) (on : Bool) (sev : Sev) (tag : Option Str) (items : List Item) : List Event :=
  if on then .fmt sev tag (texts items) :: (List.range cfg.members).map fun k => .sink k sev tag (texts items)
  else []

/-- what two overlapping statements must produce: the callables as they are streamed, then the record
of the stream declared last, then the record of the stream declared first — each with its *own*
severity, tag and text -/
def specOverlap (cfg : Cfg) (th : Nat → Sev) (sa : Sev) (ta : Option Str) (is : List Item)
    (sb : Sev) (tb : Option Str) (js : List Item) : List Event :=
  lazyMerge (enabled cfg th sa ta) (enabled cfg th sb tb) is js ++
    emit cfg (enabled cfg th sb tb) sb tb js ++ emit cfg (enabled cfg th sa ta) sa ta is

theorem lchain_dead' (o : Obj) (items : List Item) (hb : o.buf = none) :
    lchain o items = (o, []) := by
  induction items with
  | nil => rfl
  | cons it rest ih => simp [lchain, insert_dead o it hb, ih]

/-- the state of a stream: enabled streams carry their text so far, disabled ones nothing -/
def objOf (on : Bool) (sev : Sev) (tag : Option Str) (b : Str) : Obj :=
  if on then ⟨true, sev, tag, some b⟩ else ⟨false, sev, tag, none⟩

theorem insert_objOf (on : Bool) (sev : Sev) (tag : Option Str) (b : Str) (it : Item) :
    insertInto (objOf on sev tag b) it =
      (objOf on sev tag (b ++ texts [it]), if on then lazyCalls [it] else []) := by
  cases on <;> cases it <;> simp [objOf, insertInto, texts, lazyCalls]

theorem lchain_objOf (on : Bool) (sev : Sev) (tag : Option Str) (b : Str) (items : List Item) :
    lchain (objOf on sev tag b) items =
      (objOf on sev tag (b ++ texts items), if on then lazyCalls items else []) := by
  cases on with
  | true =>
    have := lchain_live sev tag b items
    simp only [objOf, if_true]
    exact Prod.ext this.2 this.1
  | false =>
    simp only [objOf, Bool.false_eq_true, if_false]
    exact lchain_dead' _ _ rfl

theorem interleave2_spec (ea eb : Bool) (sa sb : Sev) (ta tb : Option Str) (ba bb : Str)
    (is js : List Item) :
    interleave2 (objOf ea sa ta ba) (objOf eb sb tb bb) is js =
      (objOf ea sa ta (ba ++ texts is), objOf eb sb tb (bb ++ texts js), lazyMerge ea eb is js) := by
  induction is generalizing js ba bb with
  | nil =>
    simp only [interleave2, lchain_objOf, lazyMerge, texts, List.map_nil, List.flatten_nil, List.append_nil]
  | cons i is ih =>
    cases js with
    | nil =>
      simp only [interleave2, lchain_objOf, lazyMerge]
      simp [texts]
    | cons j js =>
      simp only [interleave2, insert_objOf, ih, lazyMerge]
      simp [texts, List.append_assoc]

theorem destroy_objOf (cfg : Cfg) (on : Bool) (sev : Sev) (tag : Option Str) (items : List Item) :
    destroy cfg (objOf on sev tag ([] ++ texts items)) = emit cfg on sev tag items := by
  cases on <;> simp [objOf, destroy, emit]

/-- **Overlapping statements**: two streams that are alive at the same time (same severity or not) do
not share anything: each delivers exactly its own items, once, iff it is enabled. -/
theorem overlap_spec (cfg : Cfg) (th : Nat → Sev) (sa : Sev) (ta : Option Str) (is : List Item)
    (sb : Sev) (tb : Option Str) (js : List Item) :
    overlap cfg th sa ta is sb tb js = specOverlap cfg th sa ta is sb tb js := by
  have hmk : ∀ sev tag, (if sev < cfg.minSev then (⟨false, sev, tag, none⟩ : Obj) else construct cfg th sev tag)
      = objOf (enabled cfg th sev tag) sev tag [] := by
    intro sev tag
    unfold enabled construct objOf
    by_cases h1 : sev < cfg.minSev
    · simp [h1]
    · by_cases h2 : evalF th cfg.filter sev tag = true
      · simp [h1, h2]
      · have : evalF th cfg.filter sev tag = false := by simpa using h2
        simp [h1, this]
  unfold overlap specOverlap
  simp only [hmk, interleave2_spec, destroy_objOf]

def specRun (cfg : Cfg) : (Nat → Sev) → List Op → List Event
  | _, [] => []
  | th, .setThr n s :: rest => specRun cfg (fun k => if k = n then s else th k) rest
  | th, .stmt sev tag items _ :: rest => specStatement cfg th sev tag items ++ specRun cfg th rest
  | th, .overlap sa ta is sb tb js :: rest => specOverlap cfg th sa ta is sb tb js ++ specRun cfg th rest

/-- **Histories**: for every sequence of statements and threshold changes the trace is the
concatenation of the statements' specified events, in program order — the syntactic form of each
statement is irrelevant. -/
theorem run_spec (cfg : Cfg) (th : Nat → Sev) (ops : List Op) : run cfg th ops = specRun cfg th ops := by
  induction ops generalizing th with
  | nil => rfl
  | cons op rest ih =>
    cases op with
    | setThr n s => simp only [run, specRun]; exact ih _
    | stmt sev tag items named => simp only [run, specRun, statement_spec, ih]
    | overlap sa ta is sb tb js => simp only [run, specRun, overlap_spec, ih]

/-- the specification of histories in which callables reconfigure the thresholds (`Model.Log.runT`) -/
def specRunT (cfg : Cfg) : (Nat → Sev) → List Op → List Event
  | _, [] => []
  | th, .setThr n s :: rest => specRunT cfg (fun k => if k = n then s else th k) rest
  | th, .stmt sev tag items _ :: rest =>
    specStatement cfg th sev tag items ++ specRunT cfg (thAfter th (specStatement cfg th sev tag items)) rest
  | th, .overlap sa ta is sb tb js :: rest =>
    specOverlap cfg th sa ta is sb tb js ++ specRunT cfg (thAfter th (specOverlap cfg th sa ta is sb tb js)) rest

/-- **Histories whose callables change the thresholds**: every statement is decided by the thresholds
in force when it starts and delivers all of its items (a threshold raised by one of its own callables
neither silences the rest of it nor un-delivers it); later statements see the new thresholds. -/
theorem runT_spec (cfg : Cfg) (th : Nat → Sev) (ops : List Op) : runT cfg th ops = specRunT cfg th ops := by
  induction ops generalizing th with
  | nil => rfl
  | cons op rest ih =>
    cases op with
    | setThr n s => simp only [runT, specRunT]; exact ih _
    | stmt sev tag items named => simp only [runT, specRunT, statement_spec, ih]
    | overlap sa ta is sb tb js => simp only [runT, specRunT, overlap_spec, ih]

/-- without such callables `runT` is `run` -/
theorem thAfter_plain (th : Nat → Sev) (evs : List Event)
    (h : ∀ e ∈ evs, match e with | .lazyCall id => id < 900 | _ => True) : thAfter th evs = th := by
  unfold thAfter
  induction evs generalizing th with
  | nil => rfl
  | cons e rest ih =>
    simp only [List.foldl_cons]
    have he := h e (by simp)
    have hr : ∀ e ∈ rest, match e with | .lazyCall id => id < 900 | _ => True := fun x hx => h x (by simp [hx])
    cases e with
    | lazyCall id =>
      simp only at he
      have : ¬ id ≥ 900 := by omega
      simp only [this, if_false]
      exact ih th hr
    | fmt a b c => exact ih th hr
    | sink a b c d => exact ih th hr

/-- exactly once: an enabled statement yields exactly one `fmt` event -/
theorem exactly_once (cfg : Cfg) (th : Nat → Sev) (sev : Sev) (tag : Option Str) (items : List Item)
    (named : Option Nat) (hmin : ¬ sev < cfg.minSev) (hf : evalF th cfg.filter sev tag = true) :
    ((statement cfg th sev tag items named).filter fun e => match e with | .fmt _ _ _ => true | _ => false)
      = [.fmt sev tag (texts items)] := by
  rw [statement_spec]
  unfold specStatement
  simp only [hmin, hf, Bool.true_eq_false, or_self, if_false]
  have h1 : (lazyCalls items).filter (fun e => match e with | .fmt _ _ _ => true | _ => false) = [] := by
    unfold lazyCalls
    induction items with
    | nil => rfl
    | cons it rest ih =>
      cases it with
      | text s => simpa [List.filterMap_cons] using ih
      | lazy id s => simp only [List.filterMap_cons, List.filter_cons]; simpa using ih
  have h2 : ((List.range cfg.members).map fun k => Event.sink k sev tag (texts items)).filter
      (fun e => match e with | .fmt _ _ _ => true | _ => false) = [] := by
    induction (List.range cfg.members) with
    | nil => rfl
    | cons k ks ih => simp_all
  rw [List.filter_append, h1, List.filter_cons]
  simp [h2]

/-- nothing when disabled: neither the formatter nor a sink nor a lazy callable -/
theorem nothing_when_disabled (cfg : Cfg) (th : Nat → Sev) (sev : Sev) (tag : Option Str)
    (items : List Item) (named : Option Nat)
    (h : sev < cfg.minSev ∨ evalF th cfg.filter sev tag = false) :
    statement cfg th sev tag items named = [] := by
  rw [statement_spec]; unfold specStatement; simp [h]

/-- the syntactic form is irrelevant -/
theorem form_irrelevant (cfg : Cfg) (th : Nat → Sev) (sev : Sev) (tag : Option Str) (items : List Item)
    (n1 n2 : Option Nat) :
    statement cfg th sev tag items n1 = statement cfg th sev tag items n2 := by
  rw [statement_spec, statement_spec]

/-- double negation of a filter is the filter (the specialisation `not_filter<not_filter<F>>`) -/
theorem not_not (th : Nat → Sev) (f : FExpr) (s : Sev) (t : Option Str) :
    evalF th (.not (.not f)) s t = evalF th f s t := by
  simp [evalF]

theorem not_le_dec (a b : Nat) : (!decide (a ≤ b)) = decide (b < a) := by
  by_cases h : a ≤ b
  · simp [h, Nat.not_lt.mpr h]
  · simp [h, Nat.not_le.mp h]

/-- A window `T0 and not T1` (in either operand order) accepts exactly the severities from the first threshold up to,
not including, the second.  The thresholds are independent runtime values; no specialisation of the combinators may
assume they are ordered. -/
theorem window_filter (th : Nat → Sev) (s : Sev) (t : Option Str) :
    evalF th (.and (.thr 0) (.not (.thr 1))) s t = (decide (th 0 ≤ s) && decide (s < th 1)) ∧
    evalF th (.and (.not (.thr 1)) (.thr 0)) s t = (decide (th 0 ≤ s) && decide (s < th 1)) := by
  constructor
  · simp only [evalF]; rw [not_le_dec]
  · simp only [evalF]; rw [not_le_dec, Bool.and_comm]

/-- … so an *inverted* window (second threshold not above the first) accepts nothing: by `statement_spec` no record of
a statement behind it reaches the formatter or a sink, and none of its callables is called. -/
theorem inverted_window_rejects_everything (th : Nat → Sev) (h : th 1 ≤ th 0) (s : Sev) (t : Option Str) :
    evalF th (.and (.thr 0) (.not (.thr 1))) s t = false ∧ evalF th (.and (.not (.thr 1)) (.thr 0)) s t = false := by
  rw [(window_filter th s t).1, (window_filter th s t).2]
  by_cases h0 : th 0 ≤ s
  · have : ¬ (s < th 1) := Nat.not_lt.mpr (Nat.le_trans h h0)
    simp [h0, this]
  · simp [h0]

example : statement ⟨2, .and (.thr 0) (.not (.thr 1)), 2⟩ (fun n => if n = 0 then 2 else 5) 3 (some ['t'])
    [.text ['a'], .lazy 7 ['b']] (some 1) =
    [.lazyCall 7, .fmt 3 (some ['t']) ['a', 'b'], .sink 0 3 (some ['t']) ['a', 'b'], .sink 1 3 (some ['t']) ['a', 'b']] := by
  decide

end NitroVerif.Props.C05
