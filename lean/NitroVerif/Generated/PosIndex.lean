-- written by vlib/extract.py from include/nitro/options/arguments.hpp on every run
namespace NitroVerif.Generated
/-- `arguments::get(int i)`: the argument handed to `positionals_.at(...)`, bit for bit
(`int` has 32 bits, `size_type` 64; the conversion of a signed index is a sign extension). -/
def getIndexSrc (size : BitVec 64) (i : BitVec 32) : BitVec 64 := BitVec.signExtend 64 (if BitVec.slt i (0#32) then i + (BitVec.setWidth 32 size) else i)
def posIndexExtracted : Bool := true
end NitroVerif.Generated
