-- written by vlib/extract.py from src/options/toggle.cpp (toggle::parse_env_value) on every run
namespace NitroVerif.Generated
def truthySrc : List (List Char) := [
  ['T', 'R', 'U', 'E'],
  ['O', 'N'],
  ['Y', 'E', 'S'],
  ['t', 'r', 'u', 'e'],
  ['o', 'n'],
  ['y', 'e', 's'],
  ['1'],
  ['Y'],
  ['w', 'i', 't', 'h'],
  ['T', 'r', 'u', 'e'],
  ['O', 'n'],
  ['W', 'I', 'T', 'H'],
  ['W', 'i', 't', 'h'],
  ['y'],
  ['Y', 'e', 's']]
def falsySrc : List (List Char) := [
  ['f', 'a', 'l', 's', 'e'],
  ['F', 'A', 'L', 'S', 'E'],
  ['w', 'i', 't', 'h', 'o', 'u', 't'],
  ['0'],
  ['N', 'O'],
  ['n', 'o'],
  ['W', 'i', 't', 'h', 'o', 'u', 't'],
  ['n'],
  ['o', 'f', 'f'],
  ['O', 'F', 'F'],
  ['N'],
  ['F', 'a', 'l', 's', 'e'],
  ['O', 'f', 'f'],
  ['W', 'I', 'T', 'H', 'O', 'U', 'T'],
  ['N', 'o']]
def vocabExtracted : Bool := true
end NitroVerif.Generated
