-- written by vlib/extract.py from include/nitro/options/option/base.hpp and src/options/parser.cpp on every run
namespace NitroVerif.Generated
def entryPadSrc : Int := 40
def entryWidthSrc : Int := 80
def synopsisPadBaseSrc : Nat := 8
def synopsisWidthSrc : Int := 80
def usageLayoutExtracted : Bool := true
end NitroVerif.Generated
