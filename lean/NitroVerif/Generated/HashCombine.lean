-- written by vlib/extract.py from include/nitro/lang/hash.hpp on every run
namespace NitroVerif.Generated
/-- `detail::hash_combine_impl<unsigned long>`, translated expression by expression. -/
def combineSrc (seed value : BitVec 64) : BitVec 64 := seed ^^^ (((value + (BitVec.setWidth 64 (2654435769#32))) + (seed <<< 6)) + (seed >>> 2))
def tupleSeedSrc : BitVec 64 := 0#64
def variantSeedSrc : BitVec 64 := 0#64
def pairShapeSrc : Bool := true
def hashExtracted : Bool := true
end NitroVerif.Generated
