-- written by vlib/extract.py from include/nitro/log/sink/{stdout_mt,stderr_mt}.hpp on every run
import NitroVerif.Model.MT
namespace NitroVerif.Generated
open NitroVerif.MT
def stdoutSinkBySev : List (List Instr) := [[.lock, .write, .flush], [.lock, .write, .flush], [.lock, .write, .flush], [.lock, .write, .flush], [.lock, .write, .flush], [.lock, .write, .flush]]
def stderrSinkBySev : List (List Instr) := [[.lock, .write], [.lock, .write], [.lock, .write], [.lock, .write], [.lock, .write], [.lock, .write]]
def stdoutMutexStatic : Bool := true
def stderrMutexStatic : Bool := true
def mtExtracted : Bool := true
end NitroVerif.Generated
