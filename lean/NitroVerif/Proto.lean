/-
Line protocol shared by the C++ harnesses and the Lean driver.

One case per line, fields separated by TAB.  A string field is the hex encoding
of its bytes (`-` for the empty string); a list-of-strings field joins its
elements with `,` (`.` for the empty list).  One `Char` per byte.
-/
namespace NitroVerif.Proto

abbrev Str := List Char

def hexVal (c : Char) : Option Nat :=
  if '0' ≤ c ∧ c ≤ '9' then some (c.toNat - '0'.toNat)
  else if 'a' ≤ c ∧ c ≤ 'f' then some (c.toNat - 'a'.toNat + 10)
  else none

def unhexGo : List Char → Option Str
  | [] => some []
  | a :: b :: rest =>
    match hexVal a, hexVal b, unhexGo rest with
    | some x, some y, some r => some (Char.ofNat (16 * x + y) :: r)
    | _, _, _ => none
  | [_] => none

def unhex (s : String) : Option Str :=
  if s = "-" then some [] else unhexGo s.toList

def hexDigit (n : Nat) : Char :=
  if n < 10 then Char.ofNat ('0'.toNat + n) else Char.ofNat ('a'.toNat + (n - 10))

def hex (s : Str) : String :=
  if s.isEmpty then "-"
  else String.ofList (s.flatMap fun c => [hexDigit (c.toNat / 16 % 16), hexDigit (c.toNat % 16)])

def unhexList (s : String) : Option (List Str) :=
  if s = "." then some [] else (s.splitOn ",").mapM unhex

def hexList (l : List Str) : String :=
  if l.isEmpty then "." else ",".intercalate (l.map hex)

def fields (line : String) : List String := line.splitOn "\t"

def int? (s : String) : Option Int := s.toInt?
def nat? (s : String) : Option Nat := s.toNat?

end NitroVerif.Proto
