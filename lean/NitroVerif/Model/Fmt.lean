import NitroVerif.Model.Str

/-
Model of `include/nitro/format/format.hpp` (`formatter::str`) and of
`except::detail::make_string`.

Arguments are already rendered (`operator%` renders each one through a private
string stream when it is supplied; the harness uses `std::ostringstream` as the
oracle for "stream representation").  `std::sregex_iterator` over `\{\}` is
modelled as repeated leftmost search for the two characters `{}` behind the
previous match.
-/
namespace NitroVerif.Fmt
open NitroVerif.Str

abbrev Str := List Char

def ph : Str := ['{', '}']

theorem ph_ne_nil : ph ≠ [] := by decide

/-- The loop of `formatter::str`.  `rest` is the format from `input` on; `none` is a raise. -/
def strGo : Str → List Str → Option Str
  | rest, [] =>
    -- result.append(input, format_.end()); then: placeholder left over => raise
    match find? rest ph with
    | some _ => none
    | none => some rest
  | rest, a :: as =>
    match find? rest ph with
    | none => none          -- more arguments than placeholders
    | some pos =>
      match strGo (rest.drop (pos + 2)) as with
      | none => none
      | some tail => some (rest.take pos ++ a ++ tail)

def str (fmt : Str) (args : List Str) : Option Str := strGo fmt args

/-- `make_string(args...)`: every argument streamed into one string stream. -/
def makeString (reprs : List Str) : Str := reprs.foldl (· ++ ·) []

end NitroVerif.Fmt
