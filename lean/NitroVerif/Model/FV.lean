/-
Model of `include/nitro/lang/fixed_vector.hpp`.

A vector is `(cap, size, slots)`; `slots` models the `unique_ptr<T[]>` allocation
of `cap` element objects.  A slot is `val v` (an element the caller put there) or
`stale` (default-constructed, moved-from, or left behind).  Every slot access
goes through `rd`/`wr`, which fail (`none`, reported as `Res.ub`) outside the
allocation, so "touches no memory outside its capacity slots" is a statement
about the model: `Res.ub` is unreachable (Props/C06).

Element operations that may throw (construction from arguments, copy and move
assignment) consume `fuel : Option Nat`: `some n` lets `n` of them succeed and
makes the next one throw, `none` never throws.  The order and number of element
operations per container operation follow the C++ (e.g. `emplace_back` constructs
a temporary and move-assigns it: two; `push_back` copy-assigns: one).
-/
namespace NitroVerif.FV

inductive Slot where
  | val (v : Nat)
  | stale
  deriving DecidableEq, Repr

structure Vec where
  cap : Nat
  size : Nat
  slots : List Slot
  deriving DecidableEq, Repr

/-- Outcome of an operation: fine, fine with an element reference, the library's
exception (precondition not met), an exception thrown by an element operation,
or an access outside the allocation (undefined behaviour in C++). -/
inductive Res where
  | ok
  | elem (s : Slot)
  | raised
  | threw
  | ub
  deriving DecidableEq, Repr

/-- `fixed_vector(capacity)`: `make_unique<T[]>(capacity)`. -/
def fresh (cap : Nat) : Vec := ⟨cap, 0, List.replicate cap .stale⟩

def tick : Option Nat → Option (Option Nat)
  | none => some none
  | some 0 => none
  | some (n + 1) => some (some n)

def rd (v : Vec) (i : Nat) : Option Slot := v.slots[i]?

def wr (v : Vec) (i : Nat) (x : Slot) : Option Vec :=
  if i < v.slots.length then some { v with slots := v.slots.set i x } else none

/-- `a = std::move(b)` between two slots of the same vector: the source is left moved-from. -/
def mv (v : Vec) (dst src : Nat) : Option Vec :=
  match rd v src with
  | none => none
  | some x =>
    match wr v dst x with
    | none => none
    | some v' => wr v' src .stale

/-- `emplace_back(args...)`: capacity check, construct a temporary, move-assign it. -/
def emplaceBack (v : Vec) (x : Nat) (fuel : Option Nat) : Vec × Res :=
  if v.size ≥ v.cap then (v, .raised) else
  match tick fuel with
  | none => (v, .threw)
  | some f1 =>
    match tick f1 with
    | none => (v, .threw)
    | some _ =>
      match wr v v.size (.val x) with
      | none => (v, .ub)
      | some v' => ({ v' with size := v.size + 1 }, .ok)

/-- `insert(const T&)`, `insert(T&&)`, `push_back(const T&)`: one assignment into slot `size`. -/
def append1 (v : Vec) (x : Nat) (fuel : Option Nat) : Vec × Res :=
  if v.size ≥ v.cap then (v, .raised) else
  match tick fuel with
  | none => (v, .threw)
  | some _ =>
    match wr v v.size (.val x) with
    | none => (v, .ub)
    | some v' => ({ v' with size := v.size + 1 }, .ok)

/-- The loop of `insert(pos, first, last)`. -/
def rangeGo : Vec → Nat → List Slot → Option Nat → Vec × Res
  | v, _, [], _ => (v, .ok)
  | v, key, x :: xs, fuel =>
    if key ≥ v.cap then (v, .raised) else
    match tick fuel with
    | none => (v, .threw)
    | some f =>
      match wr v key x with
      | none => (v, .ub)
      | some v' =>
        rangeGo (if key = v.size then { v' with size := v.size + 1 } else v') (key + 1) xs f

/-- `insert(pos, first, last)`; `push_back(first, last)` is `rangeInsert v v.size`. -/
def rangeInsert (v : Vec) (pos : Nat) (xs : List Slot) (fuel : Option Nat) : Vec × Res :=
  if pos > v.size then (v, .raised) else rangeGo v pos xs fuel

/-- Shift `n` elements one slot to the right, last first: `data[i] = move(data[i-1])`
for `i = hi, hi-1, …`. -/
def shiftR : Vec → Nat → Nat → Option Nat → Vec × Res × Option Nat
  | v, _, 0, fuel => (v, .ok, fuel)
  | v, hi, n + 1, fuel =>
    match tick fuel with
    | none => (v, .threw, none)
    | some f =>
      match hi with
      | 0 => (v, .ub, f)
      | hi' + 1 =>
        match mv v (hi' + 1) hi' with
        | none => (v, .ub, f)
        | some v' => shiftR v' hi' n f

/-- Positional `emplace(pos, args...)`: position and capacity checks, construct the
value, shift the tail right, move the value into place. -/
def emplaceAt (v : Vec) (pos : Nat) (x : Nat) (fuel : Option Nat) : Vec × Res :=
  if pos > v.size then (v, .raised) else
  if v.size ≥ v.cap then (v, .raised) else
  match tick fuel with
  | none => (v, .threw)
  | some f1 =>
    match shiftR v v.size (v.size - pos) f1 with
    | (v1, .ok, f2) =>
      match tick f2 with
      | none => (v1, .threw)
      | some _ =>
        match wr v1 pos (.val x) with
        | none => (v1, .ub)
        | some v2 => ({ v2 with size := v.size + 1 }, .ok)
    | (v1, r, _) => (v1, r)

/-- The loop of `erase`: `data[key] = move(data[key+1])` for `n` steps upwards. -/
def shiftL : Vec → Nat → Nat → Option Nat → Vec × Res
  | v, _, 0, _ => (v, .ok)
  | v, key, n + 1, fuel =>
    match tick fuel with
    | none => (v, .threw)
    | some f =>
      match mv v key (key + 1) with
      | none => (v, .ub)
      | some v' => shiftL v' (key + 1) n f

def erase (v : Vec) (pos : Nat) (fuel : Option Nat) : Vec × Res :=
  if pos ≥ v.size then (v, .raised) else
  match shiftL v pos (v.size - 1 - pos) fuel with
  | (v1, .ok) => ({ v1 with size := v.size - 1 }, .ok)
  | (v1, r) => (v1, r)

def popBack (v : Vec) : Vec × Res :=
  if v.size = 0 then (v, .raised) else ({ v with size := v.size - 1 }, .ok)

/-- `at(key)` (both overloads, hence `std::get<I>`). -/
def atKey (v : Vec) (key : Nat) : Res :=
  if key ≥ v.cap then .raised else
  if key ≥ v.size then .raised else
  match rd v key with
  | none => .ub
  | some s => .elem s

/-- `operator[]`, `front`, `back`: unchecked; the C++ precondition is `key < size`. -/
def index (v : Vec) (key : Nat) : Res :=
  match rd v key with
  | none => .ub
  | some s => .elem s

/-- Forward iteration `begin()..end()`. -/
def elems (v : Vec) : List Slot := v.slots.take v.size

/-- Reverse iteration `rbegin()..rend()` (`std::reverse_iterator` over the same range). -/
def relems (v : Vec) : List Slot := (v.slots.take v.size).reverse

/-- `fixed_vector(capacity, iterable)`; `none` when the constructor exits by an exception. -/
def fromIter (cap : Nat) (xs : List Slot) (fuel : Option Nat) : Option Vec × Res :=
  match rangeInsert (fresh cap) 0 xs fuel with
  | (v, .ok) => (some v, .ok)
  | (_, r) => (none, r)

/-- `fixed_vector(initializer_list)`. -/
def fromList (xs : List Slot) (fuel : Option Nat) : Option Vec × Res :=
  fromIter xs.length xs fuel

/-- Copy constructor: `fixed_vector(v.capacity_, v)` — copies the live range slot by
slot (a moved-from hull left in the live range by an earlier element exception is
copied as a hull). -/
def copyOf (src : Vec) (fuel : Option Nat) : Option Vec × Res :=
  fromIter src.cap (elems src) fuel

/-- Move constructor: steals size and storage; the source stays usable, empty, with
fresh storage of the same capacity. -/
def moveOf (src : Vec) : Vec × Vec := (src, fresh src.cap)

/-- Move assignment: swap. -/
def moveAssign (dst src : Vec) : Vec × Vec := (src, dst)

/-- Copy assignment: copy-construct a temporary, move-assign it; on an exception
the target is unchanged. -/
def copyAssign (dst src : Vec) (fuel : Option Nat) : Vec × Res :=
  match copyOf src fuel with
  | (some t, _) => (t, .ok)
  | (none, r) => (dst, r)

/-- Assignment from an initializer list: `*this = fixed_vector(l.size(), l)`. -/
def listAssign (dst : Vec) (xs : List Slot) (fuel : Option Nat) : Vec × Res :=
  match fromList xs fuel with
  | (some t, _) => (t, .ok)
  | (none, r) => (dst, r)

/-! ### operation alphabets: one vector, and a pool of vectors -/

/-- Operations on one vector. -/
inductive Op where
  | emplaceBack (x : Nat)
  | insertC (x : Nat)        -- insert(const T&)
  | insertM (x : Nat)        -- insert(T&&)
  | pushBack (x : Nat)
  | range (pos : Nat) (xs : List Nat)   -- insert(begin()+pos, first, last)
  | pushRange (xs : List Nat)           -- push_back(first, last)
  | emplaceAt (pos x : Nat)
  | erase (pos : Nat)
  | pop
  | atKey (key : Nat)        -- at(key), std::get<key>
  | index (key : Nat)        -- operator[] / front / back; the harness keeps key < size
  deriving DecidableEq, Repr

def apply (v : Vec) (op : Op) (fuel : Option Nat) : Vec × Res :=
  match op with
  | .emplaceBack x => emplaceBack v x fuel
  | .insertC x => append1 v x fuel
  | .insertM x => append1 v x fuel
  | .pushBack x => append1 v x fuel
  | .range pos xs => rangeInsert v pos (xs.map .val) fuel
  | .pushRange xs => rangeInsert v v.size (xs.map .val) fuel
  | .emplaceAt pos x => emplaceAt v pos x fuel
  | .erase pos => erase v pos fuel
  | .pop => popBack v
  | .atKey key => (v, atKey v key)
  | .index key => (v, if key < v.size then index v key else .raised)

/-- Operations whose argument is a reference to an element of the same vector
(`v.emplace(pos, v[k])`, `v.push_back(v[k])`, …).  The C++ reads the referenced element
into the new value *before* it moves anything (positional emplace constructs its temporary
first), so such a call is the plain operation with the value the element has at call time.
The harness only issues them for `k < size` (else it reports `raised` without calling). -/
inductive AOp where
  | plain (op : Op)
  | emplaceAtAlias (pos k : Nat)
  | pushBackAlias (k : Nat)
  | emplaceBackAlias (k : Nat)
  | insertAlias (k : Nat)
  deriving DecidableEq, Repr

def resolveL (l : List Slot) : AOp → Option Op
  | .plain op => some op
  | .emplaceAtAlias pos k => match l[k]? with | some (.val x) => some (.emplaceAt pos x) | _ => none
  | .pushBackAlias k => match l[k]? with | some (.val x) => some (.pushBack x) | _ => none
  | .emplaceBackAlias k => match l[k]? with | some (.val x) => some (.emplaceBack x) | _ => none
  | .insertAlias k => match l[k]? with | some (.val x) => some (.insertC x) | _ => none

def applyA (v : Vec) (a : AOp) (fuel : Option Nat) : Vec × Res :=
  match resolveL (elems v) a with
  | some op => apply v op fuel
  | none => (v, .raised)

/-- A pool of vector objects, some of which may not exist (yet). -/
abbrev Pool := List (Option Vec)

def getV (p : Pool) (i : Nat) : Option Vec := (p[i]?).join

inductive POp where
  | new (i cap : Nat)
  | newIter (i cap : Nat) (xs : List Nat)
  | newList (i : Nat) (xs : List Nat)
  | copy (i j : Nat)          -- pool[i] = fixed_vector(pool[j])
  | move (i j : Nat)          -- pool[i] = fixed_vector(std::move(pool[j]))
  | asg (i j : Nat)           -- pool[i] = pool[j]
  | masg (i j : Nat)          -- pool[i] = std::move(pool[j])
  | lasg (i : Nat) (xs : List Nat)   -- pool[i] = { ... }
  | on (i : Nat) (op : Op)
  | onA (i : Nat) (a : AOp)
  deriving DecidableEq, Repr

/-- One step on the pool.  An operation that names a vector that does not exist does
nothing and reports `raised` (the harness does the same). -/
def pstep (p : Pool) (op : POp) (fuel : Option Nat) : Pool × Res :=
  match op with
  | .new i cap => (p.set i (some (fresh cap)), .ok)
  | .newIter i cap xs =>
    match fromIter cap (xs.map .val) fuel with
    | (some v, _) => (p.set i (some v), .ok)
    | (none, r) => (p, r)
  | .newList i xs =>
    match fromList (xs.map .val) fuel with
    | (some v, _) => (p.set i (some v), .ok)
    | (none, r) => (p, r)
  | .copy i j =>
    match getV p j with
    | none => (p, .raised)
    | some s =>
      match copyOf s fuel with
      | (some v, _) => (p.set i (some v), .ok)
      | (none, r) => (p, r)
  | .move i j =>
    match getV p j with
    | none => (p, .raised)
    | some s =>
      let (t, s') := moveOf s
      ((p.set j (some s')).set i (some t), .ok)
  | .asg i j =>
    match getV p i, getV p j with
    | some d, some s =>
      if i = j then (p, .ok) else
      let (d', r) := copyAssign d s fuel
      (p.set i (some d'), r)
    | _, _ => (p, .raised)
  | .masg i j =>
    match getV p i, getV p j with
    | some d, some s =>
      let (d', s') := moveAssign d s
      ((p.set j (some s')).set i (some d'), .ok)
    | _, _ => (p, .raised)
  | .lasg i xs =>
    match getV p i with
    | none => (p, .raised)
    | some d =>
      let (d', r) := listAssign d (xs.map .val) fuel
      (p.set i (some d'), r)
  | .on i op =>
    match getV p i with
    | none => (p, .raised)
    | some v =>
      let (v', r) := apply v op fuel
      (p.set i (some v'), r)
  | .onA i a =>
    match getV p i with
    | none => (p, .raised)
    | some v =>
      let (v', r) := applyA v a fuel
      (p.set i (some v'), r)

/-- A history: operations with the throw point chosen for each. -/
def prun (p : Pool) : List (POp × Option Nat) → Pool
  | [] => p
  | (op, fuel) :: rest => prun (pstep p op fuel).1 rest

end NitroVerif.FV
