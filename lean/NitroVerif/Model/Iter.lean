/-
Model of `include/nitro/lang/enumerate.hpp` and `reverse.hpp`: the iterator
protocol a range-for loop runs (`it = begin(); while (it != end()) { visit *it; ++it; }`).

References are positions in the container, so writing through the adaptor is
`l.set pos v`.  The loop takes fuel; Props/C20 shows `length + 1` is always enough
and that no dereference leaves the container.
-/
namespace NitroVerif.Iter

/-- `enumerate_proxy<Iterator>::iterator`: the wrapped iterator (a position) and the index. -/
structure EIt where
  pos : Nat
  index : Nat
  deriving DecidableEq, Repr

def eBegin : EIt := ⟨0, 0⟩
/-- `end()` is built with index 0; `operator!=` compares the wrapped iterators only. -/
def eEnd (n : Nat) : EIt := ⟨n, 0⟩
def eNe (a b : EIt) : Bool := a.pos != b.pos
def eNext (a : EIt) : EIt := ⟨a.pos + 1, a.index + 1⟩

/-- What one loop iteration sees: (index, position of the referenced element). -/
inductive Step where
  | visit (index pos : Nat)
  | outOfRange            -- dereference outside the container: undefined behaviour
  deriving DecidableEq, Repr

def eLoop (n : Nat) : Nat → EIt → List Step
  | 0, _ => [.outOfRange]                       -- fuel exhausted: the loop did not terminate in time
  | fuel + 1, it =>
    if eNe it (eEnd n) then
      (if it.pos < n then Step.visit it.index it.pos else .outOfRange) :: eLoop n fuel (eNext it)
    else []

def enumerateSteps (n : Nat) : List Step := eLoop n (n + 1) eBegin

/-- `iterator operator++(int)`: returns the old iterator, advances the wrapped iterator *and* the index. -/
def ePostInc (a : EIt) : EIt × EIt := (a, eNext a)

/-- A hand-written loop `for (it = begin(); it != end(); it++)`. -/
def eLoopPost (n : Nat) : Nat → EIt → List Step
  | 0, _ => [.outOfRange]
  | fuel + 1, it =>
    if eNe it (eEnd n) then
      (if it.pos < n then Step.visit it.index it.pos else .outOfRange) :: eLoopPost n fuel (ePostInc it).2
    else []

def enumeratePostSteps (n : Nat) : List Step := eLoopPost n (n + 1) eBegin

/-- `std::reverse_iterator` over `[begin, end)`: `base` counts down, `*it` is element `base - 1`. -/
def rLoop (n : Nat) : Nat → Nat → List Step
  | 0, _ => [.outOfRange]
  | fuel + 1, base =>
    if base != 0 then
      (if base - 1 < n then Step.visit 0 (base - 1) else .outOfRange) :: rLoop n fuel (base - 1)
    else []

def reverseSteps (n : Nat) : List Step := rLoop n (n + 1) n

/-- Values seen by the loop body. -/
def seen (l : List Int) (steps : List Step) : List (Nat × Option Int) :=
  steps.map fun s => match s with
    | .visit i p => (i, l[p]?)
    | .outOfRange => (0, none)

/-- The loop body writes `f v` through every reference it is given. -/
def writeStep (f : Int → Int) (acc : List Int) (s : Step) : List Int :=
  match s with
  | .visit _ p =>
    match acc[p]? with
    | some v => acc.set p (f v)
    | none => acc
  | .outOfRange => acc

def writeThrough (f : Int → Int) (l : List Int) (steps : List Step) : List Int :=
  steps.foldl (writeStep f) l

end NitroVerif.Iter
