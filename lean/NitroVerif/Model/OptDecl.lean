import NitroVerif.Model.Opt

/-
Model of the declaration API of the option parser: `parser::option/multi_option/toggle`,
`group::option/...`, `crtp_base::short_name/env/metavar`, moving the parser object.

Objects are numbered in creation order; an object lives in one group and one kind map
(`group::options_ / multi_options_ / toggles_`, keyed by name).
-/
namespace NitroVerif.Opt

inductive Kind where
  | o | m | t
  deriving DecidableEq, Repr

structure DObj where
  kind : Kind
  group : Nat
  name : Str
  short : Str       -- `short_`: empty = no short name
  env : Str         -- `env_`:   empty = not bound
  metavar : Str
  deriving DecidableEq, Repr

abbrev DState := List DObj

inductive DOp where
  | declare (k : Kind) (group : Nat) (name : Str)
  | setShort (id : Nat) (s : Str)
  | setEnv (id : Nat) (e : Str)
  | setMetavar (id : Nat) (m : Str)
  | newGroup (k : Nat)
  | moveParser
  deriving DecidableEq, Repr

inductive DRes where
  | obj (id : Nat)      -- reference to the (new or already existing) object
  | ok
  | dev                 -- parser_error
  | skip                -- the harness names an object that does not exist: nothing is called
  deriving DecidableEq, Repr

/-- `group::option(name)` (and the two siblings): if the name is taken anywhere in the parser but not
by this kind in this group, refuse; otherwise return the existing object or create one. -/
def declare (s : DState) (k : Kind) (g : Nat) (name : Str) : DState × DRes :=
  match s.findIdx? (fun x => x.kind = k ∧ x.group = g ∧ x.name = name) with
  | some id => (s, .obj id)
  | none =>
    if s.any (fun x => x.name = name) then (s, .dev)
    else (s ++ [⟨k, g, name, [], [], ['A', 'R', 'G']⟩], .obj s.length)

def dstep (s : DState) : DOp → DState × DRes
  | .declare k g name => declare s k g name
  | .setShort id sh =>
    match s[id]? with
    | none => (s, .skip)
    | some x =>
      if x.short ≠ [] ∧ x.short ≠ sh then (s, .dev)          -- trying to redefine short_name
      else if sh.length ≠ 1 then (s, .dev)                    -- not one character
      else (s.set id { x with short := sh }, .ok)
  | .setEnv id e =>
    match s[id]? with
    | none => (s, .skip)
    | some x =>
      if x.env ≠ [] ∧ x.env ≠ e then (s, .dev)
      else (s.set id { x with env := e }, .ok)
  | .setMetavar id m =>
    match s[id]? with
    | none => (s, .skip)
    | some x =>
      if m = [] then (s, .dev) else (s.set id { x with metavar := m }, .ok)
  | .newGroup _ => (s, .ok)
  | .moveParser => (s, .ok)       -- the groups follow their parser: nothing observable changes

def drun (s : DState) : List DOp → DState
  | [] => s
  | op :: rest => drun (dstep s op).1 rest

/-- The declaration as the parse loop sees it (objects of each kind; options are declared optional by
the harness so that a probe parse does not fail for a missing value). -/
def toDecl (s : DState) (allowed : Option Nat) : Decl :=
  { opts := (s.filter (·.kind = .o)).map fun x => ⟨x.name, x.short.head?, if x.env = [] then none else some x.env, none, true⟩,
    muls := (s.filter (·.kind = .m)).map fun x => ⟨x.name, x.short.head?, if x.env = [] then none else some x.env, none, true⟩,
    togs := (s.filter (·.kind = .t)).map fun x => ⟨x.name, x.short.head?, if x.env = [] then none else some x.env, 0, false⟩,
    allowed := allowed, greedy := false }

end NitroVerif.Opt
