/-
Model of `include/nitro/lang/hash.hpp`, `tuple_operators.hpp`.

A value is a tree: leaves carry the rank of the leaf value in its own type's
order (an `Int`; equal values have equal rank) and its `std::hash` (64 bit, as
printed by the harness); a member tuple (`std::tuple`, or a struct deriving from
`tuple_operators`) is a `cons` chain ending in `unit`; `pair`, `var` (a variant
holding a value), `ptr` (unique_ptr / shared_ptr) as in the header.
-/
namespace NitroVerif.Hash

inductive Val where
  | leaf (rank : Int) (h : BitVec 64)
  | unit
  | cons (head tail : Val)
  | pair (a b : Val)
  | var (x : Val)
  | ptr (x : Val)
  deriving DecidableEq, Repr

/-- `detail::hash_combine_impl`: `seed ^= value + 0x9e3779b9 + (seed << 6) + (seed >> 2)`. -/
def combine (seed v : BitVec 64) : BitVec 64 :=
  seed ^^^ (v + 0x9e3779b9#64 + (seed <<< 6) + (seed >>> 2))

mutual
/-- `nitro::lang::hash(x)`. -/
def hashV : Val → BitVec 64
  | .leaf _ h => h
  | .unit => 0#64                       -- hash(std::tuple<>{}): seed 0, nothing combined
  | .cons x t => hashFrom (combine 0#64 (hashV x)) t
  | .pair a b => combine (hashV a) (hashV b)
  | .var x => combine 0#64 (hashV x)
  | .ptr x => hashV x
/-- `detail::hash_combine_tuple<I>(seed, t)` over the remaining members. -/
def hashFrom (seed : BitVec 64) : Val → BitVec 64
  | .cons x t => hashFrom (combine seed (hashV x)) t
  | _ => seed
end

/-- `operator<` as `std::tuple` defines it: `x0 < y0 || (!(y0 < x0) && rest < rest)`. -/
def ltV : Val → Val → Bool
  | .leaf r _, .leaf s _ => r < s
  | .cons x t, .cons y u => ltV x y || (!ltV y x && ltV t u)
  | .pair a b, .pair c d => ltV a c || (!ltV c a && ltV b d)
  | _, _ => false
termination_by x y => sizeOf x + sizeOf y

/-- `operator==`: member-wise. -/
def eqV : Val → Val → Bool
  | .leaf r _, .leaf s _ => r == s
  | .unit, .unit => true
  | .cons x t, .cons y u => eqV x y && eqV t u
  | .pair a b, .pair c d => eqV a c && eqV b d
  | _, _ => false

/-- The six operators of `tuple_operators<T>`, each delegating to the member tuple:
`!=`, `==`, `<`, `>`, `<=`, `>=` (std::tuple derives the last three from `<`). -/
def ne (x y : Val) : Bool := !eqV x y
def gt (x y : Val) : Bool := ltV y x
def le (x y : Val) : Bool := !ltV y x
def ge (x y : Val) : Bool := !ltV x y

end NitroVerif.Hash
