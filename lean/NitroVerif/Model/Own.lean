/-
Models of the owning wrappers (C18, C19):

* `QS`  — `nitro::lang::quaint_ptr`: a type-erased `unique_ptr<void, function<void(void*)>>`
  whose deleter casts back to the creation type.  Cells are the pointer objects of a
  pool (and of a `std::vector<quaint_ptr>` appended behind it), objects are numbered
  in creation order, `dead` is the log of destructor runs `(object, type it ran as)`.
* `OS`  — `nitro::lang::optional<T>`: a cell is empty or points to a heap slot it owns.
* `DS`  — `nitro::dl::dl` / `symbol`: objects sharing a library handle through
  `shared_ptr<void>` with a deleter that calls `dlclose` for a non-null handle.
* `envGet` — `nitro::env::get`.
-/
namespace NitroVerif.Own

/-! ### quaint_ptr -/

structure QS where
  cells : List (Option Nat)
  types : List Nat
  dead : List (Nat × Nat)
  deriving DecidableEq, Repr

/-- The deleter of the object in cell `i` runs (if the cell owns one): the lambda stored at
creation casts to the creation type. -/
def QS.release (s : QS) (i : Nat) : QS :=
  match s.cells[i]? with
  | some (some id) => { s with dead := s.dead ++ [(id, s.types[id]?.getD 0)] }
  | _ => s

inductive QOp where
  | make (i ty : Nat)      -- p[i] = make_quaint<T>()
  | mov (i j : Nat)        -- p[i] = std::move(p[j])
  | reset (i : Nat)        -- p[i].reset()  /  p[i] = nullptr
  | push (i : Nat)         -- vec.push_back(std::move(p[i])) (reallocation included)
  | pop                    -- vec.pop_back()
  | swap (i j : Nat)       -- std::swap(p[i], p[j])
  | makeFails (i ty : Nat) -- p[i] = make_quaint<T>() where T's constructor throws: no object comes into being
  deriving DecidableEq, Repr

def QS.step (pool : Nat) (s : QS) : QOp → QS
  | .make i ty =>
    if i < s.cells.length then
      let s1 := s.release i
      { s1 with cells := s1.cells.set i (some s.types.length), types := s.types ++ [ty] }
    else s
  | .mov i j =>
    if i = j then s                      -- self move assignment: reset(release()) — nothing happens
    else if i < s.cells.length ∧ j < s.cells.length then
      let s1 := s.release i
      { s1 with cells := (s1.cells.set i (s.cells[j]?.getD none)).set j none }
    else s
  | .reset i =>
    if i < s.cells.length then
      let s1 := s.release i
      { s1 with cells := s1.cells.set i none }
    else s
  | .push i =>
    if i < s.cells.length then
      { s with cells := (s.cells.set i none) ++ [s.cells[i]?.getD none] }
    else s
  | .pop =>
    if pool < s.cells.length then
      let s1 := s.release (s.cells.length - 1)
      { s1 with cells := s1.cells.dropLast }
    else s
  | .swap i j =>
    if i < s.cells.length ∧ j < s.cells.length then
      { s with cells := (s.cells.set i (s.cells[j]?.getD none)).set j (s.cells[i]?.getD none) }
    else s
  | .makeFails _ _ => s     -- the exception leaves make_quaint before an owner exists; the target keeps what it has

def QS.run (pool : Nat) (s : QS) : List QOp → QS
  | [] => s
  | op :: rest => QS.run pool (s.step pool op) rest

def QS.init (pool : Nat) : QS := ⟨List.replicate pool none, [], []⟩

/-- All pointer objects go away (end of scope), last cell first. -/
def QS.finish : QS → Nat → QS
  | s, 0 => s
  | s, n + 1 =>
    if 0 < s.cells.length then
      let s1 := s.release (s.cells.length - 1)
      QS.finish { s1 with cells := s1.cells.dropLast } n
    else s

/-! ### optional -/

structure OS where
  cells : List (Option Nat)     -- address of the owned heap slot
  heap : List Int               -- value stored at each address ever allocated
  deriving DecidableEq, Repr

inductive OOp where
  | setValue (i : Nat) (v : Int)   -- a = v   /  optional(v)
  | copy (i j : Nat)               -- a = b   /  optional(b)     (copy)
  | clear (i : Nat)                -- a = optional<T>()
  deriving DecidableEq, Repr

def OS.read (s : OS) (i : Nat) : Option Int :=   -- `none`: operator* raises
  match s.cells[i]? with
  | some (some a) => s.heap[a]?
  | _ => none

def OS.step (s : OS) : OOp → OS
  | .setValue i v => { cells := s.cells.set i (some s.heap.length), heap := s.heap ++ [v] }
  | .copy i j =>
    match s.read j with
    | some v => { cells := s.cells.set i (some s.heap.length), heap := s.heap ++ [v] }  -- make_unique<T>(*other)
    | none => { s with cells := s.cells.set i none }   -- assigning an empty optional empties the target
  | .clear i => { s with cells := s.cells.set i none }

def OS.run (s : OS) : List OOp → OS
  | [] => s
  | op :: rest => OS.run (s.step op) rest

/-! ### environment -/

/-- `nitro::env::get(name, default)`; the environment is a partial map. -/
def envGet (env : String → Option String) (name dflt : String) : String :=
  match env name with
  | some v => v
  | none => dflt

/-- `nitro::env::get(name, no_default)`; `none` = raises. -/
def envGetNoDefault (env : String → Option String) (name : String) : Option String := env name

/-! ### dl / symbol -/

structure DS where
  objs : List (Option Nat)   -- every dl / symbol object and the handle it shares (none: destroyed)
  rc : List Nat              -- shared_ptr use count per handle
  closes : List Nat          -- dlclose calls, in order
  deriving DecidableEq, Repr

inductive DOp where
  | openOk                   -- dl(path) succeeds: new handle, new object
  | openFail                 -- dl(path) raises: shared_ptr(nullptr, deleter) dies, deleter skips dlclose
  | loadOk (o : Nat)         -- dl.load<T>(name) / symbol copy of the library pointer: new object sharing o's handle
  | loadFail (o : Nat)       -- symbol constructor raises: its share is released again
  | copy (o : Nat)           -- copy of a dl or symbol object
  | destroy (o : Nat)
  | assign (o p : Nat)       -- obj[o] = obj[p]  (symbol = symbol, dl = dl), both alive
  deriving DecidableEq, Repr

/-- A new object takes a share of object `o`'s handle (symbol creation, copy construction). -/
def DS.shareStep (s : DS) (o : Nat) : DS :=
  match s.objs[o]? with
  | some (some h) => { s with objs := s.objs ++ [some h], rc := s.rc.set h (s.rc[h]?.getD 0 + 1) }
  | _ => s

/-- Object `o` is destroyed: its share is released; the last share runs the deleter (`dlclose`). -/
def DS.destroyStep (s : DS) (o : Nat) : DS :=
  match s.objs[o]? with
  | some (some h) =>
    let n := s.rc[h]?.getD 0
    { objs := s.objs.set o none, rc := s.rc.set h (n - 1),
      closes := if n = 1 then s.closes ++ [h] else s.closes }
  | _ => s

/-- Copy assignment `obj[o] = obj[p]` (both alive): `shared_ptr` copy assignment takes the new share
first and then releases the old one; the object in slot `o` afterwards shares `p`'s handle. -/
def DS.assignStep (s : DS) (o p : Nat) : DS :=
  match s.objs[o]?, s.objs[p]? with
  | some (some _), some (some hp) =>
    let s2 := (s.shareStep p).destroyStep o
    -- the temporary share becomes slot `o`'s share
    { s2 with objs := (s2.objs.set o (some hp)).dropLast }
  | _, _ => s

def DS.step (s : DS) : DOp → DS
  | .openOk => { objs := s.objs ++ [some s.rc.length], rc := s.rc ++ [1], closes := s.closes }
  | .openFail => s
  | .loadOk o | .copy o => s.shareStep o
  | .loadFail _ => s          -- share taken and released: use count unchanged, no close (the library object still owns it)
  | .destroy o => s.destroyStep o
  | .assign o p => s.assignStep o p

def DS.run (s : DS) : List DOp → DS
  | [] => s
  | op :: rest => DS.run (s.step op) rest

def DS.init : DS := ⟨[], [], []⟩

end NitroVerif.Own
