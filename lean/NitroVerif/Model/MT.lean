/-
Model of the thread-safe sinks `sink::stdout_mt` / `sink::StdErrThreaded` under an arbitrary
scheduler.  The statement sequence of the sink body is extracted from the source
(Generated/MtSinks.lean); a thread executes it once per record.

* `lock`  : `std::lock_guard<std::mutex> l(<function-local static mutex>)` — blocks while another
            thread holds the mutex; the guard is released when the body ends.
* `write` : `stream << formatted_record` — one scheduler step **per byte**: the underlying stream is
            assumed to give no atomicity whatsoever.
* `flush` : `<< std::flush`.

`done` is a history variable: the records whose sink call has completed, in completion order.
-/
namespace NitroVerif.MT

inductive Instr where
  | lock | write | flush
  deriving DecidableEq, Repr

abbrev Rec := List Nat

structure Thread where
  todo : List Rec      -- records this thread still has to log (head = the one in progress)
  pc : Nat             -- position in the sink body for the record in progress
  wpos : Nat           -- bytes of the record already handed to the stream
  deriving DecidableEq, Repr

structure Sys where
  threads : Nat → Thread
  holder : Option Nat          -- who owns the mutex
  out : List Nat               -- what the stream received, byte by byte
  done : List (Nat × Rec)      -- completed sink calls (thread, record), in order of completion

def updT (f : Nat → Thread) (i : Nat) (t : Thread) : Nat → Thread := fun k => if k = i then t else f k

/-- One scheduler step: thread `i` runs one instruction (one byte, for `write`).  A blocked or
finished thread does nothing. -/
def step (prog : List Instr) (s : Sys) (i : Nat) : Sys :=
  let t := s.threads i
  match t.todo with
  | [] => s
  | r :: rest =>
    match prog[t.pc]? with
    | none =>
      -- end of the sink body: the guard's destructor releases the mutex, the record is done
      { threads := updT s.threads i ⟨rest, 0, 0⟩,
        holder := if s.holder = some i then none else s.holder,
        out := s.out, done := s.done ++ [(i, r)] }
    | some .lock =>
      if s.holder = none then
        { s with threads := updT s.threads i { t with pc := t.pc + 1 }, holder := some i }
      else s
    | some .write =>
      match r[t.wpos]? with
      | some b => { s with threads := updT s.threads i { t with wpos := t.wpos + 1 }, out := s.out ++ [b] }
      | none => { s with threads := updT s.threads i { t with pc := t.pc + 1 } }
    | some .flush => { s with threads := updT s.threads i { t with pc := t.pc + 1 } }

def runs (prog : List Instr) (s : Sys) : List Nat → Sys
  | [] => s
  | i :: sched => runs prog (step prog s i) sched

def init (recs : Nat → List Rec) : Sys :=
  { threads := fun i => ⟨recs i, 0, 0⟩, holder := none, out := [], done := [] }

/-- thread `i` is inside the stream: it has started writing a record and not finished the body -/
def inStream (prog : List Instr) (s : Sys) (i : Nat) : Bool :=
  (s.threads i).todo != [] && (match prog[(s.threads i).pc]? with
    | some .write => (s.threads i).wpos > 0
    | some .flush => true
    | _ => (s.threads i).pc > 0 && (s.threads i).pc ≥ prog.length)

end NitroVerif.MT
