/-
Model of the thread-safe sinks `sink::stdout_mt` / `sink::StdErrThreaded` under an arbitrary
scheduler.  The statement sequence of the sink body is extracted from the source
(Generated/MtSinks.lean); a thread executes it once per record.

* `lock`  : `std::lock_guard<std::mutex> l(<function-local static mutex>)` — blocks while another
            thread holds the mutex; the guard is released when the body ends.
* `write` : `stream << formatted_record` — one scheduler step **per byte**: the underlying stream is
            assumed to give no atomicity whatsoever.
* `flush` : `<< std::flush` — an access to the stream like any other (`inStream`).
* `unlock`: the end of a nested block that holds the guard, or an explicit `unlock()`: the mutex is
            released before the body ends.

The body executed for a record may depend on the record (`P : Rec → List Instr`; in the source: on
its severity, which the harness and the driver carry in the record's third byte).

`done` is a history variable: the records whose sink call has completed, in completion order.
-/
namespace NitroVerif.MT

inductive Instr where
  | lock | write | flush | unlock
  deriving DecidableEq, Repr

abbrev Rec := List Nat

structure Thread where
  todo : List Rec      -- records this thread still has to log (head = the one in progress)
  pc : Nat             -- position in the sink body for the record in progress
  wpos : Nat           -- bytes of the record already handed to the stream
  deriving DecidableEq, Repr

structure Sys where
  threads : Nat → Thread
  holder : Option Nat          -- who owns the mutex
  out : List Nat               -- what the stream received, byte by byte
  done : List (Nat × Rec)      -- completed sink calls (thread, record), in order of completion

def updT (f : Nat → Thread) (i : Nat) (t : Thread) : Nat → Thread := fun k => if k = i then t else f k

/-- One scheduler step: thread `i` runs one instruction (one byte, for `write`).  A blocked or
finished thread does nothing. -/
def step (P : Rec → List Instr) (s : Sys) (i : Nat) : Sys :=
  let t := s.threads i
  match t.todo with
  | [] => s
  | r :: rest =>
    match (P r)[t.pc]? with
    | none =>
      -- end of the sink body: the guard's destructor releases the mutex, the record is done
      { threads := updT s.threads i ⟨rest, 0, 0⟩,
        holder := if s.holder = some i then none else s.holder,
        out := s.out, done := s.done ++ [(i, r)] }
    | some .lock =>
      if s.holder = none then
        { s with threads := updT s.threads i { t with pc := t.pc + 1 }, holder := some i }
      else s
    | some .write =>
      match r[t.wpos]? with
      | some b => { s with threads := updT s.threads i { t with wpos := t.wpos + 1 }, out := s.out ++ [b] }
      | none => { s with threads := updT s.threads i { t with pc := t.pc + 1 } }
    | some .flush => { s with threads := updT s.threads i { t with pc := t.pc + 1 } }
    | some .unlock =>
      { s with threads := updT s.threads i { t with pc := t.pc + 1 },
               holder := if s.holder = some i then none else s.holder }

def runs (P : Rec → List Instr) (s : Sys) : List Nat → Sys
  | [] => s
  | i :: sched => runs P (step P s i) sched

def init (recs : Nat → List Rec) : Sys :=
  { threads := fun i => ⟨recs i, 0, 0⟩, holder := none, out := [], done := [] }

/-- thread `i` is inside the stream: it has handed over a byte of its record and not finished the
insertion, or it is about to flush -/
def inStream (P : Rec → List Instr) (s : Sys) (i : Nat) : Bool :=
  match (s.threads i).todo with
  | [] => false
  | r :: _ =>
    match (P r)[(s.threads i).pc]? with
    | some .write => (s.threads i).wpos > 0
    | some .flush => true
    | _ => false

/-- the severity of a record as the harness and the driver encode it: third byte minus one
(0 = trace … 5 = fatal) -/
def sevOf (r : Rec) : Nat := (r.getD 2 1) - 1

/-- the sink body for a record, given the bodies per severity (translator output) -/
def sinkProg (progs : List (List Instr)) (r : Rec) : List Instr :=
  progs.getD (sevOf r) (progs.headD [])    -- (codes beyond the six severities — the driver's "long info record" — fall
                                            --  back on the first body; all six are proved to have the same shape)

/-- sink bodies of the shape the theorems of `Props/C09` are about, decidably: lock guard first, then
one insertion, then only flushes (`Props.C09.goodProg_sound`) -/
def goodProg : List Instr → Bool
  | .lock :: .write :: tail => tail.all (· == .flush)
  | _ => false

end NitroVerif.MT
