/-
Model of `include/nitro/lang/string.hpp` (split, join, replace_all, starts_with).

Strings are lists over any type with decidable equality; the driver instantiates
them with `Char` (one `Char` per C++ byte).  The functions follow the C++ loops:
`std::string::find(needle, start)` is `findFrom`, the `while (true)` loop of
`split` and the `while ((start_pos = str.find(..)) != npos)` loop of
`replace_all` run over the not-yet-scanned suffix of the string (`start` in the
C++ is `s.length - rest.length` here).
-/
namespace NitroVerif.Str

variable {α : Type} [DecidableEq α]

/-- `hay.find(needle)`: the smallest `i` such that `needle` is a prefix of
`hay.drop i`; `none` is `std::string::npos`. -/
def find? : List α → List α → Option Nat
  | [], needle => if needle = [] then some 0 else none
  | c :: cs, needle =>
    if needle.isPrefixOf (c :: cs) then some 0
    else (find? cs needle).map (· + 1)

/-- `hay.find(needle, start)`. -/
def findFrom (hay needle : List α) (start : Nat) : Option Nat :=
  if start ≤ hay.length then (find? (hay.drop start) needle).map (· + start) else none

theorem find?_le {hay needle : List α} {i : Nat} (h : find? hay needle = some i) :
    i + needle.length ≤ hay.length := by
  induction hay generalizing i with
  | nil =>
    unfold find? at h
    split at h
    · rename_i hn
      simp at h; subst h; subst hn; simp
    · simp at h
  | cons c cs ih =>
    unfold find? at h
    split at h
    · rename_i hp
      have := List.IsPrefix.length_le (List.isPrefixOf_iff_prefix.mp hp)
      simp at h; subst h; simpa using this
    · cases hf : find? cs needle with
      | none => simp [hf] at h
      | some j =>
        simp [hf] at h
        have := ih hf
        subst h
        simp; omega

/-- The loop of `nitro::lang::split` over the unscanned suffix `rest`. -/
def splitGo (needle : List α) (hn : needle ≠ []) (rest : List α) : List (List α) :=
  match h : find? rest needle with
  | some pos => rest.take pos :: splitGo needle hn (rest.drop (pos + needle.length))
  | none => [rest]
termination_by rest.length
decreasing_by
  have := find?_le h
  have : 0 < needle.length := List.length_pos_iff.mpr hn
  simp only [List.length_drop]
  omega

/-- `nitro::lang::split`: raises (`none`) for an empty needle. -/
def split (hay needle : List α) : Option (List (List α)) :=
  if hn : needle = [] then none else some (splitGo needle hn hay)

/-- `nitro::lang::starts_with`: `full.find(beginning) == 0`. -/
def startsWith (full beginning : List α) : Bool :=
  find? full beginning == some 0

/-- The loop of `nitro::lang::replace_all`; `rest` is `str.substr(start_pos)`,
the result is what the rest of the string becomes. -/
def replaceGo (pat : List α) (hn : pat ≠ []) (rep : List α) (rest : List α) : List α :=
  match h : find? rest pat with
  | some pos => rest.take pos ++ rep ++ replaceGo pat hn rep (rest.drop (pos + pat.length))
  | none => rest
termination_by rest.length
decreasing_by
  have := find?_le h
  have : 0 < pat.length := List.length_pos_iff.mpr hn
  simp only [List.length_drop]
  omega

/-- `nitro::lang::replace_all` (value returned instead of mutated in place).  An
empty pattern returns the string unchanged (the early return of the repaired
code; without it the C++ loop does not terminate, and neither would this
definition be accepted: `replaceGo` needs `pat ≠ []` for its termination proof). -/
def replaceAll (s pat rep : List α) : List α :=
  if hn : pat = [] then s else replaceGo pat hn rep s

/-- `nitro::lang::join` for elements whose stream representation is given: the
loop keeps a `first` flag, skips elements with empty text and writes the sep
before every later non-empty one. -/
def joinGo (sep : List α) : Bool → List (List α) → List α
  | _, [] => []
  | first, x :: xs =>
    if x = [] then joinGo sep first xs
    else (if first then x else sep ++ x) ++ joinGo sep false xs

def join (xs : List (List α)) (sep : List α) : List α :=
  joinGo sep true xs

end NitroVerif.Str
