/-
Model of the option parser: `src/options/{parser,option,multi_option,toggle}.cpp`,
`include/nitro/options/{user_input,arguments}.hpp`, `option/base.hpp`.

Code-shaped: the same loop, the same order of checks and early returns as the C++
(after the repairs listed in known_findings.json).  Strings are `List Char`, one
`Char` per byte.  The per-object parse state (`option::value_`, `multi_option::value_`,
`toggle::given_`, `base::dirty_`) is kept in maps keyed by the option name, as the
C++ keeps the objects in `std::map<std::string, …>`.  The declaration lists are in
the iteration order of those maps (sorted by name; the driver sorts).

Outcomes: `ok r`, `userError` (`parsing_error`), `devError` (`parser_error`).
Error *messages* are not modelled.
-/
namespace NitroVerif.Opt

abbrev Str := List Char

inductive Err where
  | user   -- nitro::options::parsing_error
  | dev    -- nitro::options::parser_error
  deriving DecidableEq, Repr

/-! ### user_input -/

/-- `user_input`: the argument, the part before the first `=`, the part behind it. -/
structure UI where
  arg : Str
  name : Str
  value : Option Str
  deriving DecidableEq, Repr

/-- Split at the first `=`. -/
def splitEq : Str → Str × Option Str
  | [] => ([], none)
  | c :: cs =>
    if c = '=' then ([], some cs)
    else let (n, v) := splitEq cs; (c :: n, v)

/-- `parser::is_value_token` / `user_input::is_value`: does not start with a dash. -/
def isValueTok (tok : Str) : Bool :=
  match tok with
  | '-' :: _ => false
  | _ => true

def isDoubleDashTok (tok : Str) : Bool := tok = ['-', '-']

/-- The syntax rule of the constructor: one or two dashes followed by a name that starts
with neither `-` nor `=`. -/
def syntaxOk (tok : Str) : Bool :=
  match tok with
  | '-' :: '-' :: c :: _ => c != '-' && c != '='
  | ['-', '-'] => false
  | '-' :: c :: _ => c != '-' && c != '='
  | _ => false

/-- `user_input(arg)`; `none` = the constructor raises `parsing_error`. -/
def mkUI (tok : Str) : Option UI :=
  let (n, v) := splitEq tok
  let ui : UI := ⟨tok, n, v⟩
  if isValueTok n || isDoubleDashTok tok then some ui
  else if syntaxOk tok then some ui else none

def UI.isValue (u : UI) : Bool := isValueTok u.name
def UI.isDoubleDash (u : UI) : Bool := isDoubleDashTok u.arg
def UI.isShort (u : UI) : Bool :=
  match u.name with
  | '-' :: c :: _ => c != '-'
  | _ => false
def UI.isNamed (u : UI) : Bool :=
  match u.name with
  | '-' :: '-' :: c :: _ => c != '-'
  | _ => false
def UI.isArgument (u : UI) : Bool := u.isShort || u.isNamed
def UI.hasValue (u : UI) : Bool := u.isValue || u.value.isSome
def UI.hasPrefix (u : UI) : Bool := ['-', '-', 'n', 'o', '-'].isPrefixOf u.name
/-- `as_short_list()`: the letters behind the dash (a multiset in C++; only counts are used). -/
def UI.shortList (u : UI) : Str := u.name.drop 1
def UI.asNamed (u : UI) : Str := u.name.drop 2
def UI.nameWithoutPrefix (u : UI) : Str := u.name.drop 5
/-- `value()` for inputs that have one. -/
def UI.theValue (u : UI) : Str := if u.isValue then u.arg else u.value.getD []

/-! ### declarations (static) and parse state (dynamic) -/

structure OptD where
  name : Str
  short : Option Char
  env : Option Str
  dflt : Option Str
  optional : Bool
  deriving DecidableEq, Repr

structure MulD where
  name : Str
  short : Option Char
  env : Option Str
  dflt : Option (List Str)
  optional : Bool
  deriving DecidableEq, Repr

structure TogD where
  name : Str
  short : Option Char
  env : Option Str
  dflt : Int
  reversible : Bool
  deriving DecidableEq, Repr

structure Decl where
  opts : List OptD
  muls : List MulD
  togs : List TogD
  allowed : Option Nat      -- `none` = unlimited (size_t max)
  greedy : Bool
  deriving Repr

structure Dyn where
  val : Str → Option Str
  vals : Str → List Str
  given : Str → Int
  dirtyO : Str → Bool
  dirtyM : Str → Bool
  dirtyT : Str → Bool

/-- What `prepare()` leaves behind for every option: nothing. -/
def Dyn.fresh : Dyn := ⟨fun _ => none, fun _ => [], fun _ => 0, fun _ => false, fun _ => false, fun _ => false⟩

def upd {β : Type} (f : Str → β) (k : Str) (v : β) : Str → β := fun n => if n = k then v else f n

/-! ### matching -/

/-- `base::matches`. -/
def matchesBase (name : Str) (short : Option Char) (u : UI) : Bool :=
  if !u.isArgument then false
  else if short.isSome && u.isShort then
    let list := u.shortList
    if list.length > 1 && u.hasValue then false
    else match short with
      | some c => list.count c > 0
      | none => false
  else if u.isNamed then u.asNamed == name
  else false

/-- `toggle::matches`. -/
def matchesTog (t : TogD) (u : UI) : Bool :=
  if u.hasPrefix && u.nameWithoutPrefix == t.name then true
  else matchesBase t.name t.short u

/-! ### update_value -/

def updateOpt (s : Dyn) (o : OptD) (v : Str) : Except Err Dyn :=
  if (s.val o.name).isSome then .error .user      -- option was already given
  else .ok { s with val := upd s.val o.name (some v), dirtyO := upd s.dirtyO o.name true }

def updateMul (s : Dyn) (m : MulD) (v : Str) : Except Err Dyn :=
  .ok { s with vals := upd s.vals m.name (s.vals m.name ++ [v]), dirtyM := upd s.dirtyM m.name true }

/-- What one positive occurrence adds: the letter's multiplicity in a short token, one for a long one. -/
def letterCount (t : TogD) (ls : Str) : Int :=
  match t.short with
  | some c => (ls.count c : Int)
  | none => 0

def togInc (t : TogD) (u : UI) : Int :=
  if u.isShort then letterCount t u.shortList else 1

def updateTog (s : Dyn) (t : TogD) (u : UI) : Except Err Dyn :=
  if u.hasValue then .error .user                 -- a toggle cannot be given a value
  else if u.hasPrefix && u.nameWithoutPrefix == t.name then
    if !t.reversible then .error .user
    else if s.dirtyT t.name && s.given t.name != 0 then .error .user
    else .ok { s with given := upd s.given t.name 0, dirtyT := upd s.dirtyT t.name true }
  else
    if s.dirtyT t.name && s.given t.name == 0 then .error .user
    else
      .ok { s with given := upd s.given t.name (s.given t.name + togInc t u), dirtyT := upd s.dirtyT t.name true }

/-! ### the parse loop -/

/-- `try_parse_as_option` over the single-valued options: first match in map order.
Returns `none` if nothing matched, else the new state and whether the next token was consumed. -/
def tryOpts (s : Dyn) (u : UI) (next : Option Str) : List OptD → Option (Except Err (Dyn × Bool))
  | [] => none
  | o :: rest =>
    if matchesBase o.name o.short u then
      if u.hasValue then some ((updateOpt s o u.theValue).map (·, false))
      else match next with
        | some n => if isValueTok n then some ((updateOpt s o n).map (·, true)) else some (.error .user)
        | none => some (.error .user)             -- missing value for required option
    else tryOpts s u next rest

def tryMuls (s : Dyn) (u : UI) (next : Option Str) : List MulD → Option (Except Err (Dyn × Bool))
  | [] => none
  | m :: rest =>
    if matchesBase m.name m.short u then
      if u.hasValue then some ((updateMul s m u.theValue).map (·, false))
      else match next with
        | some n => if isValueTok n then some ((updateMul s m n).map (·, true)) else some (.error .user)
        | none => some (.error .user)
    else tryMuls s u next rest

/-- `try_parse_as_toggle`: visits every toggle, remembers whether any matched. -/
def tryTogs (u : UI) : Dyn → Bool → List TogD → Except Err (Dyn × Bool)
  | s, found, [] => .ok (s, found)
  | s, found, t :: rest =>
    if matchesTog t u then
      match updateTog s t u with
      | .error e => .error e
      | .ok s' => tryTogs u s' true rest
    else tryTogs u s found rest

/-- `check_short_list`: in a value-less short token with two or more letters every letter has to be
the short name of a toggle. -/
def shortListOk (d : Decl) (u : UI) : Bool :=
  if !u.isShort || u.hasValue then true
  else if u.shortList.length < 2 then true
  else u.shortList.all fun c => d.togs.any fun t => t.short == some c

structure LoopSt where
  dyn : Dyn
  pos : List Str
  onlyPos : Bool

/-- The `for` loop of `parser::parse_tokens`. -/
def loop (d : Decl) (st : LoopSt) (toks : List Str) : Except Err LoopSt :=
  match toks with
  | [] => .ok st
  | tok :: rest =>
    if st.onlyPos || isValueTok tok then
      if d.allowed == some st.pos.length then .error .user     -- unexpected positional
      else loop d { st with pos := st.pos ++ [tok], onlyPos := st.onlyPos || d.greedy } rest
    else
      match mkUI tok with
      | none => .error .user                                    -- token syntax
      | some u =>
        if u.isDoubleDash then loop d { st with onlyPos := true } rest
        else if !shortListOk d u then .error .user
        else
          match tryOpts st.dyn u rest.head? d.opts with
          | some (.error e) => .error e
          | some (.ok (s', consumed)) => loop d { st with dyn := s' } (if consumed then rest.tail else rest)
          | none =>
            match tryMuls st.dyn u rest.head? d.muls with
            | some (.error e) => .error e
            | some (.ok (s', consumed)) => loop d { st with dyn := s' } (if consumed then rest.tail else rest)
            | none =>
              match tryTogs u st.dyn false d.togs with
              | .error e => .error e
              | .ok (s', true) => loop d { st with dyn := s' } rest
              | .ok (_, false) => .error .user                  -- could not be parsed
termination_by toks.length
decreasing_by
  all_goals simp_wf
  all_goals (try omega)
  all_goals (split <;> (try simp) <;> (try omega))
  all_goals (cases rest <;> simp <;> omega)

/-! ### check() -/

abbrev Env := Str → Option Str

/-- `nitro::env::get(name)` with the empty default. -/
def envVal (env : Env) (name : Str) : Str := (env name).getD []

/-- The value of the bound environment variable, empty when nothing is bound. -/
def envOf (env : Env) : Option Str → Str
  | some n => envVal env n
  | none => []

/-- `std::getline(str, element, ';')` until it fails: pieces between `;`, a final empty piece dropped. -/
def splitSemiGo : Str → Str → List Str
  | [], cur => if cur = [] then [] else [cur.reverse]
  | c :: cs, cur => if c = ';' then cur.reverse :: splitSemiGo cs [] else splitSemiGo cs (c :: cur)

def splitSemi (s : Str) : List Str := splitSemiGo s []

def truthy : List Str := [
  ['T', 'R', 'U', 'E'], ['O', 'N'], ['Y', 'E', 'S'], ['t', 'r', 'u', 'e'], ['o', 'n'], ['y', 'e', 's'], ['1'],
  ['Y'], ['w', 'i', 't', 'h'], ['T', 'r', 'u', 'e'], ['O', 'n'], ['W', 'I', 'T', 'H'], ['W', 'i', 't', 'h'], ['y'],
  ['Y', 'e', 's']]

def falsy : List Str := [
  ['f', 'a', 'l', 's', 'e'], ['F', 'A', 'L', 'S', 'E'], ['w', 'i', 't', 'h', 'o', 'u', 't'], ['0'], ['N', 'O'], ['n', 'o'],
  ['W', 'i', 't', 'h', 'o', 'u', 't'], ['n'], ['o', 'f', 'f'], ['O', 'F', 'F'], ['N'], ['F', 'a', 'l', 's', 'e'], ['O', 'f', 'f'],
  ['W', 'I', 'T', 'H', 'O', 'U', 'T'], ['N', 'o']]

/-- `toggle::parse_env_value`; `none` = raises `parsing_error`. -/
def parseEnvWord (w : Str) : Option Bool :=
  if truthy.contains w then some true
  else if falsy.contains w then some false
  else none

def checkOpt (env : Env) (s : Dyn) (o : OptD) : Except Err Dyn :=
  if (s.val o.name).isSome then .ok s
  else
    let e := envOf env o.env
    if e != [] then
      .ok { s with val := upd s.val o.name (some e), dirtyO := upd s.dirtyO o.name true }
    else match o.dflt with
      | some dv => .ok { s with val := upd s.val o.name (some dv) }
      | none => if o.optional then .ok s else .error .user

def checkMul (env : Env) (s : Dyn) (m : MulD) : Except Err Dyn :=
  if s.vals m.name != [] then .ok s
  else
    let e := envOf env m.env
    if e != [] then
      let parts := splitSemi e
      .ok { s with vals := upd s.vals m.name parts,
                   dirtyM := upd s.dirtyM m.name (s.dirtyM m.name || parts != []) }
    else match m.dflt with
      | some dv => .ok { s with vals := upd s.vals m.name dv }
      | none => if m.optional then .ok s else .error .user

def checkTog (env : Env) (s : Dyn) (t : TogD) : Except Err Dyn :=
  if s.dirtyT t.name then .ok s
  else
    let e := envOf env t.env
    if e != [] then
      match parseEnvWord e with
      | some b => .ok { s with given := upd s.given t.name (if b then 1 else 0), dirtyT := upd s.dirtyT t.name true }
      | none => .error .user
    else .ok { s with given := upd s.given t.name t.dflt }

def foldCheck {α : Type} (f : Dyn → α → Except Err Dyn) : Dyn → List α → Except Err Dyn
  | s, [] => .ok s
  | s, x :: xs => match f s x with
    | .error e => .error e
    | .ok s' => foldCheck f s' xs

/-- `validate_options()`: options, then multi-options, then toggles, each in map order. -/
def validate (d : Decl) (env : Env) (s : Dyn) : Except Err Dyn :=
  match foldCheck (checkOpt env) s d.opts with
  | .error e => .error e
  | .ok s1 => match foldCheck (checkMul env) s1 d.muls with
    | .error e => .error e
    | .ok s2 => foldCheck (checkTog env) s2 d.togs

/-! ### parse -/

/-- `check_parser_consistency`: short names pairwise distinct over all options of all kinds, and (for
the reversal syntax) no option is called `no-<toggle>`. -/
def shortNames (d : Decl) : List Char :=
  d.opts.filterMap (·.short) ++ d.muls.filterMap (·.short) ++ d.togs.filterMap (·.short)

def allNames (d : Decl) : List Str :=
  d.opts.map (·.name) ++ d.muls.map (·.name) ++ d.togs.map (·.name)

def consistent (d : Decl) : Bool :=
  (shortNames d).Nodup && d.togs.all fun t => !(allNames d).contains (['n', 'o', '-'] ++ t.name)

/-- The observable result (`arguments`). -/
structure Result where
  togs : List (Str × Int)
  opts : List (Str × Option Str)
  muls : List (Str × List Str)
  pos : List Str
  provided : List Str
  deriving DecidableEq, Repr

def mkResult (d : Decl) (s : Dyn) (pos : List Str) : Result :=
  { togs := d.togs.map fun t => (t.name, s.given t.name),
    opts := d.opts.map fun o => (o.name, s.val o.name),
    muls := d.muls.map fun m => (m.name, s.vals m.name),
    pos := pos,
    provided := (d.opts.filter fun o => s.dirtyO o.name).map (·.name) ++
                (d.muls.filter fun m => s.dirtyM m.name).map (·.name) ++
                (d.togs.filter fun t => s.dirtyT t.name).map (·.name) }

/-- `parser::parse` on a parser object whose options carry `s` from earlier calls.
Returns the state left in the objects and the outcome. -/
def parseOn (d : Decl) (s : Dyn) (env : Env) (argv : List Str) : Dyn × Except Err Result :=
  if !consistent d then (s, .error .dev)
  else
    -- prepare_options(): every option forgets the previous parse
    let s0 := Dyn.fresh
    match loop d ⟨s0, [], false⟩ argv with
    | .error e => (s0, .error e)     -- (the objects keep whatever the loop had done; not observable: next parse prepares again)
    | .ok st =>
      match validate d env st.dyn with
      | .error e => (st.dyn, .error e)
      | .ok s2 => (s2, .ok (mkResult d s2 st.pos))

def parse (d : Decl) (env : Env) (argv : List Str) : Except Err Result :=
  (parseOn d Dyn.fresh env argv).2

/-- `arguments::get(int)`: negative indices count from the end; `none` = `std::out_of_range`. -/
def argGet (pos : List Str) (i : Int) : Option Str :=
  let j := if i < 0 then i + pos.length else i
  if j < 0 then none else pos[j.toNat]?

end NitroVerif.Opt
