/-
Model of the logging front end: `include/nitro/log/{stream,logger,severity}.hpp`,
`filter/{severity,and,or,not,null}_filter.hpp`, `sink/sequence.hpp`.

A statement `logger::<sev>(tag) << a << b …` creates `smart_stream` objects.  An object is
`(rec, buf)`: the record (present iff the statement will be logged) and the string buffer.
Construction evaluates the filter once; an insertion into an rvalue appends (if the buffer
exists) and *moves* record and buffer into a new temporary; an insertion into a named stream
appends in place; a destructor formats and sinks iff the record is present.  Temporaries die in
reverse order of creation at the end of the full expression, a named stream at the end of its
scope.  Below the compile-time minimum the statement is a `null_stream`: nothing happens.
-/
namespace NitroVerif.Log

abbrev Str := List Char
abbrev Sev := Nat        -- trace 0 … fatal 5

inductive FExpr where
  | thr (n : Nat)                 -- severity_filter<Record, n>: r.severity() >= threshold n
  | and (a b : FExpr)
  | or (a b : FExpr)
  | not (a : FExpr)               -- not_filter<not_filter<F>> is specialised to F itself: same value
  | null                          -- null_filter: always true
  | tagNot (t : Str)              -- a user-written filter that mutes one tag: `r.tag() != t`
  deriving DecidableEq, Repr

/-- A filter sees the record the statement has built so far: its severity and its tag (a null or
empty tag leaves the record's tag empty). -/
def evalF (th : Nat → Sev) : FExpr → Sev → Option Str → Bool
  | .thr n, s, _ => decide (th n ≤ s)
  | .and a b, s, t => evalF th a s t && evalF th b s t
  | .or a b, s, t => evalF th a s t || evalF th b s t
  | .not a, s, t => !evalF th a s t
  | .null, _, _ => true
  | .tagNot x, _, t => decide (t.getD [] ≠ x)

inductive Item where
  | text (s : Str)                -- anything with a stream representation (already rendered)
  | lazy (id : Nat) (s : Str)     -- a callable returning `s`; calling it is observable
  deriving DecidableEq, Repr

/-- What is written in the source: the items above, or a value whose inserter puts the statement's
string stream into the failed state and writes nothing (`os.setstate(std::ios_base::failbit)`). -/
inductive RawItem where
  | text (s : Str)
  | lazy (id : Nat) (s : Str)
  | fail
  deriving DecidableEq, Repr

/-- The iostream rule for a failed stream: insertions are ignored, their operands are still
evaluated.  `silence failed raw` is what the items amount to for the string stream when it is
already failed (`failed = true`) or not: behind the first failing value every item carries no text,
a callable stays a callable. -/
def silence : Bool → List RawItem → List Item
  | _, [] => []
  | _, .fail :: rest => .text [] :: silence true rest
  | failed, .text s :: rest => .text (if failed then [] else s) :: silence failed rest
  | failed, .lazy id s :: rest => .lazy id (if failed then [] else s) :: silence failed rest

inductive Event where
  | lazyCall (id : Nat)
  | fmt (sev : Sev) (tag : Option Str) (msg : Str)      -- Formatter::format(record)
  | sink (member : Nat) (sev : Sev) (tag : Option Str) (msg : Str)  -- member sink receives the formatted record
  deriving DecidableEq, Repr

structure Cfg where
  minSev : Sev
  filter : FExpr
  members : Nat                   -- number of member sinks of the sequence (1 for a plain sink)

/-- a smart_stream object -/
structure Obj where
  live : Bool                     -- record present
  sev : Sev
  tag : Option Str
  buf : Option Str                -- the stringstream, if any

/-- `smart_stream(tag)`: filter evaluated once; rejected => record and buffer dropped -/
def construct (cfg : Cfg) (th : Nat → Sev) (sev : Sev) (tag : Option Str) : Obj :=
  if evalF th cfg.filter sev tag then ⟨true, sev, tag, some []⟩ else ⟨false, sev, tag, none⟩

/-- the body shared by all four `operator<<` overloads: `if (s) s.sstr() << t` (resp. `t()`) -/
def insertInto (o : Obj) (it : Item) : Obj × List Event :=
  match o.buf with
  | none => (o, [])
  | some b =>
    match it with
    | .text s => ({ o with buf := some (b ++ s) }, [])
    | .lazy id s => ({ o with buf := some (b ++ s) }, [.lazyCall id])

/-- `~smart_stream()` -/
def destroy (cfg : Cfg) (o : Obj) : List Event :=
  if o.live then
    let msg := o.buf.getD []
    .fmt o.sev o.tag msg :: (List.range cfg.members).map fun k => .sink k o.sev o.tag msg
  else []

/-- what a moved-from smart_stream looks like: `unique_ptr`s are null -/
def movedFrom (o : Obj) : Obj := { o with live := false, buf := none }

/-- An rvalue chain `<stream> << i1 << i2 …`: every insertion returns a new temporary holding
record and buffer; the emptied ones are collected (oldest first). -/
def rchain : Obj → List Item → Obj × List Obj × List Event
  | o, [] => (o, [], [])
  | o, it :: rest =>
    let (o1, ev1) := insertInto o it
    let (last, temps, ev2) := rchain o1 rest            -- `o1` moved into the returned temporary
    (last, movedFrom o1 :: temps, ev1 ++ ev2)

/-- insertions into a named stream, one after the other -/
def lchain : Obj → List Item → Obj × List Event
  | o, [] => (o, [])
  | o, it :: rest =>
    let (o1, ev1) := insertInto o it
    let (o2, ev2) := lchain o1 rest
    (o2, ev1 ++ ev2)

/-- One log statement.  `named = none`: a single expression `logger::sev(tag) << items…;`.
`named = some k`: `auto l = logger::sev(tag) << (first k items); l << …;` the rest item by item,
then `l` goes out of scope. -/
def statement (cfg : Cfg) (th : Nat → Sev) (sev : Sev) (tag : Option Str) (items : List Item)
    (named : Option Nat) : List Event :=
  if sev < cfg.minSev then []            -- null_stream: insertions discard, nothing is evaluated lazily
  else
    let o0 := construct cfg th sev tag
    match named with
    | none =>
      let (last, temps, ev) := rchain o0 items
      -- end of the full expression: temporaries destroyed in reverse order of creation
      ev ++ destroy cfg last ++ (temps.reverse.flatMap (destroy cfg))
    | some k =>
      let (init, temps, ev1) := rchain o0 (items.take k)
      -- `init` is the named object; the temporaries of its initialiser die at the end of that declaration
      let evT := temps.reverse.flatMap (destroy cfg)
      let (final, ev2) := lchain init (items.drop k)
      ev1 ++ evT ++ ev2 ++ destroy cfg final

/-- insertions into two named streams that are alive at the same time, alternating a, b, a, b, … -/
def interleave2 : Obj → Obj → List Item → List Item → Obj × Obj × List Event
  | a, b, [], js => let (b', ev) := lchain b js; (a, b', ev)
  | a, b, i :: is, [] => let (a', ev) := lchain a (i :: is); (a', b, ev)
  | a, b, i :: is, j :: js =>
    let (a1, e1) := insertInto a i
    let (b1, e2) := insertInto b j
    let (a2, b2, ev) := interleave2 a1 b1 is js
    (a2, b2, e1 ++ e2 ++ ev)

/-- Two named streams open at once in one scope:
`auto a = logger::sa(ta); auto b = logger::sb(tb); a << i1; b << j1; a << i2; …` — at the end of the
scope `b` is destroyed first, then `a`.  Each stream owns its own record and buffer. -/
def overlap (cfg : Cfg) (th : Nat → Sev) (sa : Sev) (ta : Option Str) (is : List Item)
    (sb : Sev) (tb : Option Str) (js : List Item) : List Event :=
  -- a stream below the compile-time minimum is a null_stream: nothing happens to it at all
  let mk := fun (sev : Sev) (tag : Option Str) =>
    if sev < cfg.minSev then (⟨false, sev, tag, none⟩ : Obj) else construct cfg th sev tag
  let (a, b, ev) := interleave2 (mk sa ta) (mk sb tb) is js
  ev ++ destroy cfg b ++ destroy cfg a

inductive Op where
  | setThr (n : Nat) (s : Sev)
  | stmt (sev : Sev) (tag : Option Str) (items : List Item) (named : Option Nat)
  | overlap (sa : Sev) (ta : Option Str) (is : List Item) (sb : Sev) (tb : Option Str) (js : List Item)
  deriving Repr

def run (cfg : Cfg) : (Nat → Sev) → List Op → List Event
  | _, [] => []
  | th, .setThr n s :: rest => run cfg (fun k => if k = n then s else th k) rest
  | th, .stmt sev tag items named :: rest => statement cfg th sev tag items named ++ run cfg th rest
  | th, .overlap sa ta is sb tb js :: rest => overlap cfg th sa ta is sb tb js ++ run cfg th rest

/-- A callable may itself reconfigure the logger: here, a callable with id `900 + n` sets threshold 0 to
`n` when it is called.  `thAfter th evs` is the threshold table after the callables in `evs` ran. -/
def thAfter (th : Nat → Sev) (evs : List Event) : Nat → Sev :=
  evs.foldl (fun th e => match e with
    | .lazyCall id => if id ≥ 900 then (fun k => if k = 0 then id - 900 else th k) else th
    | _ => th) th

/-- `run` with such callables: a statement runs under the thresholds in force when it starts (its filter
is evaluated once, at construction — a change made by one of its own callables does not touch it), the
next operation under whatever its callables left behind. -/
def runT (cfg : Cfg) : (Nat → Sev) → List Op → List Event
  | _, [] => []
  | th, .setThr n s :: rest => runT cfg (fun k => if k = n then s else th k) rest
  | th, .stmt sev tag items named :: rest =>
    let evs := statement cfg th sev tag items named
    evs ++ runT cfg (thAfter th evs) rest
  | th, .overlap sa ta is sb tb js :: rest =>
    let evs := overlap cfg th sa ta is sb tb js
    evs ++ runT cfg (thAfter th evs) rest

/-- the type of `logger::<sev>()` is `null_stream` iff the severity is below the compile-time minimum -/
def streamIsNull (minSev sev : Sev) : Bool := decide (sev < minSev)

end NitroVerif.Log
