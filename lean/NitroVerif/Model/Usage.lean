import NitroVerif.Model.Str

/-
Model of the usage text: `parser::usage`, `group::usage`, `base::format`, the three
`format_synopsis / format_value / format_default / format_name` families and
`io::terminal::format_padded`.

`formatPadded col text leftPad maxW` is what `format_padded(s, text, leftPad, maxW)` appends to a
stream whose write position `tellp()` is `col`.  `std::setw(n) << ' '` writes `max n 1` blanks.
-/
namespace NitroVerif.Usage
open NitroVerif.Str

abbrev Str := List Char

def blanks (n : Int) : Str := List.replicate (if n ≤ 1 then 1 else n.toNat) ' '

def untab (w : Str) : Str := w.map fun c => if c = '\t' then ' ' else c

/-- the loop of `format_padded` over the words; `pending` is the width set before the loop for the
first insertion (`none` once consumed or if not set) -/
def fpGo (leftPad maxW : Int) : Int → Option Int → List Str → Str
  | _, _, [] => []
  | space, pending, word :: rest =>
    let w := untab word
    let n : Int := w.length + 1
    let fitsNever : Bool := (0 ≤ maxW - leftPad) && decide (n > maxW - leftPad)   -- size_t comparison
    if fitsNever || decide (n ≤ space) then
      blanks (pending.getD 1) ++ w ++ fpGo leftPad maxW (space - n) none rest
    else
      '\n' :: blanks leftPad ++ w ++ fpGo leftPad maxW (maxW - leftPad - n) none rest

def formatPadded (col : Int) (text : Str) (leftPad maxW : Int) : Str :=
  let words := splitGo [' '] (by decide) text
  if col ≤ leftPad then fpGo leftPad maxW (maxW - leftPad) (some (leftPad - col)) words
  else fpGo leftPad maxW 0 none words

inductive Kind where
  | o | m | t
  deriving DecidableEq, Repr

structure Entry where
  kind : Kind
  name : Str
  short : Str            -- empty: none
  env : Str              -- empty: none
  metavar : Str
  description : Str
  dfltO : Option Str     -- option default
  dfltM : Option (List Str)
  dfltT : Int
  reversible : Bool
  deriving DecidableEq, Repr

structure Group where
  name : Str
  description : Str
  entries : List Entry   -- declaration order
  deriving DecidableEq, Repr

def formatName (e : Entry) : Str :=
  if e.kind = .t ∧ e.reversible then "--[no-]".toList ++ e.name else "--".toList ++ e.name

def formatSynopsis (e : Entry) : Str :=
  match e.kind with
  | .t => ['['] ++ formatName e ++ [']']
  | _ =>
    ['['] ++ (if e.short ≠ [] then ['-'] ++ e.short ++ "\t<".toList ++ e.metavar ++ "> | ".toList else []) ++
      formatName e ++ "\t<".toList ++ e.metavar ++ ">]".toList

def formatDefault (e : Entry) : Str :=
  match e.kind with
  | .o => match e.dfltO with
    | some d => "(default: ".toList ++ d ++ [')']
    | none => []
  | .m => match e.dfltM with
    | some ds => "(default: ".toList ++ join ds ", ".toList ++ [')']
    | none => []
  | .t => if e.reversible then
      (if e.dfltT ≠ 0 then "(default: enabled)".toList else "(default: disabled)".toList)
    else []

/-- `base::format`: one entry of the option section (built in a private string stream) -/
def formatEntry (e : Entry) : Str :=
  let left := "  ".toList ++ (if e.short ≠ [] then ['-'] ++ e.short ++ ", ".toList else []) ++ formatName e ++
    (if e.kind = .t then [] else ' ' :: e.metavar)
  let parts := [e.description] ++
    (if e.env ≠ [] then ["Can be set using the environment variable '".toList ++ e.env ++ "'.".toList] else []) ++
    [formatDefault e]
  let text := join parts [' ']
  left ++ (if text ≠ [] then formatPadded left.length text 40 80 else []) ++ ['\n']

def groupUsage (g : Group) : Str :=
  if g.entries = [] then []
  else ['\n'] ++ g.name ++ ":\n".toList ++
    (if g.description ≠ [] then ['\n'] ++ g.description ++ "\n\n".toList else []) ++
    (g.entries.map formatEntry).flatten

structure UDecl where
  app : Str
  about : Str
  groups : List Group        -- default group first, then creation order
  positionals : Bool         -- allowed_positionals_ != 0
  posName : Str

def allEntries (d : UDecl) : List Entry := (d.groups.map (·.entries)).flatten

/-- `parser::usage`.  `byName k` are the entries of kind `k` in map (name) order, `longToggles` the
toggles of the synopsis' long list in the order of the `std::set<toggle*>` (pointer order: read off
the implementation, see DESIGN). -/
def usage (d : UDecl) (togsByName optsByName mulsByName longToggles : List Entry) : Str :=
  let shortList := (togsByName.filter (·.short ≠ [])).map (·.short) |>.flatten
  let sorted := shortList.mergeSort (fun a b => a.toNat ≤ b.toNat)
  let syn : Str :=
    (if shortList ≠ [] then " [-".toList ++ sorted ++ [']'] else []) ++
    (longToggles.map fun t => ' ' :: formatSynopsis t).flatten ++
    (optsByName.map fun o => ' ' :: formatSynopsis o).flatten ++
    (mulsByName.map fun m => ' ' :: formatSynopsis m).flatten ++
    (if d.positionals then " [".toList ++ d.posName ++ " ...]".toList else [])
  let head := "usage: ".toList ++ d.app
  head ++ (if syn ≠ [] then formatPadded head.length (syn.drop 1) (8 + d.app.length) 80 else []) ++
    "\n\n".toList ++ (if d.about ≠ [] then d.about ++ "\n\n".toList else []) ++
    (d.groups.map groupUsage).flatten

end NitroVerif.Usage
