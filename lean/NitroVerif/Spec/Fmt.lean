/-! Specification vocabulary for C08. -/
namespace NitroVerif.Fmt

/-- The format's pieces with the i-th argument put between piece i and piece i+1. -/
def interleave {α : Type} : List (List α) → List (List α) → List α
  | [], _ => []
  | [p], _ => p
  | p :: q :: ps, [] => p ++ interleave (q :: ps) []
  | p :: q :: ps, a :: as => p ++ a ++ interleave (q :: ps) as

end NitroVerif.Fmt
