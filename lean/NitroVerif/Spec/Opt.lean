import NitroVerif.Model.Opt

/-!
Specification of the option parser, written for readability with no regard to how
the C++ works: a command line is *explained* token by token as a list of items
(`explain`), and a list of items is *interpreted* per option (`interp`) — nothing
depends on the order of items except the order of a multi-option's values and of
the positionals.  `render` spells an item list back into tokens.
-/
namespace NitroVerif.Opt

inductive Item where
  | pos (s : Str)                                  -- one token, verbatim
  | sep                                            -- the first `--`
  | optSep (name : Str) (short : Bool) (v : Str)   -- two tokens: `--name v` / `-s v`
  | optEq (name : Str) (short : Bool) (v : Str)    -- one token:  `--name=v` / `-s=v`
  | togLong (name : Str)                           -- `--name`
  | togNeg (name : Str)                            -- `--no-name`
  | togShort (letters : List Char)                 -- `-abc` (one or more letters, all toggles)
  deriving DecidableEq, Repr

/-! ### looking things up in a declaration -/

/-- value-taking options (single and multi) as (name, letter) -/
def valueOpts (d : Decl) : List (Str × Option Char) :=
  d.opts.map (fun o => (o.name, o.short)) ++ d.muls.map (fun m => (m.name, m.short))

def isValueOptName (d : Decl) (n : Str) : Bool := (valueOpts d).any (·.1 == n)
def valueOptOfLetter (d : Decl) (c : Char) : Option Str :=
  ((valueOpts d).find? (·.2 == some c)).map (·.1)
def letterOf (d : Decl) (n : Str) : Option Char :=
  match (valueOpts d).find? (·.1 == n) with
  | some (_, s) => s
  | none => none
def isTogName (d : Decl) (n : Str) : Bool := d.togs.any (·.name == n)
def isTogLetter (d : Decl) (c : Char) : Bool := d.togs.any (·.short == some c)

/-! ### render -/

def dashes : Str := ['-', '-']
def noPrefix : Str := ['n', 'o', '-']

def spell (d : Decl) (n : Str) (short : Bool) : Str :=
  if short then (match letterOf d n with | some c => ['-', c] | none => dashes ++ n) else dashes ++ n

def renderItem (d : Decl) : Item → List Str
  | .pos s => [s]
  | .sep => [dashes]
  | .optSep n sh v => [spell d n sh, v]
  | .optEq n sh v => [spell d n sh ++ '=' :: v]
  | .togLong n => [dashes ++ n]
  | .togNeg n => [dashes ++ noPrefix ++ n]
  | .togShort ls => ['-' :: ls]

def render (d : Decl) (items : List Item) : List Str := items.flatMap (renderItem d)

/-! ### explain -/

/-- The shape of an option-like token: `--name[=value]` or `-letters[=value]`; `none` if it is not
valid option syntax (one or two dashes followed by a name that starts with neither `-` nor `=`). -/
inductive Shape where
  | long (n : Str) (v : Option Str)
  | short (letters : Str) (v : Option Str)
  deriving DecidableEq, Repr

def shapeOf (tok : Str) : Option Shape :=
  if !syntaxOk tok then none else
  match splitEq tok with
  | ('-' :: '-' :: n, v) => some (.long n v)
  | ('-' :: letters, v) => some (.short letters v)
  | _ => none

/-- a value-taking option spelled `head` got value `v` inline, or takes the next token as its value -/
def explainValue (n : Str) (short : Bool) (value : Option Str) (next : Option Str) : Option (Item × Bool) :=
  match value with
  | some v => some (.optEq n short v, false)
  | none =>
    match next with
    | some nx => if isValueTok nx then some (.optSep n short nx, true) else none
    | none => none

def explainLong (d : Decl) (n : Str) (value : Option Str) (next : Option Str) : Option (Item × Bool) :=
  if isValueOptName d n then explainValue n false value next
  else if isTogName d n then
    (if value.isSome then none else some (.togLong n, false))
  else if noPrefix.isPrefixOf n && isTogName d (n.drop 3) then
    (if value.isSome then none else some (.togNeg (n.drop 3), false))
  else none

def explainShort (d : Decl) (letters : Str) (value : Option Str) (next : Option Str) : Option (Item × Bool) :=
  match letters with
  | [c] =>
    match valueOptOfLetter d c with
    | some n => explainValue n true value next
    | none => if value.isNone && isTogLetter d c then some (.togShort [c], false) else none
  | _ => if value.isNone && letters.all (isTogLetter d) then some (.togShort letters, false) else none

/-- Explain one option-like token (not a value token, not `--`, only-positionals mode off).
`next` is the following token.  Returns the item and whether the next token belongs to it. -/
def explainTok (d : Decl) (tok : Str) (next : Option Str) : Option (Item × Bool) :=
  match shapeOf tok with
  | none => none
  | some (.long n v) => explainLong d n v next
  | some (.short ls v) => explainShort d ls v next

/-- One left-to-right classification of the whole argument vector. -/
def explainGo (d : Decl) (onlyPos : Bool) (toks : List Str) : Option (List Item) :=
  match toks with
  | [] => some []
  | tok :: rest =>
    if onlyPos || isValueTok tok then
      (explainGo d (onlyPos || d.greedy) rest).map (.pos tok :: ·)
    else if isDoubleDashTok tok then
      (explainGo d true rest).map (.sep :: ·)
    else
      match explainTok d tok rest.head? with
      | none => none
      | some (it, false) => (explainGo d false rest).map (it :: ·)
      | some (it, true) => (explainGo d false rest.tail).map (it :: ·)
termination_by toks.length
decreasing_by
  all_goals simp_wf
  all_goals (try omega)
  all_goals (cases rest <;> simp <;> omega)

def explain (d : Decl) (argv : List Str) : Option (List Item) := explainGo d false argv

/-! ### interp -/

/-- values given to the value-taking option `n`, in command-line order -/
def cliValues (n : Str) (items : List Item) : List Str :=
  items.filterMap fun it => match it with
    | .optSep m _ v => if m = n then some v else none
    | .optEq m _ v => if m = n then some v else none
    | _ => none

/-- positive occurrences of toggle `t`: each long spelling and each occurrence of its letter -/
def posCount (t : TogD) (items : List Item) : Nat :=
  (items.map fun it => match it with
    | .togLong n => if n = t.name then 1 else 0
    | .togShort ls => (match t.short with | some c => ls.count c | none => 0)
    | _ => 0).sum

def negCount (t : TogD) (items : List Item) : Nat :=
  (items.filter fun it => it == .togNeg t.name).length

def positionalsOf (items : List Item) : List Str :=
  items.filterMap fun it => match it with | .pos s => some s | _ => none

def envNonEmpty (env : Env) (name : Option Str) : Option Str :=
  match name with
  | some n => (match env n with | some v => if v = [] then none else some v | none => none)
  | none => none

def interpOpt (env : Env) (items : List Item) (o : OptD) : Except Err (Option Str × Bool) :=
  match cliValues o.name items with
  | _ :: _ :: _ => .error .user                         -- given twice, in any mix of spellings
  | [v] => .ok (some v, true)
  | [] =>
    match envNonEmpty env o.env with
    | some e => .ok (some e, true)
    | none =>
      match o.dflt with
      | some dv => .ok (some dv, false)
      | none => if o.optional then .ok (none, false) else .error .user

def interpMul (env : Env) (items : List Item) (m : MulD) : Except Err (List Str × Bool) :=
  match cliValues m.name items with
  | v :: vs => .ok (v :: vs, true)
  | [] =>
    match envNonEmpty env m.env with
    | some e => .ok (splitSemi e, true)
    | none =>
      match m.dflt with
      | some dv => .ok (dv, false)
      | none => if m.optional then .ok ([], false) else .error .user

def interpTog (env : Env) (items : List Item) (t : TogD) : Except Err (Int × Bool) :=
  let p := posCount t items
  let n := negCount t items
  if n > 0 && !t.reversible then .error .user             -- `--no-` on a toggle that is not reversible
  else if n > 0 && p > 0 then .error .user                -- both polarities, in either order
  else if n > 0 then .ok (0, true)
  else if p > 0 then .ok (p, true)
  else
    match envNonEmpty env t.env with
    | some e =>
      match parseEnvWord e with
      | some b => .ok (if b then 1 else 0, true)
      | none => .error .user
    | none => .ok (t.dflt, false)

def mapAll {α β : Type} (f : α → Except Err β) : List α → Except Err (List β)
  | [] => .ok []
  | x :: xs => match f x with
    | .error e => .error e
    | .ok y => match mapAll f xs with
      | .error e => .error e
      | .ok ys => .ok (y :: ys)

/-- more positionals than `accept_positionals(n)` allows (`none`: any number) -/
def tooMany (d : Decl) (k : Nat) : Bool :=
  match d.allowed with
  | some n => decide (n < k)
  | none => false

def interp (d : Decl) (env : Env) (items : List Item) : Except Err Result :=
  let pos := positionalsOf items
  if tooMany d pos.length then .error .user else
  match mapAll (interpOpt env items) d.opts, mapAll (interpMul env items) d.muls,
        mapAll (interpTog env items) d.togs with
  | .ok os, .ok ms, .ok ts =>
    .ok { togs := (d.togs.zip ts).map fun (t, r) => (t.name, r.1),
          opts := (d.opts.zip os).map fun (o, r) => (o.name, r.1),
          muls := (d.muls.zip ms).map fun (m, r) => (m.name, r.1),
          pos := pos,
          provided := ((d.opts.zip os).filter (·.2.2)).map (·.1.name) ++
                      ((d.muls.zip ms).filter (·.2.2)).map (·.1.name) ++
                      ((d.togs.zip ts).filter (·.2.2)).map (·.1.name) }
  | _, _, _ => .error .user

/-- The whole specification. -/
def specParse (d : Decl) (env : Env) (argv : List Str) : Except Err Result :=
  if !consistent d then .error .dev else
  match explain d argv with
  | none => .error .user
  | some items => interp d env items

end NitroVerif.Opt
