import NitroVerif.Model.FV

/-!
Reference for C07: an ordinary list bounded by a capacity.  No slots, no storage.
-/
namespace NitroVerif.FV.Ref

/-- The same operation alphabet applied to a plain list `l` with bound `cap`. -/
def apply (cap : Nat) (l : List Slot) (op : Op) : List Slot × Res :=
  match op with
  | .emplaceBack x | .insertC x | .insertM x | .pushBack x =>
    if l.length ≥ cap then (l, .raised) else (l ++ [.val x], .ok)
  | .pushRange xs =>
    -- appends what fits; raises if something did not fit
    (l ++ (xs.map Slot.val).take (cap - l.length), if xs.length ≤ cap - l.length then .ok else .raised)
  | .range pos xs =>
    -- only used at pos = l.length (append); interior ranges are outside C07's alphabet
    (l ++ (xs.map Slot.val).take (cap - l.length), if xs.length ≤ cap - l.length then .ok else .raised)
  | .emplaceAt pos x =>
    if pos > l.length ∨ l.length ≥ cap then (l, .raised)
    else (l.take pos ++ .val x :: l.drop pos, .ok)     -- insert before `pos`
  | .erase pos =>
    if pos ≥ l.length then (l, .raised) else (l.take pos ++ l.drop (pos + 1), .ok)
  | .pop => if l.length = 0 then (l, .raised) else (l.dropLast, .ok)
  | .atKey key => (l, match l[key]? with | some s => .elem s | none => .raised)
  | .index key => (l, match l[key]? with | some s => .elem s | none => .raised)

/-- An argument that refers to an element of the list is that element's value at call time. -/
def applyA (cap : Nat) (l : List Slot) (a : AOp) : List Slot × Res :=
  match resolveL l a with
  | some op => apply cap l op
  | none => (l, .raised)

def run (cap : Nat) (l : List Slot) : List Op → List Slot
  | [] => l
  | op :: rest => run cap (apply cap l op).1 rest

end NitroVerif.FV.Ref
