import NitroVerif.Model.Hash

/-! Specification for C16: three-way lexicographic comparison of member tuples. -/
namespace NitroVerif.Hash

/-- Lexicographic comparison: the first differing member decides. -/
def cmp : Val → Val → Ordering
  | .leaf r _, .leaf s _ => compare r s
  | .cons x t, .cons y u => (cmp x y).then (cmp t u)
  | .pair a b, .pair c d => (cmp a c).then (cmp b d)
  | _, _ => .eq

end NitroVerif.Hash
