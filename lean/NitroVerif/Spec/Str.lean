/-
Specification vocabulary for the string laws (C17), written without regard to
how the C++ works.
-/
namespace NitroVerif.Str

variable {α : Type} [DecidableEq α]

/-- Pieces glued back together with the separator between neighbours. -/
def glue (sep : List α) : List (List α) → List α
  | [] => []
  | [x] => x
  | x :: y :: rest => x ++ sep ++ glue sep (y :: rest)

/-- `glue` is the library's `List.intercalate`. -/
theorem glue_eq_intercalate (sep : List α) (xs : List (List α)) :
    glue sep xs = List.intercalate sep xs := by
  induction xs with
  | nil => simp [glue, List.intercalate]
  | cons x rest ih =>
    cases rest with
    | nil => simp [glue, List.intercalate]
    | cons y rest =>
      simp only [glue, ih]
      simp [List.intercalate, List.intersperse, List.append_assoc]

/-- Number of left-to-right non-overlapping occurrences of `needle` in the
string: scan from the left; at an occurrence count it and continue behind it,
otherwise move on by one character. -/
def countOcc (needle : List α) (hn : needle ≠ []) (hay : List α) : Nat :=
  match hay with
  | [] => 0
  | c :: cs =>
    if needle.isPrefixOf (c :: cs) then 1 + countOcc needle hn ((c :: cs).drop needle.length)
    else countOcc needle hn cs
termination_by hay.length
decreasing_by
  · have : 0 < needle.length := List.length_pos_iff.mpr hn
    simp only [List.length_drop, List.length_cons]; omega
  · simp

/-- Spec for `replace_all`, independent of `find?`: scan from the left, replace
at an occurrence and continue behind it. -/
def replaceSpec (pat : List α) (hn : pat ≠ []) (rep : List α) (hay : List α) : List α :=
  match hay with
  | [] => []
  | c :: cs =>
    if pat.isPrefixOf (c :: cs) then rep ++ replaceSpec pat hn rep ((c :: cs).drop pat.length)
    else c :: replaceSpec pat hn rep cs
termination_by hay.length
decreasing_by
  · have : 0 < pat.length := List.length_pos_iff.mpr hn
    simp only [List.length_drop, List.length_cons]; omega
  · simp

end NitroVerif.Str
