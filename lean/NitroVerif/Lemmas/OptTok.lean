import NitroVerif.Model.Opt
import NitroVerif.Spec.Opt

/-! Facts about tokens: `splitEq`, `shapeOf`, and what `mkUI` and the `UI` predicates say for each shape. -/
namespace NitroVerif.Opt

/-- the text behind a split point -/
def eqTail : Option Str → Str
  | some v => '=' :: v
  | none => []

theorem splitEq_join (tok : Str) : (splitEq tok).1 ++ eqTail (splitEq tok).2 = tok := by
  induction tok with
  | nil => simp [splitEq, eqTail]
  | cons c cs ih =>
    unfold splitEq
    by_cases hc : c = '='
    · subst hc; simp [eqTail]
    · simp only [hc, if_false]
      simpa using ih

theorem splitEq_cons (c : Char) (cs : Str) (hc : c ≠ '=') :
    splitEq (c :: cs) = (c :: (splitEq cs).1, (splitEq cs).2) := by
  conv => lhs; unfold splitEq
  simp [hc]

theorem shapeOf_syntaxOk {tok : Str} {sh : Shape} (h : shapeOf tok = some sh) : syntaxOk tok = true := by
  unfold shapeOf at h
  by_cases hs : syntaxOk tok = true
  · exact hs
  · simp [hs] at h

theorem shapeOf_long_split {tok n : Str} {v : Option Str} (h : shapeOf tok = some (.long n v)) :
    splitEq tok = ('-' :: '-' :: n, v) := by
  have hs := shapeOf_syntaxOk h
  unfold shapeOf at h
  simp only [hs, Bool.not_true, Bool.false_eq_true, if_false] at h
  split at h
  · rename_i n' v' heq
    simp only [Option.some.injEq, Shape.long.injEq] at h
    rw [heq, h.1, h.2]
  · simp at h
  · simp at h

theorem shapeOf_short_split {tok ls : Str} {v : Option Str} (h : shapeOf tok = some (.short ls v)) :
    splitEq tok = ('-' :: ls, v) ∧ ∀ r, ls ≠ '-' :: r := by
  have hs := shapeOf_syntaxOk h
  unfold shapeOf at h
  simp only [hs, Bool.not_true, Bool.false_eq_true, if_false] at h
  split at h
  · simp at h
  · rename_i ls' v' hnl heq
    simp only [Option.some.injEq, Shape.short.injEq] at h
    refine ⟨by rw [heq, h.1, h.2], ?_⟩
    intro r hr
    rw [← h.1] at hr
    subst hr
    exact hnl r rfl
  · simp at h

/-- What a valid shape says about the token text. -/
theorem shapeOf_long {tok n : Str} {v : Option Str} (h : shapeOf tok = some (.long n v)) :
    tok = '-' :: '-' :: n ++ eqTail v ∧ splitEq tok = ('-' :: '-' :: n, v) ∧
    ∃ c r, n = c :: r ∧ c ≠ '-' ∧ c ≠ '=' := by
  have hsp := shapeOf_long_split h
  have hs := shapeOf_syntaxOk h
  have hj := splitEq_join tok
  rw [hsp] at hj
  simp only at hj
  refine ⟨hj.symm, hsp, ?_⟩
  rw [← hj] at hs
  cases n with
  | nil => cases v <;> simp [eqTail, syntaxOk] at hs
  | cons c r =>
    simp only [List.cons_append, syntaxOk, Bool.and_eq_true, bne_iff_ne, ne_eq] at hs
    exact ⟨c, r, rfl, hs.1, hs.2⟩

theorem shapeOf_short {tok ls : Str} {v : Option Str} (h : shapeOf tok = some (.short ls v)) :
    tok = '-' :: ls ++ eqTail v ∧ splitEq tok = ('-' :: ls, v) ∧
    ∃ c r, ls = c :: r ∧ c ≠ '-' ∧ c ≠ '=' := by
  obtain ⟨hsp, hnd⟩ := shapeOf_short_split h
  have hs := shapeOf_syntaxOk h
  have hj := splitEq_join tok
  rw [hsp] at hj
  simp only at hj
  refine ⟨hj.symm, hsp, ?_⟩
  rw [← hj] at hs
  cases ls with
  | nil => cases v <;> simp [eqTail, syntaxOk] at hs
  | cons c r =>
    have hcd : c ≠ '-' := fun hc => hnd r (by rw [hc])
    refine ⟨c, r, rfl, hcd, ?_⟩
    intro hce
    subst hce
    cases r <;> cases v <;> simp [eqTail, syntaxOk] at hs

/-- an option-like token that is not valid syntax has no `user_input` -/
theorem mkUI_of_shape_none {tok : Str} (hv : isValueTok tok = false) (hd : isDoubleDashTok tok = false)
    (h : shapeOf tok = none) : mkUI tok = none := by
  unfold mkUI
  have hj := splitEq_join tok
  generalize hsp : splitEq tok = sp at hj
  obtain ⟨name, value⟩ := sp
  simp only at hj ⊢
  -- the name part starts with the dash of the token
  have hname : isValueTok name = false := by
    cases tok with
    | nil => simp [isValueTok] at hv
    | cons c cs =>
      have hc : c = '-' := by
        unfold isValueTok at hv
        split at hv
        · rename_i heq; simp at heq; exact heq.1
        · simp at hv
      subst hc
      rw [splitEq_cons '-' cs (by decide)] at hsp
      simp only [Prod.mk.injEq] at hsp
      rw [← hsp.1]; rfl
  simp only [hname, hd, Bool.or_self, Bool.false_eq_true, if_false]
  unfold shapeOf at h
  split at h
  · rename_i hs
    have : syntaxOk tok = false := by simpa using hs
    simp [this]
  · rename_i hs
    rw [hsp] at h
    -- the name starts with '-' so one of the two patterns applies
    cases name with
    | nil => simp [isValueTok] at hname
    | cons c cs =>
      have hc : c = '-' := by
        unfold isValueTok at hname
        split at hname
        · rename_i heq; simp at heq; exact heq.1
        · simp at hname
      subst hc
      split at h <;> simp_all

theorem mkUI_of_shape {tok : Str} {sh : Shape} (hv : isValueTok tok = false)
    (hd : isDoubleDashTok tok = false) (h : shapeOf tok = some sh) :
    mkUI tok = some ⟨tok, (splitEq tok).1, (splitEq tok).2⟩ := by
  unfold mkUI
  have hs : syntaxOk tok = true := by
    unfold shapeOf at h
    split at h
    · simp at h
    · rename_i hs; simpa using hs
  generalize splitEq tok = sp
  obtain ⟨name, value⟩ := sp
  simp only [hd, hs, Bool.or_false, if_true]
  split <;> rfl

end NitroVerif.Opt

namespace NitroVerif.Opt

/-- the `user_input` of a long token -/
theorem ui_long (tok n : Str) (v : Option Str) (c : Char) (r : Str) (hn : n = c :: r) (hc : c ≠ '-') :
    let u : UI := ⟨tok, '-' :: '-' :: n, v⟩
    u.isValue = false ∧ u.isShort = false ∧ u.isNamed = true ∧ u.isArgument = true ∧
    u.hasValue = v.isSome ∧ u.hasPrefix = noPrefix.isPrefixOf n ∧ u.asNamed = n ∧
    u.nameWithoutPrefix = n.drop 3 ∧ u.theValue = v.getD [] := by
  subst hn
  have h1 : (⟨tok, '-' :: '-' :: c :: r, v⟩ : UI).isValue = false := by simp [UI.isValue, isValueTok]
  have h2 : (⟨tok, '-' :: '-' :: c :: r, v⟩ : UI).isShort = false := by simp [UI.isShort]
  have h3 : (⟨tok, '-' :: '-' :: c :: r, v⟩ : UI).isNamed = true := by simp [UI.isNamed, hc]
  refine ⟨h1, h2, h3, by simp [UI.isArgument, h2, h3], by simp [UI.hasValue, h1], ?_, rfl, rfl, ?_⟩
  · simp [UI.hasPrefix, noPrefix, List.isPrefixOf]
  · simp [UI.theValue, h1]

/-- the `user_input` of a short token -/
theorem ui_short (tok ls : Str) (v : Option Str) (c : Char) (r : Str) (hl : ls = c :: r) (hc : c ≠ '-') :
    let u : UI := ⟨tok, '-' :: ls, v⟩
    u.isValue = false ∧ u.isShort = true ∧ u.isNamed = false ∧ u.isArgument = true ∧
    u.hasValue = v.isSome ∧ u.hasPrefix = false ∧ u.shortList = ls ∧ u.theValue = v.getD [] := by
  subst hl
  have h1 : (⟨tok, '-' :: c :: r, v⟩ : UI).isValue = false := by simp [UI.isValue, isValueTok]
  have h2 : (⟨tok, '-' :: c :: r, v⟩ : UI).isShort = true := by simp [UI.isShort, hc]
  have h3 : (⟨tok, '-' :: c :: r, v⟩ : UI).isNamed = false := by
    simp only [UI.isNamed]
    split
    · rename_i heq; simp at heq; exact absurd heq.1 hc
    · rfl
  refine ⟨h1, h2, h3, by simp [UI.isArgument, h2], by simp [UI.hasValue, h1], ?_, rfl, ?_⟩
  · simp only [UI.hasPrefix, List.isPrefixOf]
    have : ('-' == c) = false := by simpa using fun h => hc h.symm
    simp [this]
  · simp [UI.theValue, h1]

end NitroVerif.Opt
