import NitroVerif.Lemmas.OptResult

/-!
The converse of `explanation_is_lossless`: every *canonical* item list — what a user means when
spelling an assignment — rendered to tokens, is explained back as exactly that item list.
-/
namespace NitroVerif.Opt

theorem splitEq_noEq (a : Str) (h : '=' ∉ a) : splitEq a = (a, none) := by
  induction a with
  | nil => rfl
  | cons c cs ih =>
    have hc : c ≠ '=' := fun e => h (by simp [e])
    rw [splitEq_cons c cs hc, ih (fun e => h (by simp [e]))]

theorem splitEq_eq (a v : Str) (h : '=' ∉ a) : splitEq (a ++ '=' :: v) = (a, some v) := by
  induction a with
  | nil => simp [splitEq]
  | cons c cs ih =>
    have hc : c ≠ '=' := fun e => h (by simp [e])
    rw [List.cons_append, splitEq_cons c _ hc, ih (fun e => h (by simp [e]))]

theorem splitEq_tail (a : Str) (v : Option Str) (h : '=' ∉ a) : splitEq (a ++ eqTail v) = (a, v) := by
  cases v with
  | none => simpa [eqTail] using splitEq_noEq a h
  | some v => exact splitEq_eq a v h

/-- a name that can be written on a command line: starts with neither `-` nor `=`, contains no `=` -/
def GoodName (n : Str) : Prop := (∃ c r, n = c :: r ∧ c ≠ '-' ∧ c ≠ '=') ∧ '=' ∉ n

theorem shapeOf_long_mk (n : Str) (v : Option Str) (h : GoodName n) :
    shapeOf (dashes ++ n ++ eqTail v) = some (.long n v) := by
  obtain ⟨⟨c, r, rfl, hc1, hc2⟩, hne⟩ := h
  unfold shapeOf
  have hs : syntaxOk (dashes ++ c :: r ++ eqTail v) = true := by
    simp [dashes, syntaxOk, hc1, hc2]
  have hd : '=' ∉ dashes ++ c :: r := by
    intro hm
    rcases List.mem_append.mp hm with hm | hm
    · revert hm; decide
    · exact hne hm
  rw [hs, splitEq_tail _ _ hd]
  simp [dashes]

theorem syntaxOk_single (c : Char) (rest : Str) (hc1 : c ≠ '-') (hc2 : c ≠ '=') :
    syntaxOk ('-' :: c :: rest) = true := by
  unfold syntaxOk
  split
  · rename_i heq; simp only [List.cons.injEq, true_and] at heq; exact absurd heq.1 hc1
  · rename_i heq; simp only [List.cons.injEq, true_and] at heq; exact absurd heq.1 hc1
  · rename_i heq; simp only [List.cons.injEq, true_and] at heq
    rw [← heq.1]; simp [hc1, hc2]
  · rename_i h3; exact absurd rfl (h3 c rest)

theorem shapeOf_short_mk (c : Char) (r : Str) (v : Option Str) (hc1 : c ≠ '-') (hc2 : c ≠ '=') (hne : '=' ∉ c :: r) :
    shapeOf ('-' :: c :: r ++ eqTail v) = some (.short (c :: r) v) := by
  unfold shapeOf
  have hs : syntaxOk ('-' :: c :: r ++ eqTail v) = true := syntaxOk_single c _ hc1 hc2
  have hd : '=' ∉ '-' :: c :: r := by
    intro hm
    rcases List.mem_cons.mp hm with hm | hm
    · revert hm; decide
    · exact hne hm
  have happ : '-' :: c :: r ++ eqTail v = ('-' :: c :: r) ++ eqTail v := rfl
  rw [hs, happ, splitEq_tail _ _ hd]
  simp only [Bool.not_true, Bool.false_eq_true, if_false]
  split
  · rename_i heq; simp only [Prod.mk.injEq, List.cons.injEq, true_and] at heq; exact absurd heq.1.1 hc1
  · rename_i heq; simp only [Prod.mk.injEq, List.cons.injEq, true_and] at heq
    rw [← heq.1, ← heq.2]
  · rename_i h2; exact absurd rfl (h2 (c :: r) v)

/-! ### letters and names -/

theorem nodup_filterMap_inj {α β : Type} (f : α → Option β) (l : List α) (h : (l.filterMap f).Nodup)
    (x y : α) (hx : x ∈ l) (hy : y ∈ l) (c : β) (fx : f x = some c) (fy : f y = some c) : x = y := by
  induction l with
  | nil => simp at hx
  | cons a as ih =>
    by_cases hxa : x = a
    · by_cases hya : y = a
      · rw [hxa, hya]
      · -- x is the head, y is in the tail: c occurs twice
        exfalso
        have hy' : y ∈ as := by simpa [hya] using hy
        rw [List.filterMap_cons, ← hxa, fx] at h
        simp only [List.nodup_cons] at h
        exact h.1 (List.mem_filterMap.mpr ⟨y, hy', fy⟩)
    · have hx' : x ∈ as := by simpa [hxa] using hx
      by_cases hya : y = a
      · exfalso
        rw [List.filterMap_cons, ← hya, fy] at h
        simp only [List.nodup_cons] at h
        exact h.1 (List.mem_filterMap.mpr ⟨x, hx', fx⟩)
      · have hy' : y ∈ as := by simpa [hya] using hy
        apply ih _ hx' hy'
        rw [List.filterMap_cons] at h
        cases hfa : f a with
        | none => rw [hfa] at h; exact h
        | some b => rw [hfa] at h; exact (List.nodup_cons.mp h).2

theorem valueOpts_letters (d : Decl) :
    (valueOpts d).filterMap (·.2) = d.opts.filterMap (·.short) ++ d.muls.filterMap (·.short) := by
  simp [valueOpts, List.filterMap_append, List.filterMap_map, Function.comp_def]

theorem valueOptOfLetter_of_letterOf (d : Decl) (hwf : WF d) (n : Str) (c : Char)
    (hl : letterOf d n = some c) : valueOptOfLetter d c = some n := by
  have hnd : ((valueOpts d).filterMap (·.2)).Nodup := by
    rw [valueOpts_letters]
    have := hwf.letters; unfold shortNames at this
    exact (List.nodup_append.mp this).1
  -- (n, some c) is a value option
  have hmem : (n, some c) ∈ valueOpts d := by
    unfold letterOf at hl
    cases hf : (valueOpts d).find? (·.1 == n) with
    | none => rw [hf] at hl; simp at hl
    | some p =>
      rw [hf] at hl
      obtain ⟨n', s⟩ := p
      simp only at hl
      have h1 := List.mem_of_find?_eq_some hf
      have h2 := List.find?_some hf
      simp only [beq_iff_eq] at h2
      rw [← h2, ← hl]; exact h1
  unfold valueOptOfLetter
  cases hf : (valueOpts d).find? (·.2 == some c) with
  | none =>
    have := List.find?_eq_none.mp hf (n, some c) hmem
    simp at this
  | some p =>
    have h1 := List.mem_of_find?_eq_some hf
    have h2 := List.find?_some hf
    simp only [beq_iff_eq] at h2
    have := nodup_filterMap_inj (·.2) (valueOpts d) hnd p (n, some c) h1 hmem c h2 rfl
    rw [this]; rfl

theorem togLetter_not_valueLetter (d : Decl) (hwf : WF d) (c : Char) (h : isTogLetter d c = true) :
    valueOptOfLetter d c = none := by
  unfold isTogLetter at h
  obtain ⟨t, ht, hts⟩ := List.any_eq_true.mp h
  have hts' : t.short = some c := by simpa using hts
  rw [valueOptOfLetter_eq]
  cases hfo : d.opts.find? (·.short == some c) with
  | some o =>
    exfalso
    have h2 := List.find?_some hfo
    exact hwf.opt_tog_letter (List.mem_of_find?_eq_some hfo) ht (by simpa using h2) hts'
  | none =>
    simp only
    cases hfm : d.muls.find? (·.short == some c) with
    | some m =>
      exfalso
      have h2 := List.find?_some hfm
      exact hwf.mul_tog_letter (List.mem_of_find?_eq_some hfm) ht (by simpa using h2) hts'
    | none => rfl

theorem togName_not_valueName (d : Decl) (hwf : WF d) (n : Str) (h : isTogName d n = true) :
    isValueOptName d n = false := by
  unfold isTogName at h
  obtain ⟨t, ht, htn⟩ := List.any_eq_true.mp h
  have htn' : t.name = n := by simpa using htn
  rw [isValueOptName_eq]
  by_cases hv : (d.opts.any (·.name == n) || d.muls.any (·.name == n)) = true
  · exfalso
    have hmem : n ∈ d.opts.map (·.name) ++ d.muls.map (·.name) := by
      simp only [Bool.or_eq_true, List.any_eq_true, beq_iff_eq] at hv
      simp only [List.mem_append, List.mem_map]
      rcases hv with ⟨o, ho, hon⟩ | ⟨m, hm, hmn⟩
      · exact Or.inl ⟨o, ho, hon⟩
      · exact Or.inr ⟨m, hm, hmn⟩
    exact hwf.val_ne_tog hmem ht htn'.symm
  · simpa using hv

theorem noName_undeclared (d : Decl) (hwf : WF d) (n : Str) (h : isTogName d n = true) :
    isValueOptName d (noPrefix ++ n) = false ∧ isTogName d (noPrefix ++ n) = false := by
  unfold isTogName at h
  obtain ⟨t, ht, htn⟩ := List.any_eq_true.mp h
  have htn' : t.name = n := by simpa using htn
  have hfree := hwf.noPrefixFree ht
  rw [htn'] at hfree
  unfold allNames at hfree
  simp only [List.mem_append, List.mem_map, not_or, not_exists, not_and] at hfree
  constructor
  · rw [isValueOptName_eq]
    by_cases hv : (d.opts.any (·.name == noPrefix ++ n) || d.muls.any (·.name == noPrefix ++ n)) = true
    · exfalso
      simp only [Bool.or_eq_true, List.any_eq_true, beq_iff_eq] at hv
      rcases hv with ⟨o, ho, hon⟩ | ⟨m, hm, hmn⟩
      · exact hfree.1.1 o ho hon
      · exact hfree.1.2 m hm hmn
    · simpa using hv
  · unfold isTogName
    by_cases hv : d.togs.any (·.name == noPrefix ++ n) = true
    · exfalso
      obtain ⟨t', ht', hn'⟩ := List.any_eq_true.mp hv
      exact hfree.2 t' ht' (by simpa using hn')
    · simpa using hv

/-! ### one option-like item -/

/-- an option-like item as a user can write it -/
def CanonOpt (d : Decl) : Item → Prop
  | .optSep n sh v => isValueOptName d n = true ∧ GoodName n ∧
      (sh = true → ∃ c, letterOf d n = some c ∧ c ≠ '-' ∧ c ≠ '=') ∧ isValueTok v = true
  | .optEq n sh _ => isValueOptName d n = true ∧ GoodName n ∧
      (sh = true → ∃ c, letterOf d n = some c ∧ c ≠ '-' ∧ c ≠ '=')
  | .togLong n => isTogName d n = true ∧ GoodName n
  | .togNeg n => isTogName d n = true ∧ '=' ∉ n
  | .togShort ls => (∃ c r, ls = c :: r ∧ c ≠ '-' ∧ c ≠ '=') ∧ '=' ∉ ls ∧ ls.all (isTogLetter d) = true
  | _ => False

theorem notValue_dash (rest : Str) : isValueTok ('-' :: rest) = false := rfl

theorem dashes_name_ne (n : Str) (v : Option Str) (h : n ≠ []) : isDoubleDashTok (dashes ++ n ++ eqTail v) = false := by
  unfold isDoubleDashTok dashes
  cases n with
  | nil => exact absurd rfl h
  | cons c r => simp

/-- the head token of a value-taking option, spelled long or by its letter, is explained as that option -/
theorem explain_value_head (d : Decl) (hwf : WF d) (n : Str) (sh : Bool) (value next : Option Str)
    (hv : isValueOptName d n = true) (hg : GoodName n)
    (hs : sh = true → ∃ c, letterOf d n = some c ∧ c ≠ '-' ∧ c ≠ '=') :
    isValueTok (spell d n sh ++ eqTail value) = false ∧ isDoubleDashTok (spell d n sh ++ eqTail value) = false ∧
    explainTok d (spell d n sh ++ eqTail value) next = explainValue n sh value next := by
  cases sh with
  | false =>
    have hsp : spell d n false = dashes ++ n := by simp [spell]
    rw [hsp]
    obtain ⟨⟨c, r, hn, _, _⟩, _⟩ := hg
    refine ⟨by simp [dashes, isValueTok], dashes_name_ne n value (by rw [hn]; simp), ?_⟩
    unfold explainTok
    rw [shapeOf_long_mk n value ⟨⟨c, r, hn, ‹_›, ‹_›⟩, ‹_›⟩]
    simp only [explainLong, hv, if_true]
  | true =>
    obtain ⟨c, hl, hc1, hc2⟩ := hs rfl
    have hsp : spell d n true = ['-', c] := by simp [spell, hl]
    rw [hsp]
    have htok : ['-', c] ++ eqTail value = '-' :: c :: [] ++ eqTail value := rfl
    refine ⟨rfl, ?_, ?_⟩
    · unfold isDoubleDashTok
      cases value with
      | none => simp [eqTail]; exact fun h => hc1 h
      | some v => simp [eqTail]
    · unfold explainTok
      rw [htok, shapeOf_short_mk c [] value hc1 hc2 (by simpa using fun h => hc2 h.symm)]
      simp only [explainShort, valueOptOfLetter_of_letterOf d hwf n c hl]

theorem explainTok_canon (d : Decl) (hwf : WF d) (it : Item) (h : CanonOpt d it) :
    match renderItem d it with
    | [tok] => isValueTok tok = false ∧ isDoubleDashTok tok = false ∧ ∀ next, explainTok d tok next = some (it, false)
    | [tok, v] => isValueTok tok = false ∧ isDoubleDashTok tok = false ∧ isValueTok v = true ∧
        explainTok d tok (some v) = some (it, true)
    | _ => False := by
  cases it with
  | pos s => exact h.elim
  | sep => exact h.elim
  | optSep n sh v =>
    obtain ⟨hv, hg, hs, hval⟩ := h
    simp only [renderItem]
    have := explain_value_head d hwf n sh none (some v) hv hg hs
    simp only [eqTail, List.append_nil] at this
    refine ⟨this.1, this.2.1, hval, ?_⟩
    rw [this.2.2]; simp [explainValue, hval]
  | optEq n sh v =>
    obtain ⟨hv, hg, hs⟩ := h
    simp only [renderItem]
    refine ⟨?_, ?_, ?_⟩
    · exact (explain_value_head d hwf n sh (some v) none hv hg hs).1
    · exact (explain_value_head d hwf n sh (some v) none hv hg hs).2.1
    · intro next
      have := (explain_value_head d hwf n sh (some v) next hv hg hs).2.2
      simp only [eqTail] at this
      rw [this]; rfl
  | togLong n =>
    obtain ⟨ht, hg⟩ := h
    simp only [renderItem]
    obtain ⟨⟨c, r, hn, hc1, hc2⟩, hne⟩ := hg
    have hsh := shapeOf_long_mk n none ⟨⟨c, r, hn, hc1, hc2⟩, hne⟩
    simp only [eqTail, List.append_nil] at hsh
    refine ⟨by simp [dashes, isValueTok], ?_, ?_⟩
    · have := dashes_name_ne n none (by rw [hn]; simp); simpa [eqTail] using this
    · intro next
      unfold explainTok
      rw [hsh]
      simp only [explainLong, togName_not_valueName d hwf n ht, Bool.false_eq_true, if_false, ht, if_true,
        Option.isSome_none]
  | togNeg n =>
    obtain ⟨ht, hne⟩ := h
    simp only [renderItem]
    have hg : GoodName (noPrefix ++ n) := by
      refine ⟨⟨'n', ['o', '-'] ++ n, rfl, by decide, by decide⟩, ?_⟩
      intro hm
      rcases List.mem_append.mp hm with hm | hm
      · revert hm; decide
      · exact hne hm
    have hsh := shapeOf_long_mk (noPrefix ++ n) none hg
    simp only [eqTail, List.append_nil] at hsh
    have happ : dashes ++ noPrefix ++ n = dashes ++ (noPrefix ++ n) := by simp
    rw [happ]
    refine ⟨by simp [dashes, isValueTok], ?_, ?_⟩
    · have := dashes_name_ne (noPrefix ++ n) none (by simp [noPrefix]); simpa [eqTail] using this
    · intro next
      unfold explainTok
      rw [hsh]
      obtain ⟨h1, h2⟩ := noName_undeclared d hwf n ht
      have hpre : noPrefix.isPrefixOf (noPrefix ++ n) = true := by simp [noPrefix]
      have hdrop : (noPrefix ++ n).drop 3 = n := by simp [noPrefix]
      simp only [explainLong, h1, Bool.false_eq_true, if_false, h2, hpre, hdrop, ht, Bool.and_self, if_true,
        Option.isSome_none]
  | togShort ls =>
    obtain ⟨⟨c, r, hls, hc1, hc2⟩, hne, hall⟩ := h
    simp only [renderItem]
    subst hls
    have hsh := shapeOf_short_mk c r none hc1 hc2 hne
    simp only [eqTail, List.append_nil] at hsh
    refine ⟨rfl, ?_, ?_⟩
    · unfold isDoubleDashTok; simp; exact fun h _ => hc1 h
    · intro next
      unfold explainTok
      rw [hsh]
      cases r with
      | nil =>
        have hc : isTogLetter d c = true := by simpa using hall
        simp only [explainShort, togLetter_not_valueLetter d hwf c hc, Option.isNone_none, hc, Bool.and_self, if_true]
      | cons c2 r2 =>
        simp only [explainShort, Option.isNone_none, hall, Bool.and_self, if_true]

/-! ### item lists -/

/-- A canonical item list, read in only-positionals mode `onlyPos`: before the cut positionals are
value tokens and option-like items are well-formed; `--` or (in greedy mode) the first positional
starts the cut, after which there are positionals only (of any content). -/
def CanonGo (d : Decl) : Bool → List Item → Prop
  | _, [] => True
  | onlyPos, it :: rest =>
    if onlyPos then (∃ s, it = .pos s) ∧ CanonGo d true rest
    else match it with
      | .pos s => isValueTok s = true ∧ CanonGo d d.greedy rest
      | .sep => CanonGo d true rest
      | it => CanonOpt d it ∧ CanonGo d false rest

theorem render_cons (d : Decl) (it : Item) (rest : List Item) :
    render d (it :: rest) = renderItem d it ++ render d rest := by
  simp [render]

/-- **Every canonical spelling is understood as meant**: rendering a canonical item list and
explaining the tokens gives back exactly the item list. -/
theorem explainGo_render_canon (d : Decl) (hwf : WF d) (items : List Item) (onlyPos : Bool)
    (h : CanonGo d onlyPos items) : explainGo d onlyPos (render d items) = some items := by
  induction items generalizing onlyPos with
  | nil => simp [render, explainGo]
  | cons it rest ih =>
    rw [render_cons]
    unfold CanonGo at h
    cases onlyPos with
    | true =>
      simp only [if_true] at h
      obtain ⟨⟨s, hs⟩, hrest⟩ := h
      subst hs
      simp only [renderItem, List.singleton_append]
      rw [explainGo]
      simp only [Bool.true_or, if_true, ih true hrest, Option.map_some]
    | false =>
      simp only [Bool.false_eq_true, if_false] at h
      cases it with
      | pos s =>
        simp only at h
        simp only [renderItem, List.singleton_append]
        rw [explainGo]
        simp only [h.1, Bool.or_true, if_true, Bool.false_or, ih d.greedy h.2, Option.map_some]
      | sep =>
        simp only at h
        simp only [renderItem, List.singleton_append]
        rw [explainGo]
        have h1 : isValueTok dashes = false := by decide
        have h2 : isDoubleDashTok dashes = true := by decide
        simp only [h1, Bool.or_self, Bool.false_eq_true, if_false, h2, if_true, ih true h, Option.map_some]
      | optSep n sh v =>
        simp only at h
        have hc := explainTok_canon d hwf _ h.1
        simp only [renderItem] at hc ⊢
        obtain ⟨h1, h2, _, h4⟩ := hc
        simp only [List.cons_append, List.nil_append]
        rw [explainGo]
        simp only [h1, Bool.or_self, Bool.false_eq_true, if_false, h2, List.head?_cons, h4, List.tail_cons,
          ih false h.2, Option.map_some]
      | optEq n sh v =>
        simp only at h
        have hc := explainTok_canon d hwf _ h.1
        simp only [renderItem] at hc ⊢
        obtain ⟨h1, h2, h3⟩ := hc
        simp only [List.cons_append, List.nil_append]
        rw [explainGo]
        simp only [h1, Bool.or_self, Bool.false_eq_true, if_false, h2, h3, ih false h.2, Option.map_some]
      | togLong n =>
        simp only at h
        have hc := explainTok_canon d hwf _ h.1
        simp only [renderItem] at hc ⊢
        obtain ⟨h1, h2, h3⟩ := hc
        simp only [List.cons_append, List.nil_append]
        rw [explainGo]
        simp only [h1, Bool.or_self, Bool.false_eq_true, if_false, h2, h3, ih false h.2, Option.map_some]
      | togNeg n =>
        simp only at h
        have hc := explainTok_canon d hwf _ h.1
        simp only [renderItem] at hc ⊢
        obtain ⟨h1, h2, h3⟩ := hc
        simp only [List.cons_append, List.nil_append]
        rw [explainGo]
        simp only [h1, Bool.or_self, Bool.false_eq_true, if_false, h2, h3, ih false h.2, Option.map_some]
      | togShort ls =>
        simp only at h
        have hc := explainTok_canon d hwf _ h.1
        simp only [renderItem] at hc ⊢
        obtain ⟨h1, h2, h3⟩ := hc
        simp only [List.cons_append, List.nil_append]
        rw [explainGo]
        simp only [h1, Bool.or_self, Bool.false_eq_true, if_false, h2, h3, ih false h.2, Option.map_some]

/-- … and therefore parses to the interpretation of exactly those items. -/
theorem parse_render_canon (d : Decl) (hn : (allNames d).Nodup) (hc : consistent d = true) (env : Env)
    (items : List Item) (h : CanonGo d false items) : parse d env (render d items) = interp d env items :=
  parse_of_explain d hn hc env _ items (explainGo_render_canon d ⟨hn, hc⟩ items false h)

end NitroVerif.Opt
