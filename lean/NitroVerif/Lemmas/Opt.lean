import NitroVerif.Model.Opt
import NitroVerif.Spec.Opt
import NitroVerif.Lemmas.OptTok

/-! Lemmas about the option-parser model and specification. -/
namespace NitroVerif.Opt

/-- Long names of the value-taking options are pairwise distinct (the declaration API guarantees
it: Props/C13). -/
def WFNames (d : Decl) : Prop := ((valueOpts d).map (·.1)).Nodup

theorem find?_name_letter (l : List (Str × Option Char)) (hn : (l.map (·.1)).Nodup) (c : Char) (n : Str)
    (h : (l.find? (·.2 == some c)).map (·.1) = some n) :
    (match l.find? (·.1 == n) with | some (_, s) => s | none => none) = some c := by
  induction l with
  | nil => simp at h
  | cons x xs ih =>
    simp only [List.map_cons, List.nodup_cons] at hn
    simp only [List.find?_cons] at h ⊢
    by_cases hx : (x.2 == some c) = true
    · simp only [hx, Option.map_some, Option.some.injEq] at h
      subst h
      simp only [beq_self_eq_true]
      simpa using hx
    · simp only [hx] at h
      have hne : (x.1 == n) = false := by
        apply Bool.eq_false_iff.mpr
        intro he
        have he' : x.1 = n := by simpa using he
        -- n is the name of a later entry
        cases hf : xs.find? (·.2 == some c) with
        | none => simp [hf] at h
        | some y =>
          simp only [hf, Option.map_some, Option.some.injEq] at h
          have hm := List.mem_of_find?_eq_some hf
          apply hn.1
          rw [he', ← h]
          exact List.mem_map_of_mem hm
      simp only [hne]
      exact ih hn.2 h

theorem letterOf_of_valueOptOfLetter (d : Decl) (h : WFNames d) (c : Char) (n : Str)
    (hv : valueOptOfLetter d c = some n) : letterOf d n = some c :=
  find?_name_letter (valueOpts d) h c n hv

theorem explainValue_render (d : Decl) (head : Str) (n : Str) (short : Bool) (value next : Option Str)
    (hsp : spell d n short = head) (it : Item) (consumed : Bool)
    (he : explainValue n short value next = some (it, consumed)) :
    (consumed = false → renderItem d it = [head ++ eqTail value]) ∧
    (consumed = true → ∃ nx, next = some nx ∧ renderItem d it = [head ++ eqTail value, nx]) := by
  unfold explainValue at he
  cases value with
  | some v =>
    simp only [Option.some.injEq, Prod.mk.injEq] at he
    obtain ⟨rfl, rfl⟩ := he
    exact ⟨fun _ => by simp [renderItem, hsp, eqTail], fun hc => by simp at hc⟩
  | none =>
    simp only at he
    cases next with
    | none => simp at he
    | some nx =>
      simp only at he
      split at he
      · simp only [Option.some.injEq, Prod.mk.injEq] at he
        obtain ⟨rfl, rfl⟩ := he
        exact ⟨fun hc => by simp at hc, fun _ => ⟨nx, rfl, by simp [renderItem, hsp, eqTail]⟩⟩
      · simp at he

/-- What `explainTok` returns spells back to the token(s) it was given. -/
theorem explainTok_render (d : Decl) (h : WFNames d) (tok : Str) (next : Option Str) (it : Item)
    (consumed : Bool) (he : explainTok d tok next = some (it, consumed)) :
    (consumed = false → renderItem d it = [tok]) ∧
    (consumed = true → ∃ nx, next = some nx ∧ renderItem d it = [tok, nx]) := by
  unfold explainTok at he
  cases hsh : shapeOf tok with
  | none => simp [hsh] at he
  | some sh =>
    cases sh with
    | long n v =>
      simp only [hsh] at he
      have htok := (shapeOf_long hsh).1
      unfold explainLong at he
      split at he
      · have := explainValue_render d ('-' :: '-' :: n) n false v next (by simp [spell, dashes]) it consumed he
        rw [htok]; simpa using this
      · split at he
        · split at he
          · simp at he
          · rename_i hv
            simp only [Option.some.injEq, Prod.mk.injEq] at he
            obtain ⟨rfl, rfl⟩ := he
            have : v = none := by cases v <;> simp_all
            subst this
            exact ⟨fun _ => by rw [htok]; simp [renderItem, dashes, eqTail], fun hc => by simp at hc⟩
        · split at he
          · rename_i hp
            split at he
            · simp at he
            · rename_i hv
              simp only [Option.some.injEq, Prod.mk.injEq] at he
              obtain ⟨rfl, rfl⟩ := he
              have : v = none := by cases v <;> simp_all
              subst this
              simp only [Bool.and_eq_true] at hp
              obtain ⟨t, ht⟩ := List.isPrefixOf_iff_prefix.mp hp.1
              have hd : n.drop 3 = t := by rw [← ht]; simp [noPrefix]
              refine ⟨fun _ => ?_, fun hc => by simp at hc⟩
              rw [htok, hd, ← ht]; simp [renderItem, dashes, eqTail]
          · simp at he
    | short ls v =>
      simp only [hsh] at he
      have htok := (shapeOf_short hsh).1
      unfold explainShort at he
      split at he
      · rename_i c
        cases hvo : valueOptOfLetter d c with
        | some n =>
          simp only [hvo] at he
          have := explainValue_render d ['-', c] n true v next
            (by simp [spell, letterOf_of_valueOptOfLetter d h c n hvo]) it consumed he
          rw [htok]; simpa using this
        | none =>
          simp only [hvo] at he
          split at he
          · rename_i hc
            simp only [Option.some.injEq, Prod.mk.injEq] at he
            obtain ⟨rfl, rfl⟩ := he
            have : v = none := by cases v <;> simp_all
            subst this
            exact ⟨fun _ => by rw [htok]; simp [renderItem, eqTail], fun hc => by simp at hc⟩
          · simp at he
      · split at he
        · rename_i hc
          simp only [Option.some.injEq, Prod.mk.injEq] at he
          obtain ⟨rfl, rfl⟩ := he
          have : v = none := by cases v <;> simp_all
          subst this
          exact ⟨fun _ => by rw [htok]; simp [renderItem, eqTail], fun hc => by simp at hc⟩
        · simp at he

theorem explainGo_render (d : Decl) (h : WFNames d) (onlyPos : Bool) (toks : List Str)
    (items : List Item) (he : explainGo d onlyPos toks = some items) : render d items = toks := by
  induction onlyPos, toks using explainGo.induct d generalizing items with
  | case1 onlyPos =>
    rw [explainGo] at he; simp at he; subst he; rfl
  | case2 onlyPos tok rest hc ih =>
    rw [explainGo] at he
    simp only [hc, if_true] at he
    cases hr : explainGo d (onlyPos || d.greedy) rest with
    | none => simp [hr] at he
    | some its =>
      simp only [hr, Option.map_some, Option.some.injEq] at he
      subst he
      simp only [render, List.flatMap_cons, renderItem] at *
      rw [ih its hr]; rfl
  | case3 onlyPos tok rest hc hdd ih =>
    rw [explainGo] at he
    simp only [hc, hdd, if_true, if_false, Bool.false_eq_true, ↓reduceIte] at he
    cases hr : explainGo d true rest with
    | none => simp [hr] at he
    | some its =>
      simp only [hr, Option.map_some, Option.some.injEq] at he
      subst he
      have : tok = dashes := by simpa [isDoubleDashTok, dashes] using hdd
      simp only [render, List.flatMap_cons, renderItem] at *
      rw [ih its hr, this]; rfl
  | case4 onlyPos tok rest hc hdd hx =>
    rw [explainGo] at he
    simp [hc, hdd, hx] at he
  | case5 onlyPos tok rest hc hdd it hx ih =>
    rw [explainGo] at he
    simp only [hc, hdd, hx, if_false, Bool.false_eq_true, ↓reduceIte] at he
    cases hr : explainGo d false rest with
    | none => simp [hr] at he
    | some its =>
      simp only [hr, Option.map_some, Option.some.injEq] at he
      subst he
      have := (explainTok_render d h tok rest.head? it false hx).1 rfl
      simp only [render, List.flatMap_cons] at *
      rw [ih its hr, this]; rfl
  | case6 onlyPos tok rest hc hdd it hx ih =>
    rw [explainGo] at he
    simp only [hc, hdd, hx, if_false, Bool.false_eq_true, ↓reduceIte] at he
    cases hr : explainGo d false rest.tail with
    | none => simp [hr] at he
    | some its =>
      simp only [hr, Option.map_some, Option.some.injEq] at he
      subst he
      obtain ⟨nx, hnx, hren⟩ := (explainTok_render d h tok rest.head? it true hx).2 rfl
      simp only [render, List.flatMap_cons] at *
      rw [ih its hr, hren]
      cases rest with
      | nil => simp at hnx
      | cons r rs => simp at hnx; subst hnx; rfl

end NitroVerif.Opt
