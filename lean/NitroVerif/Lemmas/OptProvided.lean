import NitroVerif.Lemmas.OptSpell

/-! `provided` lists exactly the options whose value came from the command line or the environment. -/
namespace NitroVerif.Opt

theorem mapAll_zip {α β : Type} (f : α → Except Err β) (l : List α) (ys : List β) (h : mapAll f l = .ok ys) :
    ∀ p ∈ l.zip ys, f p.1 = .ok p.2 := by
  induction l generalizing ys with
  | nil => intro p hp; simp at hp
  | cons a as ih =>
    simp only [mapAll] at h
    cases hfa : f a with
    | error e => rw [hfa] at h; simp at h
    | ok y =>
      rw [hfa] at h
      simp only at h
      cases hrest : mapAll f as with
      | error e => rw [hrest] at h; simp at h
      | ok ys' =>
        rw [hrest] at h
        simp only [Except.ok.injEq] at h
        subst h
        intro p hp
        simp only [List.zip_cons_cons, List.mem_cons] at hp
        rcases hp with rfl | hp
        · exact hfa
        · exact ih ys' hrest p hp

/-- For a declaration with pairwise distinct names: an option is listed as provided **iff** the
specification ranks its value from the command line or the environment. -/
theorem interp_provided_iff (d : Decl) (hn : (allNames d).Nodup) (env : Env) (items : List Item) (r : Result)
    (h : interp d env items = .ok r) :
    (∀ o ∈ d.opts, ∀ v p, interpOpt env items o = .ok (v, p) → (o.name ∈ r.provided ↔ p = true)) ∧
    (∀ m ∈ d.muls, ∀ vs p, interpMul env items m = .ok (vs, p) → (m.name ∈ r.provided ↔ p = true)) ∧
    (∀ t ∈ d.togs, ∀ c p, interpTog env items t = .ok (c, p) → (t.name ∈ r.provided ↔ p = true)) := by
  have hnd := hn
  unfold allNames at hnd
  have hOM := (List.nodup_append.mp hnd).1
  have hOn := (List.nodup_append.mp hOM).1
  have hMn := (List.nodup_append.mp hOM).2.1
  have hTn := (List.nodup_append.mp hnd).2.1
  have hOMdisj := (List.nodup_append.mp hOM).2.2
  have hOMTdisj := (List.nodup_append.mp hnd).2.2
  unfold interp at h
  simp only at h
  by_cases ht : tooMany d (positionalsOf items).length = true
  · simp [ht] at h
  · simp only [ht, Bool.false_eq_true, if_false] at h
    cases hO : mapAll (interpOpt env items) d.opts with
    | error e => rw [hO] at h; simp at h
    | ok os =>
      cases hM : mapAll (interpMul env items) d.muls with
      | error e => rw [hO, hM] at h; simp at h
      | ok ms =>
        cases hT : mapAll (interpTog env items) d.togs with
        | error e => rw [hO, hM, hT] at h; simp at h
        | ok ts =>
          rw [hO, hM, hT] at h
          simp only [Except.ok.injEq] at h
          subst h
          have zO := mapAll_zip _ _ _ hO
          have zM := mapAll_zip _ _ _ hM
          have zT := mapAll_zip _ _ _ hT
          have memO : ∀ p ∈ d.opts.zip os, p.1 ∈ d.opts := fun p hp => (List.of_mem_zip hp).1
          have memM : ∀ p ∈ d.muls.zip ms, p.1 ∈ d.muls := fun p hp => (List.of_mem_zip hp).1
          have memT : ∀ p ∈ d.togs.zip ts, p.1 ∈ d.togs := fun p hp => (List.of_mem_zip hp).1
          refine ⟨?_, ?_, ?_⟩
          · intro o ho v p hi
            constructor
            · intro hmem
              simp only [List.mem_append, List.mem_map, List.mem_filter] at hmem
              rcases hmem with (⟨q, ⟨hq, hq2⟩, hqn⟩ | ⟨q, ⟨hq, _⟩, hqn⟩) | ⟨q, ⟨hq, _⟩, hqn⟩
              · have hqo : q.1 = o := by
                  have := find?_by_key (·.name) d.opts hOn q.1 (memO q hq)
                  have h2 := find?_by_key (·.name) d.opts hOn o ho
                  simp only [hqn] at this
                  rw [h2] at this
                  simpa using this.symm
                have := zO q hq
                rw [hqo, hi] at this
                simp only [Except.ok.injEq] at this
                rw [← this] at hq2
                exact hq2
              · exfalso
                exact hOMdisj _ (List.mem_map_of_mem ho) _ (List.mem_map_of_mem (memM q hq)) hqn.symm
              · exfalso
                exact hOMTdisj _ (List.mem_append_left _ (List.mem_map_of_mem ho)) _
                  (List.mem_map_of_mem (memT q hq)) hqn.symm
            · intro hp
              obtain ⟨y, hy, hmem⟩ := mapAll_ok_inv _ _ _ hO o ho
              rw [hi] at hy
              simp only [Except.ok.injEq] at hy
              simp only [List.mem_append, List.mem_map, List.mem_filter]
              exact Or.inl (Or.inl ⟨(o, y), ⟨hmem, by rw [← hy]; exact hp⟩, rfl⟩)
          · intro m hm vs p hi
            constructor
            · intro hmem
              simp only [List.mem_append, List.mem_map, List.mem_filter] at hmem
              rcases hmem with (⟨q, ⟨hq, _⟩, hqn⟩ | ⟨q, ⟨hq, hq2⟩, hqn⟩) | ⟨q, ⟨hq, _⟩, hqn⟩
              · exfalso
                exact hOMdisj _ (List.mem_map_of_mem (memO q hq)) _ (List.mem_map_of_mem hm) hqn
              · have hqo : q.1 = m := by
                  have := find?_by_key (·.name) d.muls hMn q.1 (memM q hq)
                  have h2 := find?_by_key (·.name) d.muls hMn m hm
                  simp only [hqn] at this
                  rw [h2] at this
                  simpa using this.symm
                have := zM q hq
                rw [hqo, hi] at this
                simp only [Except.ok.injEq] at this
                rw [← this] at hq2
                exact hq2
              · exfalso
                exact hOMTdisj _ (List.mem_append_right _ (List.mem_map_of_mem hm)) _
                  (List.mem_map_of_mem (memT q hq)) hqn.symm
            · intro hp
              obtain ⟨y, hy, hmem⟩ := mapAll_ok_inv _ _ _ hM m hm
              rw [hi] at hy
              simp only [Except.ok.injEq] at hy
              simp only [List.mem_append, List.mem_map, List.mem_filter]
              exact Or.inl (Or.inr ⟨(m, y), ⟨hmem, by rw [← hy]; exact hp⟩, rfl⟩)
          · intro t htm c p hi
            constructor
            · intro hmem
              simp only [List.mem_append, List.mem_map, List.mem_filter] at hmem
              rcases hmem with (⟨q, ⟨hq, _⟩, hqn⟩ | ⟨q, ⟨hq, _⟩, hqn⟩) | ⟨q, ⟨hq, hq2⟩, hqn⟩
              · exfalso
                exact hOMTdisj _ (List.mem_append_left _ (List.mem_map_of_mem (memO q hq))) _
                  (List.mem_map_of_mem htm) hqn
              · exfalso
                exact hOMTdisj _ (List.mem_append_right _ (List.mem_map_of_mem (memM q hq))) _
                  (List.mem_map_of_mem htm) hqn
              · have hqo : q.1 = t := by
                  have := find?_by_key (·.name) d.togs hTn q.1 (memT q hq)
                  have h2 := find?_by_key (·.name) d.togs hTn t htm
                  simp only [hqn] at this
                  rw [h2] at this
                  simpa using this.symm
                have := zT q hq
                rw [hqo, hi] at this
                simp only [Except.ok.injEq] at this
                rw [← this] at hq2
                exact hq2
            · intro hp
              obtain ⟨y, hy, hmem⟩ := mapAll_ok_inv _ _ _ hT t htm
              rw [hi] at hy
              simp only [Except.ok.injEq] at hy
              simp only [List.mem_append, List.mem_map, List.mem_filter]
              exact Or.inr ⟨(t, y), ⟨hmem, by rw [← hy]; exact hp⟩, rfl⟩

end NitroVerif.Opt
