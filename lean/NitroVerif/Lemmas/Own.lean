import NitroVerif.Model.Own

/-! Counting lemmas for the ownership invariants. -/
namespace NitroVerif.Own

open Classical in
/-- 1 if the proposition holds, else 0 (proof-side only). -/
noncomputable def ind (p : Prop) : Nat := if p then 1 else 0

theorem ind_true {p : Prop} (h : p) : ind p = 1 := by simp [ind, h]
theorem ind_false {p : Prop} (h : ¬p) : ind p = 0 := by simp [ind, h]
theorem ind_le_one (p : Prop) : ind p ≤ 1 := by
  by_cases h : p
  · rw [ind_true h]; omega
  · rw [ind_false h]; omega
theorem ind_congr {p q : Prop} (h : p ↔ q) : ind p = ind q := by
  by_cases hp : p
  · rw [ind_true hp, ind_true (h.mp hp)]
  · rw [ind_false hp, ind_false (fun hq => hp (h.mpr hq))]
theorem ind_lt_succ (id n : Nat) : ind (id < n + 1) = ind (id < n) + ind (n = id) := by
  by_cases h1 : id < n
  · rw [ind_true h1, ind_true (by omega), ind_false (by omega)]
  · by_cases h2 : n = id
    · rw [ind_false h1, ind_true h2, ind_true (by omega)]
    · rw [ind_false h1, ind_false h2, ind_false (by omega)]
theorem ind_some (a b : Nat) : ind ((some a : Option Nat) = some b) = ind (a = b) :=
  ind_congr (by simp)
theorem ind_none (b : Nat) : ind ((none : Option Nat) = some b) = 0 := ind_false (by simp)

theorem count_cons_ind {α : Type} [BEq α] [LawfulBEq α] (b a : α) (l : List α) :
    (b :: l).count a = l.count a + ind (b = a) := by
  rw [List.count_cons]
  by_cases h : b = a
  · rw [ind_true h]; simp [h]
  · rw [ind_false h]; simp [h]

theorem count_set {α : Type} [BEq α] [LawfulBEq α] (l : List α) (i : Nat) (x a : α)
    (h : i < l.length) :
    (l.set i x).count a + ind (l[i] = a) = l.count a + ind (x = a) := by
  induction l generalizing i with
  | nil => simp at h
  | cons b l ih =>
    cases i with
    | zero =>
      simp only [List.set_cons_zero, List.getElem_cons_zero, count_cons_ind]
      omega
    | succ i =>
      simp only [List.set_cons_succ, List.getElem_cons_succ, count_cons_ind]
      have := ih i (by simpa using h)
      omega

theorem count_dropLast {α : Type} [BEq α] [LawfulBEq α] (l : List α) (a : α) :
    l.dropLast.count a + ind (l.getLast? = some a) = l.count a := by
  induction l with
  | nil => simp [ind_false]
  | cons b l ih =>
    cases l with
    | nil =>
      simp only [List.dropLast_singleton, List.count_nil, List.getLast?_singleton, count_cons_ind]
      rw [ind_congr (show (some b = some a) ↔ b = a by simp)]
    | cons c l =>
      simp only [List.dropLast_cons_cons, List.getLast?_cons_cons, count_cons_ind] at ih ⊢
      omega

end NitroVerif.Own
