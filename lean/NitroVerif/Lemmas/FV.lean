import NitroVerif.Model.FV

/-! Helper lemmas for the fixed_vector engine. -/
namespace NitroVerif.FV

/-- Safety invariant: holds after every operation, also one that ended in an
element exception. -/
def VInv (v : Vec) : Prop := v.size ≤ v.cap ∧ v.slots.length = v.cap

instance (v : Vec) : Decidable (VInv v) := by unfold VInv; infer_instance

/-- Every slot of the live range holds an element the caller put there. -/
def Filled (v : Vec) : Prop := ∀ s ∈ v.slots.take v.size, s ≠ Slot.stale

theorem inv_fresh (cap : Nat) : VInv (fresh cap) := by simp [VInv, fresh]

theorem filled_fresh (cap : Nat) : Filled (fresh cap) := by simp [Filled, fresh]

/-! ### `wr`, `mv` -/

theorem wr_some {v : Vec} {i : Nat} {x : Slot} (h : i < v.slots.length) :
    wr v i x = some { v with slots := v.slots.set i x } := by simp [wr, h]

theorem wr_props {v v' : Vec} {i : Nat} {x : Slot} (h : wr v i x = some v') :
    v'.cap = v.cap ∧ v'.size = v.size ∧ v'.slots = v.slots.set i x ∧ i < v.slots.length := by
  unfold wr at h; split at h <;> simp at h; subst h; simp_all

theorem wr_isSome {v : Vec} {i : Nat} {x : Slot} : (wr v i x).isSome ↔ i < v.slots.length := by
  unfold wr; split <;> simp_all

theorem mv_props {v v' : Vec} {d s : Nat} (h : mv v d s = some v') :
    v'.cap = v.cap ∧ v'.size = v.size ∧ v'.slots.length = v.slots.length := by
  unfold mv at h
  cases h1 : rd v s with
  | none => simp [h1] at h
  | some x =>
    simp only [h1] at h
    cases h2 : wr v d x with
    | none => simp [h2] at h
    | some v1 =>
      simp only [h2] at h
      have a := wr_props h2
      have b := wr_props h
      simp_all

theorem mv_isSome {v : Vec} {d s : Nat} (hd : d < v.slots.length) (hs : s < v.slots.length) :
    (mv v d s).isSome := by
  unfold mv rd
  rw [List.getElem?_eq_getElem hs]
  simp only [wr_some hd]
  rw [wr_some (by simpa using hs)]
  simp

/-- `mv` on an explicit decomposition, destination directly in front of the source. -/
theorem mv_left (c z : Nat) (A : List Slot) (a b : Slot) (C : List Slot) :
    mv ⟨c, z, A ++ a :: b :: C⟩ A.length (A.length + 1) =
      some ⟨c, z, A ++ b :: Slot.stale :: C⟩ := by
  unfold mv rd wr
  simp [List.getElem?_append_right, List.set_append_right]

/-- `mv` on an explicit decomposition, destination directly behind the source. -/
theorem mv_right (c z : Nat) (A : List Slot) (a b : Slot) (C : List Slot) :
    mv ⟨c, z, A ++ a :: b :: C⟩ (A.length + 1) A.length =
      some ⟨c, z, A ++ Slot.stale :: a :: C⟩ := by
  unfold mv rd wr
  simp [List.getElem?_append_right, List.set_append_right]

/-! ### invariants of the loops, for every fuel -/

theorem shiftL_frame (v : Vec) (key n : Nat) (fuel : Option Nat) :
    (shiftL v key n fuel).1.cap = v.cap ∧ (shiftL v key n fuel).1.size = v.size ∧
    (shiftL v key n fuel).1.slots.length = v.slots.length := by
  induction n generalizing v key fuel with
  | zero => simp [shiftL]
  | succ n ih =>
    unfold shiftL
    cases tick fuel with
    | none => simp
    | some f =>
      simp only
      cases h : mv v key (key + 1) with
      | none => simp
      | some v' =>
        simp only
        have := mv_props h
        have := ih v' (key + 1) f
        simp_all

theorem shiftL_no_ub (v : Vec) (key n : Nat) (fuel : Option Nat) (h : key + n < v.slots.length) :
    (shiftL v key n fuel).2 ≠ .ub := by
  induction n generalizing v key fuel with
  | zero => simp [shiftL]
  | succ n ih =>
    unfold shiftL
    cases tick fuel with
    | none => simp
    | some f =>
      simp only
      have hs := mv_isSome (v := v) (d := key) (s := key + 1) (by omega) (by omega)
      cases h' : mv v key (key + 1) with
      | none => simp [h'] at hs
      | some v' =>
        simp only
        have := mv_props h'
        exact ih v' (key + 1) f (by omega)

theorem shiftR_frame (v : Vec) (hi n : Nat) (fuel : Option Nat) :
    (shiftR v hi n fuel).1.cap = v.cap ∧ (shiftR v hi n fuel).1.size = v.size ∧
    (shiftR v hi n fuel).1.slots.length = v.slots.length := by
  induction n generalizing v hi fuel with
  | zero => simp [shiftR]
  | succ n ih =>
    unfold shiftR
    cases tick fuel with
    | none => simp
    | some f =>
      simp only
      cases hi with
      | zero => simp
      | succ hi' =>
        simp only
        cases h : mv v (hi' + 1) hi' with
        | none => simp
        | some v' =>
          simp only
          have := mv_props h
          have := ih v' hi' f
          simp_all

theorem shiftR_no_ub (v : Vec) (hi n : Nat) (fuel : Option Nat) (h1 : hi < v.slots.length)
    (h2 : n ≤ hi) : (shiftR v hi n fuel).2.1 ≠ .ub := by
  induction n generalizing v hi fuel with
  | zero => simp [shiftR]
  | succ n ih =>
    unfold shiftR
    cases tick fuel with
    | none => simp
    | some f =>
      simp only
      cases hi with
      | zero => omega
      | succ hi' =>
        simp only
        have hs := mv_isSome (v := v) (d := hi' + 1) (s := hi') (by omega) (by omega)
        cases h' : mv v (hi' + 1) hi' with
        | none => simp [h'] at hs
        | some v' =>
          simp only
          have := mv_props h'
          exact ih v' hi' f (by omega) (by omega)

theorem rangeGo_inv (v : Vec) (key : Nat) (xs : List Slot) (fuel : Option Nat)
    (h : VInv v) (hk : key ≤ v.size) :
    VInv (rangeGo v key xs fuel).1 ∧ (rangeGo v key xs fuel).2 ≠ .ub ∧
    (rangeGo v key xs fuel).1.cap = v.cap := by
  induction xs generalizing v key fuel with
  | nil => simp [rangeGo, h]
  | cons x xs ih =>
    unfold rangeGo
    split
    · simp [h]
    · rename_i hc
      cases tick fuel with
      | none => simp [h]
      | some f =>
        simp only
        have hlt : key < v.slots.length := by rw [h.2]; omega
        rw [wr_some hlt]
        simp only
        have h1 := h.1
        have h2 := h.2
        split
        · rename_i he
          have := ih { cap := v.cap, size := v.size + 1, slots := v.slots.set key x } (key + 1) f
            ⟨by simp; omega, by simpa using h2⟩ (by simp; omega)
          simpa using this
        · rename_i he
          have := ih { cap := v.cap, size := v.size, slots := v.slots.set key x } (key + 1) f
            ⟨by simpa using h1, by simpa using h2⟩ (by simp; omega)
          simpa using this

/-! ### what the loops compute when nothing throws -/

theorem shiftL_decomp (c z : Nat) (A : List Slot) (a : Slot) (B C : List Slot) :
    shiftL ⟨c, z, A ++ a :: (B ++ C)⟩ A.length B.length none =
      (⟨c, z, A ++ (B ++ (if B = [] then a else Slot.stale) :: C)⟩, .ok) := by
  induction B generalizing A a with
  | nil => simp [shiftL]
  | cons b B' ih =>
    simp only [List.length_cons, shiftL, tick, List.cons_append]
    rw [mv_left]
    simp only
    have e : A ++ b :: Slot.stale :: (B' ++ C) = (A ++ [b]) ++ Slot.stale :: (B' ++ C) := by simp
    have e2 : A.length + 1 = (A ++ [b]).length := by simp
    rw [e, e2, ih (A ++ [b]) Slot.stale]
    simp

theorem shiftR_decomp_aux (c z : Nat) (A : List Slot) (n : Nat) :
    ∀ (B : List Slot) (x : Slot) (C : List Slot), B.length = n →
    shiftR ⟨c, z, A ++ (B ++ x :: C)⟩ (A.length + n) n none =
      (⟨c, z, A ++ ((if B = [] then x else Slot.stale) :: (B ++ C))⟩, .ok, none) := by
  induction n with
  | zero =>
    intro B x C hn
    have : B = [] := List.length_eq_zero_iff.mp hn
    subst this; simp [shiftR]
  | succ n ih =>
    intro B x C hn
    rcases List.eq_nil_or_concat B with rfl | ⟨B', b, rfl⟩
    · simp at hn
    · simp only [List.concat_eq_append, List.length_append, List.length_cons, List.length_nil] at hn
      have hn' : B'.length = n := by omega
      have e1 : A.length + (n + 1) = (A ++ B').length + 1 := by simp; omega
      have e : A ++ ((B'.concat b) ++ x :: C) = (A ++ B') ++ b :: x :: C := by simp
      rw [e1, e]
      simp only [shiftR, tick]
      rw [mv_right]
      simp only
      have e3 : (A ++ B') ++ Slot.stale :: b :: C = A ++ (B' ++ Slot.stale :: (b :: C)) := by simp
      have e4 : (A ++ B').length = A.length + n := by simp; omega
      rw [e3, e4, ih B' Slot.stale (b :: C) hn']
      simp

theorem shiftR_decomp (c z : Nat) (A B : List Slot) (x : Slot) (C : List Slot) :
    shiftR ⟨c, z, A ++ (B ++ x :: C)⟩ (A.length + B.length) B.length none =
      (⟨c, z, A ++ ((if B = [] then x else Slot.stale) :: (B ++ C))⟩, .ok, none) :=
  shiftR_decomp_aux c z A B.length B x C rfl

/-- A vector's storage split at a live position. -/
theorem slots_decomp (l : List Slot) (pos z : Nat) (h1 : pos < z) (h2 : z ≤ l.length) :
    ∃ A a B C, l = A ++ a :: (B ++ C) ∧ A.length = pos ∧ B.length = z - 1 - pos ∧
      l.take z = A ++ a :: B := by
  refine ⟨l.take pos, l[pos]'(by omega), (l.drop (pos + 1)).take (z - 1 - pos), l.drop z, ?_, ?_, ?_, ?_⟩
  · have e1 : l = l.take pos ++ l.drop pos := (List.take_append_drop pos l).symm
    have e2 : l.drop pos = l[pos]'(by omega) :: l.drop (pos + 1) := List.drop_eq_getElem_cons (by omega)
    have e3 : l.drop (pos + 1) = (l.drop (pos + 1)).take (z - 1 - pos) ++ (l.drop (pos + 1)).drop (z - 1 - pos) :=
      (List.take_append_drop _ _).symm
    have e4 : (l.drop (pos + 1)).drop (z - 1 - pos) = l.drop z := by
      rw [List.drop_drop]; congr 1; omega
    rw [e4] at e3
    calc l = l.take pos ++ l.drop pos := e1
      _ = l.take pos ++ (l[pos]'(by omega) :: l.drop (pos + 1)) := by rw [e2]
      _ = _ := by rw [← e3]
  · simp; omega
  · simp; omega
  · have : z = pos + (1 + (z - 1 - pos)) := by omega
    have e2 : l.drop pos = l[pos]'(by omega) :: l.drop (pos + 1) := List.drop_eq_getElem_cons (by omega)
    conv => lhs; rw [this, List.take_add, e2, Nat.add_comm 1, List.take_succ_cons]

/-- Storage split at the end of the live range, with the first free slot exposed. -/
theorem slots_decomp_free (l : List Slot) (pos z : Nat) (h1 : pos ≤ z) (h2 : z < l.length) :
    ∃ A B x C, l = A ++ (B ++ x :: C) ∧ A.length = pos ∧ B.length = z - pos ∧
      l.take z = A ++ B := by
  refine ⟨l.take pos, (l.drop pos).take (z - pos), l[z]'h2, l.drop (z + 1), ?_, ?_, ?_, ?_⟩
  · have e1 : l = l.take pos ++ l.drop pos := (List.take_append_drop pos l).symm
    have e3 : l.drop pos = (l.drop pos).take (z - pos) ++ (l.drop pos).drop (z - pos) :=
      (List.take_append_drop _ _).symm
    have e4 : (l.drop pos).drop (z - pos) = l.drop z := by
      rw [List.drop_drop]; congr 1; omega
    have e5 : l.drop z = l[z]'h2 :: l.drop (z + 1) := List.drop_eq_getElem_cons h2
    rw [e4, e5] at e3
    calc l = l.take pos ++ l.drop pos := e1
      _ = _ := by rw [← e3]
  · simp; omega
  · simp; omega
  · have : z = pos + (z - pos) := by omega
    conv => lhs; rw [this, List.take_add]

theorem take_set_succ (l : List Slot) (i : Nat) (x : Slot) (h : i < l.length) :
    (l.set i x).take (i + 1) = l.take i ++ [x] := by
  induction l generalizing i with
  | nil => simp at h
  | cons a l ih =>
    cases i with
    | zero => simp
    | succ i => simp at h; simp [ih i h]

end NitroVerif.FV
