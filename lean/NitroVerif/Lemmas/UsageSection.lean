import NitroVerif.Lemmas.UsageForced

/-!
The width clause for the whole option section: the lines of the concatenated entries are the lines of the single
entries (every entry ends its last line), so what `fpCores` says about one wrapped text holds for every line of
the section.
-/
namespace NitroVerif.Usage
open NitroVerif.Str

theorem lineLens_ne_nil (col : Nat) (s : Str) : lineLens col s ≠ [] := by
  induction s generalizing col with
  | nil => simp [lineLens]
  | cons c cs ih =>
    simp only [lineLens]
    split
    · simp
    · exact ih _

/-- lines of a concatenation: the last (unfinished) line of the first part is continued by the second -/
theorem lineLens_append_of_snoc (col : Nat) (a b : Str) (ls : List Nat) (last : Nat)
    (h : lineLens col a = ls ++ [last]) : lineLens col (a ++ b) = ls ++ lineLens last b := by
  induction a generalizing col ls with
  | nil =>
    simp only [lineLens] at h
    cases ls with
    | nil => simp at h; subst h; simp
    | cons x xs =>
      simp only [List.cons_append, List.cons.injEq] at h
      exact absurd h.2.symm (by simp)
  | cons c cs ih =>
    simp only [List.cons_append, lineLens] at h ⊢
    split at h
    · rename_i hc
      rw [if_pos hc]
      cases ls with
      | nil =>
        simp only [List.nil_append, List.cons.injEq] at h
        exact absurd h.2 (lineLens_ne_nil 0 cs)
      | cons x xs =>
        simp only [List.cons_append, List.cons.injEq] at h
        rw [ih 0 xs h.2, h.1]
        simp
    · rename_i hc
      rw [if_neg hc]
      exact ih _ ls h

theorem lineLens_noNl (col : Nat) (a : Str) (h : '\n' ∉ a) : lineLens col a = [col + a.length] := by
  have := lineLens_append col a [] h
  simpa [lineLens] using this

/-- the ghost of one entry: per line its length and its core -/
def entryCores (e : Entry) : List (Nat × Nat) :=
  if entryText e ≠ [] then formatPaddedCores (entryLeft e).length (entryText e) 40 80
  else [((entryLeft e).length, (entryLeft e).length)]

theorem entry_lines (e : Entry) (hl : '\n' ∉ entryLeft e) (ht : '\n' ∉ entryText e) :
    lineLens 0 (formatEntry e) = (entryCores e).map (·.1) ++ [0] := by
  unfold entryCores
  by_cases hne : entryText e ≠ []
  · rw [if_pos hne, formatEntry_eq, if_pos hne, List.append_assoc, lineLens_append _ _ _ hl, lineLens_snoc_nl,
      formatPaddedCores_lens _ _ _ _ ht]
    simp
  · rw [if_neg hne, formatEntry_eq, if_neg hne, List.append_nil, lineLens_snoc_nl, lineLens_noNl _ _ hl]
    simp

/-- **the lines of the option section are the lines of its entries** -/
theorem section_lines (es : List Entry) (h : ∀ e ∈ es, '\n' ∉ entryLeft e ∧ '\n' ∉ entryText e) :
    lineLens 0 ((es.map formatEntry).flatten) = (es.flatMap entryCores).map (·.1) ++ [0] := by
  induction es with
  | nil => simp [lineLens]
  | cons e es ih =>
    have he := h e (by simp)
    have hes : ∀ x ∈ es, '\n' ∉ entryLeft x ∧ '\n' ∉ entryText x := fun x hx => h x (by simp [hx])
    simp only [List.map_cons, List.flatten_cons, List.flatMap_cons, List.map_append]
    rw [lineLens_append_of_snoc 0 (formatEntry e) _ _ 0 (entry_lines e he.1 he.2), ih hes]
    simp

theorem entryCores_width (e : Entry) :
    ∀ p ∈ entryCores e, p.2 ≤ p.1 ∧ p.2 ≤ max (entryLeft e).length 80 := by
  intro p hp
  unfold entryCores at hp
  split at hp
  · constructor
    · unfold formatPaddedCores at hp
      simp only at hp
      split at hp <;> exact fpCores_core_le _ _ _ _ _ _ _ (by simp) p hp
    · have := formatPaddedCores_width (entryLeft e).length (entryText e) 40 80 (by omega) (by omega) p hp
      omega
  · simp only [List.mem_singleton] at hp
    subst hp
    simp
    omega

/-- **the lines of a group**: an empty line, the heading, (an empty line, the description, an empty line,) the
entries' lines, and the empty rest behind the last line break -/
theorem group_lines (g : Group) (hne : g.entries ≠ []) (hn : '\n' ∉ g.name) (hd : '\n' ∉ g.description)
    (h : ∀ e ∈ g.entries, '\n' ∉ entryLeft e ∧ '\n' ∉ entryText e) :
    lineLens 0 (groupUsage g) =
      [0, g.name.length + 1] ++ (if g.description ≠ [] then [0, g.description.length, 0] else []) ++
        (g.entries.flatMap entryCores).map (·.1) ++ [0] := by
  have hhead : lineLens 0 (['\n'] ++ g.name ++ ":\n".toList) = [0, g.name.length + 1] ++ [0] := by
    have : ":\n".toList = [':', '\n'] := rfl
    rw [this]
    simp only [List.singleton_append, List.cons_append, List.nil_append, lineLens, if_true]
    rw [lineLens_append _ _ _ hn]
    simp [lineLens]
  have hform : groupUsage g = (['\n'] ++ g.name ++ ":\n".toList) ++
      ((if g.description ≠ [] then ['\n'] ++ g.description ++ "\n\n".toList else []) ++
        (g.entries.map formatEntry).flatten) := by
    unfold groupUsage
    rw [if_neg hne]
    simp only [List.append_assoc]
  rw [hform, lineLens_append_of_snoc 0 _ _ _ 0 hhead]
  by_cases hdesc : g.description ≠ []
  · rw [if_pos hdesc, if_pos hdesc]
    have hmid : lineLens 0 (['\n'] ++ g.description ++ "\n\n".toList) = [0, g.description.length, 0] ++ [0] := by
      have : "\n\n".toList = ['\n', '\n'] := rfl
      rw [this]
      simp only [List.singleton_append, List.cons_append, List.nil_append, lineLens, if_true]
      rw [lineLens_append _ _ _ hd]
      simp [lineLens]
    rw [lineLens_append_of_snoc 0 _ _ _ 0 hmid, section_lines _ h]
    simp
  · rw [if_neg hdesc, if_neg hdesc, List.nil_append, section_lines _ h]
    simp

theorem lineLens_snoc_exists (col : Nat) (a : Str) : ∃ ls last, lineLens col a = ls ++ [last] := by
  have h := lineLens_ne_nil col a
  exact ⟨(lineLens col a).dropLast, (lineLens col a).getLast h, (List.dropLast_concat_getLast h).symm⟩

/-- a paragraph, an empty line, and what follows -/
theorem lineLens_append_nlnl (col : Nat) (a b : Str) :
    lineLens col (a ++ "\n\n".toList ++ b) = lineLens col a ++ [0] ++ lineLens 0 b := by
  obtain ⟨ls, last, h⟩ := lineLens_snoc_exists col a
  have : "\n\n".toList = ['\n', '\n'] := rfl
  rw [List.append_assoc, lineLens_append_of_snoc col a _ ls last h, h, this]
  simp [lineLens]

/-- the lines a group contributes (nothing for a group without entries) -/
def groupLinesOf (g : Group) : List Nat :=
  if g.entries = [] then []
  else [0, g.name.length + 1] ++ (if g.description ≠ [] then [0, g.description.length, 0] else []) ++
    (g.entries.flatMap entryCores).map (·.1)

/-- what `group_lines` needs of a group -/
def GroupOk (g : Group) : Prop :=
  g.entries ≠ [] → '\n' ∉ g.name ∧ '\n' ∉ g.description ∧ ∀ e ∈ g.entries, '\n' ∉ entryLeft e ∧ '\n' ∉ entryText e

theorem group_lines' (g : Group) (h : GroupOk g) : lineLens 0 (groupUsage g) = groupLinesOf g ++ [0] := by
  unfold groupLinesOf
  by_cases hne : g.entries = []
  · rw [if_pos hne]
    unfold groupUsage
    rw [if_pos hne]
    simp [lineLens]
  · rw [if_neg hne]
    obtain ⟨hn, hd, he⟩ := h hne
    exact group_lines g hne hn hd he

theorem groups_lines (gs : List Group) (h : ∀ g ∈ gs, GroupOk g) :
    lineLens 0 ((gs.map groupUsage).flatten) = gs.flatMap groupLinesOf ++ [0] := by
  induction gs with
  | nil => simp [lineLens]
  | cons g gs ih =>
    simp only [List.map_cons, List.flatten_cons, List.flatMap_cons]
    rw [lineLens_append_of_snoc 0 (groupUsage g) _ _ 0 (group_lines' g (h g (by simp))),
      ih (fun x hx => h x (by simp [hx]))]
    simp

/-- **the lines of the complete usage text**: the synopsis paragraph, an empty line, the about text as it is and an
empty line, then the groups -/
theorem usage_lines (d : UDecl) (t o m l : List Entry) (h : ∀ g ∈ d.groups, GroupOk g) :
    lineLens 0 (usage d t o m l) =
      lineLens 0 (synopsisPara d t o m l) ++ [0] ++
        (if d.about ≠ [] then lineLens 0 d.about ++ [0] else []) ++ d.groups.flatMap groupLinesOf ++ [0] := by
  rw [usage_eq]
  by_cases ha : d.about ≠ []
  · rw [if_pos ha, if_pos ha, List.append_assoc, lineLens_append_nlnl, lineLens_append_nlnl, groups_lines _ h]
    simp
  · rw [if_neg ha, if_neg ha, List.append_nil, List.append_nil, lineLens_append_nlnl, groups_lines _ h]
    simp

end NitroVerif.Usage
