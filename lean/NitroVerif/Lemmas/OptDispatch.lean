import NitroVerif.Lemmas.OptTok
import NitroVerif.Lemmas.Opt

/-!
Refinement, part 1: what the parse loop does with one option-like token is what the
specification's explanation of that token says (`dispatch`).
-/
namespace NitroVerif.Opt

/-! ### the loop body, named -/

def optAct (s : Dyn) (o : OptD) (u : UI) (next : Option Str) : Except Err (Dyn × Bool) :=
  if u.hasValue then (updateOpt s o u.theValue).map (·, false)
  else match next with
    | some n => if isValueTok n then (updateOpt s o n).map (·, true) else .error .user
    | none => .error .user

def mulAct (s : Dyn) (m : MulD) (u : UI) (next : Option Str) : Except Err (Dyn × Bool) :=
  if u.hasValue then (updateMul s m u.theValue).map (·, false)
  else match next with
    | some n => if isValueTok n then (updateMul s m n).map (·, true) else .error .user
    | none => .error .user

theorem tryOpts_find (s : Dyn) (u : UI) (next : Option Str) (l : List OptD) :
    tryOpts s u next l = (l.find? fun o => matchesBase o.name o.short u).map (optAct s · u next) := by
  induction l with
  | nil => rfl
  | cons o rest ih =>
    unfold tryOpts
    by_cases hm : matchesBase o.name o.short u = true
    · simp only [hm, if_true, List.find?_cons_of_pos, Option.map_some, optAct]
      split
      · rfl
      · cases next with
        | none => rfl
        | some n => simp only; split <;> rfl
    · simp only [hm, Bool.false_eq_true, if_false]
      rw [ih, List.find?_cons_of_neg (by simpa using hm)]

theorem tryMuls_find (s : Dyn) (u : UI) (next : Option Str) (l : List MulD) :
    tryMuls s u next l = (l.find? fun m => matchesBase m.name m.short u).map (mulAct s · u next) := by
  induction l with
  | nil => rfl
  | cons o rest ih =>
    unfold tryMuls
    by_cases hm : matchesBase o.name o.short u = true
    · simp only [hm, if_true, List.find?_cons_of_pos, Option.map_some, mulAct]
      split
      · rfl
      · cases next with
        | none => rfl
        | some n => simp only; split <;> rfl
    · simp only [hm, Bool.false_eq_true, if_false]
      rw [ih, List.find?_cons_of_neg (by simpa using hm)]

/-- the body of the loop for an option-like token, after the syntax and short-list checks -/
def tokStep (d : Decl) (s : Dyn) (u : UI) (next : Option Str) : Except Err (Dyn × Bool) :=
  match tryOpts s u next d.opts with
  | some r => r
  | none =>
    match tryMuls s u next d.muls with
    | some r => r
    | none =>
      match tryTogs u s false d.togs with
      | .error e => .error e
      | .ok (s', true) => .ok (s', false)
      | .ok (_, false) => .error .user

theorem loop_nil (d : Decl) (st : LoopSt) : loop d st [] = .ok st := by
  rw [loop]

theorem loop_pos (d : Decl) (st : LoopSt) (tok : Str) (rest : List Str)
    (h : (st.onlyPos || isValueTok tok) = true) :
    loop d st (tok :: rest) =
      if d.allowed == some st.pos.length then .error .user
      else loop d { st with pos := st.pos ++ [tok], onlyPos := st.onlyPos || d.greedy } rest := by
  rw [loop]; simp only [h, if_true]

theorem loop_opt (d : Decl) (st : LoopSt) (tok : Str) (rest : List Str)
    (h : (st.onlyPos || isValueTok tok) = false) :
    loop d st (tok :: rest) =
      match mkUI tok with
      | none => .error .user
      | some u =>
        if u.isDoubleDash then loop d { st with onlyPos := true } rest
        else if !shortListOk d u then .error .user
        else match tokStep d st.dyn u rest.head? with
          | .error e => .error e
          | .ok (s', consumed) => loop d { st with dyn := s' } (if consumed then rest.tail else rest) := by
  rw [loop]
  simp only [h, Bool.false_eq_true, if_false]
  cases mkUI tok with
  | none => rfl
  | some u =>
    simp only
    split
    · rfl
    · split
      · rfl
      · unfold tokStep
        cases tryOpts st.dyn u rest.head? d.opts with
        | some r =>
          cases r with
          | error e => rfl
          | ok p => obtain ⟨s', c⟩ := p; rfl
        | none =>
          simp only
          cases tryMuls st.dyn u rest.head? d.muls with
          | some r =>
            cases r with
            | error e => rfl
            | ok p => obtain ⟨s', c⟩ := p; rfl
          | none =>
            simp only
            cases tryTogs u st.dyn false d.togs with
            | error e => rfl
            | ok p =>
              obtain ⟨s', f⟩ := p
              cases f <;> simp

/-! ### toggles: positive occurrences and negation, independent of a token -/

/-- `k` positive occurrences of toggle `t` -/
def togPos (s : Dyn) (t : TogD) (k : Int) : Except Err Dyn :=
  if s.dirtyT t.name && s.given t.name == 0 then .error .user
  else .ok { s with given := upd s.given t.name (s.given t.name + k), dirtyT := upd s.dirtyT t.name true }

/-- `--no-<t>` -/
def togNegate (s : Dyn) (t : TogD) : Except Err Dyn :=
  if !t.reversible then .error .user
  else if s.dirtyT t.name && s.given t.name != 0 then .error .user
  else .ok { s with given := upd s.given t.name 0, dirtyT := upd s.dirtyT t.name true }

theorem updateTog_pos (s : Dyn) (t : TogD) (u : UI) (hv : u.hasValue = false)
    (hp : (u.hasPrefix && u.nameWithoutPrefix == t.name) = false) :
    updateTog s t u = togPos s t (togInc t u) := by
  unfold updateTog togPos
  simp [hv, hp]

theorem updateTog_neg (s : Dyn) (t : TogD) (u : UI) (hv : u.hasValue = false)
    (hp : (u.hasPrefix && u.nameWithoutPrefix == t.name) = true) :
    updateTog s t u = togNegate s t := by
  unfold updateTog togNegate
  simp [hv, hp]

theorem updateTog_value (s : Dyn) (t : TogD) (u : UI) (hv : u.hasValue = true) :
    updateTog s t u = .error .user := by
  unfold updateTog; simp [hv]

/-- `try_parse_as_toggle` when no toggle matches -/
theorem tryTogs_none (u : UI) (s : Dyn) (f : Bool) (l : List TogD)
    (h : ∀ t ∈ l, matchesTog t u = false) : tryTogs u s f l = .ok (s, f) := by
  induction l generalizing s f with
  | nil => rfl
  | cons t rest ih =>
    unfold tryTogs
    rw [h t (by simp)]
    simp only [Bool.false_eq_true, if_false]
    exact ih s f (fun x hx => h x (by simp [hx]))

/-- `try_parse_as_toggle` when exactly one toggle matches -/
theorem tryTogs_one (u : UI) (s : Dyn) (f : Bool) (l : List TogD) (t : TogD) (ht : t ∈ l)
    (hm : matchesTog t u = true) (hu : ∀ x ∈ l, matchesTog x u = true → x = t)
    (hnd : (l.map (·.name)).Nodup) :
    tryTogs u s f l = match updateTog s t u with
      | .error e => .error e
      | .ok s' => .ok (s', true) := by
  induction l generalizing s f with
  | nil => simp at ht
  | cons x rest ih =>
    simp only [List.map_cons, List.nodup_cons] at hnd
    unfold tryTogs
    by_cases hx : matchesTog x u = true
    · have hxt : x = t := hu x (by simp) hx
      subst hxt
      simp only [hx, if_true]
      cases hup : updateTog s x u with
      | error e => rfl
      | ok s' =>
        simp only
        -- nothing else matches in the rest
        apply tryTogs_none
        intro y hy
        by_cases hym : matchesTog y u = true
        · have := hu y (by simp [hy]) hym
          subst this
          exact absurd (List.mem_map_of_mem hy) hnd.1
        · simpa using hym
    · have hxf : matchesTog x u = false := by simpa using hx
      simp only [hxf, Bool.false_eq_true, if_false]
      have htr : t ∈ rest := by
        rcases List.mem_cons.mp ht with h | h
        · subst h; rw [hm] at hxf; simp at hxf
        · exact h
      exact ih s f htr (fun y hy => hu y (by simp [hy])) hnd.2

end NitroVerif.Opt

namespace NitroVerif.Opt

/-! ### applying one explained item to the parse state -/

def hasLetterIn (ls : Str) (t : TogD) : Bool :=
  match t.short with
  | some c => decide (ls.count c > 0)
  | none => false

/-- a short token's letters applied to the toggles, in map order -/
def togsShortFold (ls : Str) : Dyn → List TogD → Except Err Dyn
  | s, [] => .ok s
  | s, t :: rest =>
    if hasLetterIn ls t then
      match togPos s t (letterCount t ls) with
      | .error e => .error e
      | .ok s' => togsShortFold ls s' rest
    else togsShortFold ls s rest

def applyValue (d : Decl) (s : Dyn) (n v : Str) : Except Err Dyn :=
  match d.opts.find? (·.name == n) with
  | some o => updateOpt s o v
  | none =>
    match d.muls.find? (·.name == n) with
    | some m => updateMul s m v
    | none => .error .user

/-- the effect of one explained item on the options' state (positionals are the loop's business) -/
def applyOptItem (d : Decl) (s : Dyn) : Item → Except Err Dyn
  | .pos _ => .ok s
  | .sep => .ok s
  | .optSep n _ v => applyValue d s n v
  | .optEq n _ v => applyValue d s n v
  | .togLong n => match d.togs.find? (·.name == n) with
    | some t => togPos s t 1
    | none => .error .user
  | .togNeg n => match d.togs.find? (·.name == n) with
    | some t => togNegate s t
    | none => .error .user
  | .togShort ls => togsShortFold ls s d.togs

/-- Well-formed declaration: what the declaration API guarantees (long names pairwise distinct over
all kinds, Props/C13) and what `check_parser_consistency` checks at parse time. -/
structure WF (d : Decl) : Prop where
  names : (allNames d).Nodup
  cons : consistent d = true

theorem WF.optNames {d : Decl} (h : WF d) : (d.opts.map (·.name)).Nodup := by
  have := h.names; unfold allNames at this
  exact (List.nodup_append.mp (List.nodup_append.mp this).1).1

theorem WF.mulNames {d : Decl} (h : WF d) : (d.muls.map (·.name)).Nodup := by
  have := h.names; unfold allNames at this
  exact (List.nodup_append.mp (List.nodup_append.mp this).1).2.1

theorem WF.togNames {d : Decl} (h : WF d) : (d.togs.map (·.name)).Nodup := by
  have := h.names; unfold allNames at this
  exact (List.nodup_append.mp this).2.1

theorem WF.opt_ne_mul {d : Decl} (h : WF d) {o : OptD} {m : MulD} (ho : o ∈ d.opts) (hm : m ∈ d.muls) :
    o.name ≠ m.name := by
  have := h.names; unfold allNames at this
  have h1 := (List.nodup_append.mp (List.nodup_append.mp this).1).2.2
  exact h1 _ (List.mem_map_of_mem ho) _ (List.mem_map_of_mem hm)

theorem WF.val_ne_tog {d : Decl} (h : WF d) {n : Str} (hn : n ∈ d.opts.map (·.name) ++ d.muls.map (·.name))
    {t : TogD} (ht : t ∈ d.togs) : n ≠ t.name := by
  have := h.names; unfold allNames at this
  exact (List.nodup_append.mp this).2.2 _ hn _ (List.mem_map_of_mem ht)

theorem WF.letters {d : Decl} (h : WF d) : (shortNames d).Nodup := by
  have := h.cons; unfold consistent at this
  simp only [Bool.and_eq_true, decide_eq_true_eq] at this
  exact this.1

theorem WF.noPrefixFree {d : Decl} (h : WF d) {t : TogD} (ht : t ∈ d.togs) :
    noPrefix ++ t.name ∉ allNames d := by
  have := h.cons; unfold consistent at this
  simp only [Bool.and_eq_true, List.all_eq_true] at this
  have := this.2 t ht
  simpa [noPrefix, List.contains_iff_mem] using this

/-- in a list with pairwise distinct keys an element is found by its key -/
theorem find?_by_key {α : Type} (key : α → Str) (l : List α) (hnd : (l.map key).Nodup) (x : α) (hx : x ∈ l) :
    l.find? (fun y => key y == key x) = some x := by
  induction l with
  | nil => simp at hx
  | cons y rest ih =>
    simp only [List.map_cons, List.nodup_cons] at hnd
    rcases List.mem_cons.mp hx with h | h
    · subst h; simp
    · have hne : key y ≠ key x := by
        intro he
        exact hnd.1 (he ▸ List.mem_map_of_mem h)
      rw [List.find?_cons_of_neg (by simpa using hne)]
      exact ih hnd.2 h

theorem find?_none_of_not_mem {α : Type} (key : α → Str) (l : List α) (n : Str) (h : n ∉ l.map key) :
    l.find? (fun y => key y == n) = none := by
  rw [List.find?_eq_none]
  intro y hy
  simp only [beq_iff_eq]
  intro he
  exact h (he ▸ List.mem_map_of_mem hy)

theorem find?_some_mem_key {α : Type} (key : α → Str) (l : List α) (n : Str) (x : α)
    (h : l.find? (fun y => key y == n) = some x) : x ∈ l ∧ key x = n := by
  have h1 := List.mem_of_find?_eq_some h
  have h2 := List.find?_some h
  exact ⟨h1, by simpa using h2⟩

/-- `try_parse_as_toggle` for a value-less short token: every toggle whose letter occurs is counted -/
theorem tryTogs_short (u : UI) (ls : Str) (hs : u.isShort = true) (hl : u.shortList = ls)
    (hv : u.hasValue = false) (hp : u.hasPrefix = false) (ha : u.isArgument = true)
    (hn : u.isNamed = false) (s : Dyn) (f : Bool) (l : List TogD) :
    tryTogs u s f l = (togsShortFold ls s l).map (·, f || l.any (hasLetterIn ls)) := by
  have hmatch : ∀ t : TogD, matchesTog t u = hasLetterIn ls t := by
    intro t
    unfold matchesTog matchesBase hasLetterIn
    simp only [hp, Bool.false_and, Bool.false_eq_true, if_false, ha, Bool.not_true, hs, Bool.and_true,
      hl, hv, Bool.and_false, hn]
    cases t.short <;> simp
  induction l generalizing s f with
  | nil => simp [tryTogs, togsShortFold, Except.map]
  | cons t rest ih =>
    unfold tryTogs togsShortFold
    rw [hmatch t]
    by_cases ht : hasLetterIn ls t = true
    · simp only [ht, if_true, List.any_cons, Bool.true_or, Bool.or_true]
      rw [updateTog_pos s t u hv (by simp [hp])]
      have hinc : togInc t u = letterCount t ls := by
        unfold togInc; simp [hs, hl]
      rw [hinc]
      cases togPos s t (letterCount t ls) with
      | error e => rfl
      | ok s' => simp only; rw [ih s' true]; simp
    · have htf : hasLetterIn ls t = false := by simpa using ht
      simp only [htf, Bool.false_eq_true, if_false, List.any_cons, Bool.false_or]
      exact ih s f

end NitroVerif.Opt

namespace NitroVerif.Opt

/-- What `dispatch` promises for one option-like token. -/
def DispatchOk (d : Decl) (s : Dyn) (tok : Str) (next : Option Str) : Prop :=
  match explainTok d tok next with
  | none =>
    mkUI tok = none ∨
    ∃ u, mkUI tok = some u ∧ u.isDoubleDash = false ∧
      (shortListOk d u = false ∨ ∃ e, tokStep d s u next = .error e)
  | some (it, consumed) =>
    ∃ u, mkUI tok = some u ∧ u.isDoubleDash = false ∧ shortListOk d u = true ∧
      tokStep d s u next = (applyOptItem d s it).map (·, consumed)

theorem matchesBase_long (name : Str) (short : Option Char) (u : UI) (n : Str)
    (ha : u.isArgument = true) (hs : u.isShort = false) (hn : u.isNamed = true) (hasn : u.asNamed = n) :
    matchesBase name short u = (name == n) := by
  unfold matchesBase
  simp only [ha, Bool.not_true, Bool.false_eq_true, if_false, hs, Bool.and_false, hn, if_true, hasn]
  exact Bool.beq_comm

theorem find?_congr' {α : Type} (l : List α) (p q : α → Bool) (h : ∀ x, p x = q x) :
    l.find? p = l.find? q := by
  have : p = q := funext h
  rw [this]

theorem explainValue_optAct (d : Decl) (s : Dyn) (o : OptD) (u : UI) (v next : Option Str) (short : Bool)
    (hf : d.opts.find? (·.name == o.name) = some o)
    (hv : u.hasValue = v.isSome) (htv : u.theValue = v.getD []) :
    match explainValue o.name short v next with
    | none => ∃ e, optAct s o u next = .error e
    | some (it, consumed) => optAct s o u next = (applyOptItem d s it).map (·, consumed) := by
  unfold explainValue optAct
  cases v with
  | some v' =>
    simp only [hv, Option.isSome_some, if_true, htv, Option.getD_some, applyOptItem, applyValue, hf]
  | none =>
    simp only [hv, Option.isSome_none, Bool.false_eq_true, if_false]
    cases next with
    | none => exact ⟨_, rfl⟩
    | some nx =>
      simp only
      by_cases hx : isValueTok nx = true
      · simp only [hx, if_true, applyOptItem, applyValue, hf]
      · simp only [hx, Bool.false_eq_true, if_false]; exact ⟨_, rfl⟩

theorem explainValue_mulAct (d : Decl) (s : Dyn) (m : MulD) (u : UI) (v next : Option Str) (short : Bool)
    (hfo : d.opts.find? (·.name == m.name) = none)
    (hf : d.muls.find? (·.name == m.name) = some m)
    (hv : u.hasValue = v.isSome) (htv : u.theValue = v.getD []) :
    match explainValue m.name short v next with
    | none => ∃ e, mulAct s m u next = .error e
    | some (it, consumed) => mulAct s m u next = (applyOptItem d s it).map (·, consumed) := by
  unfold explainValue mulAct
  cases v with
  | some v' =>
    simp only [hv, Option.isSome_some, if_true, htv, Option.getD_some, applyOptItem, applyValue, hfo, hf]
  | none =>
    simp only [hv, Option.isSome_none, Bool.false_eq_true, if_false]
    cases next with
    | none => exact ⟨_, rfl⟩
    | some nx =>
      simp only
      by_cases hx : isValueTok nx = true
      · simp only [hx, if_true, applyOptItem, applyValue, hfo, hf]
      · simp only [hx, Bool.false_eq_true, if_false]; exact ⟨_, rfl⟩

theorem any_eq_false_of_find?_none {α : Type} (l : List α) (p : α → Bool) (h : l.find? p = none) :
    l.any p = false := by
  rw [List.find?_eq_none] at h
  rw [List.any_eq_false]
  intro x hx; simpa using h x hx

theorem any_eq_true_of_find?_some {α : Type} (l : List α) (p : α → Bool) (x : α) (h : l.find? p = some x) :
    l.any p = true := by
  rw [List.any_eq_true]
  exact ⟨x, List.mem_of_find?_eq_some h, List.find?_some h⟩

theorem isValueOptName_eq (d : Decl) (n : Str) :
    isValueOptName d n = (d.opts.any (·.name == n) || d.muls.any (·.name == n)) := by
  unfold isValueOptName valueOpts
  simp [List.any_append, List.any_map, Function.comp_def]

theorem dispatch_long (d : Decl) (hwf : WF d) (s : Dyn) (tok : Str) (next : Option Str)
    (hv : isValueTok tok = false) (hd : isDoubleDashTok tok = false) (n : Str) (v : Option Str)
    (hsh : shapeOf tok = some (.long n v)) : DispatchOk d s tok next := by
  obtain ⟨_, hsp, c, r, hn, hc, _⟩ := shapeOf_long hsh
  have hmk := mkUI_of_shape hv hd hsh
  rw [hsp] at hmk
  simp only at hmk
  obtain ⟨u1, u2, u3, u4, u5, u6, u7, u8, u9⟩ := ui_long tok n v c r hn hc
  generalize hu : (⟨tok, '-' :: '-' :: n, v⟩ : UI) = u at *
  have hdd : u.isDoubleDash = false := by rw [← hu]; exact hd
  have hslo : shortListOk d u = true := by unfold shortListOk; simp [u2]
  have hmb : ∀ name short, matchesBase name short u = (name == n) :=
    fun name short => matchesBase_long name short u n u4 u2 u3 u7
  have hto : tryOpts s u next d.opts = (d.opts.find? (·.name == n)).map (optAct s · u next) := by
    rw [tryOpts_find]; congr 1; exact find?_congr' _ _ _ (fun o => hmb o.name o.short)
  have htm : tryMuls s u next d.muls = (d.muls.find? (·.name == n)).map (mulAct s · u next) := by
    rw [tryMuls_find]; congr 1; exact find?_congr' _ _ _ (fun o => hmb o.name o.short)
  unfold DispatchOk explainTok
  simp only [hsh]
  unfold explainLong
  rw [isValueOptName_eq]
  cases hfo : d.opts.find? (·.name == n) with
  | some o =>
    obtain ⟨hom, hon⟩ := find?_some_mem_key (·.name) d.opts n o hfo
    subst hon
    simp only [any_eq_true_of_find?_some _ _ _ hfo, Bool.true_or, if_true]
    have hstep : tokStep d s u next = optAct s o u next := by
      unfold tokStep; rw [hto, hfo]; rfl
    have := explainValue_optAct d s o u v next false hfo u5 u9
    cases hex : explainValue o.name false v next with
    | none =>
      rw [hex] at this
      right; exact ⟨u, hmk, hdd, Or.inr (by rw [hstep]; exact this)⟩
    | some p =>
      obtain ⟨it, consumed⟩ := p
      rw [hex] at this
      exact ⟨u, hmk, hdd, hslo, by rw [hstep]; exact this⟩
  | none =>
    simp only [any_eq_false_of_find?_none _ _ hfo, Bool.false_or]
    cases hfm : d.muls.find? (·.name == n) with
    | some m =>
      obtain ⟨hmm, hmn⟩ := find?_some_mem_key (·.name) d.muls n m hfm
      subst hmn
      simp only [any_eq_true_of_find?_some _ _ _ hfm, if_true]
      have hstep : tokStep d s u next = mulAct s m u next := by
        unfold tokStep; rw [hto, hfo, htm, hfm]; rfl
      have := explainValue_mulAct d s m u v next false hfo hfm u5 u9
      cases hex : explainValue m.name false v next with
      | none =>
        rw [hex] at this
        right; exact ⟨u, hmk, hdd, Or.inr (by rw [hstep]; exact this)⟩
      | some p =>
        obtain ⟨it, consumed⟩ := p
        rw [hex] at this
        exact ⟨u, hmk, hdd, hslo, by rw [hstep]; exact this⟩
    | none =>
      simp only [any_eq_false_of_find?_none _ _ hfm, Bool.false_eq_true, if_false]
      have hstep : tokStep d s u next = match tryTogs u s false d.togs with
          | .error e => .error e
          | .ok (s', true) => .ok (s', false)
          | .ok (_, false) => .error .user := by
        unfold tokStep; rw [hto, hfo, htm, hfm]; rfl
      -- which toggles match
      have hmt : ∀ t : TogD, matchesTog t u = ((noPrefix.isPrefixOf n && n.drop 3 == t.name) || t.name == n) := by
        intro t
        unfold matchesTog
        rw [hmb, u6, u8]
        by_cases hp : (noPrefix.isPrefixOf n && n.drop 3 == t.name) = true
        · simp [hp]
        · have : (noPrefix.isPrefixOf n && n.drop 3 == t.name) = false := by simpa using hp
          simp [this]
      unfold isTogName
      cases hft : d.togs.find? (·.name == n) with
      | some t1 =>
        obtain ⟨ht1m, ht1n⟩ := find?_some_mem_key (·.name) d.togs n t1 hft
        simp only [any_eq_true_of_find?_some _ _ _ hft, if_true]
        -- t1 is the only toggle that matches
        have hm1 : matchesTog t1 u = true := by rw [hmt]; simp [ht1n]
        have huniq : ∀ x ∈ d.togs, matchesTog x u = true → x = t1 := by
          intro x hx hxm
          rw [hmt] at hxm
          simp only [Bool.or_eq_true, Bool.and_eq_true, beq_iff_eq] at hxm
          rcases hxm with ⟨hpre, hdrop⟩ | hname
          · exfalso
            obtain ⟨tl, htl⟩ := List.isPrefixOf_iff_prefix.mp hpre
            have hnn : n = noPrefix ++ x.name := by
              rw [← hdrop, ← htl]; simp [noPrefix]
            apply hwf.noPrefixFree hx
            rw [← hnn, ← ht1n]
            unfold allNames
            simp only [List.mem_append, List.mem_map]
            exact Or.inr ⟨t1, ht1m, rfl⟩
          · have := find?_by_key (·.name) d.togs hwf.togNames x hx
            rw [hname] at this
            rw [hft] at this
            simpa using this.symm
        have htt := tryTogs_one u s false d.togs t1 ht1m hm1 huniq hwf.togNames
        by_cases hval : v.isSome = true
        · -- a toggle cannot be given a value
          simp only [hval, if_true]
          right
          refine ⟨u, hmk, hdd, Or.inr ⟨.user, ?_⟩⟩
          rw [hstep, htt, updateTog_value s t1 u (by rw [u5]; exact hval)]
        · have hvn : v.isSome = false := by simpa using hval
          simp only [hvn, Bool.false_eq_true, if_false]
          refine ⟨u, hmk, hdd, hslo, ?_⟩
          have hnp : (u.hasPrefix && u.nameWithoutPrefix == t1.name) = false := by
            rw [u6, u8, ht1n]
            by_cases hpre : noPrefix.isPrefixOf n = true
            · obtain ⟨tl, htl⟩ := List.isPrefixOf_iff_prefix.mp hpre
              have hlen : (n.drop 3).length < n.length := by
                rw [← htl]; simp [noPrefix]; omega
              have : n.drop 3 ≠ n := fun h => by rw [h] at hlen; omega
              simp [this]
            · simp [hpre]
          rw [hstep, htt, updateTog_pos s t1 u (by rw [u5]; exact hvn) hnp]
          have hinc : togInc t1 u = 1 := by unfold togInc; simp [u2]
          rw [hinc]
          simp only [applyOptItem, hft]
          cases togPos s t1 1 <;> rfl
      | none =>
        simp only [any_eq_false_of_find?_none _ _ hft, Bool.false_eq_true, if_false]
        by_cases hpre : noPrefix.isPrefixOf n = true
        · simp only [hpre, Bool.true_and]
          cases hft2 : d.togs.find? (·.name == n.drop 3) with
          | some t2 =>
            obtain ⟨ht2m, ht2n⟩ := find?_some_mem_key (·.name) d.togs (n.drop 3) t2 hft2
            simp only [any_eq_true_of_find?_some _ _ _ hft2, if_true]
            have hm2 : matchesTog t2 u = true := by rw [hmt]; simp [hpre, ht2n]
            have huniq : ∀ x ∈ d.togs, matchesTog x u = true → x = t2 := by
              intro x hx hxm
              rw [hmt] at hxm
              simp only [Bool.or_eq_true, Bool.and_eq_true, beq_iff_eq] at hxm
              rcases hxm with ⟨_, hdrop⟩ | hname
              · have := find?_by_key (·.name) d.togs hwf.togNames x hx
                rw [← hdrop] at this
                rw [hft2] at this
                simpa using this.symm
              · exfalso
                have := find?_by_key (·.name) d.togs hwf.togNames x hx
                rw [hname, hft] at this
                simp at this
            have htt := tryTogs_one u s false d.togs t2 ht2m hm2 huniq hwf.togNames
            by_cases hval : v.isSome = true
            · simp only [hval, if_true]
              right
              refine ⟨u, hmk, hdd, Or.inr ⟨.user, ?_⟩⟩
              rw [hstep, htt, updateTog_value s t2 u (by rw [u5]; exact hval)]
            · have hvn : v.isSome = false := by simpa using hval
              simp only [hvn, Bool.false_eq_true, if_false]
              refine ⟨u, hmk, hdd, hslo, ?_⟩
              have hpp : (u.hasPrefix && u.nameWithoutPrefix == t2.name) = true := by
                rw [u6, u8, ht2n]; simp [hpre]
              rw [hstep, htt, updateTog_neg s t2 u (by rw [u5]; exact hvn) hpp]
              simp only [applyOptItem, hft2]
              cases togNegate s t2 <;> rfl
          | none =>
            simp only [any_eq_false_of_find?_none _ _ hft2, Bool.false_eq_true, if_false]
            right
            refine ⟨u, hmk, hdd, Or.inr ⟨.user, ?_⟩⟩
            rw [hstep, tryTogs_none u s false d.togs]
            intro t ht
            rw [hmt]
            have h1 : (t.name == n) = false := by
              have := List.find?_eq_none.mp hft t ht; simpa using this
            have h2 : (n.drop 3 == t.name) = false := by
              have := List.find?_eq_none.mp hft2 t ht
              simp only [beq_iff_eq] at this
              simpa using fun h => this h.symm
            simp [h1, h2]
        · have hpf : noPrefix.isPrefixOf n = false := Bool.eq_false_iff.mpr hpre
          simp only [hpf, Bool.false_and, Bool.false_eq_true, if_false]
          right
          refine ⟨u, hmk, hdd, Or.inr ⟨.user, ?_⟩⟩
          rw [hstep, tryTogs_none u s false d.togs]
          intro t ht
          rw [hmt]
          have h1 : (t.name == n) = false := by
            have := List.find?_eq_none.mp hft t ht; simpa using this
          simp [h1, hpf]

end NitroVerif.Opt

namespace NitroVerif.Opt

theorem tryTogs_hasValue (u : UI) (hv : u.hasValue = true) (s : Dyn) (f : Bool) (l : List TogD) :
    (∃ e, tryTogs u s f l = .error e) ∨ tryTogs u s f l = .ok (s, f) := by
  induction l generalizing s f with
  | nil => right; rfl
  | cons t rest ih =>
    unfold tryTogs
    by_cases hm : matchesTog t u = true
    · simp only [hm, if_true]; rw [updateTog_value s t u hv]; left; exact ⟨_, rfl⟩
    · simp only [hm, Bool.false_eq_true, if_false]; exact ih s f

theorem matchesBase_short (name : Str) (short : Option Char) (u : UI) (ls : Str)
    (ha : u.isArgument = true) (hs : u.isShort = true) (hl : u.shortList = ls) (hn : u.isNamed = false) :
    matchesBase name short u = match short with
      | some c => !(decide (ls.length > 1) && u.hasValue) && decide (ls.count c > 0)
      | none => false := by
  unfold matchesBase
  cases short with
  | none => simp [ha, hn]
  | some c =>
    simp only [ha, Bool.not_true, Bool.false_eq_true, if_false, Option.isSome_some, hs, Bool.and_self, if_true, hl]
    by_cases h : (decide (ls.length > 1) && u.hasValue) = true
    · simp [h]
    · have : (decide (ls.length > 1) && u.hasValue) = false := by simpa using h
      simp [this]

theorem valueOptOfLetter_eq (d : Decl) (c : Char) :
    valueOptOfLetter d c =
      match d.opts.find? (·.short == some c) with
      | some o => some o.name
      | none => (d.muls.find? (·.short == some c)).map (·.name) := by
  unfold valueOptOfLetter valueOpts
  rw [List.find?_append, List.find?_map, List.find?_map]
  simp only [Function.comp_def]
  cases d.opts.find? (fun o => o.short == some c) with
  | some o => simp
  | none =>
    cases d.muls.find? (fun o => o.short == some c) with
    | some m => simp
    | none => simp

theorem WF.opt_tog_letter {d : Decl} (h : WF d) {o : OptD} {t : TogD} (ho : o ∈ d.opts) (ht : t ∈ d.togs)
    {c : Char} (hoc : o.short = some c) (htc : t.short = some c) : False := by
  have hl := h.letters; unfold shortNames at hl
  have := (List.nodup_append.mp hl).2.2 c
    (List.mem_append_left _ (List.mem_filterMap.mpr ⟨o, ho, hoc⟩)) c (List.mem_filterMap.mpr ⟨t, ht, htc⟩)
  exact this rfl

theorem WF.mul_tog_letter {d : Decl} (h : WF d) {m : MulD} {t : TogD} (hm : m ∈ d.muls) (ht : t ∈ d.togs)
    {c : Char} (hmc : m.short = some c) (htc : t.short = some c) : False := by
  have hl := h.letters; unfold shortNames at hl
  have := (List.nodup_append.mp hl).2.2 c
    (List.mem_append_right _ (List.mem_filterMap.mpr ⟨m, hm, hmc⟩)) c (List.mem_filterMap.mpr ⟨t, ht, htc⟩)
  exact this rfl

theorem togsShortFold_cases (ls : Str) (s : Dyn) (l : List TogD) (b : Bool) :
    (match (togsShortFold ls s l).map (fun s' => (s', b)) with
      | .error e => (.error e : Except Err (Dyn × Bool))
      | .ok (s', true) => .ok (s', false)
      | .ok (_, false) => .error .user) =
    if b then (togsShortFold ls s l).map (·, false)
    else match togsShortFold ls s l with | .error e => .error e | .ok _ => .error .user := by
  cases togsShortFold ls s l with
  | error e => cases b <;> rfl
  | ok s' => cases b <;> rfl

theorem dispatch_short (d : Decl) (hwf : WF d) (s : Dyn) (tok : Str) (next : Option Str)
    (hv : isValueTok tok = false) (hd : isDoubleDashTok tok = false) (ls : Str) (v : Option Str)
    (hsh : shapeOf tok = some (.short ls v)) : DispatchOk d s tok next := by
  obtain ⟨_, hsp, c, r, hl, hc, _⟩ := shapeOf_short hsh
  have hmk := mkUI_of_shape hv hd hsh
  rw [hsp] at hmk
  simp only at hmk
  obtain ⟨u1, u2, u3, u4, u5, u6, u7, u9⟩ := ui_short tok ls v c r hl hc
  generalize hu : (⟨tok, '-' :: ls, v⟩ : UI) = u at *
  have hdd : u.isDoubleDash = false := by rw [← hu]; exact hd
  have hmb := fun name short => matchesBase_short name short u ls u4 u2 u7 u3
  have hto := tryOpts_find s u next d.opts
  have htm := tryMuls_find s u next d.muls
  have hmt : ∀ t : TogD, matchesTog t u = matchesBase t.name t.short u := by
    intro t; unfold matchesTog; simp [u6]
  unfold DispatchOk explainTok
  simp only [hsh]
  cases r with
  | nil =>
    -- a single letter
    subst hl
    have hslo : shortListOk d u = true := by unfold shortListOk; simp [u2, u7]
    have hmb1 : ∀ name short, matchesBase name short u = (short == some c) := by
      intro name short
      rw [hmb]
      cases short with
      | none => rfl
      | some c' =>
        simp only [List.length_cons, List.length_nil, Nat.zero_add, Nat.lt_irrefl, decide_false,
          Bool.false_and, Bool.not_false, Bool.true_and, List.count_cons, List.count_nil]
        by_cases hcc : c' = c
        · subst hcc; simp
        · have : (c == c') = false := by simpa using fun h => hcc h.symm
          simp [this, hcc]
    have hfo' : d.opts.find? (fun o => matchesBase o.name o.short u) = d.opts.find? (·.short == some c) :=
      find?_congr' _ _ _ (fun o => hmb1 o.name o.short)
    have hfm' : d.muls.find? (fun o => matchesBase o.name o.short u) = d.muls.find? (·.short == some c) :=
      find?_congr' _ _ _ (fun o => hmb1 o.name o.short)
    rw [hfo'] at hto
    rw [hfm'] at htm
    unfold explainShort
    simp only
    rw [valueOptOfLetter_eq]
    cases hfo : d.opts.find? (·.short == some c) with
    | some o =>
      simp only
      have hom := List.mem_of_find?_eq_some hfo
      have hbyname := find?_by_key (·.name) d.opts hwf.optNames o hom
      have hstep : tokStep d s u next = optAct s o u next := by
        unfold tokStep; rw [hto, hfo]; rfl
      have := explainValue_optAct d s o u v next true hbyname u5 u9
      cases hex : explainValue o.name true v next with
      | none =>
        rw [hex] at this
        right; exact ⟨u, hmk, hdd, Or.inr (by rw [hstep]; exact this)⟩
      | some p =>
        obtain ⟨it, consumed⟩ := p
        rw [hex] at this
        exact ⟨u, hmk, hdd, hslo, by rw [hstep]; exact this⟩
    | none =>
      simp only
      cases hfm : d.muls.find? (·.short == some c) with
      | some m =>
        simp only [Option.map_some]
        have hmm := List.mem_of_find?_eq_some hfm
        have hbyname := find?_by_key (·.name) d.muls hwf.mulNames m hmm
        have hnoopt : d.opts.find? (·.name == m.name) = none := by
          apply find?_none_of_not_mem (fun (x : OptD) => x.name)
          intro hmem
          obtain ⟨o, ho, hon⟩ := List.mem_map.mp hmem
          exact hwf.opt_ne_mul ho hmm hon
        have hstep : tokStep d s u next = mulAct s m u next := by
          unfold tokStep; rw [hto, hfo, htm, hfm]; rfl
        have := explainValue_mulAct d s m u v next true hnoopt hbyname u5 u9
        cases hex : explainValue m.name true v next with
        | none =>
          rw [hex] at this
          right; exact ⟨u, hmk, hdd, Or.inr (by rw [hstep]; exact this)⟩
        | some p =>
          obtain ⟨it, consumed⟩ := p
          rw [hex] at this
          exact ⟨u, hmk, hdd, hslo, by rw [hstep]; exact this⟩
      | none =>
        simp only [Option.map_none]
        have hstep : tokStep d s u next = match tryTogs u s false d.togs with
            | .error e => .error e
            | .ok (s', true) => .ok (s', false)
            | .ok (_, false) => .error .user := by
          unfold tokStep; rw [hto, hfo, htm, hfm]; rfl
        cases v with
        | some v' =>
          -- a toggle letter with a value
          simp only [Option.isNone_some, Bool.false_and, Bool.false_eq_true, if_false]
          right
          refine ⟨u, hmk, hdd, Or.inr ?_⟩
          rw [hstep]
          rcases tryTogs_hasValue u (by rw [u5]; rfl) s false d.togs with ⟨e, he⟩ | hok
          · rw [he]; exact ⟨e, rfl⟩
          · rw [hok]; exact ⟨.user, rfl⟩
        | none =>
          have hnv : u.hasValue = false := by rw [u5]; rfl
          have htt := tryTogs_short u [c] u2 u7 hnv u6 u4 u3 s false d.togs
          have hany : d.togs.any (hasLetterIn [c]) = isTogLetter d c := by
            unfold isTogLetter
            congr 1
            funext t
            unfold hasLetterIn
            have := hmb1 t.name t.short
            rw [hmb] at this
            cases hts : t.short with
            | none => rfl
            | some c' =>
              rw [hts] at this
              simp only [List.length_cons, List.length_nil, Nat.zero_add, Nat.lt_irrefl, decide_false,
                Bool.false_and, Bool.not_false, Bool.true_and] at this
              exact this
          simp only [Option.isNone_none, Bool.true_and, Bool.false_or] at htt ⊢
          have hstep2 := hstep
          rw [htt, hany, togsShortFold_cases] at hstep2
          by_cases htl : isTogLetter d c = true
          · simp only [htl, if_true] at hstep2 ⊢
            exact ⟨u, hmk, hdd, hslo, hstep2⟩
          · have htf : isTogLetter d c = false := by simpa using htl
            simp only [htf, Bool.false_eq_true, if_false] at hstep2 ⊢
            right
            refine ⟨u, hmk, hdd, Or.inr ?_⟩
            rw [hstep2]
            cases togsShortFold [c] s d.togs with
            | error e => exact ⟨e, rfl⟩
            | ok s' => exact ⟨.user, rfl⟩
  | cons c2 r' =>
    -- a bundle of two or more letters
    have hlen : ls.length > 1 := by rw [hl]; simp
    have hexp : explainShort d ls v next =
        if v.isNone && ls.all (isTogLetter d) then some (.togShort ls, false) else none := by
      rw [hl]; unfold explainShort; rfl
    rw [hexp]
    cases v with
    | some v' =>
      simp only [Option.isNone_some, Bool.false_and, Bool.false_eq_true, if_false]
      have hhv : u.hasValue = true := by rw [u5]; rfl
      have hmb0 : ∀ name short, matchesBase name short u = false := by
        intro name short; rw [hmb, hhv]; cases short <;> simp [hlen]
      have hfo : d.opts.find? (fun o => matchesBase o.name o.short u) = none := by
        rw [List.find?_eq_none]; intro o _; simp [hmb0]
      have hfm : d.muls.find? (fun o => matchesBase o.name o.short u) = none := by
        rw [List.find?_eq_none]; intro o _; simp [hmb0]
      right
      refine ⟨u, hmk, hdd, Or.inr ⟨.user, ?_⟩⟩
      unfold tokStep
      rw [hto, hfo, htm, hfm, tryTogs_none u s false d.togs (fun t _ => by rw [hmt, hmb0])]
      rfl
    | none =>
      have hnv : u.hasValue = false := by rw [u5]; rfl
      have hslo : shortListOk d u = ls.all (isTogLetter d) := by
        unfold shortListOk
        simp only [u2, hnv, Bool.not_true, Bool.or_self, Bool.false_eq_true, if_false, u7]
        have : ¬ ls.length < 2 := by omega
        simp only [this, if_false]
        rfl
      simp only [Option.isNone_none, Bool.true_and]
      by_cases hall : ls.all (isTogLetter d) = true
      · simp only [hall, if_true]
        have hmbv : ∀ name (c' : Char), matchesBase name (some c') u = decide (ls.count c' > 0) := by
          intro name c'; rw [hmb, hnv]; simp
        have htogOf : ∀ c', ls.count c' > 0 → ∃ t ∈ d.togs, t.short = some c' := by
          intro c' hc'
          have hmem : c' ∈ ls := List.count_pos_iff.mp hc'
          have := List.all_eq_true.mp hall c' hmem
          unfold isTogLetter at this
          obtain ⟨t, ht, hts⟩ := List.any_eq_true.mp this
          exact ⟨t, ht, by simpa using hts⟩
        have hfo : d.opts.find? (fun o => matchesBase o.name o.short u) = none := by
          rw [List.find?_eq_none]
          intro o ho
          cases hos : o.short with
          | none => rw [hmb]; simp
          | some c' =>
            rw [hmbv]
            simp only [decide_eq_true_eq]
            intro hcnt
            obtain ⟨t, ht, hts⟩ := htogOf c' hcnt
            exact hwf.opt_tog_letter ho ht hos hts
        have hfm : d.muls.find? (fun o => matchesBase o.name o.short u) = none := by
          rw [List.find?_eq_none]
          intro o ho
          cases hos : o.short with
          | none => rw [hmb]; simp
          | some c' =>
            rw [hmbv]
            simp only [decide_eq_true_eq]
            intro hcnt
            obtain ⟨t, ht, hts⟩ := htogOf c' hcnt
            exact hwf.mul_tog_letter ho ht hos hts
        have hany : d.togs.any (hasLetterIn ls) = true := by
          have hcm : c ∈ ls := by rw [hl]; simp
          have := List.all_eq_true.mp hall c hcm
          unfold isTogLetter at this
          obtain ⟨t, ht, hts⟩ := List.any_eq_true.mp this
          apply List.any_eq_true.mpr
          refine ⟨t, ht, ?_⟩
          unfold hasLetterIn
          have hts' : t.short = some c := by simpa using hts
          rw [hts']
          simp only [decide_eq_true_eq]
          exact List.count_pos_iff.mpr hcm
        have htt := tryTogs_short u ls u2 u7 hnv u6 u4 u3 s false d.togs
        refine ⟨u, hmk, hdd, by rw [hslo]; exact hall, ?_⟩
        unfold tokStep
        rw [hto, hfo, htm, hfm]
        simp only [Option.map_none]
        rw [htt, hany]
        simp only [Bool.or_true]
        rw [togsShortFold_cases]
        rfl
      · have hallf : ls.all (isTogLetter d) = false := by simpa using hall
        simp only [hallf, Bool.false_eq_true, if_false]
        right
        exact ⟨u, hmk, hdd, Or.inl (by rw [hslo]; exact hallf)⟩

/-- **dispatch**: for every option-like token, the parse loop's body and the specification's
explanation agree — the body fails exactly where no explanation exists, and otherwise does to the
parse state what the explained item says and consumes the next token exactly when the item owns it. -/
theorem dispatch (d : Decl) (hwf : WF d) (s : Dyn) (tok : Str) (next : Option Str)
    (hv : isValueTok tok = false) (hd : isDoubleDashTok tok = false) : DispatchOk d s tok next := by
  cases hsh : shapeOf tok with
  | none =>
    unfold DispatchOk explainTok
    simp only [hsh]
    left
    exact mkUI_of_shape_none hv hd hsh
  | some sh =>
    cases sh with
    | long n v => exact dispatch_long d hwf s tok next hv hd n v hsh
    | short ls v => exact dispatch_short d hwf s tok next hv hd ls v hsh

end NitroVerif.Opt
