import NitroVerif.Lemmas.UsageWidth

/-!
The width clause of C15 without the assumption that every word fits: `format_padded` puts a word
that can never fit behind the padding (`|w| + 1 > maxW - leftPad`) on the line that is current, and
every line that holds no such word stays within the width.

`fpLines` is a ghost of `fpGo`: for every line of the output (the continued one first) its length
and whether a never-fitting word was put on it.  `fpLines_lens` ties it to the text
(`lineLens`), `fpLines_width` is the bound.
-/
namespace NitroVerif.Usage
open NitroVerif.Str

def fpLines (leftPad maxW : Int) : Int → Option Int → List Str → Nat → Bool → List (Nat × Bool)
  | _, _, [], col, f => [(col, f)]
  | space, pending, word :: rest, col, f =>
    let w := untab word
    let n : Int := w.length + 1
    let never : Bool := (0 ≤ maxW - leftPad) && decide (n > maxW - leftPad)
    if never || decide (n ≤ space) then
      fpLines leftPad maxW (space - n) none rest (col + (blanks (pending.getD 1)).length + w.length) (f || never)
    else
      (col, f) :: fpLines leftPad maxW (maxW - leftPad - n) none rest ((blanks leftPad).length + w.length) false

/-- the ghost describes the text: its first components are the line lengths of `fpGo`'s output -/
theorem fpLines_lens (leftPad maxW : Int) (words : List Str) (hw : ∀ w ∈ words, '\n' ∉ w)
    (space : Int) (pending : Option Int) (col : Nat) (f : Bool) :
    (fpLines leftPad maxW space pending words col f).map (·.1) =
      lineLens col (fpGo leftPad maxW space pending words) := by
  induction words generalizing space pending col f with
  | nil => simp [fpLines, fpGo, lineLens]
  | cons word rest ih =>
    have hnl := hw word (by simp)
    have hrest : ∀ w ∈ rest, '\n' ∉ w := fun w hm => hw w (by simp [hm])
    simp only [fpLines, fpGo]
    split
    · rw [ih hrest, List.append_assoc, lineLens_append _ _ _ (blanks_noNl _),
        lineLens_append _ _ _ (untab_noNl _ hnl)]
    · simp only [List.map_cons, List.cons_append, List.append_assoc, lineLens, ↓reduceIte]
      rw [ih hrest, lineLens_append _ _ _ (blanks_noNl _), lineLens_append _ _ _ (untab_noNl _ hnl)]
      simp

/-- **Every line without a never-fitting word keeps within the width** — no assumption on the words.
`f` says whether the line being continued already holds such a word (then nothing is claimed about
it, and nothing is assumed about `space`). -/
theorem fpLines_width (leftPad maxW : Int) (h0 : 0 ≤ leftPad) (h1 : leftPad < maxW)
    (words : List Str) (col : Nat) (space : Int) (pending : Option Int) (f : Bool)
    (hinv : f = false → 0 ≤ space ∧
      (space ≤ 0 ∨ (col : Int) + ((blanks (pending.getD 1)).length : Int) - 1 ≤ maxW - space)) :
    ∀ p ∈ fpLines leftPad maxW space pending words col f, p.2 = false →
      (p.1 : Int) ≤ if f then maxW else max (col : Int) maxW := by
  induction words generalizing col space pending f with
  | nil =>
    intro p hp hf
    simp only [fpLines, List.mem_singleton] at hp
    subst hp
    simp only at hf
    subst hf
    simp; omega
  | cons word rest ih =>
    simp only [fpLines]
    rw [untab_length]
    by_cases hnever : ((0 ≤ maxW - leftPad) && decide ((word.length : Int) + 1 > maxW - leftPad)) = true
    · -- a word that can never fit: it goes on the current line, which is flagged from now on
      simp only [hnever, Bool.true_or, if_true, Bool.or_true]
      intro p hp hf
      have := ih (col + (blanks (pending.getD 1)).length + word.length) (space - (↑word.length + 1)) none true
        (by simp) p hp hf
      simp only [if_true] at this
      split <;> omega
    · have hnever' : ((0 ≤ maxW - leftPad) && decide ((word.length : Int) + 1 > maxW - leftPad)) = false := by
        simpa using hnever
      have hfitw : (word.length : Int) + 1 ≤ maxW - leftPad := by
        simp only [Bool.and_eq_false_iff, decide_eq_false_iff_not] at hnever'
        rcases hnever' with h | h <;> omega
      simp only [hnever', Bool.false_or, Bool.or_false]
      by_cases hfits : (word.length : Int) + 1 ≤ space
      · simp only [hfits, decide_true, if_true]
        intro p hp hf
        cases f with
        | true =>
          have := ih (col + (blanks (pending.getD 1)).length + word.length) (space - (↑word.length + 1)) none true
            (by simp) p hp hf
          simpa using this
        | false =>
          obtain ⟨hs, hi⟩ := hinv rfl
          have hi' := hi.resolve_left (by omega)
          generalize (blanks (pending.getD 1)).length = bl at *
          have := ih (col + bl + word.length) (space - (↑word.length + 1)) none false
            (fun _ => ⟨by omega, Or.inr (by
              simp only [Option.getD_none, blanks_one_length]; push_cast; omega)⟩) p hp hf
          simp only [Bool.false_eq_true, if_false] at this ⊢
          have hle : ((col + bl + word.length : Nat) : Int) ≤ maxW := by push_cast; omega
          omega
      · simp only [hfits, decide_false, Bool.false_eq_true, if_false]
        intro p hp hf
        rcases List.mem_cons.mp hp with he | hp
        · subst he
          simp only at hf
          subst hf
          simp; omega
        · have hbp := blanks_pad_length leftPad h0
          generalize (blanks leftPad).length = bp at *
          have := ih (bp + word.length) (maxW - leftPad - (↑word.length + 1)) none false
            (fun _ => ⟨by omega, Or.inr (by
              simp only [Option.getD_none, blanks_one_length]; push_cast; split at hbp <;> omega)⟩) p hp hf
          simp only [Bool.false_eq_true, if_false] at this
          have hle : ((bp + word.length : Nat) : Int) ≤ maxW := by push_cast; split at hbp <;> omega
          split <;> omega

/-- a line is flagged only because of a word that can never fit: if there is none among the words,
no line gets flagged -/
theorem fpLines_flags (leftPad maxW : Int) (words : List Str)
    (hw : ∀ w ∈ words, ((0 ≤ maxW - leftPad) && decide ((w.length : Int) + 1 > maxW - leftPad)) = false)
    (space : Int) (pending : Option Int) (col : Nat) (f : Bool) :
    ∀ p ∈ fpLines leftPad maxW space pending words col f, p.2 = true → f = true := by
  induction words generalizing space pending col f with
  | nil =>
    intro p hp hf
    simp only [fpLines, List.mem_singleton] at hp
    subst hp; exact hf
  | cons word rest ih =>
    have h := hw word (by simp)
    have hrest : ∀ w ∈ rest, ((0 ≤ maxW - leftPad) && decide ((w.length : Int) + 1 > maxW - leftPad)) = false :=
      fun w hm => hw w (by simp [hm])
    simp only [fpLines]
    rw [untab_length, h]
    simp only [Bool.false_or, Bool.or_false]
    intro p hp hf
    split at hp
    · exact ih hrest _ _ _ _ p hp hf
    · rcases List.mem_cons.mp hp with he | hp
      · subst he; exact hf
      · exact absurd (ih hrest _ _ _ _ p hp hf) (by simp)

/-- the ghost for a whole call of `format_padded` -/
def formatPaddedLines (col : Nat) (text : Str) (leftPad maxW : Int) : List (Nat × Bool) :=
  let words := splitGo [' '] (by decide) text
  if (col : Int) ≤ leftPad then fpLines leftPad maxW (maxW - leftPad) (some (leftPad - col)) words col false
  else fpLines leftPad maxW 0 none words col false

theorem formatPaddedLines_lens (col : Nat) (text : Str) (leftPad maxW : Int) (hnl : '\n' ∉ text) :
    (formatPaddedLines col text leftPad maxW).map (·.1) = lineLens col (formatPadded col text leftPad maxW) := by
  have hw : ∀ w ∈ splitGo [' '] (by decide) text, '\n' ∉ w :=
    fun w hm hc => hnl (mem_of_mem_splitGo _ _ _ _ _ hm hc)
  unfold formatPaddedLines formatPadded
  simp only
  split <;> exact fpLines_lens _ _ _ hw _ _ _ _

theorem formatPaddedLines_width (col : Nat) (text : Str) (leftPad maxW : Int) (h0 : 0 ≤ leftPad)
    (h1 : leftPad < maxW) :
    ∀ p ∈ formatPaddedLines col text leftPad maxW, p.2 = false → (p.1 : Int) ≤ max (col : Int) maxW := by
  unfold formatPaddedLines
  simp only
  intro p hp hf
  by_cases hc : (col : Int) ≤ leftPad
  · simp only [hc, if_true] at hp
    have := fpLines_width leftPad maxW h0 h1 _ col (maxW - leftPad) (some (leftPad - col)) false
      (fun _ => ⟨by omega, Or.inr (by
        simp only [Option.getD_some]; rw [blanks_length]; split <;> (push_cast; omega))⟩) p hp hf
    simpa using this
  · simp only [hc, if_false] at hp
    have := fpLines_width leftPad maxW h0 h1 _ col 0 none false
      (fun _ => ⟨by omega, Or.inl (by omega)⟩) p hp hf
    simpa using this

end NitroVerif.Usage

/-! ### lines that do hold a never-fitting word

`fpCores` is a second ghost: for every line its length and its *core* — the length it had when the
first never-fitting word was put on it (the whole length if there is none).  Behind such a word
the remaining-space counter is negative, so only further never-fitting words can follow on that
line; `fpCores_width` bounds every core. -/
namespace NitroVerif.Usage
open NitroVerif.Str

def fpCores (leftPad maxW : Int) : Int → Option Int → List Str → Nat → Option Nat → List (Nat × Nat)
  | _, _, [], col, core => [(col, core.getD col)]
  | space, pending, word :: rest, col, core =>
    let w := untab word
    let n : Int := w.length + 1
    let never : Bool := (0 ≤ maxW - leftPad) && decide (n > maxW - leftPad)
    let col' := col + (blanks (pending.getD 1)).length + w.length
    if never then fpCores leftPad maxW (space - n) none rest col' (some (core.getD col))
    else if decide (n ≤ space) then
      -- a fitting word goes on the current line: everything so far counts (if the line already held a
      -- never-fitting word this would push the core up — `fpCores_width` shows it cannot happen)
      fpCores leftPad maxW (space - n) none rest col' (core.map fun _ => col')
    else
      (col, core.getD col) :: fpCores leftPad maxW (maxW - leftPad - n) none rest ((blanks leftPad).length + w.length) none

theorem fpCores_lens (leftPad maxW : Int) (words : List Str) (hw : ∀ w ∈ words, '\n' ∉ w)
    (space : Int) (pending : Option Int) (col : Nat) (core : Option Nat) :
    (fpCores leftPad maxW space pending words col core).map (·.1) =
      lineLens col (fpGo leftPad maxW space pending words) := by
  induction words generalizing space pending col core with
  | nil => simp [fpCores, fpGo, lineLens]
  | cons word rest ih =>
    have hnl := hw word (by simp)
    have hrest : ∀ w ∈ rest, '\n' ∉ w := fun w hm => hw w (by simp [hm])
    simp only [fpCores, fpGo]
    by_cases hnever : ((0 ≤ maxW - leftPad) && decide (((untab word).length : Int) + 1 > maxW - leftPad)) = true
    · simp only [hnever, if_true, Bool.true_or]
      rw [ih hrest, List.append_assoc, lineLens_append _ _ _ (blanks_noNl _),
        lineLens_append _ _ _ (untab_noNl _ hnl)]
    · have hn : ((0 ≤ maxW - leftPad) && decide (((untab word).length : Int) + 1 > maxW - leftPad)) = false := by
        simpa using hnever
      simp only [hn, Bool.false_eq_true, if_false, Bool.false_or]
      split
      · rw [ih hrest, List.append_assoc, lineLens_append _ _ _ (blanks_noNl _),
          lineLens_append _ _ _ (untab_noNl _ hnl)]
      · simp only [List.map_cons, List.cons_append, List.append_assoc, lineLens, ↓reduceIte]
        rw [ih hrest, lineLens_append _ _ _ (blanks_noNl _), lineLens_append _ _ _ (untab_noNl _ hnl)]
        simp

/-- **The core of every line keeps within the bound** `B ≥ maxW` (the bound of the continued line
is `max col maxW`).  `core = some c`: the current line already holds a never-fitting word, its core
is `c`, and the counter is negative. -/
theorem fpCores_width (leftPad maxW B : Int) (h0 : 0 ≤ leftPad) (h1 : leftPad < maxW) (hB : maxW ≤ B)
    (words : List Str) (col : Nat) (space : Int) (pending : Option Int) (core : Option Nat)
    (hsp : space ≤ maxW - leftPad)
    (hnone : core = none → (col : Int) ≤ B ∧ 0 ≤ space ∧
      (space ≤ 0 ∨ (col : Int) + ((blanks (pending.getD 1)).length : Int) - 1 ≤ maxW - space))
    (hsome : ∀ c, core = some c → space < 0 ∧ (c : Int) ≤ B) :
    ∀ p ∈ fpCores leftPad maxW space pending words col core, (p.2 : Int) ≤ B := by
  induction words generalizing col space pending core with
  | nil =>
    intro p hp
    simp only [fpCores, List.mem_singleton] at hp
    subst hp
    cases core with
    | none => simpa using (hnone rfl).1
    | some c => simpa using (hsome c rfl).2
  | cons word rest ih =>
    simp only [fpCores]
    rw [untab_length]
    by_cases hnever : ((0 ≤ maxW - leftPad) && decide ((word.length : Int) + 1 > maxW - leftPad)) = true
    · simp only [hnever, if_true]
      have hgt : (word.length : Int) + 1 > maxW - leftPad := by
        simp only [Bool.and_eq_true, decide_eq_true_eq] at hnever; exact hnever.2
      intro p hp
      refine ih _ (space - (↑word.length + 1)) none (some (core.getD col)) (by omega) (by simp) ?_ p hp
      intro c hc
      simp only [Option.some.injEq] at hc
      subst hc
      refine ⟨by omega, ?_⟩
      cases core with
      | none => simpa using (hnone rfl).1
      | some c => simpa using (hsome c rfl).2
    · have hn : ((0 ≤ maxW - leftPad) && decide ((word.length : Int) + 1 > maxW - leftPad)) = false := by
        simpa using hnever
      have hfitw : (word.length : Int) + 1 ≤ maxW - leftPad := by
        simp only [Bool.and_eq_false_iff, decide_eq_false_iff_not] at hn
        rcases hn with h | h <;> omega
      simp only [hn, Bool.false_eq_true, if_false]
      by_cases hfits : (word.length : Int) + 1 ≤ space
      · simp only [hfits, decide_true, if_true]
        -- the line cannot already hold a never-fitting word: the counter would be negative
        cases core with
        | some c => exact absurd (hsome c rfl).1 (by omega)
        | none =>
          obtain ⟨_, hs, hi⟩ := hnone rfl
          have hi' := hi.resolve_left (by omega)
          intro p hp
          simp only [Option.map_none] at hp
          generalize (blanks (pending.getD 1)).length = bl at *
          refine ih (col + bl + word.length) (space - (↑word.length + 1)) none none (by omega) ?_ (by simp) p hp
          intro _
          refine ⟨by push_cast; omega, by omega, Or.inr ?_⟩
          simp only [Option.getD_none, blanks_one_length]; push_cast; omega
      · simp only [hfits, decide_false, Bool.false_eq_true, if_false]
        intro p hp
        rcases List.mem_cons.mp hp with he | hp
        · subst he
          cases core with
          | none => simpa using (hnone rfl).1
          | some c => simpa using (hsome c rfl).2
        · have hbp := blanks_pad_length leftPad h0
          generalize (blanks leftPad).length = bp at *
          refine ih (bp + word.length) (maxW - leftPad - (↑word.length + 1)) none none (by omega) ?_ (by simp) p hp
          intro _
          refine ⟨by push_cast; split at hbp <;> omega, by omega, Or.inr ?_⟩
          simp only [Option.getD_none, blanks_one_length]; push_cast; split at hbp <;> omega

/-- the core is a prefix length of its line -/
theorem fpCores_core_le (leftPad maxW : Int) (words : List Str) (space : Int) (pending : Option Int)
    (col : Nat) (core : Option Nat) (hc : ∀ c, core = some c → c ≤ col) :
    ∀ p ∈ fpCores leftPad maxW space pending words col core, p.2 ≤ p.1 := by
  induction words generalizing space pending col core with
  | nil =>
    intro p hp
    simp only [fpCores, List.mem_singleton] at hp
    subst hp
    cases core with
    | none => simp
    | some c => simpa using hc c rfl
  | cons word rest ih =>
    simp only [fpCores]
    intro p hp
    split at hp
    · refine ih _ _ _ _ ?_ p hp
      intro c h
      simp only [Option.some.injEq] at h
      subst h
      cases core with
      | none => simp; omega
      | some c => have := hc c rfl; simp; omega
    · split at hp
      · refine ih _ _ _ _ ?_ p hp
        intro c h
        cases core with
        | none => simp at h
        | some c0 => simp at h; omega
      · rcases List.mem_cons.mp hp with he | hp
        · subst he
          cases core with
          | none => simp
          | some c => simpa using hc c rfl
        · exact ih _ _ _ _ (by simp) p hp

/-- the second ghost for a whole call of `format_padded` -/
def formatPaddedCores (col : Nat) (text : Str) (leftPad maxW : Int) : List (Nat × Nat) :=
  let words := splitGo [' '] (by decide) text
  if (col : Int) ≤ leftPad then fpCores leftPad maxW (maxW - leftPad) (some (leftPad - col)) words col none
  else fpCores leftPad maxW 0 none words col none

theorem formatPaddedCores_lens (col : Nat) (text : Str) (leftPad maxW : Int) (hnl : '\n' ∉ text) :
    (formatPaddedCores col text leftPad maxW).map (·.1) = lineLens col (formatPadded col text leftPad maxW) := by
  have hw : ∀ w ∈ splitGo [' '] (by decide) text, '\n' ∉ w :=
    fun w hm hc => hnl (mem_of_mem_splitGo _ _ _ _ _ hm hc)
  unfold formatPaddedCores formatPadded
  simp only
  split <;> exact fpCores_lens _ _ _ hw _ _ _ _

theorem formatPaddedCores_width (col : Nat) (text : Str) (leftPad maxW : Int) (h0 : 0 ≤ leftPad)
    (h1 : leftPad < maxW) :
    ∀ p ∈ formatPaddedCores col text leftPad maxW, (p.2 : Int) ≤ max (col : Int) maxW := by
  unfold formatPaddedCores
  simp only
  intro p hp
  by_cases hc : (col : Int) ≤ leftPad
  · simp only [hc, if_true] at hp
    refine fpCores_width leftPad maxW (max (col : Int) maxW) h0 h1 (by omega) _ col (maxW - leftPad)
      (some (leftPad - col)) none (by omega) ?_ (by simp) p hp
    intro _
    refine ⟨by omega, by omega, Or.inr ?_⟩
    simp only [Option.getD_some]; rw [blanks_length]; split <;> (push_cast; omega)
  · simp only [hc, if_false] at hp
    refine fpCores_width leftPad maxW (max (col : Int) maxW) h0 h1 (by omega) _ col 0 none none (by omega) ?_
      (by simp) p hp
    intro _
    exact ⟨by omega, by omega, Or.inl (by omega)⟩

end NitroVerif.Usage
