import NitroVerif.Model.Str
import NitroVerif.Spec.Str

/-! Helper lemmas for the string engine (used by `Props/C17`, `Props/C08`). -/
namespace NitroVerif.Str

variable {α : Type} [DecidableEq α]

theorem isPrefixOf_append_drop {n l : List α} (h : n.isPrefixOf l = true) :
    n ++ l.drop n.length = l := by
  obtain ⟨t, rfl⟩ := List.isPrefixOf_iff_prefix.mp h
  simp

/-- What `find?` returns is an occurrence. -/
theorem find?_some_split {hay needle : List α} {i : Nat} (h : find? hay needle = some i) :
    hay = hay.take i ++ needle ++ hay.drop (i + needle.length) := by
  induction hay generalizing i with
  | nil =>
    unfold find? at h
    split at h
    · rename_i hn; simp at h; subst h; subst hn; simp
    · simp at h
  | cons c cs ih =>
    unfold find? at h
    split at h
    · rename_i hp
      simp at h; subst h
      simpa using (isPrefixOf_append_drop hp).symm
    · cases hf : find? cs needle with
      | none => simp [hf] at h
      | some j =>
        simp [hf] at h
        subst h
        have := ih hf
        have e : j + 1 + needle.length = (j + needle.length) + 1 := by omega
        rw [e]
        simp only [List.take_succ_cons, List.drop_succ_cons, List.cons_append]
        congr 1

/-- `find?` returns the leftmost occurrence: no earlier position starts one. -/
theorem find?_leftmost {hay needle : List α} {i : Nat} (h : find? hay needle = some i) :
    ∀ j, j < i → needle.isPrefixOf (hay.drop j) = false := by
  induction hay generalizing i with
  | nil =>
    unfold find? at h
    split at h
    · simp at h; subst h; intro j hj; omega
    · simp at h
  | cons c cs ih =>
    unfold find? at h
    split at h
    · simp at h; subst h; intro j hj; omega
    · rename_i hp
      cases hf : find? cs needle with
      | none => simp [hf] at h
      | some k =>
        simp [hf] at h
        subst h
        intro j hj
        cases j with
        | zero => exact Bool.eq_false_iff.mpr hp
        | succ j => simpa using ih hf j (by omega)

/-- `none` means no occurrence anywhere. -/
theorem find?_none_no_prefix {hay needle : List α} (h : find? hay needle = none) :
    ∀ j, needle.isPrefixOf (hay.drop j) = false := by
  induction hay with
  | nil =>
    unfold find? at h
    split at h
    · simp at h
    · rename_i hn
      intro j
      cases needle with
      | nil => exact absurd rfl hn
      | cons a as => simp
  | cons c cs ih =>
    unfold find? at h
    split at h
    · simp at h
    · rename_i hp
      have hf : find? cs needle = none := by
        cases hf : find? cs needle with
        | none => rfl
        | some k => simp [hf] at h
      intro j
      cases j with
      | zero => exact Bool.eq_false_iff.mpr hp
      | succ j => simpa using ih hf j

theorem infix_iff_prefix_drop {needle hay : List α} :
    needle <:+: hay ↔ ∃ j, needle.isPrefixOf (hay.drop j) = true := by
  constructor
  · rintro ⟨s, t, rfl⟩
    refine ⟨s.length, ?_⟩
    simp [List.isPrefixOf_iff_prefix]
  · rintro ⟨j, hj⟩
    obtain ⟨t, ht⟩ := List.isPrefixOf_iff_prefix.mp hj
    refine ⟨hay.take j, t, ?_⟩
    rw [List.append_assoc, ht, List.take_append_drop]

theorem find?_none_iff {hay needle : List α} :
    find? hay needle = none ↔ ¬ needle <:+: hay := by
  constructor
  · intro h hi
    obtain ⟨j, hj⟩ := infix_iff_prefix_drop.mp hi
    simp [find?_none_no_prefix h j] at hj
  · intro h
    cases hf : find? hay needle with
    | none => rfl
    | some i =>
      exfalso; apply h
      have := find?_some_split hf
      exact ⟨hay.take i, hay.drop (i + needle.length), this.symm⟩

/-- The part in front of the leftmost occurrence contains no occurrence. -/
theorem find?_take_none {hay needle : List α} {i : Nat} (hn : needle ≠ [])
    (h : find? hay needle = some i) : find? (hay.take i) needle = none := by
  rw [find?_none_iff]
  intro hi
  obtain ⟨j, hj⟩ := infix_iff_prefix_drop.mp hi
  obtain ⟨t, ht⟩ := List.isPrefixOf_iff_prefix.mp hj
  have hlen : j + needle.length ≤ i := by
    have := congrArg List.length ht
    simp at this
    have hpos : 0 < needle.length := List.length_pos_iff.mpr hn
    omega
  have hpos : 0 < needle.length := List.length_pos_iff.mpr hn
  have hlt : j < i := by omega
  have hno := find?_leftmost h j hlt
  have : needle.isPrefixOf (hay.drop j) = true := by
    rw [List.isPrefixOf_iff_prefix]
    have e : (hay.take i).drop j = (hay.drop j).take (i - j) := by
      rw [List.drop_take]
    rw [e] at ht
    exact ⟨t ++ (hay.drop j).drop (i - j), by
      rw [← List.append_assoc, ht, List.take_append_drop]⟩
  simp [this] at hno

theorem splitGo_eq (needle : List α) (hn : needle ≠ []) (rest : List α) :
    splitGo needle hn rest =
      match find? rest needle with
      | some pos => rest.take pos :: splitGo needle hn (rest.drop (pos + needle.length))
      | none => [rest] := by
  rw [splitGo]
  split <;> simp_all

theorem replaceGo_eq (pat : List α) (hn : pat ≠ []) (rep rest : List α) :
    replaceGo pat hn rep rest =
      match find? rest pat with
      | some pos => rest.take pos ++ rep ++ replaceGo pat hn rep (rest.drop (pos + pat.length))
      | none => rest := by
  rw [replaceGo]
  split <;> simp_all

theorem splitGo_ne_nil (needle : List α) (hn : needle ≠ []) (rest : List α) :
    splitGo needle hn rest ≠ [] := by
  rw [splitGo_eq]; split <;> simp

theorem glue_cons_of_ne_nil (sep x : List α) {l : List (List α)} (h : l ≠ []) :
    glue sep (x :: l) = x ++ sep ++ glue sep l := by
  cases l with
  | nil => exact absurd rfl h
  | cons y rest => simp [glue]

/-- Scanning counts one occurrence at `find?`'s hit and goes on behind it. -/
theorem countOcc_of_find? (needle : List α) (hn : needle ≠ []) (hay : List α) :
    countOcc needle hn hay =
      match find? hay needle with
      | some pos => 1 + countOcc needle hn (hay.drop (pos + needle.length))
      | none => 0 := by
  induction hay with
  | nil =>
    have : find? ([] : List α) needle = none := by simp [find?, hn]
    rw [this]; simp [countOcc]
  | cons c cs ih =>
    rw [countOcc]
    unfold find?
    split
    · simp
    · rw [ih]
      cases find? cs needle with
      | none => simp
      | some j =>
        simp only [Option.map_some]
        have e : j + 1 + needle.length = (j + needle.length) + 1 := by omega
        rw [e, List.drop_succ_cons]

theorem replaceSpec_of_find? (pat : List α) (hn : pat ≠ []) (rep hay : List α) :
    replaceSpec pat hn rep hay =
      match find? hay pat with
      | some pos => hay.take pos ++ rep ++ replaceSpec pat hn rep (hay.drop (pos + pat.length))
      | none => hay := by
  induction hay with
  | nil =>
    have : find? ([] : List α) pat = none := by simp [find?, hn]
    rw [this]; simp [replaceSpec]
  | cons c cs ih =>
    rw [replaceSpec]
    unfold find?
    split
    · simp
    · rw [ih]
      cases find? cs pat with
      | none => simp
      | some j =>
        simp only [Option.map_some]
        have e : j + 1 + pat.length = (j + pat.length) + 1 := by omega
        rw [e, List.drop_succ_cons]
        simp

end NitroVerif.Str
