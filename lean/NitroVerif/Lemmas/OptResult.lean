import NitroVerif.Lemmas.OptRefine

/-!
Reading the specification's result: what `interp d env items = .ok r` says about every option.
-/
namespace NitroVerif.Opt

theorem mapAll_ok_inv {α β : Type} (f : α → Except Err β) (l : List α) (ys : List β)
    (h : mapAll f l = .ok ys) : ∀ x ∈ l, ∃ y, f x = .ok y ∧ (x, y) ∈ l.zip ys := by
  induction l generalizing ys with
  | nil => intro x hx; simp at hx
  | cons a as ih =>
    simp only [mapAll] at h
    cases hfa : f a with
    | error e => rw [hfa] at h; simp at h
    | ok y =>
      rw [hfa] at h
      simp only at h
      cases hrest : mapAll f as with
      | error e => rw [hrest] at h; simp at h
      | ok ys' =>
        rw [hrest] at h
        simp only [Except.ok.injEq] at h
        subst h
        intro x hx
        rcases List.mem_cons.mp hx with he | he
        · subst he; exact ⟨y, hfa, by simp⟩
        · obtain ⟨y', hy', hmem⟩ := ih ys' hrest x he
          exact ⟨y', hy', by simp [hmem]⟩

theorem mapAll_err_inv {α β : Type} (f : α → Except Err β) (l : List α) (e : Err)
    (h : mapAll f l = .error e) : ∃ x ∈ l, f x = .error e := by
  induction l with
  | nil => simp [mapAll] at h
  | cons a as ih =>
    simp only [mapAll] at h
    cases hfa : f a with
    | error e' => rw [hfa] at h; simp at h; subst h; exact ⟨a, by simp, hfa⟩
    | ok y =>
      rw [hfa] at h
      simp only at h
      cases hrest : mapAll f as with
      | error e' =>
        rw [hrest] at h; simp at h; subst h
        obtain ⟨x, hx, hfx⟩ := ih hrest
        exact ⟨x, by simp [hx], hfx⟩
      | ok ys' => rw [hrest] at h; simp at h

/-- What a successful interpretation reports. -/
theorem interp_ok_inv (d : Decl) (env : Env) (items : List Item) (r : Result) (h : interp d env items = .ok r) :
    tooMany d (positionalsOf items).length = false ∧ r.pos = positionalsOf items ∧
    (∀ o ∈ d.opts, ∃ v p, interpOpt env items o = .ok (v, p) ∧ (o.name, v) ∈ r.opts ∧ (p = true → o.name ∈ r.provided)) ∧
    (∀ m ∈ d.muls, ∃ vs p, interpMul env items m = .ok (vs, p) ∧ (m.name, vs) ∈ r.muls ∧ (p = true → m.name ∈ r.provided)) ∧
    (∀ t ∈ d.togs, ∃ c p, interpTog env items t = .ok (c, p) ∧ (t.name, c) ∈ r.togs ∧ (p = true → t.name ∈ r.provided)) := by
  unfold interp at h
  simp only at h
  by_cases ht : tooMany d (positionalsOf items).length = true
  · simp [ht] at h
  · simp only [ht, Bool.false_eq_true, if_false] at h
    cases hO : mapAll (interpOpt env items) d.opts with
    | error e => rw [hO] at h; simp at h
    | ok os =>
      cases hM : mapAll (interpMul env items) d.muls with
      | error e => rw [hO, hM] at h; simp at h
      | ok ms =>
        cases hT : mapAll (interpTog env items) d.togs with
        | error e => rw [hO, hM, hT] at h; simp at h
        | ok ts =>
          rw [hO, hM, hT] at h
          simp only [Except.ok.injEq] at h
          subst h
          refine ⟨by simpa using ht, rfl, ?_, ?_, ?_⟩
          · intro o ho
            obtain ⟨y, hy, hmem⟩ := mapAll_ok_inv _ _ _ hO o ho
            refine ⟨y.1, y.2, hy, ?_, ?_⟩
            · simp only [List.mem_map]; exact ⟨(o, y), hmem, rfl⟩
            · intro hp
              simp only [List.mem_append, List.mem_map, List.mem_filter]
              exact Or.inl (Or.inl ⟨(o, y), ⟨hmem, hp⟩, rfl⟩)
          · intro m hm
            obtain ⟨y, hy, hmem⟩ := mapAll_ok_inv _ _ _ hM m hm
            refine ⟨y.1, y.2, hy, ?_, ?_⟩
            · simp only [List.mem_map]; exact ⟨(m, y), hmem, rfl⟩
            · intro hp
              simp only [List.mem_append, List.mem_map, List.mem_filter]
              exact Or.inl (Or.inr ⟨(m, y), ⟨hmem, hp⟩, rfl⟩)
          · intro t htm
            obtain ⟨y, hy, hmem⟩ := mapAll_ok_inv _ _ _ hT t htm
            refine ⟨y.1, y.2, hy, ?_, ?_⟩
            · simp only [List.mem_map]; exact ⟨(t, y), hmem, rfl⟩
            · intro hp
              simp only [List.mem_append, List.mem_map, List.mem_filter]
              exact Or.inr ⟨(t, y), ⟨hmem, hp⟩, rfl⟩

/-- Exactly when the interpretation of an item list fails. -/
theorem interp_err_iff (d : Decl) (env : Env) (items : List Item) :
    (∃ e, interp d env items = .error e) ↔
      tooMany d (positionalsOf items).length = true ∨
      (∃ o ∈ d.opts, interpOpt env items o = .error .user) ∨
      (∃ m ∈ d.muls, interpMul env items m = .error .user) ∨
      (∃ t ∈ d.togs, interpTog env items t = .error .user) := by
  have hOe : ∀ o e, interpOpt env items o = .error e → e = .user := by
    intro o e h; unfold interpOpt at h; repeat' split at h
    all_goals simp_all
  have hMe : ∀ m e, interpMul env items m = .error e → e = .user := by
    intro m e h; unfold interpMul at h; repeat' split at h
    all_goals simp_all
  have hTe : ∀ t e, interpTog env items t = .error e → e = .user := by
    intro t e h; unfold interpTog at h; simp only at h; repeat' split at h
    all_goals simp_all
  constructor
  · intro ⟨e, h⟩
    unfold interp at h
    simp only at h
    by_cases ht : tooMany d (positionalsOf items).length = true
    · exact Or.inl ht
    · right
      simp only [ht, Bool.false_eq_true, if_false] at h
      cases hO : mapAll (interpOpt env items) d.opts with
      | error e' =>
        obtain ⟨o, ho, hoe⟩ := mapAll_err_inv _ _ _ hO
        exact Or.inl ⟨o, ho, by rw [hoe, hOe o e' hoe]⟩
      | ok os =>
        cases hM : mapAll (interpMul env items) d.muls with
        | error e' =>
          obtain ⟨m, hm, hme⟩ := mapAll_err_inv _ _ _ hM
          exact Or.inr (Or.inl ⟨m, hm, by rw [hme, hMe m e' hme]⟩)
        | ok ms =>
          cases hT : mapAll (interpTog env items) d.togs with
          | error e' =>
            obtain ⟨t, htm, hte⟩ := mapAll_err_inv _ _ _ hT
            exact Or.inr (Or.inr ⟨t, htm, by rw [hte, hTe t e' hte]⟩)
          | ok ts => rw [hO, hM, hT] at h; simp at h
  · intro h
    rcases h with ht | ⟨o, ho, hoe⟩ | ⟨m, hm, hme⟩ | ⟨t, htm, hte⟩
    · exact ⟨.user, by unfold interp; simp [ht]⟩
    · exact ⟨.user, interp_err_left d env items (Or.inl (mapAll_err _ _ o ho _ hoe))⟩
    · exact ⟨.user, interp_err_left d env items (Or.inr (Or.inl (mapAll_err _ _ m hm _ hme)))⟩
    · exact ⟨.user, interp_err_left d env items (Or.inr (Or.inr (mapAll_err _ _ t htm _ hte)))⟩

theorem parse_ok_inv (d : Decl) (hn : (allNames d).Nodup) (env : Env) (argv : List Str) (r : Result)
    (h : parse d env argv = .ok r) :
    consistent d = true ∧ ∃ items, explain d argv = some items ∧ interp d env items = .ok r := by
  rw [parse_factor d hn] at h
  unfold specParse at h
  by_cases hc : consistent d = true
  · simp only [hc, Bool.not_true, Bool.false_eq_true, if_false] at h
    cases hex : explain d argv with
    | none => rw [hex] at h; simp at h
    | some items => rw [hex] at h; exact ⟨hc, items, rfl, h⟩
  · have : consistent d = false := by simpa using hc
    simp [this] at h

theorem parse_of_explain (d : Decl) (hn : (allNames d).Nodup) (hc : consistent d = true) (env : Env)
    (argv : List Str) (items : List Item) (hex : explain d argv = some items) :
    parse d env argv = interp d env items := by
  rw [parse_factor d hn]; unfold specParse; simp [hc, hex]

theorem parse_of_unexplained (d : Decl) (hn : (allNames d).Nodup) (hc : consistent d = true) (env : Env)
    (argv : List Str) (hex : explain d argv = none) : parse d env argv = .error .user := by
  rw [parse_factor d hn]; unfold specParse; simp [hc, hex]

theorem wfNames_of_nodup (d : Decl) (h : (allNames d).Nodup) : WFNames d := by
  unfold WFNames valueOpts
  unfold allNames at h
  have := (List.nodup_append.mp h).1
  simpa [List.map_append, Function.comp_def] using this

end NitroVerif.Opt
