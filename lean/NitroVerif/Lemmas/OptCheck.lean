import NitroVerif.Lemmas.OptLoop

/-!
Refinement, part 3a: `validate_options()` as a pure function of each option's own state, and
`mapAll` over a declaration list.
-/
namespace NitroVerif.Opt

theorem upd_same {β : Type} (f : Str → β) (k : Str) (v : β) : upd f k v k = v := by simp [upd]
theorem upd_other {β : Type} (f : Str → β) (k n : Str) (v : β) (h : n ≠ k) : upd f k v n = f n := by simp [upd, h]

/-! ### mapAll -/

theorem mapAll_ok {α β : Type} (f : α → Except Err β) (h : α → β) (l : List α)
    (hf : ∀ x ∈ l, f x = .ok (h x)) : mapAll f l = .ok (l.map h) := by
  induction l with
  | nil => rfl
  | cons x xs ih =>
    simp only [mapAll, hf x (by simp), List.map_cons]
    rw [ih (fun y hy => hf y (by simp [hy]))]

theorem mapAll_err {α β : Type} (f : α → Except Err β) (l : List α) (x : α) (hx : x ∈ l) (e : Err)
    (hf : f x = .error e) : ∃ e', mapAll f l = .error e' := by
  induction l with
  | nil => simp at hx
  | cons y ys ih =>
    simp only [mapAll]
    rcases List.mem_cons.mp hx with h | h
    · subst h; rw [hf]; exact ⟨e, rfl⟩
    · cases f y with
      | error e' => exact ⟨e', rfl⟩
      | ok v =>
        simp only
        obtain ⟨e', he'⟩ := ih h
        rw [he']; exact ⟨e', rfl⟩

theorem zip_map_map {α β γ : Type} (l : List α) (h : α → β) (g : α × β → γ) :
    (l.zip (l.map h)).map g = l.map (fun x => g (x, h x)) := by
  induction l with
  | nil => rfl
  | cons x xs ih => simp [ih]

theorem zip_map_filter_map {α β γ : Type} (l : List α) (h : α → β) (p : α × β → Bool) (k : α × β → γ) :
    ((l.zip (l.map h)).filter p).map k = (l.filter (fun x => p (x, h x))).map (fun x => k (x, h x)) := by
  induction l with
  | nil => rfl
  | cons x xs ih =>
    simp only [List.map_cons, List.zip_cons_cons, List.filter_cons]
    by_cases hp : p (x, h x) = true
    · simp [hp, ih]
    · simp [hp, ih]

/-! ### the environment -/

theorem envNonEmpty_eq (env : Env) (name : Option Str) :
    envNonEmpty env name = if envOf env name != [] then some (envOf env name) else none := by
  cases name with
  | none => simp [envNonEmpty, envOf]
  | some n =>
    have h1 : envOf env (some n) = (env n).getD [] := rfl
    rw [h1]
    simp only [envNonEmpty]
    cases env n with
    | none => simp
    | some v =>
      by_cases hv : v = []
      · simp [hv]
      · simp [hv]

/-! ### check(), per option -/

/-- what `option::check` leaves in the option's value and its provided-flag -/
def optFinal (env : Env) (o : OptD) (v : Option Str) (dirty : Bool) : Except Err (Option Str × Bool) :=
  if v.isSome then .ok (v, dirty)
  else if envOf env o.env != [] then .ok (some (envOf env o.env), true)
  else match o.dflt with
    | some dv => .ok (some dv, dirty)
    | none => if o.optional then .ok (v, dirty) else .error .user

def mulFinal (env : Env) (m : MulD) (vs : List Str) (dirty : Bool) : Except Err (List Str × Bool) :=
  if vs != [] then .ok (vs, dirty)
  else if envOf env m.env != [] then .ok (splitSemi (envOf env m.env), dirty || splitSemi (envOf env m.env) != [])
  else match m.dflt with
    | some dv => .ok (dv, dirty)
    | none => if m.optional then .ok (vs, dirty) else .error .user

def togFinal (env : Env) (t : TogD) (g : Int) (dirty : Bool) : Except Err (Int × Bool) :=
  if dirty then .ok (g, dirty)
  else if envOf env t.env != [] then
    match parseEnvWord (envOf env t.env) with
    | some b => .ok (if b then 1 else 0, true)
    | none => .error .user
  else .ok (t.dflt, dirty)

theorem checkOpt_spec (env : Env) (s : Dyn) (o : OptD) :
    match checkOpt env s o with
    | .ok s' => optFinal env o (s.val o.name) (s.dirtyO o.name) = .ok (s'.val o.name, s'.dirtyO o.name) ∧
        (∀ n, n ≠ o.name → s'.val n = s.val n ∧ s'.dirtyO n = s.dirtyO n) ∧
        s'.vals = s.vals ∧ s'.dirtyM = s.dirtyM ∧ s'.given = s.given ∧ s'.dirtyT = s.dirtyT
    | .error e => e = .user ∧ optFinal env o (s.val o.name) (s.dirtyO o.name) = .error .user := by
  unfold checkOpt optFinal
  by_cases h1 : (s.val o.name).isSome = true
  · simp [h1]
  · simp only [h1, Bool.false_eq_true, if_false]
    by_cases h2 : (envOf env o.env != []) = true
    · simp only [h2, if_true]
      refine ⟨by simp [upd_same], fun n hn => by simp [upd_other _ _ _ _ hn], by simp⟩
    · simp only [h2, Bool.false_eq_true, if_false]
      cases o.dflt with
      | some dv =>
        simp only
        refine ⟨by simp [upd_same], fun n hn => by simp [upd_other _ _ _ _ hn], by simp⟩
      | none =>
        simp only
        by_cases h3 : o.optional = true
        · simp [h3]
        · simp [h3]

theorem checkMul_spec (env : Env) (s : Dyn) (m : MulD) :
    match checkMul env s m with
    | .ok s' => mulFinal env m (s.vals m.name) (s.dirtyM m.name) = .ok (s'.vals m.name, s'.dirtyM m.name) ∧
        (∀ n, n ≠ m.name → s'.vals n = s.vals n ∧ s'.dirtyM n = s.dirtyM n) ∧
        s'.val = s.val ∧ s'.dirtyO = s.dirtyO ∧ s'.given = s.given ∧ s'.dirtyT = s.dirtyT
    | .error e => e = .user ∧ mulFinal env m (s.vals m.name) (s.dirtyM m.name) = .error .user := by
  unfold checkMul mulFinal
  by_cases h1 : (s.vals m.name != []) = true
  · simp [h1]
  · simp only [h1, Bool.false_eq_true, if_false]
    by_cases h2 : (envOf env m.env != []) = true
    · simp only [h2, if_true]
      refine ⟨by simp [upd_same], fun n hn => by simp [upd_other _ _ _ _ hn], by simp⟩
    · simp only [h2, Bool.false_eq_true, if_false]
      cases m.dflt with
      | some dv =>
        simp only
        refine ⟨by simp [upd_same], fun n hn => by simp [upd_other _ _ _ _ hn], by simp⟩
      | none =>
        simp only
        by_cases h3 : m.optional = true
        · simp [h3]
        · simp [h3]

theorem checkTog_spec (env : Env) (s : Dyn) (t : TogD) :
    match checkTog env s t with
    | .ok s' => togFinal env t (s.given t.name) (s.dirtyT t.name) = .ok (s'.given t.name, s'.dirtyT t.name) ∧
        (∀ n, n ≠ t.name → s'.given n = s.given n ∧ s'.dirtyT n = s.dirtyT n) ∧
        s'.val = s.val ∧ s'.dirtyO = s.dirtyO ∧ s'.vals = s.vals ∧ s'.dirtyM = s.dirtyM
    | .error e => e = .user ∧ togFinal env t (s.given t.name) (s.dirtyT t.name) = .error .user := by
  unfold checkTog togFinal
  by_cases h1 : s.dirtyT t.name = true
  · simp [h1]
  · simp only [h1, Bool.false_eq_true, if_false]
    by_cases h2 : (envOf env t.env != []) = true
    · simp only [h2, if_true]
      cases parseEnvWord (envOf env t.env) with
      | none => simp
      | some b =>
        simp only
        refine ⟨by simp [upd_same], fun n hn => by simp [upd_other _ _ _ _ hn], by simp⟩
    · simp only [h2, Bool.false_eq_true, if_false]
      have h1' := Bool.eq_false_iff.mpr h1
      refine ⟨by simp [upd_same, h1'], fun n hn => by simp [upd_other _ _ _ _ hn], by simp⟩

/-! ### the three passes of `validate_options` -/

/-- A pass of `foldCheck` over declarations with pairwise distinct names, each step of which rewrites
only the `view` of its own name by `fin` and otherwise preserves `Frame`. -/
theorem foldCheck_spec {α σ : Type} (f : Dyn → α → Except Err Dyn) (key : α → Str)
    (view : Dyn → Str → σ) (fin : α → σ → Except Err σ) (Frame : Dyn → Dyn → Prop)
    (frefl : ∀ s, Frame s s) (ftrans : ∀ a b c, Frame a b → Frame b c → Frame a c)
    (hstep : ∀ s x, match f s x with
      | .ok s' => fin x (view s (key x)) = .ok (view s' (key x)) ∧
          (∀ n, n ≠ key x → view s' n = view s n) ∧ Frame s s'
      | .error e => e = .user ∧ fin x (view s (key x)) = .error .user)
    (l : List α) (hnd : (l.map key).Nodup) (s : Dyn) :
    match foldCheck f s l with
    | .ok s' => (∀ x ∈ l, fin x (view s (key x)) = .ok (view s' (key x))) ∧
        (∀ n, n ∉ l.map key → view s' n = view s n) ∧ Frame s s'
    | .error e => e = .user ∧ ∃ x ∈ l, fin x (view s (key x)) = .error .user := by
  induction l generalizing s with
  | nil => simp only [foldCheck]; exact ⟨by simp, by simp, frefl s⟩
  | cons x xs ih =>
    simp only [List.map_cons, List.nodup_cons] at hnd
    have hs := hstep s x
    simp only [foldCheck]
    cases hfx : f s x with
    | error e =>
      rw [hfx] at hs
      exact ⟨hs.1, x, by simp, hs.2⟩
    | ok s1 =>
      rw [hfx] at hs
      simp only at hs ⊢
      obtain ⟨hx, hother, hframe⟩ := hs
      have hview : ∀ y ∈ xs, view s1 (key y) = view s (key y) := by
        intro y hy
        apply hother
        intro he
        exact hnd.1 (he ▸ List.mem_map_of_mem hy)
      have IH := ih hnd.2 s1
      cases hfold : foldCheck f s1 xs with
      | error e =>
        rw [hfold] at IH
        obtain ⟨he, y, hy, hfy⟩ := IH
        exact ⟨he, y, by simp [hy], by rw [← hview y hy]; exact hfy⟩
      | ok s' =>
        rw [hfold] at IH
        obtain ⟨hall, hrest, hfr⟩ := IH
        refine ⟨?_, ?_, ftrans _ _ _ hframe hfr⟩
        · intro y hy
          rcases List.mem_cons.mp hy with h | h
          · subst h
            rw [hx, hrest _ hnd.1]
          · rw [← hview y h]; exact hall y h
        · intro n hn
          simp only [List.map_cons, List.mem_cons, not_or] at hn
          rw [hrest n hn.2, hother n hn.1]

/-- `validate_options()` in terms of the three per-option functions -/
theorem validate_spec (d : Decl) (hwf : WF d) (env : Env) (s : Dyn) :
    match validate d env s with
    | .ok s' =>
      (∀ o ∈ d.opts, optFinal env o (s.val o.name) (s.dirtyO o.name) = .ok (s'.val o.name, s'.dirtyO o.name)) ∧
      (∀ m ∈ d.muls, mulFinal env m (s.vals m.name) (s.dirtyM m.name) = .ok (s'.vals m.name, s'.dirtyM m.name)) ∧
      (∀ t ∈ d.togs, togFinal env t (s.given t.name) (s.dirtyT t.name) = .ok (s'.given t.name, s'.dirtyT t.name))
    | .error e => e = .user ∧
      ((∃ o ∈ d.opts, optFinal env o (s.val o.name) (s.dirtyO o.name) = .error .user) ∨
       (∃ m ∈ d.muls, mulFinal env m (s.vals m.name) (s.dirtyM m.name) = .error .user) ∨
       (∃ t ∈ d.togs, togFinal env t (s.given t.name) (s.dirtyT t.name) = .error .user)) := by
  have h1 := foldCheck_spec (checkOpt env) (·.name) (fun s n => (s.val n, s.dirtyO n))
    (fun o p => optFinal env o p.1 p.2)
    (fun a b => b.vals = a.vals ∧ b.dirtyM = a.dirtyM ∧ b.given = a.given ∧ b.dirtyT = a.dirtyT)
    (fun _ => ⟨rfl, rfl, rfl, rfl⟩)
    (fun a b c h h' => ⟨h'.1.trans h.1, h'.2.1.trans h.2.1, h'.2.2.1.trans h.2.2.1, h'.2.2.2.trans h.2.2.2⟩)
    (by
      intro s o
      have := checkOpt_spec env s o
      cases hc : checkOpt env s o with
      | error e => rw [hc] at this; exact this
      | ok s' =>
        rw [hc] at this
        exact ⟨this.1, fun n hn => by rw [(this.2.1 n hn).1, (this.2.1 n hn).2], this.2.2⟩)
    d.opts hwf.optNames s
  have h2 := fun s => foldCheck_spec (checkMul env) (·.name) (fun s n => (s.vals n, s.dirtyM n))
    (fun o p => mulFinal env o p.1 p.2)
    (fun a b => b.val = a.val ∧ b.dirtyO = a.dirtyO ∧ b.given = a.given ∧ b.dirtyT = a.dirtyT)
    (fun _ => ⟨rfl, rfl, rfl, rfl⟩)
    (fun a b c h h' => ⟨h'.1.trans h.1, h'.2.1.trans h.2.1, h'.2.2.1.trans h.2.2.1, h'.2.2.2.trans h.2.2.2⟩)
    (by
      intro s o
      have := checkMul_spec env s o
      cases hc : checkMul env s o with
      | error e => rw [hc] at this; exact this
      | ok s' =>
        rw [hc] at this
        exact ⟨this.1, fun n hn => by rw [(this.2.1 n hn).1, (this.2.1 n hn).2], this.2.2⟩)
    d.muls hwf.mulNames s
  have h3 := fun s => foldCheck_spec (checkTog env) (·.name) (fun s n => (s.given n, s.dirtyT n))
    (fun o p => togFinal env o p.1 p.2)
    (fun a b => b.val = a.val ∧ b.dirtyO = a.dirtyO ∧ b.vals = a.vals ∧ b.dirtyM = a.dirtyM)
    (fun _ => ⟨rfl, rfl, rfl, rfl⟩)
    (fun a b c h h' => ⟨h'.1.trans h.1, h'.2.1.trans h.2.1, h'.2.2.1.trans h.2.2.1, h'.2.2.2.trans h.2.2.2⟩)
    (by
      intro s o
      have := checkTog_spec env s o
      cases hc : checkTog env s o with
      | error e => rw [hc] at this; exact this
      | ok s' =>
        rw [hc] at this
        exact ⟨this.1, fun n hn => by rw [(this.2.1 n hn).1, (this.2.1 n hn).2], this.2.2⟩)
    d.togs hwf.togNames s
  unfold validate
  cases hf1 : foldCheck (checkOpt env) s d.opts with
  | error e =>
    rw [hf1] at h1
    exact ⟨h1.1, Or.inl h1.2⟩
  | ok s1 =>
    rw [hf1] at h1
    obtain ⟨ho, _, hfr1⟩ := h1
    simp only
    have h2' := h2 s1
    cases hf2 : foldCheck (checkMul env) s1 d.muls with
    | error e =>
      rw [hf2] at h2'
      refine ⟨h2'.1, Or.inr (Or.inl ?_)⟩
      obtain ⟨m, hm, hme⟩ := h2'.2
      exact ⟨m, hm, by simpa [hfr1.1, hfr1.2.1] using hme⟩
    | ok s2 =>
      rw [hf2] at h2'
      obtain ⟨hm, _, hfr2⟩ := h2'
      simp only
      have h3' := h3 s2
      cases hf3 : foldCheck (checkTog env) s2 d.togs with
      | error e =>
        rw [hf3] at h3'
        refine ⟨h3'.1, Or.inr (Or.inr ?_)⟩
        obtain ⟨t, ht, hte⟩ := h3'.2
        exact ⟨t, ht, by simpa [hfr2.2.2.1, hfr2.2.2.2, hfr1.2.2.1, hfr1.2.2.2] using hte⟩
      | ok s3 =>
        rw [hf3] at h3'
        obtain ⟨ht, _, hfr3⟩ := h3'
        refine ⟨?_, ?_, ?_⟩
        · intro o hmem
          have := ho o hmem
          simp only at this
          rw [this, hfr3.1, hfr3.2.1, hfr2.1, hfr2.2.1]
        · intro m hmem
          have := hm m hmem
          simp only [hfr1.1, hfr1.2.1] at this
          rw [this, hfr3.2.2.1, hfr3.2.2.2]
        · intro t hmem
          have := ht t hmem
          simp only [hfr2.2.2.1, hfr2.2.2.2, hfr1.2.2.1, hfr1.2.2.2] at this
          exact this

end NitroVerif.Opt
