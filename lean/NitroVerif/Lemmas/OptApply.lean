import NitroVerif.Lemmas.OptCheck

/-!
Refinement, part 3b: applying the explained items one after the other keeps, per declared option,
exactly the quantities the specification's `interp` reads off the item list (`Tracks`), and fails
only where `interp` rejects the item list (`Bad`).
-/
namespace NitroVerif.Opt

/-! ### the specification's counting functions under append -/

theorem cliValues_append (n : Str) (a b : List Item) : cliValues n (a ++ b) = cliValues n a ++ cliValues n b := by
  simp [cliValues, List.filterMap_append]

theorem posCount_append (t : TogD) (a b : List Item) : posCount t (a ++ b) = posCount t a + posCount t b := by
  simp [posCount, List.map_append, List.sum_append]

theorem negCount_append (t : TogD) (a b : List Item) : negCount t (a ++ b) = negCount t a + negCount t b := by
  simp [negCount, List.filter_append]

theorem positionalsOf_append (a b : List Item) : positionalsOf (a ++ b) = positionalsOf a ++ positionalsOf b := by
  simp [positionalsOf, List.filterMap_append]

/-- items as `explain` produces them: every name in an item is declared with the right kind -/
def ItemOk (d : Decl) : Item → Prop
  | .pos _ => True
  | .sep => True
  | .optSep n _ _ => isValueOptName d n = true
  | .optEq n _ _ => isValueOptName d n = true
  | .togLong n => isTogName d n = true
  | .togNeg n => isTogName d n = true
  | .togShort ls => ls ≠ [] ∧ ls.all (isTogLetter d) = true

structure Tracks (d : Decl) (items : List Item) (s : Dyn) (pos : List Str) : Prop where
  opt : ∀ o ∈ d.opts, s.val o.name = (cliValues o.name items).head? ∧ (cliValues o.name items).length ≤ 1 ∧
    s.dirtyO o.name = !(cliValues o.name items).isEmpty
  mul : ∀ m ∈ d.muls, s.vals m.name = cliValues m.name items ∧ s.dirtyM m.name = !(cliValues m.name items).isEmpty
  tog : ∀ t ∈ d.togs, s.given t.name = (posCount t items : Int) ∧
    s.dirtyT t.name = (decide (posCount t items > 0) || decide (negCount t items > 0)) ∧
    (negCount t items = 0 ∨ posCount t items = 0) ∧ (negCount t items > 0 → t.reversible = true)
  posEq : pos = positionalsOf items
  room : ∀ n, d.allowed = some n → pos.length ≤ n

/-- item lists `interp` rejects whatever the environment says -/
def Bad (d : Decl) (items : List Item) : Prop :=
  (∃ o ∈ d.opts, (cliValues o.name items).length ≥ 2) ∨
  (∃ t ∈ d.togs, negCount t items > 0 ∧ (t.reversible = false ∨ posCount t items > 0)) ∨
  (∃ n, d.allowed = some n ∧ n < (positionalsOf items).length)

theorem Bad.append {d : Decl} {items : List Item} (h : Bad d items) (more : List Item) : Bad d (items ++ more) := by
  rcases h with ⟨o, ho, h⟩ | ⟨t, ht, h1, h2⟩ | ⟨n, hn, h⟩
  · left; exact ⟨o, ho, by rw [cliValues_append, List.length_append]; omega⟩
  · right; left
    refine ⟨t, ht, by rw [negCount_append]; omega, ?_⟩
    rcases h2 with h2 | h2
    · exact Or.inl h2
    · right; rw [posCount_append]; omega
  · right; right; exact ⟨n, hn, by rw [positionalsOf_append, List.length_append]; omega⟩

theorem tracks_init (d : Decl) : Tracks d [] Dyn.fresh [] := by
  constructor
  · intro o _; simp [cliValues, Dyn.fresh]
  · intro m _; simp [cliValues, Dyn.fresh]
  · intro t _; simp [posCount, negCount, Dyn.fresh]
  · rfl
  · intro n _; simp

/-- an item that touches no option at all -/
theorem tracks_neutral {d : Decl} {items : List Item} {s : Dyn} {pos : List Str} (h : Tracks d items s pos)
    (it : Item) (hc : ∀ n, cliValues n [it] = []) (hp : ∀ t, posCount t [it] = 0) (hn : ∀ t, negCount t [it] = 0)
    (pos' : List Str) (hpos : pos' = pos ++ positionalsOf [it]) (hroom : ∀ n, d.allowed = some n → pos'.length ≤ n) :
    Tracks d (items ++ [it]) s pos' := by
  constructor
  · intro o ho; rw [cliValues_append, hc]; simpa using h.opt o ho
  · intro m hm; rw [cliValues_append, hc]; simpa using h.mul m hm
  · intro t ht; rw [posCount_append, negCount_append, hp, hn]; simpa using h.tog t ht
  · rw [positionalsOf_append, hpos, h.posEq]
  · exact hroom

theorem applyValue_tracks {d : Decl} (hwf : WF d) {items : List Item} {s : Dyn} {pos : List Str}
    (h : Tracks d items s pos) (it : Item) (n v : Str) (hok : isValueOptName d n = true)
    (hc : ∀ n', cliValues n' [it] = if n = n' then [v] else [])
    (hp : ∀ t, posCount t [it] = 0) (hn : ∀ t, negCount t [it] = 0) (hpo : positionalsOf [it] = []) :
    match applyValue d s n v with
    | .ok s' => Tracks d (items ++ [it]) s' pos
    | .error _ => Bad d (items ++ [it]) := by
  unfold applyValue
  cases hfo : d.opts.find? (·.name == n) with
  | some o =>
    obtain ⟨hom, hon⟩ := find?_some_mem_key (·.name) d.opts n o hfo
    simp only
    unfold updateOpt
    have hto := h.opt o hom
    by_cases hsome : (s.val o.name).isSome = true
    · simp only [hsome, if_true]
      left
      refine ⟨o, hom, ?_⟩
      rw [cliValues_append, hc, hon]
      simp only [if_true, List.length_append, List.length_cons, List.length_nil]
      rw [hto.1] at hsome
      cases hcv : cliValues o.name items with
      | nil => rw [hcv] at hsome; simp at hsome
      | cons x xs => rw [← hon, hcv]; simp
    · simp only [hsome, Bool.false_eq_true, if_false]
      have hnil : cliValues o.name items = [] := by
        rw [hto.1] at hsome
        cases hcv : cliValues o.name items with
        | nil => rfl
        | cons x xs => rw [hcv] at hsome; simp at hsome
      constructor
      · intro o' ho'
        rw [cliValues_append, hc]
        by_cases he : n = o'.name
        · have : o' = o := by
            have h1 := find?_by_key (·.name) d.opts hwf.optNames o' ho'
            rw [← he, hfo] at h1
            simpa using h1.symm
          subst this
          simp [he, hnil, upd_same]
        · have hne : o'.name ≠ o.name := by rw [hon]; exact fun e => he e.symm
          simp only [he, if_false, List.append_nil, upd_other _ _ _ _ hne]
          exact h.opt o' ho'
      · intro m hm
        rw [cliValues_append, hc]
        have hne : n ≠ m.name := by rw [← hon]; exact hwf.opt_ne_mul hom hm
        simp only [hne, if_false, List.append_nil]
        exact h.mul m hm
      · intro t ht; rw [posCount_append, negCount_append, hp, hn]; simpa using h.tog t ht
      · rw [positionalsOf_append, hpo, List.append_nil]; exact h.posEq
      · exact h.room
  | none =>
    simp only
    have hnotopt : ∀ o' ∈ d.opts, n ≠ o'.name := by
      intro o' ho' he
      have := List.find?_eq_none.mp hfo o' ho'
      simp [he] at this
    cases hfm : d.muls.find? (·.name == n) with
    | some m =>
      obtain ⟨hmm, hmn⟩ := find?_some_mem_key (·.name) d.muls n m hfm
      simp only
      unfold updateMul
      simp only
      constructor
      · intro o' ho'
        rw [cliValues_append, hc]
        simp only [hnotopt o' ho', if_false, List.append_nil]
        exact h.opt o' ho'
      · intro m' hm'
        rw [cliValues_append, hc]
        by_cases he : n = m'.name
        · have : m' = m := by
            have h1 := find?_by_key (·.name) d.muls hwf.mulNames m' hm'
            rw [← he, hfm] at h1
            simpa using h1.symm
          subst this
          simp [he, upd_same, (h.mul m' hm').1]
        · have hne : m'.name ≠ m.name := by rw [hmn]; exact fun e => he e.symm
          simp only [he, if_false, List.append_nil, upd_other _ _ _ _ hne]
          exact h.mul m' hm'
      · intro t ht; rw [posCount_append, negCount_append, hp, hn]; simpa using h.tog t ht
      · rw [positionalsOf_append, hpo, List.append_nil]; exact h.posEq
      · exact h.room
    | none =>
      exfalso
      rw [isValueOptName_eq, any_eq_false_of_find?_none _ _ hfo, any_eq_false_of_find?_none _ _ hfm] at hok
      simp at hok

/-! ### toggles -/

/-- the state of one toggle against the counts of the items so far -/
def RTog (t : TogD) (p n : Nat) (g : Int) (dt : Bool) : Prop :=
  g = (p : Int) ∧ dt = (decide (p > 0) || decide (n > 0)) ∧ (n = 0 ∨ p = 0) ∧ (n > 0 → t.reversible = true)

theorem Tracks.rtog {d : Decl} {items : List Item} {s : Dyn} {pos : List Str} (h : Tracks d items s pos)
    {t : TogD} (ht : t ∈ d.togs) : RTog t (posCount t items) (negCount t items) (s.given t.name) (s.dirtyT t.name) :=
  h.tog t ht

/-- `k` positive occurrences: what `toggle::update` does to (given, dirty) -/
def posFin (k : Nat) (g : Int) (dt : Bool) : Except Err (Int × Bool) :=
  if k > 0 then (if dt && g == 0 then .error .user else .ok (g + (k : Int), true)) else .ok (g, dt)

theorem posFin_rtog (t : TogD) (p n k : Nat) (g : Int) (dt : Bool) (h : RTog t p n g dt) :
    match posFin k g dt with
    | .ok r => RTog t (p + k) n r.1 r.2
    | .error _ => n > 0 ∧ k > 0 := by
  obtain ⟨hg, hd, hx, hr⟩ := h
  unfold posFin
  by_cases hk : k > 0
  · simp only [hk, if_true]
    by_cases he : (dt && g == 0) = true
    · simp only [he, if_true]
      simp only [Bool.and_eq_true, beq_iff_eq] at he
      obtain ⟨hdt, hg0⟩ := he
      have hp0 : p = 0 := by omega
      rw [hd, hp0] at hdt
      simp at hdt
      exact ⟨hdt, trivial⟩
    · simp only [he, Bool.false_eq_true, if_false]
      have hn0 : n = 0 := by
        rcases hx with h0 | h0
        · exact h0
        · -- no positive occurrence so far: then not dirty, or given = 0 and dirty: excluded
          subst h0
          have hg0 : g = 0 := by simpa using hg
          by_cases hnz : n = 0
          · exact hnz
          · exfalso
            apply he
            rw [hd, hg0]
            have : n > 0 := by omega
            simp [this]
      refine ⟨by simp [hg], ?_, Or.inl hn0, fun h => by omega⟩
      have : p + k > 0 := by omega
      simp [this]
  · have hk0 : k = 0 := by omega
    simp only [hk, if_false]
    subst hk0
    exact ⟨hg, hd, hx, hr⟩

theorem posCount_single_long (t : TogD) (n : Str) : posCount t [.togLong n] = if n = t.name then 1 else 0 := by
  simp [posCount]

theorem togLong_tracks {d : Decl} (hwf : WF d) {items : List Item} {s : Dyn} {pos : List Str}
    (h : Tracks d items s pos) (n : Str) (hok : isTogName d n = true) :
    match applyOptItem d s (.togLong n) with
    | .ok s' => Tracks d (items ++ [.togLong n]) s' pos
    | .error _ => Bad d (items ++ [.togLong n]) := by
  simp only [applyOptItem]
  cases hft : d.togs.find? (·.name == n) with
  | none =>
    exfalso
    unfold isTogName at hok
    rw [any_eq_false_of_find?_none _ _ hft] at hok
    simp at hok
  | some t =>
    obtain ⟨htm, htn⟩ := find?_some_mem_key (·.name) d.togs n t hft
    simp only
    have hR := posFin_rtog t _ _ 1 _ _ (h.rtog htm)
    unfold togPos
    unfold posFin at hR
    simp only [Nat.lt_add_one, if_true] at hR
    by_cases he : (s.dirtyT t.name && s.given t.name == 0) = true
    · simp only [he, if_true] at hR ⊢
      right; left
      refine ⟨t, htm, by rw [negCount_append]; omega, Or.inr ?_⟩
      rw [posCount_append, posCount_single_long, htn]; simp
    · simp only [he, Bool.false_eq_true, if_false] at hR ⊢
      constructor
      · intro o ho; rw [cliValues_append]; simpa [cliValues] using h.opt o ho
      · intro m hm; rw [cliValues_append]; simpa [cliValues] using h.mul m hm
      · intro t' ht'
        rw [posCount_append, negCount_append, posCount_single_long]
        have hneg : negCount t' [Item.togLong n] = 0 := by simp [negCount]
        rw [hneg]
        by_cases hn : n = t'.name
        · have : t' = t := by
            have h1 := find?_by_key (·.name) d.togs hwf.togNames t' ht'
            rw [← hn, hft] at h1
            simpa using h1.symm
          subst this
          simp only [hn, if_true, Nat.add_zero, upd_same]
          exact hR
        · have hne : t'.name ≠ t.name := by rw [htn]; exact fun e => hn e.symm
          simp only [hn, if_false, Nat.add_zero, upd_other _ _ _ _ hne]
          exact h.tog t' ht'
      · rw [positionalsOf_append]; simpa [positionalsOf] using h.posEq
      · exact h.room

def negFin (t : TogD) (g : Int) (dt : Bool) : Except Err (Int × Bool) :=
  if !t.reversible then .error .user
  else if dt && g != 0 then .error .user
  else .ok (0, true)

theorem negFin_rtog (t : TogD) (p n : Nat) (g : Int) (dt : Bool) (h : RTog t p n g dt) :
    match negFin t g dt with
    | .ok r => RTog t p (n + 1) r.1 r.2
    | .error _ => t.reversible = false ∨ p > 0 := by
  obtain ⟨hg, hd, hx, hr⟩ := h
  unfold negFin
  by_cases hrev : t.reversible = true
  · simp only [hrev, Bool.not_true, Bool.false_eq_true, if_false]
    by_cases he : (dt && g != 0) = true
    · simp only [he, if_true]
      simp only [Bool.and_eq_true, bne_iff_ne, ne_eq] at he
      right; omega
    · simp only [he, Bool.false_eq_true, if_false]
      have hp0 : p = 0 := by
        by_cases hp : p = 0
        · exact hp
        · exfalso; apply he
          have : p > 0 := by omega
          rw [hd]; simp [this]; omega
      subst hp0
      exact ⟨rfl, by simp, Or.inr rfl, fun _ => hrev⟩
  · have : t.reversible = false := by simpa using hrev
    simp [this]

theorem negCount_single_neg (t : TogD) (n : Str) : negCount t [.togNeg n] = if n = t.name then 1 else 0 := by
  simp only [negCount, List.filter_cons, List.filter_nil]
  by_cases h : n = t.name
  · simp [h]
  · have : (Item.togNeg n == Item.togNeg t.name) = false := by simpa using h
    simp [this, h]

theorem togNeg_tracks {d : Decl} (hwf : WF d) {items : List Item} {s : Dyn} {pos : List Str}
    (h : Tracks d items s pos) (n : Str) (hok : isTogName d n = true) :
    match applyOptItem d s (.togNeg n) with
    | .ok s' => Tracks d (items ++ [.togNeg n]) s' pos
    | .error _ => Bad d (items ++ [.togNeg n]) := by
  simp only [applyOptItem]
  cases hft : d.togs.find? (·.name == n) with
  | none =>
    exfalso
    unfold isTogName at hok
    rw [any_eq_false_of_find?_none _ _ hft] at hok
    simp at hok
  | some t =>
    obtain ⟨htm, htn⟩ := find?_some_mem_key (·.name) d.togs n t hft
    simp only
    have hR := negFin_rtog t _ _ _ _ (h.rtog htm)
    unfold togNegate
    unfold negFin at hR
    have hbad : (t.reversible = false ∨ posCount t items > 0) → Bad d (items ++ [.togNeg n]) := by
      intro hb
      right; left
      refine ⟨t, htm, by rw [negCount_append, negCount_single_neg, htn]; simp, ?_⟩
      rcases hb with hb | hb
      · exact Or.inl hb
      · right; rw [posCount_append]; omega
    by_cases hrev : (!t.reversible) = true
    · simp only [hrev, if_true] at hR ⊢
      exact hbad hR
    · simp only [hrev, Bool.false_eq_true, if_false] at hR ⊢
      by_cases he : (s.dirtyT t.name && s.given t.name != 0) = true
      · simp only [he, if_true] at hR ⊢
        exact hbad hR
      · simp only [he, Bool.false_eq_true, if_false] at hR ⊢
        constructor
        · intro o ho; rw [cliValues_append]; simpa [cliValues] using h.opt o ho
        · intro m hm; rw [cliValues_append]; simpa [cliValues] using h.mul m hm
        · intro t' ht'
          rw [posCount_append, negCount_append, negCount_single_neg]
          have hpos : posCount t' [Item.togNeg n] = 0 := by simp [posCount]
          rw [hpos]
          by_cases hn : n = t'.name
          · have : t' = t := by
              have h1 := find?_by_key (·.name) d.togs hwf.togNames t' ht'
              rw [← hn, hft] at h1
              simpa using h1.symm
            subst this
            simp only [hn, if_true, Nat.add_zero, upd_same]
            exact hR
          · have hne : t'.name ≠ t.name := by rw [htn]; exact fun e => hn e.symm
            simp only [hn, if_false, Nat.add_zero, upd_other _ _ _ _ hne]
            exact h.tog t' ht'
        · rw [positionalsOf_append]; simpa [positionalsOf] using h.posEq
        · exact h.room

/-- occurrences of the toggle's letter in a short token -/
def lc (t : TogD) (ls : Str) : Nat :=
  match t.short with
  | some c => ls.count c
  | none => 0

theorem letterCount_lc (t : TogD) (ls : Str) : letterCount t ls = (lc t ls : Int) := by
  unfold letterCount lc; cases t.short <;> simp

theorem hasLetterIn_lc (t : TogD) (ls : Str) : hasLetterIn ls t = decide (lc t ls > 0) := by
  unfold hasLetterIn lc; cases t.short <;> simp

theorem posCount_single_short (t : TogD) (ls : Str) : posCount t [.togShort ls] = lc t ls := by
  unfold posCount lc
  cases t.short <;> simp

def shortStep (ls : Str) (s : Dyn) (t : TogD) : Except Err Dyn :=
  if hasLetterIn ls t then togPos s t (letterCount t ls) else .ok s

theorem togsShortFold_eq (ls : Str) (s : Dyn) (l : List TogD) :
    togsShortFold ls s l = foldCheck (shortStep ls) s l := by
  induction l generalizing s with
  | nil => rfl
  | cons t rest ih =>
    unfold togsShortFold foldCheck shortStep
    by_cases h : hasLetterIn ls t = true
    · simp only [h, if_true]
      cases togPos s t (letterCount t ls) with
      | error e => rfl
      | ok s' => exact ih s'
    · simp only [h, Bool.false_eq_true, if_false]
      exact ih s

theorem shortStep_spec (ls : Str) (s : Dyn) (t : TogD) :
    match shortStep ls s t with
    | .ok s' => posFin (lc t ls) (s.given t.name) (s.dirtyT t.name) = .ok (s'.given t.name, s'.dirtyT t.name) ∧
        (∀ n, n ≠ t.name → s'.given n = s.given n ∧ s'.dirtyT n = s.dirtyT n) ∧
        s'.val = s.val ∧ s'.dirtyO = s.dirtyO ∧ s'.vals = s.vals ∧ s'.dirtyM = s.dirtyM
    | .error e => e = .user ∧ posFin (lc t ls) (s.given t.name) (s.dirtyT t.name) = .error .user := by
  unfold shortStep posFin
  rw [hasLetterIn_lc, letterCount_lc]
  by_cases hk : lc t ls > 0
  · simp only [hk, decide_true, if_true]
    unfold togPos
    by_cases he : (s.dirtyT t.name && s.given t.name == 0) = true
    · simp [he]
    · simp only [he, Bool.false_eq_true, if_false]
      refine ⟨by simp [upd_same], fun n hn => by simp [upd_other _ _ _ _ hn], by simp⟩
  · simp [hk]

theorem togShort_tracks {d : Decl} (hwf : WF d) {items : List Item} {s : Dyn} {pos : List Str}
    (h : Tracks d items s pos) (ls : Str) :
    match applyOptItem d s (.togShort ls) with
    | .ok s' => Tracks d (items ++ [.togShort ls]) s' pos
    | .error _ => Bad d (items ++ [.togShort ls]) := by
  simp only [applyOptItem]
  rw [togsShortFold_eq]
  have hf := foldCheck_spec (shortStep ls) (·.name) (fun s n => (s.given n, s.dirtyT n))
    (fun t p => posFin (lc t ls) p.1 p.2)
    (fun a b => b.val = a.val ∧ b.dirtyO = a.dirtyO ∧ b.vals = a.vals ∧ b.dirtyM = a.dirtyM)
    (fun _ => ⟨rfl, rfl, rfl, rfl⟩)
    (fun a b c h h' => ⟨h'.1.trans h.1, h'.2.1.trans h.2.1, h'.2.2.1.trans h.2.2.1, h'.2.2.2.trans h.2.2.2⟩)
    (by
      intro s t
      have := shortStep_spec ls s t
      cases hc : shortStep ls s t with
      | error e => rw [hc] at this; exact this
      | ok s' =>
        rw [hc] at this
        exact ⟨this.1, fun n hn => by rw [(this.2.1 n hn).1, (this.2.1 n hn).2], this.2.2⟩)
    d.togs hwf.togNames s
  cases hfold : foldCheck (shortStep ls) s d.togs with
  | error e =>
    rw [hfold] at hf
    obtain ⟨_, t, ht, hte⟩ := hf
    simp only at hte ⊢
    have hR := posFin_rtog t _ _ (lc t ls) _ _ (h.rtog ht)
    rw [hte] at hR
    right; left
    refine ⟨t, ht, by rw [negCount_append]; omega, Or.inr ?_⟩
    rw [posCount_append, posCount_single_short]; omega
  | ok s' =>
    rw [hfold] at hf
    obtain ⟨hall, _, hfr⟩ := hf
    simp only
    constructor
    · intro o ho; rw [cliValues_append, hfr.1, hfr.2.1]; simpa [cliValues] using h.opt o ho
    · intro m hm; rw [cliValues_append, hfr.2.2.1, hfr.2.2.2]; simpa [cliValues] using h.mul m hm
    · intro t ht
      have hR := posFin_rtog t _ _ (lc t ls) _ _ (h.rtog ht)
      have := hall t ht
      simp only at this
      rw [this] at hR
      rw [posCount_append, negCount_append, posCount_single_short]
      have hneg : negCount t [Item.togShort ls] = 0 := by simp [negCount]
      rw [hneg]
      exact hR
    · rw [positionalsOf_append]; simpa [positionalsOf] using h.posEq
    · exact h.room

/-! ### one item, then all of them -/

theorem applyItem_tracks {d : Decl} (hwf : WF d) {items : List Item} {s : Dyn} {pos : List Str}
    (h : Tracks d items s pos) (it : Item) (hok : ItemOk d it) :
    match applyItem d s pos it with
    | .ok (s', pos') => Tracks d (items ++ [it]) s' pos'
    | .error _ => Bad d (items ++ [it]) := by
  have lift : ∀ it', (∀ t, it' ≠ .pos t) →
      (match applyOptItem d s it' with
        | .ok s' => Tracks d (items ++ [it']) s' pos
        | .error _ => Bad d (items ++ [it'])) →
      (match applyItem d s pos it' with
        | .ok (s', pos') => Tracks d (items ++ [it']) s' pos'
        | .error _ => Bad d (items ++ [it'])) := by
    intro it' hnp hh
    rw [applyItem_opt hnp]
    cases happ : applyOptItem d s it' with
    | error e => rw [happ] at hh; exact hh
    | ok s' => rw [happ] at hh; exact hh
  cases it with
  | pos t =>
    simp only [applyItem]
    by_cases ha : (d.allowed == some pos.length) = true
    · simp only [ha, if_true]
      right; right
      refine ⟨pos.length, by simpa using ha, ?_⟩
      rw [positionalsOf_append, ← h.posEq]; simp [positionalsOf]
    · simp only [ha, Bool.false_eq_true, if_false]
      apply tracks_neutral h
      · intro n; simp [cliValues]
      · intro t'; simp [posCount]
      · intro t'; simp [negCount]
      · simp [positionalsOf]
      · intro n hn
        have := h.room n hn
        have hne : n ≠ pos.length := by
          intro he; apply ha; rw [hn, he]; simp
        simp only [List.length_append, List.length_cons, List.length_nil]
        omega
  | sep =>
    refine lift Item.sep (by intro t; simp) ?_
    simp only [applyOptItem]
    apply tracks_neutral h
    · intro n; simp [cliValues]
    · intro t'; simp [posCount]
    · intro t'; simp [negCount]
    · simp [positionalsOf]
    · exact h.room
  | optSep n sh v =>
    refine lift (Item.optSep n sh v) (by intro t; simp) ?_
    simp only [applyOptItem]
    exact applyValue_tracks hwf h _ n v hok (by intro n'; unfold cliValues; by_cases hh : n = n' <;> simp [hh]) (by intro t; simp [posCount])
      (by intro t; simp [negCount]) (by simp [positionalsOf])
  | optEq n sh v =>
    refine lift (Item.optEq n sh v) (by intro t; simp) ?_
    simp only [applyOptItem]
    exact applyValue_tracks hwf h _ n v hok (by intro n'; unfold cliValues; by_cases hh : n = n' <;> simp [hh]) (by intro t; simp [posCount])
      (by intro t; simp [negCount]) (by simp [positionalsOf])
  | togLong n => exact lift _ (by intro t; simp) (togLong_tracks hwf h n hok)
  | togNeg n => exact lift _ (by intro t; simp) (togNeg_tracks hwf h n hok)
  | togShort ls => exact lift _ (by intro t; simp) (togShort_tracks hwf h ls)

theorem applyItems_tracks {d : Decl} (hwf : WF d) (items : List Item) (pre : List Item) (s : Dyn) (pos : List Str)
    (h : Tracks d pre s pos) (hok : ∀ it ∈ items, ItemOk d it) :
    match applyItems d items s pos with
    | .ok (s', pos') => Tracks d (pre ++ items) s' pos'
    | .error _ => Bad d (pre ++ items) := by
  induction items generalizing pre s pos with
  | nil => simpa [applyItems] using h
  | cons it rest ih =>
    simp only [applyItems]
    have hstep := applyItem_tracks hwf h it (hok it (by simp))
    cases happ : applyItem d s pos it with
    | error e =>
      rw [happ] at hstep
      simp only at hstep ⊢
      have := hstep.append rest
      simpa using this
    | ok p =>
      obtain ⟨s', pos'⟩ := p
      rw [happ] at hstep
      simp only at hstep ⊢
      have := ih (pre ++ [it]) s' pos' hstep (fun x hx => hok x (by simp [hx]))
      simpa using this

/-! ### `explain` only produces well-named items -/

theorem explainValue_itemOk {d : Decl} {n : Str} {sh : Bool} {v next : Option Str} {it : Item} {c : Bool}
    (hn : isValueOptName d n = true) (h : explainValue n sh v next = some (it, c)) : ItemOk d it := by
  unfold explainValue at h
  split at h
  · simp only [Option.some.injEq, Prod.mk.injEq] at h; rw [← h.1]; exact hn
  · split at h
    · split at h
      · simp only [Option.some.injEq, Prod.mk.injEq] at h; rw [← h.1]; exact hn
      · simp at h
    · simp at h

theorem valueOptOfLetter_isValueOptName {d : Decl} {c : Char} {n : Str} (h : valueOptOfLetter d c = some n) :
    isValueOptName d n = true := by
  unfold valueOptOfLetter at h
  unfold isValueOptName
  cases hf : (valueOpts d).find? (·.2 == some c) with
  | none => rw [hf] at h; simp at h
  | some p =>
    rw [hf] at h
    simp only [Option.map_some, Option.some.injEq] at h
    rw [List.any_eq_true]
    exact ⟨p, List.mem_of_find?_eq_some hf, by simp [h]⟩

theorem explainTok_itemOk {d : Decl} {tok : Str} {next : Option Str} {it : Item} {c : Bool}
    (h : explainTok d tok next = some (it, c)) : ItemOk d it := by
  unfold explainTok at h
  split at h
  · simp at h
  · unfold explainLong at h
    split at h
    · rename_i hv; exact explainValue_itemOk hv h
    · split at h
      · rename_i ht
        split at h
        · simp at h
        · simp only [Option.some.injEq, Prod.mk.injEq] at h; rw [← h.1]; exact ht
      · split at h
        · rename_i ht
          split at h
          · simp at h
          · simp only [Option.some.injEq, Prod.mk.injEq] at h; rw [← h.1]
            simp only [Bool.and_eq_true] at ht
            exact ht.2
        · simp at h
  · rename_i ls v hsh
    obtain ⟨_, _, c0, r0, hls, _, _⟩ := shapeOf_short hsh
    unfold explainShort at h
    split at h
    · split at h
      · rename_i hv; exact explainValue_itemOk (valueOptOfLetter_isValueOptName hv) h
      · split at h
        · rename_i hcond
          simp only [Option.some.injEq, Prod.mk.injEq] at h; rw [← h.1]
          simp only [Bool.and_eq_true] at hcond
          exact ⟨by simp, by simp [hcond.2]⟩
        · simp at h
    · split at h
      · rename_i hcond
        simp only [Option.some.injEq, Prod.mk.injEq] at h; rw [← h.1]
        simp only [Bool.and_eq_true] at hcond
        exact ⟨by rw [hls]; simp, hcond.2⟩
      · simp at h

theorem explainGo_itemOk {d : Decl} (toks : List Str) (onlyPos : Bool) (items : List Item)
    (h : explainGo d onlyPos toks = some items) : ∀ it ∈ items, ItemOk d it := by
  induction hn : toks.length using Nat.strongRecOn generalizing toks onlyPos items with
  | _ n ih =>
    cases toks with
    | nil => rw [explainGo] at h; simp at h; subst h; simp
    | cons tok rest =>
      have hlen : rest.length < n := by rw [← hn]; simp
      have hlen2 : rest.tail.length < n := by rw [← hn]; simp; omega
      rw [explainGo] at h
      split at h
      · cases hr : explainGo d (onlyPos || d.greedy) rest with
        | none => rw [hr] at h; simp at h
        | some its =>
          rw [hr] at h; simp at h; subst h
          intro it hit
          rcases List.mem_cons.mp hit with he | he
          · subst he; trivial
          · exact ih _ hlen rest _ its hr rfl it he
      · split at h
        · cases hr : explainGo d true rest with
          | none => rw [hr] at h; simp at h
          | some its =>
            rw [hr] at h; simp at h; subst h
            intro it hit
            rcases List.mem_cons.mp hit with he | he
            · subst he; trivial
            · exact ih _ hlen rest _ its hr rfl it he
        · split at h
          · simp at h
          · rename_i it0 hex
            cases hr : explainGo d false rest with
            | none => rw [hr] at h; simp at h
            | some its =>
              rw [hr] at h; simp at h; subst h
              intro it hit
              rcases List.mem_cons.mp hit with he | he
              · subst he; exact explainTok_itemOk hex
              · exact ih _ hlen rest _ its hr rfl it he
          · rename_i it0 hex
            cases hr : explainGo d false rest.tail with
            | none => rw [hr] at h; simp at h
            | some its =>
              rw [hr] at h; simp at h; subst h
              intro it hit
              rcases List.mem_cons.mp hit with he | he
              · subst he; exact explainTok_itemOk hex
              · exact ih _ hlen2 rest.tail _ its hr rfl it he

end NitroVerif.Opt
