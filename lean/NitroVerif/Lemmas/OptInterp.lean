import NitroVerif.Lemmas.OptApply

/-!
Refinement, part 3c: `validate_options()` on a state that tracks an item list computes the
specification's `interp` of that item list.
-/
namespace NitroVerif.Opt

theorem splitSemiGo_ne_nil (s cur : Str) (h : s ≠ [] ∨ cur ≠ []) : splitSemiGo s cur ≠ [] := by
  induction s generalizing cur with
  | nil =>
    rcases h with h | h
    · exact absurd rfl h
    · simp [splitSemiGo, h]
  | cons c cs ih =>
    unfold splitSemiGo
    by_cases hc : c = ';'
    · simp [hc]
    · simp only [hc, if_false]
      exact ih (c :: cur) (Or.inr (by simp))

theorem splitSemi_ne_nil (s : Str) (h : s ≠ []) : splitSemi s ≠ [] :=
  splitSemiGo_ne_nil s [] (Or.inl h)

theorem interpOpt_eq (env : Env) (items : List Item) (o : OptD) (v : Option Str) (dirty : Bool)
    (hv : v = (cliValues o.name items).head?) (hl : (cliValues o.name items).length ≤ 1)
    (hd : dirty = !(cliValues o.name items).isEmpty) :
    interpOpt env items o = optFinal env o v dirty := by
  unfold interpOpt optFinal
  rw [envNonEmpty_eq]
  cases hc : cliValues o.name items with
  | nil =>
    rw [hc] at hv hd
    simp only [List.head?_nil] at hv
    simp only [List.isEmpty_nil, Bool.not_true] at hd
    subst hv; subst hd
    simp only [Option.isSome_none, Bool.false_eq_true, if_false]
    by_cases he : (envOf env o.env != []) = true
    · simp [he]
    · simp only [he, Bool.false_eq_true, if_false]
      cases o.dflt <;> rfl
  | cons x xs =>
    rw [hc] at hv hd hl
    cases xs with
    | nil =>
      simp only [List.head?_cons] at hv
      simp only [List.isEmpty_cons, Bool.not_false] at hd
      subst hv; subst hd
      simp
    | cons y ys => simp at hl

theorem interpMul_eq (env : Env) (items : List Item) (m : MulD) (vs : List Str) (dirty : Bool)
    (hv : vs = cliValues m.name items) (hd : dirty = !(cliValues m.name items).isEmpty) :
    interpMul env items m = mulFinal env m vs dirty := by
  unfold interpMul mulFinal
  rw [envNonEmpty_eq]
  cases hc : cliValues m.name items with
  | nil =>
    rw [hc] at hv hd
    simp only [List.isEmpty_nil, Bool.not_true] at hd
    subst hv; subst hd
    simp only [bne_self_eq_false, Bool.false_eq_true, if_false]
    by_cases he : (envOf env m.env != []) = true
    · simp only [he, if_true, Bool.false_or]
      have : (splitSemi (envOf env m.env) != []) = true := by
        have := splitSemi_ne_nil (envOf env m.env) (by simpa using he)
        simpa using this
      rw [this]
    · simp only [he, Bool.false_eq_true, if_false]
      cases m.dflt <;> rfl
  | cons x xs =>
    rw [hc] at hv hd
    simp only [List.isEmpty_cons, Bool.not_false] at hd
    subst hv; subst hd
    simp

theorem interpTog_eq (env : Env) (items : List Item) (t : TogD) (g : Int) (dt : Bool)
    (h : RTog t (posCount t items) (negCount t items) g dt) :
    interpTog env items t = togFinal env t g dt := by
  obtain ⟨hg, hd, hx, hr⟩ := h
  unfold interpTog togFinal
  rw [envNonEmpty_eq]
  simp only
  by_cases hn : negCount t items > 0
  · have hrev := hr hn
    have hp0 : posCount t items = 0 := by omega
    have hdt : dt = true := by rw [hd]; simp [hn]
    have hg0 : g = 0 := by rw [hg, hp0]; rfl
    simp [hn, hrev, hp0, hdt, hg0]
  · have hn0 : negCount t items = 0 := by omega
    by_cases hp : posCount t items > 0
    · have hdt : dt = true := by rw [hd]; simp [hp]
      simp [hn0, hp, hdt, hg]
    · have hp0 : posCount t items = 0 := by omega
      have hdt : dt = false := by rw [hd]; simp [hn0, hp0]
      simp only [hn0, hp0, Nat.lt_irrefl, decide_false, Bool.false_and, Bool.false_eq_true, if_false, hdt]
      by_cases he : (envOf env t.env != []) = true
      · simp only [he, if_true]
        cases parseEnvWord (envOf env t.env) <;> rfl
      · simp [he]

theorem interp_err_left (d : Decl) (env : Env) (items : List Item)
    (h : (∃ e, mapAll (interpOpt env items) d.opts = .error e) ∨
         (∃ e, mapAll (interpMul env items) d.muls = .error e) ∨
         (∃ e, mapAll (interpTog env items) d.togs = .error e)) :
    interp d env items = .error .user := by
  unfold interp
  simp only
  by_cases ht : tooMany d (positionalsOf items).length = true
  · simp [ht]
  · simp only [ht, Bool.false_eq_true, if_false]
    rcases h with ⟨e, he⟩ | ⟨e, he⟩ | ⟨e, he⟩
    · rw [he]
    · rw [he]; cases mapAll (interpOpt env items) d.opts <;> rfl
    · rw [he]; cases mapAll (interpOpt env items) d.opts <;> cases mapAll (interpMul env items) d.muls <;> rfl

theorem interp_of_bad (d : Decl) (env : Env) (items : List Item) (h : Bad d items) :
    interp d env items = .error .user := by
  rcases h with ⟨o, ho, hl⟩ | ⟨t, ht, hn, hb⟩ | ⟨n, hn, hl⟩
  · have herr : interpOpt env items o = .error .user := by
      unfold interpOpt
      cases hc : cliValues o.name items with
      | nil => rw [hc] at hl; simp at hl
      | cons x xs =>
        cases xs with
        | nil => rw [hc] at hl; simp at hl
        | cons y ys => rfl
    exact interp_err_left d env items (Or.inl (mapAll_err (interpOpt env items) d.opts o ho _ herr))
  · have herr : interpTog env items t = .error .user := by
      unfold interpTog
      simp only
      rcases hb with hb | hb
      · simp [hn, hb]
      · by_cases hrev : t.reversible = true
        · simp [hn, hb, hrev]
        · have : t.reversible = false := by simpa using hrev
          simp [hn, this]
    exact interp_err_left d env items (Or.inr (Or.inr (mapAll_err (interpTog env items) d.togs t ht _ herr)))
  · unfold interp
    have : tooMany d (positionalsOf items).length = true := by
      unfold tooMany; rw [hn]; simpa using hl
    simp [this]

theorem interp_of_tracks (d : Decl) (hwf : WF d) (env : Env) (items : List Item) (s : Dyn) (pos : List Str)
    (h : Tracks d items s pos) :
    interp d env items = match validate d env s with
      | .error e => .error e
      | .ok s2 => .ok (mkResult d s2 pos) := by
  have hO : ∀ o ∈ d.opts, interpOpt env items o = optFinal env o (s.val o.name) (s.dirtyO o.name) :=
    fun o ho => interpOpt_eq env items o _ _ (h.opt o ho).1 (h.opt o ho).2.1 (h.opt o ho).2.2
  have hM : ∀ m ∈ d.muls, interpMul env items m = mulFinal env m (s.vals m.name) (s.dirtyM m.name) :=
    fun m hm => interpMul_eq env items m _ _ (h.mul m hm).1 (h.mul m hm).2
  have hT : ∀ t ∈ d.togs, interpTog env items t = togFinal env t (s.given t.name) (s.dirtyT t.name) :=
    fun t ht => interpTog_eq env items t _ _ (h.rtog ht)
  have hroom : tooMany d (positionalsOf items).length = false := by
    unfold tooMany
    cases ha : d.allowed with
    | none => rfl
    | some n =>
      have := h.room n ha
      rw [h.posEq] at this
      simp only [decide_eq_false_iff_not]
      omega
  have hv := validate_spec d hwf env s
  cases hval : validate d env s with
  | error e =>
    rw [hval] at hv
    obtain ⟨he, hcase⟩ := hv
    subst he
    simp only
    apply interp_err_left
    rcases hcase with ⟨o, ho, hoe⟩ | ⟨m, hm, hme⟩ | ⟨t, ht, hte⟩
    · exact Or.inl (mapAll_err (interpOpt env items) d.opts o ho _ (by rw [hO o ho]; exact hoe))
    · exact Or.inr (Or.inl (mapAll_err (interpMul env items) d.muls m hm _ (by rw [hM m hm]; exact hme)))
    · exact Or.inr (Or.inr (mapAll_err (interpTog env items) d.togs t ht _ (by rw [hT t ht]; exact hte)))
  | ok s2 =>
    rw [hval] at hv
    obtain ⟨ho, hm, ht⟩ := hv
    unfold interp
    simp only [hroom, Bool.false_eq_true, if_false]
    rw [mapAll_ok (interpOpt env items) (fun o => (s2.val o.name, s2.dirtyO o.name)) d.opts
          (fun o hmem => by rw [hO o hmem]; exact ho o hmem),
        mapAll_ok (interpMul env items) (fun m => (s2.vals m.name, s2.dirtyM m.name)) d.muls
          (fun m hmem => by rw [hM m hmem]; exact hm m hmem),
        mapAll_ok (interpTog env items) (fun t => (s2.given t.name, s2.dirtyT t.name)) d.togs
          (fun t hmem => by rw [hT t hmem]; exact ht t hmem)]
    simp only [mkResult, zip_map_map, zip_map_filter_map, h.posEq]

end NitroVerif.Opt
