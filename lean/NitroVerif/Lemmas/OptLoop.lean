import NitroVerif.Lemmas.OptDispatch

/-!
Refinement, part 2: the parse loop is the specification's explanation of the argument vector
followed by the items applied one after the other (`loop_factor`).
-/
namespace NitroVerif.Opt

/-! ### every failure inside the loop is a `parsing_error` -/

theorem updateOpt_err {s : Dyn} {o : OptD} {v : Str} {e : Err} (h : updateOpt s o v = .error e) : e = .user := by
  unfold updateOpt at h; split at h <;> simp_all

theorem updateTog_err {s : Dyn} {t : TogD} {u : UI} {e : Err} (h : updateTog s t u = .error e) : e = .user := by
  unfold updateTog at h
  repeat' split at h
  all_goals simp_all

theorem optAct_err {s : Dyn} {o : OptD} {u : UI} {next : Option Str} {e : Err}
    (h : optAct s o u next = .error e) : e = .user := by
  unfold optAct at h
  split at h
  · cases hu : updateOpt s o u.theValue with
    | error e' => rw [hu] at h; simp [Except.map] at h; rw [← h]; exact updateOpt_err hu
    | ok s' => rw [hu] at h; simp [Except.map] at h
  · split at h
    · split at h
      · rename_i n _
        cases hu : updateOpt s o n with
        | error e' => rw [hu] at h; simp [Except.map] at h; rw [← h]; exact updateOpt_err hu
        | ok s' => rw [hu] at h; simp [Except.map] at h
      · simp_all
    · simp_all

theorem mulAct_err {s : Dyn} {m : MulD} {u : UI} {next : Option Str} {e : Err}
    (h : mulAct s m u next = .error e) : e = .user := by
  unfold mulAct updateMul at h
  split at h
  · simp [Except.map] at h
  · split at h
    · split at h
      · simp [Except.map] at h
      · simp_all
    · simp_all

theorem tryTogs_err {u : UI} {s : Dyn} {f : Bool} {l : List TogD} {e : Err}
    (h : tryTogs u s f l = .error e) : e = .user := by
  induction l generalizing s f with
  | nil => simp [tryTogs] at h
  | cons t rest ih =>
    unfold tryTogs at h
    split at h
    · cases hu : updateTog s t u with
      | error e' => rw [hu] at h; simp at h; rw [← h]; exact updateTog_err hu
      | ok s' => rw [hu] at h; exact ih h
    · exact ih h

theorem tokStep_err {d : Decl} {s : Dyn} {u : UI} {next : Option Str} {e : Err}
    (h : tokStep d s u next = .error e) : e = .user := by
  unfold tokStep at h
  rw [tryOpts_find, tryMuls_find] at h
  cases ho : d.opts.find? (fun o => matchesBase o.name o.short u) with
  | some o => rw [ho] at h; exact optAct_err h
  | none =>
    rw [ho] at h
    cases hm : d.muls.find? (fun o => matchesBase o.name o.short u) with
    | some m => rw [hm] at h; exact mulAct_err h
    | none =>
      rw [hm] at h
      simp only [Option.map_none] at h
      cases ht : tryTogs u s false d.togs with
      | error e' => rw [ht] at h; simp at h; rw [← h]; exact tryTogs_err ht
      | ok p =>
        obtain ⟨s', f⟩ := p
        rw [ht] at h
        cases f <;> simp_all

theorem loop_err {d : Decl} {e : Err} (toks : List Str) (st : LoopSt)
    (h : loop d st toks = .error e) : e = .user := by
  induction hn : toks.length using Nat.strongRecOn generalizing toks st with
  | _ n ih =>
    cases toks with
    | nil => rw [loop_nil] at h; simp at h
    | cons tok rest =>
      have hlen : rest.length < n := by rw [← hn]; simp
      have hlen2 : rest.tail.length < n := by rw [← hn]; simp; omega
      by_cases hp : (st.onlyPos || isValueTok tok) = true
      · rw [loop_pos d st tok rest hp] at h
        split at h
        · simp_all
        · exact ih _ hlen rest _ h rfl
      · have hpf : (st.onlyPos || isValueTok tok) = false := by simpa using hp
        rw [loop_opt d st tok rest hpf] at h
        cases hm : mkUI tok with
        | none => rw [hm] at h; simp_all
        | some u =>
          rw [hm] at h
          simp only at h
          split at h
          · exact ih _ hlen rest _ h rfl
          · split at h
            · simp_all
            · cases hs : tokStep d st.dyn u rest.head? with
              | error e' => rw [hs] at h; simp at h; rw [← h]; exact tokStep_err hs
              | ok p =>
                obtain ⟨s', c⟩ := p
                rw [hs] at h
                simp only at h
                cases c
                · exact ih _ hlen rest _ h rfl
                · exact ih _ hlen2 rest.tail _ h rfl

end NitroVerif.Opt

namespace NitroVerif.Opt

/-! ### items applied one after the other -/

def applyItem (d : Decl) (s : Dyn) (pos : List Str) : Item → Except Err (Dyn × List Str)
  | .pos t => if d.allowed == some pos.length then .error .user else .ok (s, pos ++ [t])
  | it => (applyOptItem d s it).map (·, pos)

def applyItems (d : Decl) : List Item → Dyn → List Str → Except Err (Dyn × List Str)
  | [], s, pos => .ok (s, pos)
  | it :: rest, s, pos =>
    match applyItem d s pos it with
    | .error e => .error e
    | .ok (s', pos') => applyItems d rest s' pos'

theorem mkUI_doubleDash {tok : Str} (hd : isDoubleDashTok tok = true) :
    ∃ u, mkUI tok = some u ∧ u.isDoubleDash = true := by
  unfold mkUI
  simp only [hd, Bool.or_true, if_true]
  exact ⟨_, rfl, hd⟩

theorem explainTok_not_pos {d : Decl} {tok : Str} {next : Option Str} {it : Item} {c : Bool}
    (h : explainTok d tok next = some (it, c)) : ∀ t, it ≠ .pos t := by
  intro t ht
  subst ht
  unfold explainTok at h
  have hval : ∀ n sh v nx, explainValue n sh v nx ≠ some (.pos t, c) := by
    intro n sh v nx hh
    unfold explainValue at hh
    repeat' split at hh
    all_goals simp_all
  split at h
  · simp at h
  · unfold explainLong at h
    repeat' split at h
    all_goals first | exact hval _ _ _ _ h | simp_all
  · unfold explainShort at h
    repeat' split at h
    all_goals first | exact hval _ _ _ _ h | simp_all

theorem applyItem_opt {d : Decl} {s : Dyn} {pos : List Str} {it : Item} (h : ∀ t, it ≠ .pos t) :
    applyItem d s pos it = (applyOptItem d s it).map (·, pos) := by
  cases it with
  | pos t => exact absurd rfl (h t)
  | _ => rfl

/-- **loop_factor**: the parse loop computes the specification's explanation and applies its items
from left to right; it fails (always with a `parsing_error`) when there is no explanation. -/
theorem loop_factor (d : Decl) (hwf : WF d) (toks : List Str) (st : LoopSt) :
    (loop d st toks).map (fun st' => (st'.dyn, st'.pos)) =
      match explainGo d st.onlyPos toks with
      | none => .error .user
      | some items => applyItems d items st.dyn st.pos := by
  induction hn : toks.length using Nat.strongRecOn generalizing toks st with
  | _ n ih =>
    cases toks with
    | nil => rw [loop_nil, explainGo]; rfl
    | cons tok rest =>
      have hlen : rest.length < n := by rw [← hn]; simp
      have hlen2 : rest.tail.length < n := by rw [← hn]; simp; omega
      rw [explainGo]
      by_cases hp : (st.onlyPos || isValueTok tok) = true
      · rw [loop_pos d st tok rest hp]
        simp only [hp, if_true]
        have IH := ih _ hlen rest { st with pos := st.pos ++ [tok], onlyPos := st.onlyPos || d.greedy } rfl
        simp only at IH
        by_cases ha : (d.allowed == some st.pos.length) = true
        · simp only [ha, if_true]
          cases explainGo d (st.onlyPos || d.greedy) rest with
          | none => rfl
          | some items => simp [applyItems, applyItem, ha, Except.map]
        · simp only [ha, Bool.false_eq_true, if_false]
          rw [IH]
          cases explainGo d (st.onlyPos || d.greedy) rest with
          | none => rfl
          | some items => simp [applyItems, applyItem, ha]
      · have hpf : (st.onlyPos || isValueTok tok) = false := by simpa using hp
        have hvt : isValueTok tok = false := by
          cases h1 : st.onlyPos <;> simp_all
        have hop : st.onlyPos = false := by
          cases h1 : st.onlyPos <;> simp_all
        rw [loop_opt d st tok rest hpf]
        simp only [hpf, Bool.false_eq_true, if_false]
        by_cases hdd : isDoubleDashTok tok = true
        · obtain ⟨u, hu, hud⟩ := mkUI_doubleDash hdd
          simp only [hdd, if_true, hu, hud]
          have IH := ih _ hlen rest { st with onlyPos := true } rfl
          simp only at IH
          rw [IH]
          cases explainGo d true rest with
          | none => rfl
          | some items => simp [applyItems, applyItem, applyOptItem, Except.map]
        · have hddf : isDoubleDashTok tok = false := by simpa using hdd
          simp only [hddf, Bool.false_eq_true, if_false]
          have hdisp := dispatch d hwf st.dyn tok rest.head? hvt hddf
          unfold DispatchOk at hdisp
          cases hex : explainTok d tok rest.head? with
          | none =>
            rw [hex] at hdisp
            simp only at hdisp ⊢
            -- the loop fails here: with a parsing_error
            rcases hdisp with hnone | ⟨u, hu, hud, hbad⟩
            · rw [hnone]; rfl
            · rw [hu]
              simp only [hud, Bool.false_eq_true, if_false]
              by_cases hsl : shortListOk d u = true
              · rcases hbad with hsl' | ⟨e, he⟩
                · rw [hsl] at hsl'; simp at hsl'
                · simp only [hsl, Bool.not_true, Bool.false_eq_true, if_false, he]
                  rw [tokStep_err he]; rfl
              · have : shortListOk d u = false := by simpa using hsl
                simp only [this, Bool.not_false, if_true]; rfl
          | some p =>
            obtain ⟨it, consumed⟩ := p
            rw [hex] at hdisp
            simp only at hdisp
            obtain ⟨u, hu, hud, hsl, hstep⟩ := hdisp
            simp only [hu, hud, Bool.false_eq_true, if_false, hsl, Bool.not_true]
            have hnp := explainTok_not_pos hex
            cases happ : applyOptItem d st.dyn it with
            | error e =>
              have hstep' : tokStep d st.dyn u rest.head? = .error e := by rw [hstep, happ]; rfl
              have he : e = .user := tokStep_err hstep'
              subst he
              simp only [hstep']
              cases consumed
              · simp only
                cases explainGo d false rest with
                | none => rfl
                | some items => simp [applyItems, applyItem_opt hnp, happ, Except.map]
              · simp only
                cases explainGo d false rest.tail with
                | none => rfl
                | some items => simp [applyItems, applyItem_opt hnp, happ, Except.map]
            | ok s' =>
              have hstep' : tokStep d st.dyn u rest.head? = .ok (s', consumed) := by rw [hstep, happ]; rfl
              simp only [hstep']
              cases consumed
              · simp only [Bool.false_eq_true, if_false]
                have IH := ih _ hlen rest { st with dyn := s' } rfl
                simp only [hop] at IH ⊢
                rw [IH]
                cases explainGo d false rest with
                | none => rfl
                | some items => simp [applyItems, applyItem_opt hnp, happ, Except.map]
              · simp only [if_true]
                have IH := ih _ hlen2 rest.tail { st with dyn := s' } rfl
                simp only [hop] at IH ⊢
                rw [IH]
                cases explainGo d false rest.tail with
                | none => rfl
                | some items => simp [applyItems, applyItem_opt hnp, happ, Except.map]

end NitroVerif.Opt
