import NitroVerif.Model.Usage
import NitroVerif.Lemmas.Str

/-!
The width clause of C15 for `format_padded`: if no word is too long to ever fit
(`|w| + 1 ≤ maxW - leftPad`), no line of the output is longer than `maxW` — except that the line
the output continues is not made longer than it already was when it is already beyond the padding.
-/
namespace NitroVerif.Usage
open NitroVerif.Str

/-- the lengths of the lines of `s`, when the line `s` continues already has `col` characters -/
def lineLens : Nat → Str → List Nat
  | col, [] => [col]
  | col, c :: cs => if c = '\n' then col :: lineLens 0 cs else lineLens (col + 1) cs

theorem lineLens_append (col : Nat) (a b : Str) (h : '\n' ∉ a) :
    lineLens col (a ++ b) = lineLens (col + a.length) b := by
  induction a generalizing col with
  | nil => simp
  | cons c cs ih =>
    have hc : c ≠ '\n' := fun e => h (by simp [e])
    have hcs : '\n' ∉ cs := fun e => h (by simp [e])
    simp only [List.cons_append, lineLens, hc, if_false, List.length_cons]
    rw [ih _ hcs]
    congr 1; omega

theorem blanks_length (n : Int) : (blanks n).length = if n ≤ 1 then 1 else n.toNat := by
  unfold blanks; simp

theorem blanks_noNl (n : Int) : '\n' ∉ blanks n := by
  unfold blanks; intro h; have := List.eq_of_mem_replicate h; simp at this

theorem untab_length (w : Str) : (untab w).length = w.length := by simp [untab]

theorem untab_noNl (w : Str) (h : '\n' ∉ w) : '\n' ∉ untab w := by
  unfold untab
  intro hm
  obtain ⟨c, hc, he⟩ := List.mem_map.mp hm
  by_cases ht : c = '\t'
  · simp [ht] at he
  · simp only [ht, if_false] at he; exact h (he ▸ hc)

theorem blanks_one_length : (blanks 1).length = 1 := by decide

theorem blanks_pad_length (leftPad : Int) (h0 : 0 ≤ leftPad) :
    ((blanks leftPad).length : Int) = if leftPad ≤ 1 then 1 else leftPad := by
  rw [blanks_length]
  split
  · rfl
  · rename_i h; simp; omega

/-- the loop of `format_padded`: line lengths stay within `maxW` -/
theorem fpGo_width (leftPad maxW : Int) (h0 : 0 ≤ leftPad) (h1 : leftPad < maxW)
    (words : List Str) (hw : ∀ w ∈ words, '\n' ∉ w ∧ (w.length : Int) + 1 ≤ maxW - leftPad)
    (col : Nat) (space : Int) (pending : Option Int)
    (hs : 0 ≤ space)
    (hinv : space ≤ 0 ∨ (col : Int) + ((blanks (pending.getD 1)).length : Int) - 1 ≤ maxW - space) :
    ∀ L ∈ lineLens col (fpGo leftPad maxW space pending words), (L : Int) ≤ max (col : Int) maxW := by
  induction words generalizing col space pending with
  | nil => intro L hL; simp [fpGo, lineLens] at hL; subst hL; omega
  | cons word rest ih =>
    obtain ⟨hnl, hfit⟩ := hw word (by simp)
    have hrest : ∀ w ∈ rest, '\n' ∉ w ∧ (w.length : Int) + 1 ≤ maxW - leftPad :=
      fun w hm => hw w (by simp [hm])
    simp only [fpGo]
    have hnever : ((0 ≤ maxW - leftPad) && decide (((untab word).length : Int) + 1 > maxW - leftPad)) = false := by
      rw [untab_length]; simp; intro _; omega
    rw [hnever]
    simp only [Bool.false_or]
    rw [untab_length]
    by_cases hfits : (word.length : Int) + 1 ≤ space
    · simp only [hfits, decide_true, if_true]
      intro L hL
      rw [List.append_assoc, lineLens_append _ _ _ (blanks_noNl _), lineLens_append _ _ _ (untab_noNl _ hnl),
        untab_length] at hL
      have hsp : ¬ space ≤ 0 := by omega
      have hinv' := hinv.resolve_left hsp
      generalize (blanks (pending.getD 1)).length = bl at *
      have hcol' : ((col + bl + word.length : Nat) : Int) ≤ maxW - (space - (↑word.length + 1)) := by
        push_cast; omega
      have := ih hrest (col + bl + word.length) (space - (↑word.length + 1)) none
        (by omega) (Or.inr (by simp only [Option.getD_none, blanks_one_length]; push_cast at hcol' ⊢; omega)) L hL
      have hle : ((col + bl + word.length : Nat) : Int) ≤ maxW := by omega
      omega
    · simp only [hfits, decide_false, Bool.false_eq_true, if_false]
      intro L hL
      simp only [List.cons_append, List.append_assoc, lineLens, ↓reduceIte] at hL
      rcases List.mem_cons.mp hL with he | hL
      · subst he; omega
      · rw [lineLens_append _ _ _ (blanks_noNl _), lineLens_append _ _ _ (untab_noNl _ hnl),
          untab_length] at hL
        have hbp := blanks_pad_length leftPad h0
        generalize (blanks leftPad).length = bp at *
        have hcol' : ((0 + bp + word.length : Nat) : Int) ≤ maxW - (maxW - leftPad - (↑word.length + 1)) := by
          push_cast; split at hbp <;> omega
        have := ih hrest (0 + bp + word.length) (maxW - leftPad - (↑word.length + 1)) none
          (by omega)
          (Or.inr (by simp only [Option.getD_none, blanks_one_length]; push_cast at hcol' ⊢; omega)) L hL
        have hle : ((0 + bp + word.length : Nat) : Int) ≤ maxW := by omega
        omega

theorem mem_of_mem_splitGo {α : Type} [DecidableEq α] (sep : List α) (hn : sep ≠ []) (s w : List α) (c : α)
    (hw : w ∈ splitGo sep hn s) (hc : c ∈ w) : c ∈ s := by
  induction s using splitGo.induct sep hn with
  | case1 rest pos h ih =>
    rw [splitGo_eq, h] at hw
    simp only [List.mem_cons] at hw
    rcases hw with rfl | hw
    · exact List.mem_of_mem_take hc
    · exact List.mem_of_mem_drop (ih hw)
  | case2 rest h =>
    rw [splitGo_eq, h] at hw
    simp only [List.mem_singleton] at hw
    subst hw; exact hc

/-- **`format_padded` keeps within the width**: for a text without line breaks, none of whose
blank-separated pieces is too long to ever fit (`|w| + 1 ≤ maxW - leftPad`), appended to a line that
already holds `col` characters: no line of the result is longer than `maxW` — and the line it
continues is left as it was if it is already beyond the padding column. -/
theorem formatPadded_width (col : Nat) (text : Str) (leftPad maxW : Int) (h0 : 0 ≤ leftPad) (h1 : leftPad < maxW)
    (hnl : '\n' ∉ text)
    (hfit : ∀ w ∈ splitGo [' '] (by decide) text, (w.length : Int) + 1 ≤ maxW - leftPad) :
    ∀ L ∈ lineLens col (formatPadded col text leftPad maxW), (L : Int) ≤ max (col : Int) maxW := by
  have hw : ∀ w ∈ splitGo [' '] (by decide) text, '\n' ∉ w ∧ (w.length : Int) + 1 ≤ maxW - leftPad :=
    fun w hm => ⟨fun hc => hnl (mem_of_mem_splitGo _ _ _ _ _ hm hc), hfit w hm⟩
  unfold formatPadded
  simp only
  by_cases hc : (col : Int) ≤ leftPad
  · simp only [hc, if_true]
    apply fpGo_width leftPad maxW h0 h1 _ hw col _ _ (by omega)
    right
    simp only [Option.getD_some]
    rw [blanks_length]
    split <;> (push_cast; omega)
  · simp only [hc, if_false]
    exact fpGo_width leftPad maxW h0 h1 _ hw col 0 none (by omega) (Or.inl (by omega))

theorem lineLens_snoc_nl (col : Nat) (a : Str) : lineLens col (a ++ ['\n']) = lineLens col a ++ [0] := by
  induction a generalizing col with
  | nil => simp [lineLens]
  | cons c cs ih =>
    simp only [List.cons_append, lineLens]
    split
    · simp [ih]
    · exact ih _

/-- the left column of an option-section entry: `  -s, --[no-]name METAVAR` -/
def entryLeft (e : Entry) : Str :=
  "  ".toList ++ (if e.short ≠ [] then ['-'] ++ e.short ++ ", ".toList else []) ++ formatName e ++
    (if e.kind = .t then [] else ' ' :: e.metavar)

/-- the text that is wrapped to the right of it: description, environment hint, default -/
def entryText (e : Entry) : Str :=
  join ([e.description] ++
    (if e.env ≠ [] then ["Can be set using the environment variable '".toList ++ e.env ++ "'.".toList] else []) ++
    [formatDefault e]) [' ']

theorem formatEntry_eq (e : Entry) :
    formatEntry e = entryLeft e ++
      (if entryText e ≠ [] then formatPadded (entryLeft e).length (entryText e) 40 80 else []) ++ ['\n'] := rfl

/-- **One entry of the option section keeps within 80 columns** when its left column does, no
piece of its text is longer than 39 characters, and neither contains a line break. -/
theorem entry_width (e : Entry) (hl : '\n' ∉ entryLeft e) (hll : (entryLeft e).length ≤ 80)
    (ht : '\n' ∉ entryText e)
    (hfit : ∀ w ∈ splitGo [' '] (by decide) (entryText e), w.length + 1 ≤ 40) :
    ∀ L ∈ lineLens 0 (formatEntry e), L ≤ 80 := by
  rw [formatEntry_eq, List.append_assoc, lineLens_append _ _ _ hl, lineLens_snoc_nl]
  intro L hL
  rcases List.mem_append.mp hL with hL | hL
  · by_cases hne : entryText e ≠ []
    · rw [if_pos hne] at hL
      have := formatPadded_width (0 + (entryLeft e).length) (entryText e) 40 80 (by omega) (by omega) ht
        (fun w hw => by have := hfit w hw; omega) L (by simpa using hL)
      omega
    · rw [if_neg hne] at hL
      simp only [lineLens, List.mem_singleton] at hL
      omega
  · simp at hL; omega

/-- the synopsis before wrapping (with its leading blank) -/
def synopsisText (d : UDecl) (togsByName optsByName mulsByName longToggles : List Entry) : Str :=
  let shortList := (togsByName.filter (·.short ≠ [])).map (·.short) |>.flatten
  let sorted := shortList.mergeSort (fun a b => a.toNat ≤ b.toNat)
  (if shortList ≠ [] then " [-".toList ++ sorted ++ [']'] else []) ++
    (longToggles.map fun t => ' ' :: formatSynopsis t).flatten ++
    (optsByName.map fun o => ' ' :: formatSynopsis o).flatten ++
    (mulsByName.map fun m => ' ' :: formatSynopsis m).flatten ++
    (if d.positionals then " [".toList ++ d.posName ++ " ...]".toList else [])

/-- the first paragraph of the usage text -/
def synopsisPara (d : UDecl) (t o m l : List Entry) : Str :=
  "usage: ".toList ++ d.app ++
    (if synopsisText d t o m l ≠ [] then
      formatPadded ("usage: ".toList ++ d.app).length ((synopsisText d t o m l).drop 1) (8 + d.app.length) 80
    else [])

theorem usage_eq (d : UDecl) (t o m l : List Entry) :
    usage d t o m l = synopsisPara d t o m l ++ "\n\n".toList ++
      (if d.about ≠ [] then d.about ++ "\n\n".toList else []) ++ (d.groups.map groupUsage).flatten := rfl

/-- **The synopsis keeps within 80 columns** when the application name is shorter than 72
characters (padding column 8 + |app| < 80), no blank-separated piece of the synopsis is too long to
fit behind the padding, and neither contains a line break. -/
theorem synopsis_width (d : UDecl) (t o m l : List Entry) (happ : '\n' ∉ d.app) (hlen : d.app.length < 72)
    (hs : '\n' ∉ (synopsisText d t o m l).drop 1)
    (hfit : ∀ w ∈ splitGo [' '] (by decide) ((synopsisText d t o m l).drop 1), w.length + 1 + (8 + d.app.length) ≤ 80) :
    ∀ L ∈ lineLens 0 (synopsisPara d t o m l), L ≤ 80 := by
  unfold synopsisPara
  have hhead : '\n' ∉ "usage: ".toList ++ d.app := by
    intro h
    rcases List.mem_append.mp h with h | h
    · revert h; decide
    · exact happ h
  rw [lineLens_append _ _ _ hhead]
  intro L hL
  by_cases hne : synopsisText d t o m l ≠ []
  · rw [if_pos hne] at hL
    have := formatPadded_width (0 + ("usage: ".toList ++ d.app).length) ((synopsisText d t o m l).drop 1)
      (8 + d.app.length) 80 (by omega) (by omega) hs (fun w hw => by have := hfit w hw; omega) L
      (by simpa using hL)
    simp only [List.length_append, Nat.zero_add] at this
    have h7 : "usage: ".toList.length = 7 := by decide
    rw [h7] at this
    omega
  · rw [if_neg hne] at hL
    simp only [lineLens, List.mem_singleton, List.length_append] at hL
    have h7 : "usage: ".toList.length = 7 := by decide
    omega

end NitroVerif.Usage
