import NitroVerif.Lemmas.OptInterp

/-!
Refinement, the theorem: on every declaration the declaration API can produce (long names pairwise
distinct), for every environment and every argument vector, the model of `parser::parse` computes
exactly the specification `specParse` — explain the command line once, interpret the items per option.
-/
namespace NitroVerif.Opt

theorem parse_factor (d : Decl) (hnames : (allNames d).Nodup) (env : Env) (argv : List Str) :
    parse d env argv = specParse d env argv := by
  unfold parse parseOn specParse
  by_cases hc : consistent d = true
  · have hwf : WF d := ⟨hnames, hc⟩
    simp only [hc, Bool.not_true, Bool.false_eq_true, if_false]
    have hlf := loop_factor d hwf argv ⟨Dyn.fresh, [], false⟩
    simp only at hlf
    unfold explain
    cases hex : explainGo d false argv with
    | none =>
      rw [hex] at hlf
      simp only at hlf ⊢
      cases hloop : loop d ⟨Dyn.fresh, [], false⟩ argv with
      | error e => rw [loop_err argv _ hloop]
      | ok st => rw [hloop] at hlf; simp [Except.map] at hlf
    | some items =>
      rw [hex] at hlf
      simp only at hlf ⊢
      have htr := applyItems_tracks hwf items [] Dyn.fresh [] (tracks_init d) (explainGo_itemOk argv false items hex)
      simp only [List.nil_append] at htr
      cases hloop : loop d ⟨Dyn.fresh, [], false⟩ argv with
      | error e =>
        rw [hloop] at hlf
        simp only [Except.map] at hlf
        rw [← hlf] at htr
        simp only at htr ⊢
        rw [loop_err argv _ hloop, interp_of_bad d env items htr]
      | ok st =>
        rw [hloop] at hlf
        simp only [Except.map] at hlf
        rw [← hlf] at htr
        simp only at htr ⊢
        rw [interp_of_tracks d hwf env items st.dyn st.pos htr]
        cases validate d env st.dyn <;> rfl
  · have : consistent d = false := by simpa using hc
    simp [this]

end NitroVerif.Opt
