// Correspondence harness for nitro::format / nitro::except (C08).
// Typed argument token: one type letter + hex of the text the generator expects the stream
// representation to be.  s = std::string, p = const char*, i = int, l = long long, c = char, d = double,
// h = a user type whose inserter switches the stream to hex/showbase and leaves it so, f = a user type whose
// inserter sets fixed/precision(2) and leaves it so (inserters written like that are common; the text of the
// *other* arguments must not depend on them).
#include "common.hpp"

#include <nitro/except/raise.hpp>
#include <nitro/format/format.hpp>

#include <cstdint>
#include <variant>

#include <iomanip>

struct Hex
{
    unsigned v;
};
static std::ostream& operator<<(std::ostream& o, const Hex& h)
{
    return o << std::hex << std::showbase << h.v;
}
struct Fix2
{
    double v;
};
static std::ostream& operator<<(std::ostream& o, const Fix2& f)
{
    return o << std::fixed << std::setprecision(2) << f.v;
}

// a fixed-size character buffer that is only partly filled; it is handed over as the array it is
struct CBuf
{
    char buf[24];
    const char (&ref() const)[24]
    {
        return buf;
    }
};
static std::ostream& operator<<(std::ostream& o, const CBuf& b)
{
    return o << b.buf;
}

using V = std::variant<int, long long, char, double, std::string, const char*, Hex, Fix2, CBuf>;

// what is actually passed on for an argument: the array itself for a CBuf, the value otherwise
template <typename T>
static T& as_passed(T& x)
{
    return x;
}
static const char (&as_passed(CBuf& x))[24]
{
    return x.ref();
}

struct Arg
{
    V v;
    std::string keep; // storage for const char*
};

static std::vector<std::unique_ptr<Arg>> parse_args(const std::string& field)
{
    std::vector<std::unique_ptr<Arg>> r;
    if (field == ".")
        return r;
    for (auto& tok : nv::splitc(field, ','))
    {
        auto a = std::make_unique<Arg>();
        std::string text = nv::unhex(tok.substr(1));
        switch (tok[0])
        {
        case 's':
            a->v = text;
            break;
        case 'p':
            a->keep = text;
            a->v = a->keep.c_str();
            break;
        case 'i':
            a->v = static_cast<int>(std::stol(text));
            break;
        case 'l':
            a->v = std::stoll(text);
            break;
        case 'c':
            a->v = text.at(0);
            break;
        case 'd':
            a->v = std::stod(text);
            break;
        case 'a':
        {
            CBuf b{};
            text.copy(b.buf, sizeof(b.buf) - 1);
            a->v = b;
            break;
        }
        case 'h':
            a->v = Hex{ static_cast<unsigned>(std::stoul(text, nullptr, 16)) };
            break;
        case 'f':
            a->v = Fix2{ std::stod(text) };
            break;
        default:
            throw std::runtime_error("bad arg type");
        }
        r.push_back(std::move(a));
    }
    return r;
}

using F = nitro::detail::formatter<char>;

// Earlier traffic on the same thread: a message and an exception whose arguments leave their stream in
// hex / fixed state and filled with text.  Nothing of it may show in what is built afterwards.
static void earlier_traffic()
{
    try
    {
        std::string a = nitro::format("{} {} {}") % Hex{ 255 } % Fix2{ 1.5 } % std::string("earlier");
        (void)a;
        nitro::except::exception e(Hex{ 4096 }, ' ', Fix2{ 2.25 }, std::string(" earlier"));
        (void)e.what();
        nitro::raise(Hex{ 17 }, Fix2{ 0.125 }, " raised earlier");
    }
    catch (std::exception&)
    {
    }
}

static std::string render(const std::string& api, F& f)
{
    if (api == "stream" || api == "args+stream")
    {
        std::ostringstream o;
        o << "<";
        try
        {
            o << f;
        }
        catch (nitro::except::exception&)
        {
            // raising instead of yielding partial output: nothing of the formatter may have reached the stream
            if (o.str() != "<")
                return "<<raised after writing " + nv::hex(o.str().substr(1)) + " to the stream>>";
            throw;
        }
        o << ">";
        auto s = o.str();
        return s.substr(1, s.size() - 2);
    }
    if (api == "conv" || api == "args+conv")
    {
        std::string s = f;
        return s;
    }
    // calling str() twice must give the same text (str() is const and re-scans nothing)
    auto a = f.str();
    auto b = f.str();
    if (a != b)
        return "<<str() not repeatable>>";
    return a;
}

static std::string do_str(const std::string& api, const std::string& fmt,
                          std::vector<std::unique_ptr<Arg>>& args)
{
    bool use_cstr = api == "cfmt";
    F f = use_cstr ? nitro::format(fmt.c_str()) : nitro::format(fmt);
    if ((api == "pct+more" || api == "copy+more" || api == "fork+more") && !args.empty())
    {
        // the text is rendered once before the last argument is added (to the same object, or to a copy of it):
        // the final rendering has to be that of all the arguments
        for (std::size_t i = 0; i + 1 < args.size(); i++)
            std::visit([&](auto&& x) { f % as_passed(x); }, args[i]->v);
        try
        {
            (void)f.str();
            std::ostringstream o;
            o << f;
        }
        catch (std::exception&)
        {
        }
        if (api == "pct+more")
        {
            std::visit([&](auto&& x) { f % as_passed(x); }, args.back()->v);
            return render("pct", f);
        }
        if (api == "fork+more")
        {
            // two copies of the partially filled object go their own ways: what is added to one (or rendered
            // from it) has nothing to do with the other
            F a = f;
            a % std::string("<<sibling>>") % 12345;
            try
            {
                (void)a.str();
            }
            catch (std::exception&)
            {
            }
            F b = f;
            std::visit([&](auto&& x) { b.args(as_passed(x)); }, args.back()->v);
            return render("pct", b);
        }
        F g = f;
        std::visit([&](auto&& x) { g % as_passed(x); }, args.back()->v);
        return render("pct", g);
    }
    bool variadic = api.rfind("args", 0) == 0;
    if (!variadic || args.size() > 3)
    {
        for (auto& a : args)
            std::visit([&](auto&& x) { f % as_passed(x); }, a->v);
        if (variadic)
            f.args();
    }
    else
    {
        // the arguments are the caller's variables (lvalues): they are read, never changed
        std::vector<V> before;
        for (auto& a : args)
            before.push_back(a->v);
        struct Unchanged
        {
            std::vector<V>& before;
            std::vector<std::unique_ptr<Arg>>& args;
            bool ok() const
            {
                for (std::size_t i = 0; i < args.size(); i++)
                    if (std::holds_alternative<std::string>(before[i]) &&
                        std::get<std::string>(before[i]) != std::get<std::string>(args[i]->v))
                        return false;
                return true;
            }
        } unchanged{ before, args };
        switch (args.size())
        {
        case 0:
            f.args();
            break;
        case 1:
            std::visit([&](auto&& x) { f.args(as_passed(x)); }, args[0]->v);
            break;
        case 2:
            std::visit([&](auto&& x, auto&& y) { f.args(as_passed(x), as_passed(y)); }, args[0]->v, args[1]->v);
            break;
        case 3:
            std::visit([&](auto&& x, auto&& y, auto&& z) { f.args(as_passed(x), as_passed(y), as_passed(z)); }, args[0]->v,
                       args[1]->v, args[2]->v);
            break;
        }
        if (!unchanged.ok())
            return "<<args(...) changed a variable of the caller>>";
    }
    return render(api, f);
}

static std::string do_exc(const std::string& api, std::vector<std::unique_ptr<Arg>>& args)
{
    auto mk = [&](auto&&... xs) -> std::string {
        if (api == "ctor")
        {
            nitro::except::exception e(xs...);
            return e.what();
        }
        try
        {
            nitro::raise(xs...);
        }
        catch (nitro::except::exception& e)
        {
            return e.what();
        }
        return "<<no exception>>";
    };
    switch (args.size())
    {
    case 1:
        return std::visit([&](auto&& x) { return mk(x); }, args[0]->v);
    case 2:
        return std::visit([&](auto&& x, auto&& y) { return mk(x, y); }, args[0]->v, args[1]->v);
    case 3:
        return std::visit([&](auto&& x, auto&& y, auto&& z) { return mk(x, y, z); }, args[0]->v,
                          args[1]->v, args[2]->v);
    default:
    {
        // longer argument lists: strings only
        std::vector<std::string> s;
        for (auto& a : args)
            s.push_back(std::get<std::string>(a->v));
        if (s.size() == 4)
            return mk(s[0], s[1], s[2], s[3]);
        if (s.size() == 5)
            return mk(s[0], s[1], s[2], s[3], s[4]);
        if (s.size() == 6)
            return mk(s[0], s[1], s[2], s[3], s[4], s[5]);
        return "<<arity not compiled in>>";
    }
    }
}

// Arguments of the remaining built-in types (one per case, optionally followed by strings): the text of an argument
// is what an ostream makes of a value of exactly that static type - a signed/unsigned char is a character, a bool
// is 1/0, a short is a number.  Token: type letter + hex of the expected text.
// a type that converts implicitly to std::string (its bare text) and prints decorated: what an argument contributes is
// what the stream makes of it
struct Conv
{
    std::string inner;
    operator std::string() const
    {
        return inner;
    }
};
static std::ostream& operator<<(std::ostream& o, const Conv& c)
{
    return o << "<" << c.inner << ">";
}

template <typename Fn>
static void with_ext(const std::string& tok, Fn&& fn)
{
    std::string text = nv::unhex(tok.substr(1));
    switch (tok[0])
    {
    case 'b':
        fn(static_cast<signed char>(text.at(0)));
        break;
    case 'u':
        fn(static_cast<unsigned char>(text.at(0)));
        break;
    case 'B':
        fn(text == "1");
        break;
    case 'S':
        fn(static_cast<short>(std::stol(text)));
        break;
    case 'T':
        fn(static_cast<unsigned short>(std::stoul(text)));
        break;
    case 'U':
        fn(static_cast<unsigned long long>(std::stoull(text)));
        break;
    case 'L':
        fn(static_cast<long>(std::stol(text)));
        break;
    case 'N':
        fn(static_cast<unsigned>(std::stoul(text)));
        break;
    case 'F':
        fn(static_cast<float>(std::stod(text)));
        break;
    case 'C':
        fn(Conv{ text.substr(1, text.size() - 2) });
        break;
    case 'n':
        fn(nullptr);
        break;
    case 'w':
        fn(static_cast<std::int8_t>(text.at(0)));
        break;
    case 'W':
        fn(static_cast<std::uint8_t>(text.at(0)));
        break;
    default:
        throw std::runtime_error("bad ext arg type");
    }
}

static std::string do_ext(const std::string& api, const std::string& fmt, const std::string& field)
{
    auto toks = nv::splitc(field, ',');
    F f = nitro::format(fmt);
    std::vector<std::string> rest;
    for (std::size_t i = 1; i < toks.size(); i++)
        rest.push_back(nv::unhex(toks[i].substr(1)));
    with_ext(toks.at(0), [&](auto x) {
        const auto cx = x;
        if (api == "ext-pct")
            f % x;
        else if (api == "ext-cpct")
            f % cx;
        else if (api == "ext-args" && rest.size() == 1)
        {
            f.args(x, rest[0]);
            rest.clear();
        }
        else
            f.args(x);
    });
    for (auto& r : rest)
        f % r;
    return render("pct", f);
}

static std::string do_ext_exc(const std::string& api, const std::string& field)
{
    auto toks = nv::splitc(field, ',');
    std::string tail = toks.size() > 1 ? nv::unhex(toks[1].substr(1)) : std::string();
    std::string r;
    with_ext(toks.at(0), [&](auto x) {
        if (api == "ext1-ctor")
        {
            nitro::except::exception e(x);
            r = e.what();
            return;
        }
        if (api == "ext1-raise")
        {
            try
            {
                nitro::raise(x);
            }
            catch (nitro::except::exception& e)
            {
                r = e.what();
            }
            return;
        }
        if (api == "ext-ctor")
        {
            nitro::except::exception e(x, tail);
            r = e.what();
            return;
        }
        try
        {
            nitro::raise(x, tail);
        }
        catch (nitro::except::exception& e)
        {
            r = e.what();
        }
    });
    return r;
}

static std::string handle(const std::vector<std::string>& f)
{
    const std::string& op = f.at(0);
    earlier_traffic();
    if (op == "str" && f.at(1).rfind("ext-", 0) == 0)
    {
        try
        {
            return "ok " + nv::hex(do_ext(f.at(1), nv::unhex(f.at(2)), f.at(3)));
        }
        catch (nitro::except::exception&)
        {
            return "raise";
        }
    }
    if (op == "exc" && f.at(1).rfind("ext", 0) == 0)
        return "ok " + nv::hex(do_ext_exc(f.at(1), f.at(2)));
    if (op == "str")
    {
        auto args = parse_args(f.at(3));
        try
        {
            return "ok " + nv::hex(do_str(f.at(1), nv::unhex(f.at(2)), args));
        }
        catch (nitro::except::exception&)
        {
            return "raise";
        }
    }
    if (op == "exc")
    {
        auto args = parse_args(f.at(2));
        return "ok " + nv::hex(do_exc(f.at(1), args));
    }
    return "bad-op";
}

int main()
{
    return nv::main_loop(handle, 5);
}
