// Correspondence harness for the usage text (C15).
// Case: usage <app> <about> <posflag,posname> <groups> [<long toggle order: ignored here>]
//   groups ';' separated  name:description:entries ; entries '|' separated
//   entry  kind,name,short,env,metavar,desc,dflt,rev   (hex fields; dflt ~ = none)
#include "common.hpp"

#include <iomanip>

#include <nitro/options/parser.hpp>

namespace no = nitro::options;

class CollectBuf : public std::streambuf
{
public:
    std::string data;

protected:
    std::streamsize xsputn(const char* s, std::streamsize n) override
    {
        data.append(s, static_cast<std::size_t>(n));
        return n;
    }
    int_type overflow(int_type ch) override
    {
        if (ch != traits_type::eof())
            data.push_back(static_cast<char>(ch));
        return ch;
    }
    // no seekoff/seekpos: tellp() reports -1 like std::cout on a pipe or terminal
};

// a target that accepts `room` bytes and then fails (a full disk, a closed pipe)
class FailBuf : public std::streambuf
{
public:
    std::string data;
    std::size_t room;
    explicit FailBuf(std::size_t n) : room(n)
    {
    }

protected:
    std::streamsize xsputn(const char* s, std::streamsize n) override
    {
        std::streamsize k = 0;
        while (k < n && data.size() < room)
            data.push_back(s[k++]);
        return k;
    }
    int_type overflow(int_type ch) override
    {
        if (ch == traits_type::eof() || data.size() >= room)
            return traits_type::eof();
        data.push_back(static_cast<char>(ch));
        return ch;
    }
};

static std::string handle(const std::vector<std::string>& f)
{
    std::string app = nv::unhex(f.at(0)), about = nv::unhex(f.at(1));
    auto pos = nv::splitc(f.at(2), ',');
    auto groups = nv::splitc(f.at(3), ';');
    try
    {
        // the first group is the default group; its name is the parser's third constructor argument
        auto g0 = nv::splitc(groups.at(0), ':');
        no::parser p(app, about, nv::unhex(g0.at(0)));
        bool early = pos.size() > 4 && pos.at(4) == "1";
        auto early_usage = [&] {
            // the text is also asked for while the declaration is still going on (before the first and after every
            // group): the final text describes the final declarations
            if (early)
            {
                std::stringstream sink;
                p.usage(sink);
            }
        };
        early_usage();
        for (std::size_t gi = 0; gi < groups.size(); gi++)
        {
            if (gi > 0)
                early_usage();
            auto g = nv::splitc(groups[gi], ':');
            no::group& grp = gi == 0 ? p.group() : p.group(nv::unhex(g.at(0)), nv::unhex(g.at(1)));
            if (g.at(2).empty())
                continue;
            for (auto& et : nv::splitc(g.at(2), '|'))
            {
                auto e = nv::splitc(et, ',');
                std::string name = nv::unhex(e.at(1)), sh = nv::unhex(e.at(2)), env = nv::unhex(e.at(3)),
                            mv = nv::unhex(e.at(4)), desc = nv::unhex(e.at(5));
                if (e.at(0) == "o")
                {
                    auto& o = grp.option(name, desc);
                    if (!sh.empty())
                        o.short_name(sh);
                    if (!env.empty())
                        o.env(env);
                    o.metavar(mv);
                    if (e.at(6) != "~")
                        o.default_value(nv::unhex(e.at(6)));
                }
                else if (e.at(0) == "m")
                {
                    auto& o = grp.multi_option(name, desc);
                    if (!sh.empty())
                        o.short_name(sh);
                    if (!env.empty())
                        o.env(env);
                    o.metavar(mv);
                    if (e.at(6) != "~")
                    {
                        std::vector<std::string> dv;
                        if (e.at(6) != ".")
                            for (auto& x : nv::splitc(e.at(6), '+'))
                                dv.push_back(nv::unhex(x));
                        o.default_value(dv);
                    }
                }
                else
                {
                    auto& o = grp.toggle(name, desc);
                    if (!sh.empty())
                        o.short_name(sh);
                    if (!env.empty())
                        o.env(env);
                    if (e.at(6) != "~")
                        o.default_value(std::stoi(e.at(6)));
                    if (e.at(7) == "1")
                        o.allow_reverse();
                }
            }
        }
        if (pos.size() > 2 && pos.at(2) == "1")
        {
            // every entry is asked for by name once more, last group first (the way code that adds an
            // environment binding or a default later does): that returns the object declared before and
            // declares nothing
            for (std::size_t gi = groups.size(); gi-- > 0;)
            {
                auto g = nv::splitc(groups[gi], ':');
                if (g.at(2).empty())
                    continue;
                no::group& grp = gi == 0 ? p.group() : p.group(nv::unhex(g.at(0)));
                for (auto& et : nv::splitc(g.at(2), '|'))
                {
                    auto e = nv::splitc(et, ',');
                    std::string name = nv::unhex(e.at(1)), mv = nv::unhex(e.at(4));
                    if (e.at(0) == "o")
                        grp.option(name).metavar(mv);
                    else if (e.at(0) == "m")
                        grp.multi_option(name).metavar(mv);
                    else
                        grp.toggle(name);
                }
            }
        }
        if (pos.size() > 3 && pos.at(3) == "1")
        {
            // a parse (of an empty command line, and of one giving the first multi-option) before the text is
            // printed: the usage text describes the declarations, whatever was parsed before
            const char* av0[] = { "prog" };
            try
            {
                p.parse(1, av0);
            }
            catch (std::exception&)
            {
            }
            try
            {
                p.parse(std::vector<no::user_input>{});
            }
            catch (std::exception&)
            {
            }
        }
        if (pos.at(0) == "1")
        {
            p.accept_positionals();
            p.positional_metavar(nv::unhex(pos.at(1)));
        }
        std::stringstream fresh;
        p.usage(fresh);
        std::string t1 = fresh.str();

        std::stringstream prior;
        std::string pre = "some earlier output that is longer than the left padding of the synopsis ...\nxx";
        prior << pre;
        p.usage(prior);
        std::string t2 = prior.str().substr(pre.size());

        CollectBuf cb;
        std::ostream plain(&cb);
        p.usage(plain);
        std::string t3 = cb.data;

        // a stream whose formatting state was left behind by earlier output (fill character, adjustment,
        // number base): the usage text consists of strings and of padding of its own
        std::stringstream stateful;
        stateful << std::setfill('0') << std::setw(6) << 42 << std::left << std::hex << std::showbase << std::uppercase
                 << std::boolalpha << ' ' << 255 << '\n';
        std::string pre4 = stateful.str();
        p.usage(stateful);
        std::string t4 = stateful.str().substr(pre4.size());

        // targets that fail part-way (silently, or by throwing because the caller asked the stream to): what did arrive
        // is the beginning of the text, and the next request - to any stream - gives the whole text again
        {
            std::size_t step = t1.size() / 24 + 1;
            for (std::size_t room = 0; room < t1.size(); room += step)
                for (int throwing = 0; throwing < 2; throwing++)
                {
                    FailBuf fb(room);
                    std::ostream failing(&fb);
                    if (throwing)
                        failing.exceptions(std::ios_base::badbit | std::ios_base::failbit);
                    try
                    {
                        p.usage(failing);
                    }
                    catch (std::ios_base::failure&)
                    {
                    }
                    if (t1.compare(0, fb.data.size(), fb.data) != 0)
                        return "STREAMS-DIFFER:failing-target-got-other-text " + nv::hex(fb.data);
                    std::stringstream again;
                    p.usage(again);
                    if (again.str() != t1)
                        return "STREAMS-DIFFER:after-a-failed-target " + nv::hex(again.str());
                }
        }
        if (t2 != t1)
            return "STREAMS-DIFFER:prior-content " + nv::hex(t2);
        if (t4 != t1)
            return "STREAMS-DIFFER:formatting-state " + nv::hex(t4);
        if (t3 != t1)
            return "STREAMS-DIFFER:non-seekable " + nv::hex(t3);

        // the same declarations seen through a parser object that was moved (a parser built in a
        // factory function, stored in a member, ...): the text has to be the same
        no::parser q(std::move(p));
        std::stringstream moved;
        q.usage(moved);
        if (moved.str() != t1)
            return "MOVED-DIFFERS:move-constructed " + nv::hex(moved.str());
        no::parser r("other", "other about");
        r.group("other group", "dropped by the assignment").toggle("dropped", "dropped");
        r = std::move(q);
        std::stringstream assigned;
        r.usage(assigned);
        if (assigned.str() != t1)
            return "MOVED-DIFFERS:move-assigned " + nv::hex(assigned.str());
        no::parser q2(std::move(r));
        std::stringstream twice;
        q2.usage(twice);
        if (twice.str() != t1)
            return "MOVED-DIFFERS:moved-twice " + nv::hex(twice.str());
        return "ok " + nv::hex(t1);
    }
    catch (no::parser_error&)
    {
        return "dev";
    }
}

int main()
{
    return nv::main_loop(handle, 5);
}
