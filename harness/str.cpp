// Correspondence harness for nitro::lang::{split,join,replace_all,starts_with} (C17).
#include "common.hpp"

#include <iterator>
#include <sstream>

#include <nitro/lang/string.hpp>

static std::string handle(const std::vector<std::string>& f)
{
    const std::string& op = f.at(0);
    if (op == "split")
    {
        try
        {
            auto r = nitro::lang::split(nv::unhex(f.at(1)), nv::unhex(f.at(2)));
            return "ok " + nv::hex_list(r);
        }
        catch (std::exception&)
        {
            return "raise";
        }
    }
    if (op == "repl")
    {
        std::string s = nv::unhex(f.at(1));
        nitro::lang::replace_all(s, nv::unhex(f.at(2)), nv::unhex(f.at(3)));
        return "ok " + nv::hex(s);
    }
    if (op == "sw")
    {
        return nitro::lang::starts_with(nv::unhex(f.at(1)), nv::unhex(f.at(2))) ? "ok 1" : "ok 0";
    }
    if (op == "join")
    {
        auto xs = nv::unhex_list(f.at(1));
        // both public overloads must agree; the iterator overload is the one that is compared
        auto a = nitro::lang::join(xs.begin(), xs.end(), nv::unhex(f.at(2)));
        auto b = nitro::lang::join(xs, nv::unhex(f.at(2)));
        if (a != b)
            return "overloads-differ";
        // the iterator overload takes *input* iterators: a single-pass range (an istream_iterator over the
        // elements, when none of them is empty or contains white space) has to give the same text
        bool tokenisable = !xs.empty();
        for (auto& x : xs)
            if (x.empty() || x.find_first_of(" \t\n\v\f\r") != std::string::npos)
                tokenisable = false;
        if (tokenisable)
        {
            std::string all;
            for (auto& x : xs)
                all += x + "\n";
            std::istringstream in(all);
            auto c = nitro::lang::join(std::istream_iterator<std::string>(in), std::istream_iterator<std::string>(),
                                       nv::unhex(f.at(2)));
            if (c != a)
                return "single-pass-range-differs " + nv::hex(c);
        }
        return "ok " + nv::hex(a);
    }
    return "bad-op";
}

int main()
{
    return nv::main_loop(handle, 1);
}
