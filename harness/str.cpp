// Correspondence harness for nitro::lang::{split,join,replace_all,starts_with} (C17).
#include "common.hpp"

#include <nitro/lang/string.hpp>

static std::string handle(const std::vector<std::string>& f)
{
    const std::string& op = f.at(0);
    if (op == "split")
    {
        try
        {
            auto r = nitro::lang::split(nv::unhex(f.at(1)), nv::unhex(f.at(2)));
            return "ok " + nv::hex_list(r);
        }
        catch (std::exception&)
        {
            return "raise";
        }
    }
    if (op == "repl")
    {
        std::string s = nv::unhex(f.at(1));
        nitro::lang::replace_all(s, nv::unhex(f.at(2)), nv::unhex(f.at(3)));
        return "ok " + nv::hex(s);
    }
    if (op == "sw")
    {
        return nitro::lang::starts_with(nv::unhex(f.at(1)), nv::unhex(f.at(2))) ? "ok 1" : "ok 0";
    }
    if (op == "join")
    {
        auto xs = nv::unhex_list(f.at(1));
        // both public overloads must agree; the iterator overload is the one that is compared
        auto a = nitro::lang::join(xs.begin(), xs.end(), nv::unhex(f.at(2)));
        auto b = nitro::lang::join(xs, nv::unhex(f.at(2)));
        if (a != b)
            return "overloads-differ";
        return "ok " + nv::hex(a);
    }
    return "bad-op";
}

int main()
{
    return nv::main_loop(handle, 1);
}
