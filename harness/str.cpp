// Correspondence harness for nitro::lang::{split,join,replace_all,starts_with} (C17).
#include "common.hpp"

#include <iomanip>
#include <iterator>
#include <sstream>

#include <nitro/lang/string.hpp>

// Elements of a user-defined type.  What such an element contributes is its own stream representation - whatever
// its inserter does to the stream it is given (formatting flags, a pending width, the failed state) is its own affair
// and can not show in the elements that follow.
struct Word
{
    std::string text;
    int kind;
};
static std::ostream& operator<<(std::ostream& os, const Word& w)
{
    switch (w.kind)
    {
    case 1:
        os << w.text << std::hex << std::showbase << std::uppercase << std::setfill('*');
        os.width(9);
        return os;
    case 2:
        os << w.text;
        os.setstate(std::ios_base::failbit);
        return os;
    case 3:
        return os << static_cast<long>(w.text.size() + 10) << w.text;
    default:
        return os << w.text;
    }
}

static std::string handle(const std::vector<std::string>& f)
{
    const std::string& op = f.at(0);
    if (op == "split")
    {
        try
        {
            auto r = nitro::lang::split(nv::unhex(f.at(1)), nv::unhex(f.at(2)));
            return "ok " + nv::hex_list(r);
        }
        catch (std::exception&)
        {
            return "raise";
        }
    }
    if (op == "repl")
    {
        std::string s = nv::unhex(f.at(1));
        nitro::lang::replace_all(s, nv::unhex(f.at(2)), nv::unhex(f.at(3)));
        return "ok " + nv::hex(s);
    }
    if (op == "sw")
    {
        return nitro::lang::starts_with(nv::unhex(f.at(1)), nv::unhex(f.at(2))) ? "ok 1" : "ok 0";
    }
    if (op == "join")
    {
        auto xs = nv::unhex_list(f.at(1));
        // both public overloads must agree; the iterator overload is the one that is compared
        auto a = nitro::lang::join(xs.begin(), xs.end(), nv::unhex(f.at(2)));
        auto b = nitro::lang::join(xs, nv::unhex(f.at(2)));
        if (a != b)
            return "overloads-differ";
        // the iterator overload takes *input* iterators: a single-pass range (an istream_iterator over the
        // elements, when none of them is empty or contains white space) has to give the same text
        bool tokenisable = !xs.empty();
        for (auto& x : xs)
            if (x.empty() || x.find_first_of(" \t\n\v\f\r") != std::string::npos)
                tokenisable = false;
        if (tokenisable)
        {
            std::string all;
            for (auto& x : xs)
                all += x + "\n";
            std::istringstream in(all);
            auto c = nitro::lang::join(std::istream_iterator<std::string>(in), std::istream_iterator<std::string>(),
                                       nv::unhex(f.at(2)));
            if (c != a)
                return "single-pass-range-differs " + nv::hex(c);
        }
        {
            std::vector<Word> ws;
            std::vector<std::string> alone;
            for (std::size_t i = 0; i < xs.size(); i++)
            {
                ws.push_back(Word{ xs[i], static_cast<int>((i + xs[i].size() + xs.size()) % 4) });
                std::ostringstream o;
                o << ws.back();
                alone.push_back(o.str());
            }
            auto expect = nitro::lang::join(alone, nv::unhex(f.at(2)));
            auto u = nitro::lang::join(ws.begin(), ws.end(), nv::unhex(f.at(2)));
            if (u != expect)
                return "user-type-elements-differ " + nv::hex(u);
        }
        return "ok " + nv::hex(a);
    }
    return "bad-op";
}

int main()
{
    return nv::main_loop(handle, 1);
}
