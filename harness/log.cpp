// Correspondence harness for the logging front end (C05, C10).  Compiled once per compile-time
// minimum severity (-DNV_MIN=<0..5> selects NITRO_LOG_MIN_SEVERITY).
// Case: log <tag> <minsev> <filter id> <members> <ops>      |     log <tag> <minsev> TYPES
#include "common.hpp"

#include <thread>

#ifndef NV_MIN
#error "NV_MIN must be defined (0..5)"
#endif
#if NV_MIN % 2 == 1
// The layout of an application's own "log.hpp": other nitro log headers come first, the minimum severity is defined
// right before <nitro/log/log.hpp> - which is the header that reads it.  (The even builds define it before any header.)
#include <nitro/log/severity.hpp>
#include <nitro/log/attribute/severity.hpp>
#include <nitro/log/filter/severity_filter.hpp>
#include <nitro/log/sink/sequence.hpp>
#include <nitro/log/record.hpp>
#endif
#if NV_MIN == 0
#define NITRO_LOG_MIN_SEVERITY trace
#elif NV_MIN == 1
#define NITRO_LOG_MIN_SEVERITY debug
#elif NV_MIN == 2
#define NITRO_LOG_MIN_SEVERITY info
#elif NV_MIN == 3
#define NITRO_LOG_MIN_SEVERITY warn
#elif NV_MIN == 4
#define NITRO_LOG_MIN_SEVERITY error
#else
#define NITRO_LOG_MIN_SEVERITY fatal
#endif

#include <nitro/log/attribute/message.hpp>
#include <nitro/log/attribute/severity.hpp>
#include <nitro/log/attribute/tag.hpp>
#include <nitro/log/attribute/timestamp.hpp>
#include <nitro/log/filter/and_filter.hpp>
#include <nitro/log/filter/not_filter.hpp>
#include <nitro/log/filter/null_filter.hpp>
#include <nitro/log/filter/or_filter.hpp>
#include <nitro/log/filter/severity_filter.hpp>
#include <nitro/log/log.hpp>
#include <nitro/log/sink/sequence.hpp>

#include <functional>

namespace nl = nitro::log;
using sl = nl::severity_level;

static std::vector<std::string> g_events;

using Record = nl::record<nl::tag_attribute, nl::message_attribute, nl::severity_attribute,
                          nl::timestamp_clock_attribute<std::chrono::system_clock>>;

template <typename R>
struct Fmt
{
    std::string format(R& r)
    {
        std::string payload =
            std::to_string(static_cast<int>(r.severity())) + " " + nv::hex(r.tag()) + " " + nv::hex(r.message());
        g_events.push_back("fmt " + payload);
        return payload;
    }
};

template <int K>
struct RecSink
{
    void sink(sl sev, const std::string& formatted)
    {
        // the severity handed to the sink must be the record's
        std::string expect = std::to_string(static_cast<int>(sev)) + " ";
        g_events.push_back("sink " + std::to_string(K) + " " +
                           (formatted.compare(0, expect.size(), expect) == 0 ? formatted : "SEVERITY-MISMATCH " + formatted));
    }
};

// a member sink that takes the formatted record by value (and consumes it): the members behind it must still
// receive the whole record
template <int K>
struct RecSinkV
{
    void sink(sl sev, std::string formatted)
    {
        RecSink<K>().sink(sev, formatted);
        std::string gone = std::move(formatted);
        (void)gone;
    }
};

template <typename R>
using T0 = nl::filter::severity_filter<R, 0>;
template <typename R>
using T1 = nl::filter::severity_filter<R, 1>;
template <typename R>
using T2 = nl::filter::severity_filter<R, 2>;

template <typename R>
using F0 = T0<R>;
template <typename R>
using F1 = nl::filter::and_filter<T0<R>, T1<R>>;
template <typename R>
using F2 = nl::filter::or_filter<T0<R>, T1<R>>;
template <typename R>
using F3 = nl::filter::not_filter<T0<R>>;
template <typename R>
using F4 = nl::filter::not_filter<nl::filter::not_filter<T0<R>>>;
template <typename R>
using F5 = nl::filter::and_filter<nl::filter::or_filter<T0<R>, T1<R>>, nl::filter::not_filter<T2<R>>>;
template <typename R>
using F6 = nl::filter::or_filter<nl::filter::and_filter<T0<R>, T1<R>>, T2<R>>;
template <typename R>
using F7 = nl::filter::null_filter<R>;
// user-written filters that look at the tag of the record (mute one subsystem)
template <typename R>
struct MuteT
{
    typedef R record_type;
    bool filter(R& r) const
    {
        return r.tag() != "T";
    }
};
template <typename R>
struct Mutet
{
    typedef R record_type;
    bool filter(R& r) const
    {
        return r.tag() != "t";
    }
};
template <typename R>
using F8 = MuteT<R>;
template <typename R>
using F9 = nl::filter::and_filter<T0<R>, Mutet<R>>;

// two-operand windows: "at least T0 and not yet T1" in both operand orders (the thresholds are independent, so the
// window may be empty or inverted), and "below T0 or at least T1"
template <typename R>
using F10 = nl::filter::and_filter<T0<R>, nl::filter::not_filter<T1<R>>>;
template <typename R>
using F11 = nl::filter::and_filter<nl::filter::not_filter<T1<R>>, T0<R>>;
template <typename R>
using F12 = nl::filter::or_filter<nl::filter::not_filter<T0<R>>, T1<R>>;

using Sink1 = RecSink<0>;
using Sink3 = nl::sink::sequence<RecSinkV<0>, RecSink<1>, RecSinkV<2>>;

struct ItemV
{
    char kind;
    std::string text;
    int id = 0;
};

static std::vector<ItemV> parse_items(const std::string& s)
{
    std::vector<ItemV> r;
    if (s == "_")
        return r;
    for (auto& tok : nv::splitc(s, ','))
    {
        ItemV it;
        it.kind = tok[0];
        if (it.kind == 'L' || it.kind == 'M')
        {
            auto dot = tok.find('.');
            it.id = std::stoi(tok.substr(1, dot - 1));
            it.text = nv::unhex(tok.substr(dot + 1));
        }
        else
            it.text = nv::unhex(tok.substr(1));
        r.push_back(it);
    }
    return r;
}

// a value whose inserter puts the stream into the failed state and writes nothing
struct SetsFail
{
};
static std::ostream& operator<<(std::ostream& os, const SetsFail&)
{
    os.setstate(std::ios_base::failbit);
    return os;
}

// a callable with id 900 + n reconfigures the logger while it is being evaluated: it sets threshold 0 to n
static void (*g_set_thr0)(int) = nullptr;

struct Lazy
{
    int id;
    std::string text;
    std::string operator()() const
    {
        g_events.push_back("lazy " + std::to_string(id));
        if (id >= 900 && g_set_thr0)
            g_set_thr0(id - 900);
        return text;
    }
};

// a plain function (streamed as a function, or as a pointer to it) is a callable as well: it works on this slot,
// which is filled immediately before the function is streamed
static Lazy g_fn_slot{ 0, "" };
static std::string lazy_function()
{
    return g_fn_slot();
}

// a callable whose call operator is not const, and which could also be printed like any value: it is a callable,
// so it has to be called (once) - not printed
struct MutLazy
{
    int id;
    std::string text;
    int calls = 0;
    std::string operator()()
    {
        ++calls;
        g_events.push_back("lazy " + std::to_string(id));
        return text;
    }
};
static std::ostream& operator<<(std::ostream& os, const MutLazy&)
{
    return os << "<a callable that was printed instead of called>";
}

// one insertion, dispatching on the item's type; F receives the result of `<<`
template <typename S, typename Cont>
static void insert_one(S&& s, const ItemV& it, Cont cont)
{
    switch (it.kind)
    {
    case 's':
        cont(std::forward<S>(s) << it.text);
        break;
    case 'p':
        cont(std::forward<S>(s) << it.text.c_str());
        break;
    case 'i':
        cont(std::forward<S>(s) << std::stoi(it.text));
        break;
    case 'c':
        cont(std::forward<S>(s) << it.text.at(0));
        break;
    case 'd':
        cont(std::forward<S>(s) << std::stod(it.text));
        break;
    case 'a':
    {
        // a fixed-size character buffer that is only partly filled (a name field, the result of snprintf):
        // its stream representation is the text up to the terminating NUL
        char buf[24] = {};
        it.text.copy(buf, sizeof(buf) - 1);
        const char(&cbuf)[24] = buf;
        if (it.text.size() % 2)
            cont(std::forward<S>(s) << cbuf);
        else
            cont(std::forward<S>(s) << buf);
        break;
    }
    case 'x':
        cont(std::forward<S>(s) << SetsFail{});
        break;
    case 'M':
        cont(std::forward<S>(s) << MutLazy{ it.id, it.text });
        break;
    case 'L':
        if (it.id % 2)
        {
            // a lambda and a std::function are both "callable returning std::string"
            std::function<std::string()> fn = Lazy{ it.id, it.text };
            cont(std::forward<S>(s) << fn);
        }
        else if (it.id % 4 == 2 && it.id < 900)
        {
            // ... and so are a plain function and a pointer to one
            g_fn_slot = Lazy{ it.id, it.text };
            if (it.id % 8 == 2)
                cont(std::forward<S>(s) << lazy_function);
            else
            {
                std::string (*fp)() = &lazy_function;
                cont(std::forward<S>(s) << fp);
            }
        }
        else if (it.id % 4 == 0 && it.id % 3 == 1)
        {
            // a lambda with captures, as an lvalue
            Lazy inner{ it.id, it.text };
            auto lam = [inner, pad = std::string("x")]() { return inner(); };
            cont(std::forward<S>(s) << lam);
        }
        else
            cont(std::forward<S>(s) << Lazy{ it.id, it.text });
        break;
    default:
        cont(std::forward<S>(s) << std::string("?"));
    }
}

// rvalue chain: every `<<` yields a new temporary that lives until the innermost call returns,
// i.e. temporaries are destroyed in reverse order of creation, as at the end of a full expression
template <typename S, typename Done>
static void rchain(S&& s, const std::vector<ItemV>& items, std::size_t i, std::size_t n, Done done)
{
    if (i == n)
    {
        done(std::move(s));
        return;
    }
    insert_one(std::move(s), items[i], [&](auto&& next) { rchain(std::move(next), items, i + 1, n, done); });
}

// runs f from a destructor while an exception is propagating (a scope guard that logs during stack unwinding)
template <typename F>
struct RunsOnUnwind
{
    F f;
    ~RunsOnUnwind()
    {
        f();
    }
};

template <typename L, sl Sev>
static void statement(const char* tag, const std::vector<ItemV>& items, const std::string& named0)
{
    if (!named0.empty() && named0[0] == 'u')
    {
        // the same statement, executed while the stack is being unwound
        std::string inner = named0.substr(1);
        auto body = [&] { statement<L, Sev>(tag, items, inner); };
        try
        {
            RunsOnUnwind<decltype(body)> guard{ body };
            throw 42;
        }
        catch (int)
        {
        }
        return;
    }
    const std::string& named = named0;
    auto make = [&](const char* tag) {
        if constexpr (Sev == sl::trace)
            return L::trace(tag);
        else if constexpr (Sev == sl::debug)
            return L::debug(tag);
        else if constexpr (Sev == sl::info)
            return L::info(tag);
        else if constexpr (Sev == sl::warn)
            return L::warn(tag);
        else if constexpr (Sev == sl::error)
            return L::error(tag);
        else
            return L::fatal(tag);
    };
    if (named == "e")
    {
        rchain(make(tag), items, 0, items.size(), [](auto&&) {});
        return;
    }
    std::size_t k = std::stoul(named.substr(1));
    if (k > items.size())
        k = items.size();
    // auto l = logger::sev(tag) << first k items;   l << next; l << next; ...   } <- l destroyed
    // The tag is handed over in storage of the caller that is overwritten while the named stream is still alive:
    // the record carries the tag the statement was given.
    std::vector<char> tagbuf;
    const char* tagp = tag;
    if (tag != nullptr)
    {
        tagbuf.assign(tag, tag + std::strlen(tag) + 1);
        tagp = tagbuf.data();
    }
    rchain(make(tagp), items, 0, k, [&](auto&& init) {
        auto l = std::move(init);
        if (tag != nullptr)
            std::fill(tagbuf.begin(), tagbuf.end() - 1, '#');
        // (the temporaries of the initialiser are still alive here in this emulation; they are all
        //  moved-from, so the order in which they die relative to the named stream is not observable
        //  unless a moved-from temporary logs - which is exactly what must not happen)
        for (std::size_t i = k; i < items.size(); i++)
            insert_one(l, items[i], [](auto&&) {});
    });
}

template <typename L, sl Sev>
static auto make_stream(const char* tag)
{
    if constexpr (Sev == sl::trace)
        return L::trace(tag);
    else if constexpr (Sev == sl::debug)
        return L::debug(tag);
    else if constexpr (Sev == sl::info)
        return L::info(tag);
    else if constexpr (Sev == sl::warn)
        return L::warn(tag);
    else if constexpr (Sev == sl::error)
        return L::error(tag);
    else
        return L::fatal(tag);
}

// two named streams alive in one scope, insertions alternating a, b, a, b, ...
template <typename L, sl SA, sl SB>
static void overlap2(const char* ta, const std::vector<ItemV>& ia, const char* tb, const std::vector<ItemV>& ib)
{
    auto a = make_stream<L, SA>(ta);
    auto b = make_stream<L, SB>(tb);
    std::size_t i = 0, j = 0;
    while (i < ia.size() || j < ib.size())
    {
        if (i < ia.size() && j < ib.size())
        {
            insert_one(a, ia[i++], [](auto&&) {});
            insert_one(b, ib[j++], [](auto&&) {});
        }
        else if (i < ia.size())
            insert_one(a, ia[i++], [](auto&&) {});
        else
            insert_one(b, ib[j++], [](auto&&) {});
    }
    // scope ends: b is destroyed first, then a
}

template <typename L, sl SA>
static void overlap1(int sb, const char* ta, const std::vector<ItemV>& ia, const char* tb, const std::vector<ItemV>& ib)
{
    constexpr sl NEXT = static_cast<sl>((static_cast<int>(SA) + 1) % 6);
    if (sb == static_cast<int>(SA))
        overlap2<L, SA, SA>(ta, ia, tb, ib);
    else
        overlap2<L, SA, NEXT>(ta, ia, tb, ib);
}

template <typename L>
static void run_ops(const std::string& ops)
{
    using R = Record;
    g_set_thr0 = [](int n) { T0<Record>::set_severity(static_cast<sl>(n)); };
    T0<R>::set_severity(sl::trace);
    T1<R>::set_severity(sl::trace);
    T2<R>::set_severity(sl::trace);
    if (ops.empty())
        return;
    for (auto& tok : nv::splitc(ops, ';'))
    {
        auto t = nv::splitc(tok, ':');
        if (t[0] == "thr" || t[0] == "thrx")
        {
            // thrx: the threshold is configured by another thread (joined before the next statement)
            auto s = static_cast<sl>(std::stoi(t[2]));
            int which = std::stoi(t[1]);
            auto set = [s, which] {
                switch (which)
                {
                case 0:
                    T0<R>::set_severity(s);
                    break;
                case 1:
                    T1<R>::set_severity(s);
                    break;
                default:
                    T2<R>::set_severity(s);
                }
            };
            if (t[0] == "thrx")
                std::thread(set).join();
            else
                set();
        }
        else if (t[0] == "ov")
        {
            int sa = std::stoi(t[1]), sb = std::stoi(t[4]);
            std::string tas = t[2] == "~" ? std::string() : nv::unhex(t[2]);
            std::string tbs = t[5] == "~" ? std::string() : nv::unhex(t[5]);
            const char* ta = t[2] == "~" ? nullptr : tas.c_str();
            const char* tb = t[5] == "~" ? nullptr : tbs.c_str();
            auto ia = parse_items(t[3]);
            auto ib = parse_items(t[6]);
            switch (sa)
            {
            case 0:
                overlap1<L, sl::trace>(sb, ta, ia, tb, ib);
                break;
            case 1:
                overlap1<L, sl::debug>(sb, ta, ia, tb, ib);
                break;
            case 2:
                overlap1<L, sl::info>(sb, ta, ia, tb, ib);
                break;
            case 3:
                overlap1<L, sl::warn>(sb, ta, ia, tb, ib);
                break;
            case 4:
                overlap1<L, sl::error>(sb, ta, ia, tb, ib);
                break;
            default:
                overlap1<L, sl::fatal>(sb, ta, ia, tb, ib);
            }
        }
        else if (t[0] == "st" || t[0] == "stx")
        {
            // stx: the statement is executed by another thread (joined before the next op)
            int sev = std::stoi(t[1]);
            std::string tagstr = t[2] == "~" ? std::string() : nv::unhex(t[2]);
            const char* tag = t[2] == "~" ? nullptr : tagstr.c_str();
            auto items = parse_items(t[4]);
            auto run = [&] {
            switch (sev)
            {
            case 0:
                statement<L, sl::trace>(tag, items, t[3]);
                break;
            case 1:
                statement<L, sl::debug>(tag, items, t[3]);
                break;
            case 2:
                statement<L, sl::info>(tag, items, t[3]);
                break;
            case 3:
                statement<L, sl::warn>(tag, items, t[3]);
                break;
            case 4:
                statement<L, sl::error>(tag, items, t[3]);
                break;
            default:
                statement<L, sl::fatal>(tag, items, t[3]);
            }
            };
            if (t[0] == "stx")
                std::thread(run).join();
            else
                run();
        }
    }
}

template <template <typename> class F>
static void run_filter(int members, const std::string& ops)
{
    if (members == 1)
        run_ops<nl::logger<Record, Fmt, Sink1, F>>(ops);
    else
        run_ops<nl::logger<Record, Fmt, Sink3, F>>(ops);
}

using L0 = nl::logger<Record, Fmt, Sink1, F0>;

static std::string types()
{
    // the stream type of every severity, as the compiler sees it in this build
    std::string r;
    r += std::is_same<decltype(L0::trace()), nl::detail::null_stream>::value ? "1" : "0";
    r += std::is_same<decltype(L0::debug()), nl::detail::null_stream>::value ? "1" : "0";
    r += std::is_same<decltype(L0::info()), nl::detail::null_stream>::value ? "1" : "0";
    r += std::is_same<decltype(L0::warn()), nl::detail::null_stream>::value ? "1" : "0";
    r += std::is_same<decltype(L0::error()), nl::detail::null_stream>::value ? "1" : "0";
    r += std::is_same<decltype(L0::fatal()), nl::detail::null_stream>::value ? "1" : "0";
    return r;
}

static std::string handle(const std::vector<std::string>& f)
{
    if (std::stoi(f.at(1)) != NV_MIN)
        return "wrong-build";
    if (f.at(2) == "TYPES")
        return types();
    g_events.clear();
    int fid = std::stoi(f.at(2));
    int members = std::stoi(f.at(3));
    const std::string& ops = f.at(4);
    switch (fid)
    {
    case 0:
        run_filter<F0>(members, ops);
        break;
    case 1:
        run_filter<F1>(members, ops);
        break;
    case 2:
        run_filter<F2>(members, ops);
        break;
    case 3:
        run_filter<F3>(members, ops);
        break;
    case 4:
        run_filter<F4>(members, ops);
        break;
    case 5:
        run_filter<F5>(members, ops);
        break;
    case 6:
        run_filter<F6>(members, ops);
        break;
    case 8:
        run_filter<F8>(members, ops);
        break;
    case 9:
        run_filter<F9>(members, ops);
        break;
    case 10:
        run_filter<F10>(members, ops);
        break;
    case 11:
        run_filter<F11>(members, ops);
        break;
    case 12:
        run_filter<F12>(members, ops);
        break;
    default:
        run_filter<F7>(members, ops);
    }
    if (g_events.empty())
        return "-";
    std::string r;
    for (std::size_t i = 0; i < g_events.size(); i++)
        r += (i ? ";" : "") + g_events[i];
    return r;
}

int main()
{
    return nv::main_loop(handle, 5);
}
