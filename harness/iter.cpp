// Correspondence harness for nitro::lang::enumerate / reverse (C20).
// Case: iter <e|r> <kind> <lv|const|rv> <write 0|1> <values>
#include "common.hpp"

#include <memory>

#include <nitro/lang/enumerate.hpp>
#include <nitro/lang/fixed_vector.hpp>
#include <nitro/lang/reverse.hpp>

#include <algorithm>
#include <array>
#include <any>
#include <deque>
#include <list>
#include <map>
#include <set>

static std::vector<int> vals(const std::string& s)
{
    std::vector<int> r;
    if (s == "_")
        return r;
    for (auto& t : nv::splitc(s, ','))
        r.push_back(std::stoi(t));
    return r;
}

struct Out
{
    std::string seen;
    void add(std::size_t i, int v, bool with_index)
    {
        if (!seen.empty())
            seen += ",";
        if (with_index)
            seen += std::to_string(i) + ":";
        seen += std::to_string(v);
    }
};

template <typename C>
static std::string after(const C& c)
{
    std::string r;
    for (const auto& x : c)
    {
        if (!r.empty())
            r += ",";
        r += std::to_string(x);
    }
    return r.empty() ? "_" : r;
}

static std::string fin(const Out& o, const std::string& aft)
{
    return "seen=" + (o.seen.empty() ? std::string("_") : o.seen) + " after=" + aft;
}

// A range whose iterator fails once: the increment that would leave position `at` throws (before moving) the
// first time it is tried; the loop catches that and tries the same increment again.
struct Hiccup
{
};
struct HiccupRange
{
    std::vector<int>* v;
    std::size_t at;
    bool* thrown;
    struct iterator
    {
        std::vector<int>* v;
        std::size_t i;
        std::size_t at;
        bool* thrown;
        int& operator*() const
        {
            return (*v)[i];
        }
        iterator& operator++()
        {
            if (i == at && !*thrown)
            {
                *thrown = true;
                throw Hiccup();
            }
            ++i;
            return *this;
        }
        bool operator!=(const iterator& o) const
        {
            return i != o.i;
        }
        bool operator==(const iterator& o) const
        {
            return i == o.i;
        }
    };
    iterator begin() const
    {
        return iterator{ v, 0, at, thrown };
    }
    iterator end() const
    {
        return iterator{ v, v->size(), at, thrown };
    }
};

static std::string run_hiccup(std::vector<int> c, const std::string& orig)
{
    bool thrown = false;
    HiccupRange r{ &c, c.size() / 2, &thrown };
    Out o;
    auto e = nitro::lang::enumerate(r);
    auto it = e.begin();
    auto end = e.end();
    while (it != end)
    {
        auto p = *it;
        o.add(p.index(), p.value(), true);
        try
        {
            ++it;
        }
        catch (Hiccup&)
        {
            ++it; // the step that failed is tried again
        }
    }
    (void)orig;
    return fin(o, after(c));
}

// A lazy range of <n> elements, element k being k: every visit has to pair index k with value k.
struct CountRange
{
    unsigned long long n;
    struct iterator
    {
        unsigned long long k;
        unsigned long long operator*() const
        {
            return k;
        }
        iterator& operator++()
        {
            ++k;
            return *this;
        }
        bool operator!=(const iterator& o) const
        {
            return k != o.k;
        }
    };
    iterator begin() const
    {
        return { 0 };
    }
    iterator end() const
    {
        return { n };
    }
};

static std::string run_big(unsigned long long n, bool rvalue)
{
    unsigned long long visited = 0, bad = 0, first_bad = 0;
    auto body = [&](auto&& p) {
        if (p.index() != p.value() || p.value() != visited)
        {
            if (bad == 0)
                first_bad = visited;
            ++bad;
        }
        ++visited;
    };
    if (rvalue)
    {
        for (auto p : nitro::lang::enumerate(CountRange{ n }))
            body(p);
    }
    else
    {
        CountRange r{ n };
        for (auto p : nitro::lang::enumerate(r))
            body(p);
    }
    return "visited=" + std::to_string(visited) + " firstbad=" + (bad ? std::to_string(first_bad) : std::string("_"));
}

// For lvalue ranges (const or not) the visited values are the container's own elements: same addresses,
// in iteration order (reversed for reverse()).
struct Alias
{
    std::vector<const void*> seen;
    template <typename T>
    void add(const T& x)
    {
        seen.push_back(static_cast<const void*>(std::addressof(x)));
    }
    template <typename C>
    std::string verdict(const C& c, bool reversed) const
    {
        std::vector<const void*> own;
        for (const auto& x : c)
            own.push_back(static_cast<const void*>(std::addressof(x)));
        if (reversed)
            std::reverse(own.begin(), own.end());
        return own == seen ? "" : " NOALIAS(the loop did not visit the container's own elements)";
    }
};

static int val_of(int x)
{
    return x;
}
static int val_of(const std::pair<const int, int>& p)
{
    return p.first;
}
static int val_of(std::reference_wrapper<int> r)
{
    return r.get();
}
static int val_of(std::reference_wrapper<const int> r)
{
    return r.get();
}

// the element behind what a loop hands out: the thing itself, or what a reference_wrapper refers to
template <typename T>
static T& unwrapped(T& x)
{
    return x;
}
template <typename T>
static T& unwrapped(std::reference_wrapper<T>& x)
{
    return x.get();
}
template <typename T>
static T& unwrapped(const std::reference_wrapper<T>& x)
{
    return x.get();
}

template <typename C>
static C made_from(const C& c)
{
    return c;
}
template <typename C>
static const C made_const_from(const C& c)
{
    return c;
}

// generic driver for one container object that is kept in `c`
template <typename C>
static std::string run_generic(const std::string& ad, const std::string& cat, bool write, C& c,
                               const std::string& orig)
{
    Out o;
    if (ad == "er")
    {
        // enumerate(reverse(c)): the object returned by reverse() is moved into the enumerate adaptor
        if (cat == "lv")
        {
            for (auto p : nitro::lang::enumerate(nitro::lang::reverse(c)))
                o.add(p.index(), val_of(p.value()), true);
        }
        else if (cat == "const")
        {
            const C& cc = c;
            for (auto p : nitro::lang::enumerate(nitro::lang::reverse(cc)))
                o.add(p.index(), val_of(p.value()), true);
        }
        else
        {
            C tmp = c;
            for (auto p : nitro::lang::enumerate(nitro::lang::reverse(std::move(tmp))))
                o.add(p.index(), val_of(p.value()), true);
        }
        return fin(o, orig);
    }
    if (ad == "rm")
    {
        // the owning adaptor returned for a temporary is itself moved (heap, then back) before the loop
        C tmp = c;
        auto r = nitro::lang::reverse(std::move(tmp));
        auto heap = std::make_unique<decltype(r)>(std::move(r));
        auto r2 = std::move(*heap);
        heap.reset();
        for (auto& x : r2)
            o.add(0, val_of(x), false);
        return fin(o, orig);
    }
    if (ad == "ec")
    {
        // the pair is bound to a const reference (`for (const auto& p : enumerate(c))`): it still names the element
        Alias al;
        for (const auto& p : nitro::lang::enumerate(c))
        {
            o.add(p.index(), val_of(p.value()), true);
            if constexpr (std::is_reference<decltype(p.value())>::value)
                al.add(p.value());
            else
                return "CONST-PAIR-HANDS-OUT-A-COPY";
        }
        return fin(o, orig) + al.verdict(c, false);
    }
    if (ad == "ek")
    {
        // every proxy is kept while the iterator (still alive at the end) walks on; they are read afterwards:
        // an element stays paired with the index it was visited at
        auto e = nitro::lang::enumerate(c);
        auto it = e.begin();
        using P = decltype(*it);
        std::vector<P> kept;
        std::size_t guard = 0;
        for (; it != e.end() && guard < 100; ++it, ++guard)
            kept.push_back(*it);
        for (auto& p : kept)
            o.add(p.index(), val_of(p.value()), true);
        return fin(o, orig);
    }
    if (ad == "ep")
    {
        // hand-written loop advancing with post-increment
        auto e = nitro::lang::enumerate(c);
        std::size_t guard = 0;
        for (auto it = e.begin(); it != e.end() && guard < 100; it++, guard++)
        {
            auto p = *it;
            o.add(p.index(), val_of(p.value()), true);
        }
        return fin(o, orig);
    }
    if (ad == "e")
    {
        if (cat == "lv")
        {
            Alias al;
            for (auto p : nitro::lang::enumerate(c))
            {
                o.add(p.index(), val_of(p.value()), true);
                if constexpr (std::is_reference<decltype(p.value())>::value)
                    al.add(p.value());
                if constexpr (std::is_same<decltype(p.value()), int&>::value)
                {
                    if (write)
                        p.value() += 100;
                }
            }
            std::string av;
            if constexpr (std::is_reference<decltype((*nitro::lang::enumerate(c).begin()).value())>::value)
                av = al.verdict(c, false);
            if constexpr (std::is_same<typename C::value_type, int>::value)
                return fin(o, after(c)) + av;
            else
                return fin(o, orig) + av;
        }
        if (cat == "const")
        {
            const C& cc = c;
            Alias al;
            for (auto p : nitro::lang::enumerate(cc))
            {
                o.add(p.index(), val_of(p.value()), true);
                if constexpr (std::is_reference<decltype(p.value())>::value)
                    al.add(p.value());
            }
            std::string av;
            if constexpr (std::is_reference<decltype((*nitro::lang::enumerate(cc).begin()).value())>::value)
                av = al.verdict(cc, false);
            return fin(o, orig) + av;
        }
        if (cat == "prv")
        {
            // a genuine temporary (the result of a call): it has to stay alive for the whole loop
            for (auto p : nitro::lang::enumerate(made_from(c)))
                o.add(p.index(), val_of(p.value()), true);
            return fin(o, orig);
        }
        if (cat == "cprv")
        {
            // ... also when the function returns a const object
            for (auto p : nitro::lang::enumerate(made_const_from(c)))
                o.add(p.index(), val_of(p.value()), true);
            return fin(o, orig);
        }
        C tmp = c;
        for (auto p : nitro::lang::enumerate(std::move(tmp)))
            o.add(p.index(), val_of(p.value()), true);
        return fin(o, orig);
    }
    else
    {
        if (cat == "lv")
        {
            Alias al;
            for (auto& x : nitro::lang::reverse(c))
            {
                o.add(0, val_of(x), false);
                al.add(x);
                if constexpr (std::is_same<decltype(x), int&>::value)
                {
                    if (write)
                        x += 100;
                }
            }
            std::string av = al.verdict(c, true);
            if constexpr (std::is_same<typename C::value_type, int>::value)
                return fin(o, after(c)) + av;
            else
                return fin(o, orig) + av;
        }
        if (cat == "const")
        {
            const C& cc = c;
            Alias al;
            for (auto& x : nitro::lang::reverse(cc))
            {
                o.add(0, val_of(x), false);
                al.add(x);
            }
            return fin(o, orig) + al.verdict(cc, true);
        }
        if (cat == "prv")
        {
            for (auto& x : nitro::lang::reverse(made_from(c)))
                o.add(0, val_of(x), false);
            return fin(o, orig);
        }
        C tmp = c;
        for (auto& x : nitro::lang::reverse(std::move(tmp)))
            o.add(0, val_of(x), false);
        return fin(o, orig);
    }
}

template <std::size_t N>
static std::string run_std_array(const std::string& ad, const std::string& cat, bool write,
                                 const std::vector<int>& v, const std::string& orig)
{
    std::array<int, N> a{};
    for (std::size_t i = 0; i < N; i++)
        a[i] = v[i];
    return run_generic(ad, cat, write, a, orig);
}

template <std::size_t N>
static std::string run_c_array(const std::string& ad, const std::string& cat, bool write,
                               const std::vector<int>& v, const std::string& orig)
{
    int a[N];
    for (std::size_t i = 0; i < N; i++)
        a[i] = v[i];
    Out o;
    // the visited values are the array's own elements (whether they are handed out directly or wrapped)
    std::vector<const void*> seen, own;
    if (ad == "e")
    {
        if (cat == "lv")
        {
            for (auto p : nitro::lang::enumerate(a))
            {
                o.add(p.index(), p.value(), true);
                seen.push_back(&unwrapped(p.value()));
                if (write)
                    p.value() += 100;
            }
        }
        else
        {
            const int(&ca)[N] = a;
            for (auto p : nitro::lang::enumerate(ca))
            {
                o.add(p.index(), p.value(), true);
                seen.push_back(&unwrapped(p.value()));
            }
        }
        for (std::size_t i = 0; i < N; i++)
            own.push_back(&a[i]);
    }
    else
    {
        if (cat == "lv")
        {
            for (auto& x : nitro::lang::reverse(a))
            {
                o.add(0, val_of(x), false);
                seen.push_back(&unwrapped(x));
                if (write)
                    unwrapped(x) += 100;
            }
        }
        else
        {
            const int(&ca)[N] = a;
            for (auto& x : nitro::lang::reverse(ca))
            {
                o.add(0, val_of(x), false);
                seen.push_back(&unwrapped(x));
            }
        }
        for (std::size_t i = N; i > 0; i--)
            own.push_back(&a[i - 1]);
    }
    std::string aft;
    for (std::size_t i = 0; i < N; i++)
        aft += (i ? "," : "") + std::to_string(a[i]);
    return fin(o, aft) + (seen == own ? "" : " NOALIAS(the loop did not visit the array's own elements)");
}

static std::string run_il(const std::string& ad, const std::vector<int>& v, const std::string& orig)
{
    Out o;
#define LOOP(...)                                                                                  \
    if (ad == "e")                                                                                 \
    {                                                                                              \
        for (auto p : nitro::lang::enumerate({ __VA_ARGS__ }))                                     \
            o.add(p.index(), p.value(), true);                                                     \
    }                                                                                              \
    else                                                                                           \
    {                                                                                              \
        for (auto& x : nitro::lang::reverse({ __VA_ARGS__ }))                                      \
            o.add(0, x, false);                                                                    \
    }
    switch (v.size())
    {
    case 1:
        LOOP(v[0]);
        break;
    case 2:
        LOOP(v[0], v[1]);
        break;
    case 3:
        LOOP(v[0], v[1], v[2]);
        break;
    case 4:
        LOOP(v[0], v[1], v[2], v[3]);
        break;
    default:
        return "bad-op";
    }
#undef LOOP
    return fin(o, orig);
}

// Ranges whose element type can be constructed from the range itself (std::any): a temporary of such a type has to be
// kept as the range it is, not wrapped into a one-element range of its element type.
template <typename C>
static std::string run_any(const std::string& ad, const std::string& cat, const std::vector<int>& v, const std::string& orig)
{
    auto make = [&]() {
        C c;
        for (int x : v)
            c.push_back(std::any(x));
        return c;
    };
    auto make_const = [&]() -> const C { return make(); };
    auto num = [](const std::any& a) { return a.type() == typeid(int) ? std::any_cast<int>(a) : -777; };
    Out o;
    if (ad == "e")
    {
        if (cat == "prv")
            for (auto p : nitro::lang::enumerate(make()))
                o.add(p.index(), num(p.value()), true);
        else if (cat == "cprv")
            for (auto p : nitro::lang::enumerate(make_const()))
                o.add(p.index(), num(p.value()), true);
        else
        {
            C tmp = make();
            for (auto p : nitro::lang::enumerate(std::move(tmp)))
                o.add(p.index(), num(p.value()), true);
        }
    }
    else
    {
        if (cat == "prv")
            for (auto& x : nitro::lang::reverse(make()))
                o.add(0, num(x), false);
        else if (cat == "cprv")
            for (auto& x : nitro::lang::reverse(make_const()))
                o.add(0, num(x), false);
        else
        {
            C tmp = make();
            for (auto& x : nitro::lang::reverse(std::move(tmp)))
                o.add(0, num(x), false);
        }
    }
    return fin(o, orig);
}

static std::string handle(const std::vector<std::string>& f)
{
    const std::string &ad = f.at(0), &kind = f.at(1), &cat = f.at(2);
    bool write = f.at(3) == "1";
    if (ad == "ebig")
        return run_big(std::stoull(f.at(4)), cat == "rv");
    auto v = vals(f.at(4));
    if (kind == "thr")
        return run_hiccup(v, f.at(4));
    std::string orig = f.at(4);
    if (kind == "anyv")
        return run_any<std::vector<std::any>>(ad, cat, v, orig);
    if (kind == "anyl")
        return run_any<std::list<std::any>>(ad, cat, v, orig);
    if (kind == "vec")
    {
        std::vector<int> c(v);
        return run_generic(ad, cat, write, c, orig);
    }
    if (kind == "deq")
    {
        std::deque<int> c(v.begin(), v.end());
        return run_generic(ad, cat, write, c, orig);
    }
    if (kind == "list")
    {
        std::list<int> c(v.begin(), v.end());
        return run_generic(ad, cat, write, c, orig);
    }
    if (kind == "set")
    {
        std::set<int> c(v.begin(), v.end());
        return run_generic(ad, cat, false, c, orig);
    }
    if (kind == "map")
    {
        std::map<int, int> c;
        for (int x : v)
            c[x] = x * 10;
        return run_generic(ad, cat, false, c, orig);
    }
    if (kind == "fv")
    {
        nitro::lang::fixed_vector<int> c(v.size() + 1, v);
        return run_generic(ad, cat, write, c, orig);
    }
    if (kind == "fvp")
    {
        // a fixed_vector that was fuller before: two more elements pushed and popped again (stale slots behind the end)
        nitro::lang::fixed_vector<int> c(v.size() + 3, v);
        c.push_back(901);
        c.push_back(902);
        c.pop_back();
        c.pop_back();
        return run_generic(ad, cat, write, c, orig);
    }
    if (kind == "arr")
    {
        switch (v.size())
        {
        case 0:
            return run_std_array<0>(ad, cat, write, v, orig);
        case 1:
            return run_std_array<1>(ad, cat, write, v, orig);
        case 2:
            return run_std_array<2>(ad, cat, write, v, orig);
        case 3:
            return run_std_array<3>(ad, cat, write, v, orig);
        case 4:
            return run_std_array<4>(ad, cat, write, v, orig);
        case 5:
            return run_std_array<5>(ad, cat, write, v, orig);
        case 6:
            return run_std_array<6>(ad, cat, write, v, orig);
        }
        return "bad-op";
    }
    if (kind == "carr")
    {
        switch (v.size())
        {
        case 1:
            return run_c_array<1>(ad, cat, write, v, orig);
        case 2:
            return run_c_array<2>(ad, cat, write, v, orig);
        case 3:
            return run_c_array<3>(ad, cat, write, v, orig);
        case 4:
            return run_c_array<4>(ad, cat, write, v, orig);
        case 5:
            return run_c_array<5>(ad, cat, write, v, orig);
        case 6:
            return run_c_array<6>(ad, cat, write, v, orig);
        }
        return "bad-op";
    }
    if (kind == "il")
        return run_il(ad, v, orig);
    return "bad-op";
}

int main()
{
#ifdef NV_FAST
    return nv::main_loop(handle, 120);
#else
    return nv::main_loop(handle, 5);
#endif
}
