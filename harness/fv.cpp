// Correspondence harness for nitro::lang::fixed_vector (C06, C07).
// Case:  fv <sub> <kind c|m> <op;op;...>     op = name:args:fuel   (see Drv/FV.lean)
// Answer per op:  <result> <vec0> <vec1> <vec2>   with vec = size/cap:elems|reverse-elems  or ~
#include "common.hpp"

#include <iterator>
#include <memory>

#include <nitro/lang/fixed_vector.hpp>
#include <nitro/lang/reverse.hpp>

#include <initializer_list>

struct ElemThrow
{
};

static long g_live = 0;
static long g_countdown = -1; // -1: never throw
static bool g_double = false;

static inline void maybe_throw()
{
    if (g_countdown < 0)
        return;
    if (g_countdown == 0)
    {
        g_countdown = -1;
        throw ElemThrow();
    }
    --g_countdown;
}

// A single-pass input range over a vector (what an istream_iterator is): all copies of the iterator share one read
// position, so walking a copy to count the elements consumes them.
template <typename T>
struct SinglePass
{
    using iterator_category = std::input_iterator_tag;
    using value_type = T;
    using difference_type = std::ptrdiff_t;
    using pointer = const T*;
    using reference = const T&;
    const std::vector<T>* src = nullptr;
    std::shared_ptr<std::size_t> pos;
    bool at_end() const
    {
        return !src || *pos >= src->size();
    }
    reference operator*() const
    {
        return (*src)[*pos];
    }
    pointer operator->() const
    {
        return &(*src)[*pos];
    }
    SinglePass& operator++()
    {
        ++*pos;
        return *this;
    }
    SinglePass operator++(int)
    {
        SinglePass c = *this;
        ++*pos;
        return c;
    }
    friend bool operator==(const SinglePass& a, const SinglePass& b)
    {
        return a.at_end() == b.at_end() && (a.at_end() || *a.pos == *b.pos);
    }
    friend bool operator!=(const SinglePass& a, const SinglePass& b)
    {
        return !(a == b);
    }
    static SinglePass begin(const std::vector<T>& v)
    {
        SinglePass i;
        i.src = &v;
        i.pos = std::make_shared<std::size_t>(0);
        return i;
    }
    static SinglePass end()
    {
        return SinglePass{};
    }
};

template <bool Copyable>
struct ElemT
{
    int v;
    unsigned magic = 0xA11CEu;

    ElemT() : v(-2)
    {
        ++g_live;
    }
    explicit ElemT(int x) : v(x)
    {
        maybe_throw();
        ++g_live;
    }
    ElemT(const ElemT& o) : v(o.v)
    {
        static_assert(Copyable, "copy of a move-only element");
        maybe_throw();
        ++g_live;
    }
    ElemT(ElemT&& o) : v(o.v)
    {
        maybe_throw();
        o.v = -1;
        ++g_live;
    }
    ElemT& operator=(const ElemT& o)
    {
        static_assert(Copyable, "copy of a move-only element");
        maybe_throw();
        v = o.v;
        return *this;
    }
    ElemT& operator=(ElemT&& o)
    {
        maybe_throw();
        v = o.v;
        if (&o != this)
            o.v = -1;
        return *this;
    }
    ~ElemT()
    {
        if (magic != 0xA11CEu)
            g_double = true;
        magic = 0xDEADu;
        --g_live;
    }
};

using Elem = ElemT<true>;

struct MElem : ElemT<false>
{
    MElem() = default;
    explicit MElem(int x) : ElemT<false>(x)
    {
    }
    MElem(const MElem&) = delete;
    MElem& operator=(const MElem&) = delete;
    MElem(MElem&&) = default;
    MElem& operator=(MElem&&) = default;
};

template <typename E>
static std::string show(const E& e)
{
    return e.v >= 0 ? std::to_string(e.v) : std::string("S");
}

static std::vector<int> vals(const std::string& s)
{
    std::vector<int> r;
    if (s == "_")
        return r;
    for (auto& t : nv::splitc(s, '.'))
        r.push_back(std::stoi(t));
    return r;
}

template <typename E>
struct Pool
{
    using FV = nitro::lang::fixed_vector<E>;
    std::unique_ptr<FV> p[3];
    std::string problem;

    std::string state(int i)
    {
        if (!p[i])
            return "~";
        FV& v = *p[i];
        const FV& c = v;
        std::string e, r;
        std::size_t n = 0;
        for (auto& x : v)
        {
            if (n++)
                e += ".";
            e += show(x);
        }
        n = 0;
        for (auto& x : nitro::lang::reverse(v))
        {
            if (n++)
                r += ".";
            r += show(x);
        }
        // consistency of the other observers with what forward iteration shows
        std::vector<std::string> seen;
        for (auto& x : v)
            seen.push_back(show(x));
        if (seen.size() != v.size())
            problem = "iteration-length";
        if (c.empty() != (c.size() == 0))
            problem = "empty()";
        for (std::size_t k = 0; k < seen.size() && k < v.capacity(); k++)
        {
            if (show(v[k]) != seen[k] || show(c[k]) != seen[k])
                problem = "operator[]";
            if (show(c.at(k)) != seen[k])
                problem = "const-at";
            if (show(v.data()[k]) != seen[k] || show(c.data()[k]) != seen[k])
                problem = "data()";
        }
        {
            std::size_t k = 0;
            for (auto it = c.begin(); it != c.end(); ++it, ++k)
                if (k >= seen.size() || show(*it) != seen[k])
                    problem = "const-begin/end";
            k = 0;
            for (auto it = c.cbegin(); it != c.cend(); ++it, ++k)
                if (k >= seen.size() || show(*it) != seen[k])
                    problem = "cbegin/cend";
            k = seen.size();
            for (auto it = c.rbegin(); it != c.rend(); ++it)
            {
                if (k == 0 || show(*it) != seen[--k])
                {
                    problem = "const-rbegin/rend";
                    break;
                }
            }
            k = seen.size();
            for (auto it = c.crbegin(); it != c.crend(); ++it)
            {
                if (k == 0 || show(*it) != seen[--k])
                {
                    problem = "crbegin/crend";
                    break;
                }
            }
            k = seen.size();
            for (auto it = v.rbegin(); it != v.rend(); ++it)
            {
                if (k == 0 || show(*it) != seen[--k])
                {
                    problem = "rbegin/rend";
                    break;
                }
            }
        }
        if (!seen.empty())
        {
            if (show(v.front()) != seen.front() || show(c.front()) != seen.front())
                problem = "front()";
            if (show(v.back()) != seen.back() || show(c.back()) != seen.back())
                problem = "back()";
        }
        try
        {
            (void)c.at(c.size());
            problem = "const-at(size())-did-not-raise";
        }
        catch (nitro::except::exception&)
        {
        }
        return std::to_string(v.size()) + "/" + std::to_string(v.capacity()) + ":" + e + "|" + r;
    }

    long want_live()
    {
        long w = 0;
        for (auto& q : p)
            if (q)
                w += static_cast<long>(q->capacity());
        return w;
    }

    template <typename Fn>
    std::string guarded(long fuel, Fn fn)
    {
        std::string r;
        try
        {
            g_countdown = fuel;
            r = fn();
            g_countdown = -1;
        }
        catch (nitro::except::exception&)
        {
            g_countdown = -1;
            r = "raised";
        }
        catch (ElemThrow&)
        {
            g_countdown = -1;
            r = "threw";
        }
        return r;
    }

    std::string get_at(FV& v, std::size_t k)
    {
        switch (k)
        {
        case 0:
            return "e" + show(std::get<0>(v));
        case 1:
            return "e" + show(std::get<1>(v));
        case 2:
            return "e" + show(std::get<2>(v));
        case 3:
            return "e" + show(std::get<3>(v));
        case 4:
            return "e" + show(std::get<4>(v));
        default:
            return "e" + show(v.at(k));
        }
    }

    // operations available for every element type
    bool common_op(const std::vector<std::string>& t, long fuel, std::string& res)
    {
        const std::string& name = t[0];
        int i = std::stoi(t[1]);
        if (name == "new")
        {
            std::size_t cap = std::stoul(t[2]);
            res = guarded(fuel, [&] {
                auto q = std::make_unique<FV>(cap);
                p[i] = std::move(q);
                return std::string("ok");
            });
            return true;
        }
        if (name == "move" || name == "masg")
        {
            int j = std::stoi(t[2]);
            if (!p[j] || (name == "masg" && !p[i]))
            {
                res = "raised";
                return true;
            }
            res = guarded(fuel, [&] {
                if (name == "move")
                {
                    auto q = std::make_unique<FV>(std::move(*p[j]));
                    p[i] = std::move(q);
                }
                else
                {
                    *p[i] = std::move(*p[j]);
                }
                return std::string("ok");
            });
            return true;
        }
        static const char* single[] = { "eb", "im", "emp", "era", "pop", "at", "get", "idx" };
        (void)single;
        bool known = false;
        for (auto n : single)
            known = known || name == n;
        if (!known)
            return false;
        if (!p[i])
        {
            res = "raised";
            return true;
        }
        FV& v = *p[i];
        if (name == "eb")
        {
            int x = std::stoi(t[2]);
            res = guarded(fuel, [&] {
                auto idx = v.emplace_back(x);
                if (idx + 1 != v.size())
                    problem = "emplace_back-return";
                return std::string("ok");
            });
            return true;
        }
        if (name == "im")
        {
            E e(std::stoi(t[2]));
            res = guarded(fuel, [&] {
                auto idx = v.insert(std::move(e));
                if (idx + 1 != v.size())
                    problem = "insert-return";
                return std::string("ok");
            });
            return true;
        }
        if (name == "emp")
        {
            std::size_t pos = std::stoul(t[2]);
            int x = std::stoi(t[3]);
            if (pos > v.capacity())
            {
                // a pointer beyond one-past-the-allocation cannot even be formed; the model raises too
                res = "raised";
                return true;
            }
            res = guarded(fuel, [&] {
                v.emplace(v.begin() + pos, x);
                return std::string("ok");
            });
            return true;
        }
        if (name == "era")
        {
            std::size_t pos = std::stoul(t[2]);
            if (pos == static_cast<std::size_t>(-1) && v.capacity() > 0)
            {
                // the position just before the first slot: as an index it is not below size either
                res = guarded(fuel, [&] {
                    v.erase(v.begin() - 1);
                    return std::string("ok");
                });
                return true;
            }
            if (pos > v.capacity())
            {
                res = "raised";
                return true;
            }
            res = guarded(fuel, [&] {
                v.erase(v.begin() + pos);
                return std::string("ok");
            });
            return true;
        }
        if (name == "pop")
        {
            res = guarded(fuel, [&] {
                v.pop_back();
                return std::string("ok");
            });
            return true;
        }
        if (name == "at")
        {
            std::size_t k = std::stoul(t[2]);
            res = guarded(fuel, [&] { return "e" + show(v.at(k)); });
            return true;
        }
        if (name == "get")
        {
            std::size_t k = std::stoul(t[2]);
            res = guarded(fuel, [&] { return get_at(v, k); });
            return true;
        }
        if (name == "idx")
        {
            std::size_t k = std::stoul(t[2]);
            if (k >= v.size())
                res = "raised"; // precondition of operator[]: not called
            else
                res = "e" + show(v[k]);
            return true;
        }
        return false;
    }
};

template <typename E>
struct Runner;

template <>
struct Runner<MElem> : Pool<MElem>
{
    std::string op(const std::vector<std::string>& t, long fuel)
    {
        std::string res;
        if (common_op(t, fuel, res))
            return res;
        return "bad-op";
    }
};

template <>
struct Runner<Elem> : Pool<Elem>
{
    std::string op(const std::vector<std::string>& t, long fuel)
    {
        std::string res;
        if (common_op(t, fuel, res))
            return res;
        const std::string& name = t[0];
        int i = std::stoi(t[1]);
        auto mk = [](const std::vector<int>& xs) {
            std::vector<Elem> r;
            r.reserve(xs.size());
            for (int x : xs)
                r.emplace_back(x);
            return r;
        };
        if (name == "newiter")
        {
            std::size_t cap = std::stoul(t[2]);
            auto src = mk(vals(t[3]));
            return guarded(fuel, [&] {
                auto q = std::make_unique<FV>(cap, src);
                p[i] = std::move(q);
                return std::string("ok");
            });
        }
        if (name == "newlist" || name == "lasg")
        {
            if (name == "lasg" && !p[i])
                return "raised";
            auto xs = vals(t[2]);
            auto run = [&](std::initializer_list<Elem> il) {
                return guarded(fuel, [&] {
                    if (name == "newlist")
                    {
                        auto q = std::make_unique<FV>(il);
                        p[i] = std::move(q);
                    }
                    else
                    {
                        *p[i] = il;
                    }
                    return std::string("ok");
                });
            };
            switch (xs.size())
            {
            case 0:
                return run({});
            case 1:
                return run({ Elem(xs[0]) });
            case 2:
                return run({ Elem(xs[0]), Elem(xs[1]) });
            case 3:
                return run({ Elem(xs[0]), Elem(xs[1]), Elem(xs[2]) });
            case 4:
                return run({ Elem(xs[0]), Elem(xs[1]), Elem(xs[2]), Elem(xs[3]) });
            default:
                return "bad-op";
            }
        }
        if (name == "copy" || name == "asg")
        {
            int j = std::stoi(t[2]);
            if (!p[j] || (name == "asg" && !p[i]))
                return "raised";
            return guarded(fuel, [&] {
                if (name == "copy")
                {
                    auto q = std::make_unique<FV>(static_cast<const FV&>(*p[j]));
                    p[i] = std::move(q);
                }
                else
                {
                    *p[i] = static_cast<const FV&>(*p[j]);
                }
                return std::string("ok");
            });
        }
        if (!p[i])
            return "raised";
        FV& v = *p[i];
        if (name == "empa" || name == "pba" || name == "eba" || name == "ica")
        {
            // the argument is a reference to an element of the vector itself
            std::size_t k = std::stoul(t[name == "empa" ? 3 : 2]);
            if (k >= v.size() || v[k].v < 0)
                return "raised"; // no such element: not called (the model does the same)
            if (name == "empa")
            {
                std::size_t pos = std::stoul(t[2]);
                if (pos > v.capacity())
                    return "raised";
                return guarded(fuel, [&] {
                    v.emplace(v.begin() + pos, v[k]);
                    return std::string("ok");
                });
            }
            return guarded(fuel, [&] {
                if (name == "pba")
                    v.push_back(v[k]);
                else if (name == "eba")
                    v.emplace_back(v[k]);
                else
                    v.insert(static_cast<const Elem&>(v[k]));
                return std::string("ok");
            });
        }
        if (name == "ic" || name == "pb")
        {
            Elem e(std::stoi(t[2]));
            const Elem& ce = e;
            return guarded(fuel, [&] {
                auto idx = name == "ic" ? v.insert(ce) : v.push_back(ce);
                if (idx + 1 != v.size())
                    problem = "append-return";
                return std::string("ok");
            });
        }
        if (name == "rng")
        {
            std::size_t pos = std::stoul(t[2]);
            auto src = mk(vals(t[3]));
            if (pos > v.capacity())
                return "raised";
            return guarded(fuel, [&] {
                if ((src.size() + pos) % 2 == 1)
                    v.insert(v.begin() + pos, SinglePass<Elem>::begin(src), SinglePass<Elem>::end());
                else
                    v.insert(v.begin() + pos, src.begin(), src.end());
                return std::string("ok");
            });
        }
        if (name == "prng")
        {
            auto src = mk(vals(t[2]));
            return guarded(fuel, [&] {
                // the range is delimited by random-access iterators, or by single-pass input iterators
                if ((src.size() + v.size()) % 2 == 1)
                    v.push_back(SinglePass<Elem>::begin(src), SinglePass<Elem>::end());
                else
                    v.push_back(src.begin(), src.end());
                return std::string("ok");
            });
        }
        return "bad-op";
    }
};

template <typename E>
static std::string run_case(const std::string& ops)
{
    std::string out;
    {
        Runner<E> r;
        if (!ops.empty())
        {
            bool first = true;
            for (auto& tok : nv::splitc(ops, ';'))
            {
                auto t = nv::splitc(tok, ':');
                long fuel = t.back() == "-" ? -1 : std::stol(t.back());
                t.pop_back();
                std::string res = r.op(t, fuel);
                if (!first)
                    out += ";";
                first = false;
                out += res;
                for (int i = 0; i < 3; i++)
                    out += " " + r.state(i);
                if (g_live != r.want_live())
                    out += " LEAK(live=" + std::to_string(g_live) + ",want=" +
                           std::to_string(r.want_live()) + ")";
                if (g_double)
                    out += " INCONSISTENT:double-destruction";
                if (!r.problem.empty())
                    out += " INCONSISTENT:" + r.problem;
            }
        }
    }
    if (g_live != 0)
        out += " LEAK(at-end=" + std::to_string(g_live) + ")";
    g_live = 0;
    g_double = false;
    return out;
}

// Elements built from constructor arguments, for element types that also have an initializer-list constructor:
// emplace_back(n, v) / emplace(pos, n, v) build T(n, v) - n copies of v - like every standard container does.
//   <n>:<v>:<b|p>:<s|v>
static std::string run_il(const std::string& spec)
{
    auto t = nv::splitc(spec, ':');
    std::size_t n = std::stoul(t.at(0));
    int v = std::stoi(t.at(1));
    bool back = t.at(2) == "b";
    std::string r;
    auto show = [&](auto& elem) {
        std::string e;
        for (auto x : elem)
            e += (e.empty() ? "" : ".") + std::to_string(static_cast<int>(x));
        return e;
    };
    if (t.at(3) == "s")
    {
        nitro::lang::fixed_vector<std::string> fv(3);
        fv.emplace_back("first");
        if (back)
            fv.emplace_back(n, static_cast<char>(v));
        else
            fv.emplace(fv.begin(), n, static_cast<char>(v));
        if (fv.size() != 2)
            return "size " + std::to_string(fv.size());
        r = show(back ? fv[1] : fv[0]);
        if ((back ? fv[0] : fv[1]) != "first")
            return "other-element-changed";
    }
    else
    {
        nitro::lang::fixed_vector<std::vector<int>> fv(3);
        fv.emplace_back(1, 5);
        if (back)
            fv.emplace_back(n, v);
        else
            fv.emplace(fv.begin(), n, v);
        if (fv.size() != 2)
            return "size " + std::to_string(fv.size());
        r = show(back ? fv[1] : fv[0]);
        if ((back ? fv[0] : fv[1]) != std::vector<int>{ 5 })
            return "other-element-changed";
    }
    return "ok " + r;
}

static std::string handle(const std::vector<std::string>& f)
{
    if (f.at(1) == "il")
        return run_il(f.at(2));
    if (f.at(1) == "m")
        return run_case<MElem>(f.at(2));
    return run_case<Elem>(f.at(2));
}

int main()
{
    return nv::main_loop(handle, 5);
}
