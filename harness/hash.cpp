// Correspondence harness for nitro::lang::hash / tuple_operators / unordered (C16).
#include "common.hpp"

#include <nitro/lang/hash.hpp>
#include <nitro/lang/tuple_operators.hpp>
#include <nitro/lang/unordered.hpp>

#include <cstdint>
#include <iomanip>
#include <variant>

using nitro::lang::hash;

struct A : nitro::lang::tuple_operators<A>
{
    std::int8_t a;
    auto as_tuple() { return std::tie(a); }
};
struct B : nitro::lang::tuple_operators<B>
{
    std::int32_t a;
    std::string b;
    auto as_tuple() { return std::tie(a, b); }
};
struct C : nitro::lang::tuple_operators<C>
{
    std::int64_t a;
    std::uint64_t b;
    double c;
    auto as_tuple() { return std::tie(a, b, c); }
};
struct D : nitro::lang::tuple_operators<D>
{
    int a;
    std::string b;
    int c;
    int d;
    auto as_tuple() { return std::tie(a, b, c, d); }
};
struct E : nitro::lang::tuple_operators<E>
{
    B b;
    int c;
    auto as_tuple() { return std::tie(b, c); }
};

// a mix-in type with a smart-pointer member: its operators are those of the member tuple (which compares the pointers),
// its hash is that of the member tuple (which hashes the pointee)
struct MP : nitro::lang::tuple_operators<MP>
{
    int a;
    std::shared_ptr<std::string> p;
    auto as_tuple() { return std::tie(a, p); }
};

static std::string hx(std::size_t h)
{
    std::ostringstream o;
    o << std::hex << h;
    return o.str();
}

struct Leafs
{
    std::vector<std::string> h;
    template <typename T>
    void add(const T& t)
    {
        h.push_back(hx(hash(t)));
    }
    std::string str() const
    {
        if (h.empty())
            return "_";
        std::string r;
        for (std::size_t i = 0; i < h.size(); i++)
            r += (i ? "," : "") + h[i];
        return r;
    }
};

static std::vector<std::string> toks(const std::string& s)
{
    if (s == "_")
        return {};
    return nv::splitc(s, ',');
}

template <typename T>
struct Mk;

template <>
struct Mk<A>
{
    static A make(const std::vector<std::string>& t, Leafs& l)
    {
        A x;
        x.a = static_cast<std::int8_t>(std::stoi(t.at(0)));
        l.add(x.a);
        return x;
    }
};
template <>
struct Mk<B>
{
    static B make(const std::vector<std::string>& t, Leafs& l)
    {
        B x;
        x.a = std::stoi(t.at(0));
        x.b = nv::unhex(t.at(1));
        l.add(x.a);
        l.add(x.b);
        return x;
    }
};
template <>
struct Mk<C>
{
    static C make(const std::vector<std::string>& t, Leafs& l)
    {
        C x;
        x.a = std::stoll(t.at(0));
        x.b = std::stoull(t.at(1));
        x.c = std::stod(t.at(2));
        l.add(x.a);
        l.add(x.b);
        l.add(x.c);
        return x;
    }
};
template <>
struct Mk<D>
{
    static D make(const std::vector<std::string>& t, Leafs& l)
    {
        D x;
        x.a = std::stoi(t.at(0));
        x.b = nv::unhex(t.at(1));
        x.c = std::stoi(t.at(2));
        x.d = std::stoi(t.at(3));
        l.add(x.a);
        l.add(x.b);
        l.add(x.c);
        l.add(x.d);
        return x;
    }
};
template <>
struct Mk<E>
{
    static E make(const std::vector<std::string>& t, Leafs& l)
    {
        E x;
        x.b.a = std::stoi(t.at(0));
        x.b.b = nv::unhex(t.at(1));
        x.c = std::stoi(t.at(2));
        l.add(x.b.a);
        l.add(x.b.b);
        l.add(x.c);
        return x;
    }
};

template <typename T>
static std::string cmp_obj(const std::string& vx, const std::string& vy)
{
    Leafs lx, ly;
    T x = Mk<T>::make(toks(vx), lx);
    T y = Mk<T>::make(toks(vy), ly);
    std::string ops;
    ops += (x != y) ? "1" : "0";
    ops += (x == y) ? "1" : "0";
    ops += (x < y) ? "1" : "0";
    ops += (x > y) ? "1" : "0";
    ops += (x <= y) ? "1" : "0";
    ops += (x >= y) ? "1" : "0";
    // hash(x), x.hash() and the functor must be the same function
    std::size_t h1 = hash(x), h2 = x.hash(), h3 = nitro::lang::hash_wrapper<T>()(x);
    if (h1 != h2 || h1 != h3)
        return "hash-entry-points-differ";
    // the same object on both sides (x op x) must behave like two equal values
    std::string self;
    self += (x != x) ? "1" : "0";
    self += (x == x) ? "1" : "0";
    self += (x < x) ? "1" : "0";
    self += (x > x) ? "1" : "0";
    self += (x <= x) ? "1" : "0";
    self += (x >= x) ? "1" : "0";
    // the same object after its members were changed in place through the references as_tuple() hands out
    // (a reused scratch key, a record read into an existing object): it is then a value equal to y
    T z = x;
    (void)hash(z);
    (void)z.hash();
    z.as_tuple() = y.as_tuple();
    bool mut_ok = hash(z) == hash(y) && z.hash() == y.hash() && (z == y) && !(z != y) && !(z < y) && !(y < z);
    return "lh=" + lx.str() + "/" + ly.str() + " hx=" + hx(h1) + " hy=" + hx(hash(y)) + " ops=" + ops +
           " self=" + self + " mut=" + (mut_ok ? "1" : "0");
}

template <typename X>
static std::string only_hash(const X& x, const X& y, Leafs& lx, Leafs& ly)
{
    return "lh=" + lx.str() + "/" + ly.str() + " hx=" + hx(hash(x)) + " hy=" + hx(hash(y)) + " ops=------ self=------ mut=-";
}

// std::tuple / std::pair: their own operators (not nitro code) are reported as well
template <typename X>
static std::string std_cmp(const X& x, const X& y, Leafs& lx, Leafs& ly)
{
    std::string ops;
    ops += (x != y) ? "1" : "0";
    ops += (x == y) ? "1" : "0";
    ops += (x < y) ? "1" : "0";
    ops += (x > y) ? "1" : "0";
    ops += (x <= y) ? "1" : "0";
    ops += (x >= y) ? "1" : "0";
    return "lh=" + lx.str() + "/" + ly.str() + " hx=" + hx(hash(x)) + " hy=" + hx(hash(y)) + " ops=" + ops +
           " self=" + std::string((x != x) ? "1" : "0") + ((x == x) ? "1" : "0") + ((x < x) ? "1" : "0") +
           ((x > x) ? "1" : "0") + ((x <= x) ? "1" : "0") + ((x >= x) ? "1" : "0") + " mut=-";
}

template <typename T>
static std::string do_set(const std::string& members, const std::string& probes)
{
    nitro::lang::unordered_set<T> s;
    nitro::lang::unordered_map<T, int> m;
    std::vector<T> ms, ps;
    Leafs dummy;
    if (!members.empty())
        for (auto& v : nv::splitc(members, ';'))
            ms.push_back(Mk<T>::make(toks(v), dummy));
    if (!probes.empty())
        for (auto& v : nv::splitc(probes, ';'))
            ps.push_back(Mk<T>::make(toks(v), dummy));
    int k = 0;
    for (auto& x : ms)
    {
        s.insert(x);
        m[x] = k++;
    }
    if (s.size() != m.size())
        return "set-and-map-disagree";
    // a second set filled through ONE scratch key that is overwritten member by member before each insert
    nitro::lang::unordered_set<T> s2;
    if (!ms.empty())
    {
        T scratch = ms[0];
        for (auto& x : ms)
        {
            scratch.as_tuple() = x.as_tuple();
            s2.insert(scratch);
        }
    }
    if (s2.size() != s.size())
        return "set-filled-through-a-reused-key-differs";
    std::string found, pr;
    for (auto& x : ms)
        found += (s.count(x) == 1 && m.count(x) == 1 && s2.count(x) == 1) ? "1" : "0";
    for (auto& x : ps)
        pr += (s.count(x) == 1 && m.count(x) == 1) ? "1" : (s.count(x) == 0 && m.count(x) == 0 ? "0" : "?");
    return "size=" + std::to_string(s.size()) + " found=" + found + " probes=" + pr;
}

static std::string handle(const std::vector<std::string>& f)
{
    const std::string& op = f.at(0);
    if (op == "cmp")
    {
        const std::string& name = f.at(4);
        const std::string &vx = f.at(5), &vy = f.at(6);
        if (name == "A")
            return cmp_obj<A>(vx, vy);
        if (name == "B")
            return cmp_obj<B>(vx, vy);
        if (name == "C")
            return cmp_obj<C>(vx, vy);
        if (name == "D")
            return cmp_obj<D>(vx, vy);
        if (name == "E")
            return cmp_obj<E>(vx, vy);
        Leafs lx, ly;
        auto tx = toks(vx), ty = toks(vy);
        if (name == "T") // tuple<int, pair<int, string>>
        {
            auto mk = [](const std::vector<std::string>& t, Leafs& l) {
                auto v = std::make_tuple(std::stoi(t.at(0)), std::make_pair(std::stoi(t.at(1)), nv::unhex(t.at(2))));
                l.add(std::get<0>(v));
                l.add(std::get<1>(v).first);
                l.add(std::get<1>(v).second);
                return v;
            };
            auto x = mk(tx, lx);
            auto y = mk(ty, ly);
            return std_cmp(x, y, lx, ly);
        }
        if (name == "P") // pair<tuple<int,int>, int>
        {
            auto mk = [](const std::vector<std::string>& t, Leafs& l) {
                auto v = std::make_pair(std::make_tuple(std::stoi(t.at(0)), std::stoi(t.at(1))), std::stoi(t.at(2)));
                l.add(std::get<0>(v.first));
                l.add(std::get<1>(v.first));
                l.add(v.second);
                return v;
            };
            auto x = mk(tx, lx);
            auto y = mk(ty, ly);
            return std_cmp(x, y, lx, ly);
        }
        if (name == "VI" || name == "VS") // variant<int, string> holding an int / a string
        {
            using V = std::variant<int, std::string>;
            auto mk = [&](const std::vector<std::string>& t, Leafs& l) {
                V v;
                if (name == "VI")
                {
                    v = std::stoi(t.at(0));
                    l.add(std::get<int>(v));
                }
                else
                {
                    v = nv::unhex(t.at(0));
                    l.add(std::get<std::string>(v));
                }
                return v;
            };
            auto x = mk(tx, lx);
            auto y = mk(ty, ly);
            return only_hash(x, y, lx, ly);
        }
        if (name == "U") // unique_ptr<B>
        {
            auto x = std::make_unique<B>(Mk<B>::make(tx, lx));
            auto y = std::make_unique<B>(Mk<B>::make(ty, ly));
            return only_hash(x, y, lx, ly);
        }
        if (name == "S") // shared_ptr<string>, and a tuple holding one
        {
            auto x = std::make_shared<std::string>(nv::unhex(tx.at(0)));
            auto y = std::make_shared<std::string>(nv::unhex(ty.at(0)));
            lx.add(*x);
            ly.add(*y);
            return only_hash(x, y, lx, ly);
        }
        if (name == "TS") // tuple<int, shared_ptr<string>>: a smart pointer inside a tuple still hashes its pointee
        {
            auto mk = [](const std::vector<std::string>& t, Leafs& l) {
                auto v = std::make_tuple(std::stoi(t.at(0)), std::make_shared<std::string>(nv::unhex(t.at(1))));
                l.add(std::get<0>(v));
                l.add(*std::get<1>(v));
                return v;
            };
            auto x = mk(tx, lx);
            auto y = mk(ty, ly);
            // the same two values as members of a mix-in type, in separate allocations and sharing one: the six
            // operators are those of the member tuple, exactly one of <, ==, > holds, equal values hash equal
            for (int shared = 0; shared < 2; shared++)
            {
                MP mx, my;
                mx.a = std::get<0>(x);
                my.a = std::get<0>(y);
                mx.p = std::get<1>(x);
                my.p = (shared && *std::get<1>(x) == *std::get<1>(y)) ? mx.p : std::get<1>(y);
                auto tx2 = std::tie(mx.a, mx.p), ty2 = std::tie(my.a, my.p);
                bool agree = (mx == my) == (tx2 == ty2) && (mx != my) == (tx2 != ty2) && (mx < my) == (tx2 < ty2) &&
                             (mx > my) == (tx2 > ty2) && (mx <= my) == (tx2 <= ty2) && (mx >= my) == (tx2 >= ty2);
                int holds = (mx < my ? 1 : 0) + (mx == my ? 1 : 0) + (mx > my ? 1 : 0);
                if (!agree || holds != 1)
                    return "lh=" + lx.str() + "/" + ly.str() + " MIXIN-WITH-POINTER-MEMBER:operators-disagree-with-the-member-tuple";
                if (mx == my && hash(mx) != hash(my))
                    return "lh=" + lx.str() + "/" + ly.str() + " MIXIN-WITH-POINTER-MEMBER:equal-values-hash-differently";
            }
            return only_hash(x, y, lx, ly);
        }
        if (name == "PU") // pair<unique_ptr<int>, int>
        {
            auto mk = [](const std::vector<std::string>& t, Leafs& l) {
                auto v = std::make_pair(std::make_unique<int>(std::stoi(t.at(0))), std::stoi(t.at(1)));
                l.add(*v.first);
                l.add(v.second);
                return v;
            };
            auto x = mk(tx, lx);
            auto y = mk(ty, ly);
            return only_hash(x, y, lx, ly);
        }
        if (name == "W") // tuple<int, u32string>: a wide string member (token: its code point, "e" = empty)
        {
            auto mk = [](const std::vector<std::string>& t, Leafs& l) {
                std::u32string w;
                if (t.at(1) != "e")
                    w.push_back(static_cast<char32_t>(std::stoul(t.at(1))));
                auto v = std::make_tuple(std::stoi(t.at(0)), w);
                l.add(std::get<0>(v));
                l.add(std::get<1>(v));
                return v;
            };
            auto x = mk(tx, lx);
            auto y = mk(ty, ly);
            return std_cmp(x, y, lx, ly);
        }
        if (name == "G") // empty tuple
        {
            std::tuple<> x, y;
            return std_cmp(x, y, lx, ly);
        }
        return "bad-shape";
    }
    if (op == "set")
    {
        const std::string& name = f.at(1);
        const std::string &ms = f.at(4), &ps = f.at(5);
        if (name == "A")
            return do_set<A>(ms, ps);
        if (name == "B")
            return do_set<B>(ms, ps);
        if (name == "C")
            return do_set<C>(ms, ps);
        if (name == "D")
            return do_set<D>(ms, ps);
        if (name == "E")
            return do_set<E>(ms, ps);
        return "bad-shape";
    }
    return "bad-op";
}

int main()
{
    return nv::main_loop(handle, 5);
}
