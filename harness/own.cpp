// Correspondence harness for quaint_ptr / optional (C18) and env::get / dl (C19).
#include "common.hpp"

#include <functional>

#include <new>

#include <nitro/dl/dl.hpp>
#include <nitro/env/get.hpp>
#include <nitro/lang/optional.hpp>
#include <nitro/lang/quaint_ptr.hpp>

#include <dlfcn.h>
#include <libgen.h>
#include <map>
#include <variant>

// ---------------------------------------------------------------- quaint_ptr
static int g_next_id = 0;
static long g_live = 0;
static std::vector<std::pair<int, int>> g_dead; // (object id, static type of the destructor that ran)
static bool g_wrong = false;

static std::function<void(int)> g_on_destroy;

template <int Tag>
struct Payload
{
    int id;
    unsigned magic;
    int tag;
    Payload() : id(g_next_id++), magic(0xC0FFEEu), tag(Tag)
    {
        ++g_live;
    }
    ~Payload()
    {
        // an object that tells its owner to let go of it while it is being destroyed (unregistering itself):
        // by then no owner holds it any more, so this finds nothing to do
        if (g_on_destroy && magic == 0xC0FFEEu)
            g_on_destroy(id);
        if (magic != 0xC0FFEEu)
            g_wrong = true; // destroyed twice (or garbage)
        magic = 0;
        g_dead.emplace_back(id, Tag);
        --g_live;
    }
};

// A payload whose constructor throws after one of its members has been built: no object of this type ever comes
// into being, so its destructor must never run, and the member is destroyed exactly once (by the unwinding).
static long g_part_built = 0, g_part_destroyed = 0, g_throwing_dtor_runs = 0;
struct Part
{
    unsigned magic = 0xFACADEu;
    Part()
    {
        ++g_part_built;
    }
    ~Part()
    {
        if (magic != 0xFACADEu)
            g_wrong = true;
        magic = 0;
        ++g_part_destroyed;
    }
};
template <int Tag>
struct ThrowingPayload
{
    Part part;
    int tag = Tag;
    ThrowingPayload()
    {
        throw std::runtime_error("constructor failed");
    }
    explicit ThrowingPayload(int)
    {
        throw std::runtime_error("constructor failed");
    }
    ~ThrowingPayload()
    {
        ++g_throwing_dtor_runs;
    }
};

static std::string dead_str()
{
    if (g_dead.empty())
        return "_";
    std::string r;
    for (std::size_t i = 0; i < g_dead.size(); i++)
        r += (i ? "," : "") + std::to_string(g_dead[i].first) + ":" + std::to_string(g_dead[i].second);
    return r;
}

static std::string cell_str(const nitro::lang::quaint_ptr& p)
{
    if (!p)
    {
        if (p.get() != nullptr)
            g_wrong = true;
        return "-";
    }
    return std::to_string(*static_cast<int*>(p.get()));
}

static std::string run_quaint(const std::string& ops)
{
    g_next_id = 0;
    g_dead.clear();
    g_wrong = false;
    std::string out;
    {
        nitro::lang::quaint_ptr p[4];
        std::vector<nitro::lang::quaint_ptr> vec;
        auto cell = [&](std::size_t i) -> nitro::lang::quaint_ptr* {
            if (i < 4)
                return &p[i];
            if (i - 4 < vec.size())
                return &vec[i - 4];
            return nullptr;
        };
        int nesting = 0;
        g_on_destroy = [&](int id) {
            if (nesting > 0)
                return;
            ++nesting;
            for (std::size_t i = 0; i < 4 + vec.size(); i++)
            {
                auto c = cell(i);
                if (c && c->get() != nullptr && *static_cast<int*>(c->get()) == id)
                    c->reset();
            }
            --nesting;
        };
        struct HookOff
        {
            ~HookOff()
            {
                g_on_destroy = nullptr;
            }
        } hook_off; // declared after the owners: switched off before they go out of scope
        if (!ops.empty())
            for (auto& tok : nv::splitc(ops, ';'))
            {
                auto t = nv::splitc(tok, ':');
                if (t[0] == "mk")
                {
                    auto c = cell(std::stoul(t[1]));
                    if (c)
                    {
                        switch (std::stoi(t[2]))
                        {
                        case 0:
                            *c = nitro::lang::make_quaint<Payload<0>>();
                            break;
                        case 1:
                            *c = nitro::lang::make_quaint<Payload<1>>();
                            break;
                        default:
                            *c = nitro::lang::make_quaint<Payload<2>>();
                            break;
                        }
                    }
                }
                else if (t[0] == "mkx")
                {
                    auto c = cell(std::stoul(t[1]));
                    if (c)
                    {
                        long built = g_part_built, destroyed = g_part_destroyed, runs = g_throwing_dtor_runs;
                        try
                        {
                            if (std::stoi(t[2]) % 2)
                                *c = nitro::lang::make_quaint<ThrowingPayload<1>>(7);
                            else
                                *c = nitro::lang::make_quaint<ThrowingPayload<0>>();
                            g_wrong = true; // the constructor threw: there is nothing to own
                        }
                        catch (std::runtime_error&)
                        {
                        }
                        if (g_throwing_dtor_runs != runs || g_part_built - built != 1 || g_part_destroyed - destroyed != 1)
                            g_wrong = true;
                    }
                }
                else if (t[0] == "mv")
                {
                    auto a = cell(std::stoul(t[1]));
                    auto b = cell(std::stoul(t[2]));
                    if (a && b)
                        *a = std::move(*b);
                }
                else if (t[0] == "rs")
                {
                    auto a = cell(std::stoul(t[1]));
                    if (a)
                        a->reset();
                }
                else if (t[0] == "nul")
                {
                    auto a = cell(std::stoul(t[1]));
                    if (a)
                        *a = nullptr;
                }
                else if (t[0] == "push")
                {
                    auto a = cell(std::stoul(t[1]));
                    if (a)
                    {
                        // the argument may live inside the vector that reallocates: move out first
                        nitro::lang::quaint_ptr tmp(std::move(*a));
                        vec.push_back(std::move(tmp));
                    }
                }
                else if (t[0] == "pop")
                {
                    if (!vec.empty())
                        vec.pop_back();
                }
                else if (t[0] == "swap")
                {
                    auto a = cell(std::stoul(t[1]));
                    auto b = cell(std::stoul(t[2]));
                    if (a && b)
                    {
                        // the way generic code and the standard algorithms exchange two objects (unqualified call
                        // after `using std::swap`), and the qualified call
                        if ((std::stoul(t[1]) + std::stoul(t[2])) % 2)
                        {
                            using std::swap;
                            swap(*a, *b);
                        }
                        else
                            std::swap(*a, *b);
                    }
                }
                std::string cells;
                for (std::size_t i = 0; i < 4 + vec.size(); i++)
                    cells += (i ? "," : "") + cell_str(*cell(i));
                out += cells + "|" + dead_str() + ";";
                long owned = 0;
                for (std::size_t i = 0; i < 4 + vec.size(); i++)
                    owned += static_cast<bool>(*cell(i)) ? 1 : 0;
                if (owned != g_live)
                    out += "LEAK(live=" + std::to_string(g_live) + ",owned=" + std::to_string(owned) + ");";
            }
        // all pointer objects go away, last cell first
        while (!vec.empty())
            vec.pop_back();
    }
    out += "end " + dead_str();
    if (g_live != 0)
        out += " LEAK(at-end=" + std::to_string(g_live) + ")";
    if (g_wrong)
        out += " WRONG(double-destruction-or-stale-pointer)";
    g_live = 0;
    return out;
}

// ------------------------------------------------------------------ optional
static long g_cnt_live = 0;
struct Cnt
{
    int v;
    Cnt(int x) : v(x)
    {
        ++g_cnt_live;
    }
    Cnt(const Cnt& o) : v(o.v)
    {
        ++g_cnt_live;
    }
    Cnt& operator=(const Cnt&) = default;
    ~Cnt()
    {
        --g_cnt_live;
    }
};

// element types other than the counted one: optional<T> has to copy itself, whatever T can be built from
struct Greedy
{
    int v;
    Greedy(int x) : v(x)
    {
    }
    // a catch-all converting constructor (as any-like or wrapper types have): building a Greedy from something
    // that is not a Greedy gives a recognisable value
    template <typename U, typename = typename std::enable_if<!std::is_same<typename std::decay<U>::type, Greedy>::value &&
                                                              !std::is_same<typename std::decay<U>::type, int>::value>::type>
    Greedy(U&&) : v(-777)
    {
    }
};

template <typename E>
struct Elem;
template <>
struct Elem<Cnt>
{
    static Cnt make(int v)
    {
        return Cnt(v);
    }
    static int value(const Cnt& c)
    {
        return c.v;
    }
    static constexpr bool counted = true;
};
template <>
struct Elem<bool>
{
    static bool make(int v)
    {
        return v % 2 != 0;
    }
    static int value(const bool& b)
    {
        return b ? 1 : 0;
    }
    static constexpr bool counted = false;
};
template <>
struct Elem<Greedy>
{
    static Greedy make(int v)
    {
        return Greedy(v);
    }
    static int value(const Greedy& g)
    {
        return g.v;
    }
    static constexpr bool counted = false;
};

template <typename E>
static std::string run_optional(const std::string& ops)
{
    using O = nitro::lang::optional<E>;
    std::string out;
    g_cnt_live = 0;
    {
        O c[3];
        auto state = [&] {
            std::string s;
            long engaged = 0;
            for (int i = 0; i < 3; i++)
            {
                s += (i ? "," : "");
                if (c[i])
                {
                    s += std::to_string(Elem<E>::value(*c[i]));
                    engaged++;
                }
                else
                    s += "-";
            }
            for (int i = 0; i < 3; i++)
                for (int j = i + 1; j < 3; j++)
                    if (c[i] && c[j] && &*c[i] == &*c[j])
                        s += " ALIAS";
            if (Elem<E>::counted && engaged != g_cnt_live)
                s += " LEAK(live=" + std::to_string(g_cnt_live) + ",engaged=" + std::to_string(engaged) + ")";
            return s;
        };
        bool first = true;
        if (!ops.empty())
            for (auto& tok : nv::splitc(ops, ';'))
            {
                auto t = nv::splitc(tok, ':');
                std::string res;
                std::size_t i = std::stoul(t[1]);
                if (t[0] == "set")
                {
                    E v = Elem<E>::make(std::stoi(t[2]));
                    if (std::stoi(t[2]) % 2)
                        c[i] = v; // operator=(const T&)
                    else
                        c[i] = Elem<E>::make(std::stoi(t[2])); // operator=(T&&)
                }
                else if (t[0] == "cp")
                    c[i] = c[std::stoul(t[2])];
                else if (t[0] == "cpc")
                {
                    O tmp(c[std::stoul(t[2])]); // copy construction from a non-const lvalue
                    const O& csrc = c[std::stoul(t[2])];
                    O tmp2(csrc); // ... and from a const one
                    if (static_cast<bool>(tmp) != static_cast<bool>(tmp2) ||
                        (tmp && Elem<E>::value(*tmp) != Elem<E>::value(*tmp2)))
                        res = "COPIES-DIFFER ";
                    c[i] = tmp;
                }
                else if (t[0] == "cpk")
                {
                    // slot i is rebuilt as a copy-constructed object that stays (i != j)
                    std::size_t j = std::stoul(t[2]);
                    if (i != j)
                    {
                        c[i].~O();
                        new (&c[i]) O(c[j]);
                    }
                }
                else if (t[0] == "mvk")
                {
                    // slot i is rebuilt by move construction from a copy of slot j
                    std::size_t j = std::stoul(t[2]);
                    if (i != j)
                    {
                        O tmp(c[j]);
                        c[i].~O();
                        new (&c[i]) O(std::move(tmp));
                    }
                }
                else if (t[0] == "clr")
                    c[i] = O();
                else if (t[0] == "rd")
                {
                    try
                    {
                        res = "val " + std::to_string(Elem<E>::value(*c[i])) + " ";
                    }
                    catch (nitro::except::exception&)
                    {
                        res = "raise ";
                    }
                }
                out += (first ? "" : ";") + res + state();
                first = false;
            }
    }
    if (Elem<E>::counted && g_cnt_live != 0)
        out += " LEAK(at-end=" + std::to_string(g_cnt_live) + ")";
    return out;
}

// ----------------------------------------------------------------------- env
static std::string run_env(const std::vector<std::string>& f)
{
    std::string name = nv::unhex(f.at(1)), value = nv::unhex(f.at(3)), dflt = nv::unhex(f.at(4));
    if (f.at(2) == "set")
        setenv(name.c_str(), value.c_str(), 1);
    else
        unsetenv(name.c_str());
    std::string a = nitro::env::get(name, dflt);
    std::string b;
    try
    {
        b = "ok " + nv::hex(nitro::env::get(name, nitro::env::no_default));
    }
    catch (nitro::except::exception&)
    {
        b = "raise";
    }
    unsetenv(name.c_str());
    return "ok " + nv::hex(a) + " " + b;
}

// ------------------------------------------------------------------------ dl
extern "C" void* __real_dlopen(const char*, int);
extern "C" int __real_dlclose(void*);
static std::map<void*, std::vector<int>> g_open_ids; // real handle -> logical ids (stack)
static int g_next_handle = 0;
static std::vector<int> g_closes;
static bool g_dl_wrong = false;

static long g_self_opens = 0, g_self_closes = 0;
static void* g_self_handle = nullptr;

extern "C" void* __wrap_dlopen(const char* path, int flags)
{
    void* h = __real_dlopen(path, flags);
    if (path == nullptr && h != nullptr)
    {
        // dl(self): the handle of the program itself; every open has to be matched by a close
        g_self_handle = h;
        g_self_opens++;
    }
    if (h != nullptr && path != nullptr && std::string(path).find("libnvtest_") != std::string::npos)
        g_open_ids[h].push_back(g_next_handle++);
    return h;
}

extern "C" int __wrap_dlclose(void* h)
{
    if (h != nullptr && h == g_self_handle)
        g_self_closes++;
    auto it = g_open_ids.find(h);
    if (it != g_open_ids.end())
    {
        if (it->second.empty())
            g_dl_wrong = true; // closed more often than opened
        else
        {
            g_closes.push_back(it->second.back());
            it->second.pop_back();
        }
    }
    return __real_dlclose(h);
}

static std::string exe_dir()
{
    char buf[4096];
    ssize_t n = readlink("/proc/self/exe", buf, sizeof(buf) - 1);
    buf[n > 0 ? n : 0] = 0;
    return dirname(buf);
}

static std::string closes_str()
{
    if (g_closes.empty())
        return "_";
    std::string r;
    for (std::size_t i = 0; i < g_closes.size(); i++)
        r += (i ? "," : "") + std::to_string(g_closes[i]);
    return r;
}

static std::string run_dl(const std::string& ops)
{
    std::vector<std::pair<nitro::dl::exception, std::string>> kept;
    using Sym = nitro::dl::symbol<int(int, int)>;
    using Obj = std::variant<std::monostate, nitro::dl::dl, Sym>;
    g_open_ids.clear();
    g_next_handle = 0;
    g_closes.clear();
    g_dl_wrong = false;
    std::string out;
    std::string dir = exe_dir();
    {
        std::vector<std::unique_ptr<Obj>> objs;
        auto alive = [&](std::size_t o) { return o < objs.size() && objs[o] && objs[o]->index() != 0; };
        if (!ops.empty())
            for (auto& tok : nv::splitc(ops, ';'))
            {
                auto t = nv::splitc(tok, ':');
                std::string res = "ok";
                std::size_t o = t.size() > 1 ? std::stoul(t[1]) : 0;
                try
                {
                    if (t[0] == "open")
                    {
                        std::string path = dir + "/libnvtest_" + std::to_string(g_next_handle) + ".so";
                        objs.push_back(std::make_unique<Obj>(std::in_place_type<nitro::dl::dl>, path));
                    }
                    else if (t[0] == "self")
                    {
                        // the program itself as a library: opened, copied, a missing symbol looked up, all destroyed
                        long o0 = g_self_opens, c0 = g_self_closes;
                        {
                            nitro::dl::dl me(nitro::dl::self);
                            nitro::dl::dl copy = me;
                            try
                            {
                                auto s = copy.load<int(int, int)>("nv_no_such_symbol");
                                res = "loaded-a-missing-symbol";
                            }
                            catch (nitro::dl::exception&)
                            {
                            }
                        }
                        if (g_self_opens - o0 != g_self_closes - c0 || g_self_opens == o0)
                            res = "WRONG(self-handle: opened " + std::to_string(g_self_opens - o0) + ", closed " +
                                  std::to_string(g_self_closes - c0) + ")";
                    }
                    else if (t[0] == "openbad")
                    {
                        nitro::dl::dl bad(dir + "/no-such-library.so");
                        res = "opened-a-missing-library";
                    }
                    else if (!alive(o))
                        res = "skip";
                    else if (t[0] == "load" || t[0] == "loadbad")
                    {
                        if (auto d = std::get_if<nitro::dl::dl>(objs[o].get()))
                        {
                            if (t[0] == "load")
                            {
                                objs.push_back(std::make_unique<Obj>(d->load<int(int, int)>("nv_add")));
                                // a symbol that is defined at address null is found like any other (the loader
                                // reports no error for it): looking it up does not raise
                                try
                                {
                                    auto z = d->load<int(int, int)>("nv_defined_at_null");
                                    (void)z;
                                }
                                catch (std::exception&)
                                {
                                    res = "WRONG(a-defined-symbol-at-address-null-reported-missing)";
                                }
                            }
                            else
                            {
                                auto s = d->load<int(int, int)>("nv_no_such_symbol");
                                res = "loaded-a-missing-symbol";
                            }
                        }
                        else
                        {
                            // a symbol object: copying it is how its library share is passed on
                            if (t[0] == "load")
                                objs.push_back(std::make_unique<Obj>(std::get<Sym>(*objs[o])));
                            else
                                res = "raise";
                        }
                    }
                    else if (t[0] == "asgn")
                    {
                        std::size_t p2 = std::stoul(t[2]);
                        if (!alive(p2))
                            res = "skip";
                        else if (objs[o]->index() != objs[p2]->index())
                            res = "kind-mismatch";
                        else if (auto d = std::get_if<nitro::dl::dl>(objs[o].get()))
                            *d = std::get<nitro::dl::dl>(*objs[p2]);
                        else
                            std::get<Sym>(*objs[o]) = std::get<Sym>(*objs[p2]);
                    }
                    else if (t[0] == "copy")
                        objs.push_back(std::make_unique<Obj>(*objs[o]));
                    else if (t[0] == "del")
                        objs[o].reset();
                    else if (t[0] == "call")
                    {
                        if (auto s = std::get_if<Sym>(objs[o].get()))
                        {
                            if ((*s)(2, 3) != 5)
                                res = "WRONG(call)";
                        }
                        else
                        {
                            auto s2 = std::get<nitro::dl::dl>(*objs[o]).load<int(int, int)>("nv_add");
                            if (s2(20, 3) != 23)
                                res = "WRONG(call)";
                        }
                    }
                }
                catch (nitro::dl::exception& e)
                {
                    std::string diag = e.dlerror();
                    res = diag.empty() || std::string(e.what()).empty() ? "raise-without-diagnostic" : "raise";
                    // the diagnostic names what was missing, and it is the exception's own: kept copies still carry it
                    // after later loader calls (a 'try the candidates, report all errors at the end' loop)
                    const char* missing = t[0] == "openbad" ? "no-such-library" : "nv_no_such_symbol";
                    if (res == "raise" && diag.find(missing) == std::string::npos)
                        res = "raise-with-a-diagnostic-about-something-else";
                    kept.emplace_back(e, diag);
                }
                for (auto& k : kept)
                    if (std::string(k.first.dlerror()) != k.second)
                    {
                        res += " WRONG(diagnostic-of-a-kept-exception-changed)";
                        break;
                    }
                out += res + " c=" + closes_str() + ";";
            }
        for (auto& p : objs)
            p.reset();
    }
    out += "end c=" + closes_str();
    if (g_dl_wrong)
        out += " WRONG(dlclose-more-often-than-dlopen)";
    return out;
}

static std::string handle(const std::vector<std::string>& f)
{
    const std::string& k = f.at(0);
    if (k == "q")
        return run_quaint(f.at(1));
    if (k == "o")
        return run_optional<Cnt>(f.at(1));
    if (k == "ob")
        return run_optional<bool>(f.at(1));
    if (k == "og")
        return run_optional<Greedy>(f.at(1));
    if (k == "e")
        return run_env(f);
    if (k == "d")
        return run_dl(f.at(1));
    return "bad-op";
}

int main()
{
    return nv::main_loop(handle, 5);
}
